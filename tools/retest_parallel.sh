#!/bin/bash
# usage: tools/retest_parallel.sh [workers] < list-of-mutant-ids   (default: every mutant under seeded/, 8 workers)
# Retests seeded mutants without touching /repo or /verif's own evidence: every worker gets a private copy of /verif
# (build output included) and a private git worktree of /repo (GIN_REPO), applies one patch at a time there, runs the
# quick check of the mutant's own property and writes the outcome into seeded/<id>/meta.json. Scratch space under
# /root/pw is removed at the end.
W=${1:-8}
cd /verif || exit 2
ids=$(cat /dev/stdin 2>/dev/null)
[ -z "$ids" ] && ids=$(ls seeded | sort -V)
rm -rf /root/pw; mkdir -p /root/pw/results
echo "$ids" | tr ' ' '\n' | grep . > /root/pw/all.txt
split -n r/$W -d /root/pw/all.txt /root/pw/part.
for k in $(seq 0 $((W-1))); do
  part=/root/pw/part.$(printf %02d $k)
  [ -s "$part" ] || continue
  (
    v=/root/pw/v$k; r=/root/pw/repo$k
    rsync -a --exclude .git --exclude seeded --exclude replays /verif/ $v/
    mkdir -p $v/replays
    git -C /repo worktree add -q --detach $r HEAD
    while read id; do
      p=${id%%-*}
      git -C $r checkout -q -- . ; git -C $r clean -fdq
      if ! git -C $r apply /verif/seeded/$id/patch.diff 2>/dev/null; then echo "PATCH-DOES-NOT-APPLY" > /root/pw/results/$id; continue; fi
      out=$(cd $v && GIN_REPO=$r timeout 900 ./check $p 2>&1 | grep -v Warning | tail -40)
      nv=$(echo "$out" | grep -c VIOLATION)
      line=$(echo "$out" | tail -1 | cut -c1-200)
      if [ "$nv" -ge 1 ]; then echo "caught by ./check $p: $line" > /root/pw/results/$id; else echo "NOT caught by ./check $p: $line" > /root/pw/results/$id; fi
    done < $part
    git -C /repo worktree remove --force $r
  ) &
done
wait
git -C /repo worktree prune
python3 - <<'PY'
import json, os
for i in open('/root/pw/all.txt').read().split():
    f = f'/root/pw/results/{i}'
    det = open(f).read().strip() if os.path.exists(f) else 'not run'
    mf = f'/verif/seeded/{i}/meta.json'
    m = json.load(open(mf))
    m['detected'] = det
    m['ran'] = f'tools/try_mutant.sh seeded/{i} {i.split("-")[0]}  (or tools/retest_parallel.sh)'
    json.dump(m, open(mf, 'w'), indent=1)
    if not det.startswith('caught'):
        print(i, det[:180])
PY
echo "retested $(wc -l < /root/pw/all.txt) mutants"
rm -rf /root/pw
