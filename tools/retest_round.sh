#!/bin/bash
# usage: tools/retest_round.sh <id>...   e.g. C01-8 C01-9: runs each seeded mutant against its own property's quick check
# and writes the outcome into seeded/<id>/meta.json ("detected", "ran")
cd /verif || exit 2
for id in "$@"; do
  p=${id%%-*}
  out=$(tools/try_mutant.sh /verif/seeded/$id $p 2>&1)
  line=$(echo "$out" | grep "== check $p" | cut -c1-200)
  nv=$(echo "$out" | grep "violation lines" | awk '{print $3}')
  if [ "${nv:-0}" -ge 1 ]; then det="caught by ./check $p: ${line#== check $p: }"; else det="NOT caught by ./check $p: ${line#== check $p: }"; fi
  python3 - "$id" "$det" "$p" <<'PY'
import json, sys
i, det, p = sys.argv[1:]
f = f'/verif/seeded/{i}/meta.json'
m = json.load(open(f))
m['detected'] = det
m['ran'] = f'tools/try_mutant.sh seeded/{i} {p}'
json.dump(m, open(f, 'w'), indent=1)
PY
  echo "$id: $det" | cut -c1-200
done
