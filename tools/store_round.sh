#!/bin/bash
# usage: tools/store_round.sh <out-dir>   (e.g. /tmp/mut/out4): stores finished mutants under seeded/ and tests each
out="$1"
cd /verif || exit 2
for dir in "$out"/C*/; do
  d=$(basename "$dir")
  [ -f "$dir/2/meta.json" ] || { echo "pending $d"; continue; }
  [ -f "$dir/.stored" ] && continue
  git -C /repo worktree remove --force /tmp/mut/$d 2>/dev/null
  n=$(ls -d seeded/$d-* 2>/dev/null | wc -l)
  for k in 1 2; do
    m=$((n+k)); mkdir -p seeded/$d-$m
    cp "$dir/$k/patch.diff" "$dir/$k/demo.py" "$dir/$k/meta.json" seeded/$d-$m/
    echo "#### $d-$m: $(tools/try_mutant.sh /verif/seeded/$d-$m $d 2>&1 | tail -2 | head -1 | cut -c1-170)"
  done
  touch "$dir/.stored"
done
git -C /repo worktree prune
