#!/usr/bin/env python3
"""Regenerates MANIFEST.json from the table below (claimed checks) and properties.jsonl."""
import json
from pathlib import Path

V = Path(__file__).resolve().parent.parent
TECH = 'Lean 4 theorems about a hand-written executable mirror + differential correspondence with /repo'
BASE = ('Trusted: Lean 4.33 kernel; axioms limited to propext, Classical.choice, Quot.sound (audited each run); '
        'the JSON glue of the driver; the Python harness. ')
CLAIMED = {
 'C01': ('Theorems overlay_lookup / overlay_longest / overlay_none / overlay_frame / call_delivers / call_injects_only_bound '
         'hold for every store, scope depth, signature and argument split; the mirror (getBindings, wrapperCall, pyBind) is tied to '
         'gin.config by running generated registries, bindings, scope chains and calls on both and comparing what each probe received; '
         'an independent Python statement of C01 is evaluated on the implementation as well. Tables on the real code: a method whose wrapper is fetched or called before its class is registered; calls whose scope managers are created before any of them is entered; a function registered again in interactive mode with reordered parameters.',
         BASE + 'Modelled, not verified: inspect.getfullargspec (signatures arrive as data), Python argument binding (pyBind), '
         'copy.deepcopy of reference-free values = identity.'),
 'C09': ('Theorems item_restores / items_restores (every exit path incl. exceptions and invalid arguments, any depth) / enter_semantics / '
         'thread_private (every interleaving of scheduling turns) / thread_schedule_independent hold for the scope mirror; it is tied '
         'to gin.config by running 1-4 real threads, each with its own random block program, one scheduling group at a time under a '
         'deterministic baton scheduler, comparing every observation (current_scope and the value a scoped probe receives) and the '
         'final scope with the mirror and with an independent per-thread interpreter.',
         BASE + 'Partial: that the real stack is per-thread (threading.local) is a runtime fact tied by correspondence only; '
         'scheduling points are at block entry / normal exit / observation / raise, unwinding is one turn.'),
 'C10': ('Theorems vararg_required_rejected / missing_reported (exact list, signature order, stated against the overlay; a binding that is the '
         'marker itself counts as missing) / all_filled_passes / bound_marker_fails / marker_never_delivered (unconditional since D52) / '
         'required_sig_validation hold for every signature, marker placement, store and scope; '
         'the wrapper mirror is tied to gin.config by generated calls with markers in every position; an independent Python statement of '
         'C10 (exact missing list parsed from the error, body not run, marker never received) is evaluated on the implementation.',
         BASE + 'Modelled, not verified: inspect signatures, Python argument binding; the missing list is parsed from the error message.'),
 'C11': ('Under dynamic registration (Props/C11b.lean): dyn_excluded_param_rejected / dyn_accepted_is_bindable / dyn_block_member_is_binding — '
         'the bindable parameters are fixed by the registration, in every context and after every history; tied to gin.config by C19-generator '
         'files over objects registered from Python with allow / deny lists. '
         'Theorems parseKey_sound / bind_sound / bind_reject_unchanged / finalize_hooks_validated / method_needs_class / positional_only_not_bindable (D56: a parameter only a positional argument can fill is refused on every path, unless the callable takes **kwargs) hold for every '
         'registry, key spelling and state; every binding path of the mirror goes through parseKey; the mirror is tied to gin.config by '
         'generated binding attempts of every validity class through tuple / list / string keys, config text, blocks and finalize hooks, '
         'with the whole store observed after each; an independent Python reference of the validity rule judges the implementation. Table on the real code: a functools.partial as a configurable (the consumed parameter is refused on every binding path).',
         BASE + 'Modelled, not verified: signature inspection; the store is observed through gin.config._CONFIG.'),
 'C12': ('Theorems locked_rejects_bind / locked_rejects_register / finalize_twice / finalize_outcome / unlock_restores (every body, nested, '
         'raising) / lock_changes_only_by / hook_conflict_detected / finalize_rejects_invalid hold for every state and history; tied to '
         'gin.config by random histories of finalize, nested unlock blocks (normal and raising exit), binds, registrations, clears and '
         'data-driven hooks, with an independent Python reference state machine judging the implementation. dict_key_is_flattened / unknown_reference_key_is_invalid: what sits in a key of a bound dict is validated like what sits in a value.',
         BASE + 'Hooks are characterised by what they return or raise.'),
 'C14': ('Theorems includes_are_inplace (parsing a text with includes = parsing its flattening, to any nesting depth, up to provenance / '
         'import bookkeeping: same bindings, same error class; mutual induction over nested statements) / includes_same_config / resolve_sound / resolve_none_iff / resolve_first (location-major, reader-minor order) / resolve_absolute / '
         'missing_include_applies_nothing / include_applies_in_place (state threading and returned include/import tree) / '
         'entry_point_bindings_then_finalize / entry_point_missing_file_stops hold for every file tree, location and reader list; tied '
         'to gin.config by include trees in real temporary files parsed through all three entry points (default arguments), compared '
         'with the mirror and with a fresh-interpreter parse of the flattened text, and by 1-4 locations x 1-3 readers with the file '
         'present at random subsets, relative and absolute names. Package-relative names (regular package, namespace package with one or two roots, a same-named directory on the Python path that does not hold the file, a name nobody can read) are a table on the real file system.',
         BASE + 'Partial: path joining, isfile and file I/O are the OS\'s; package-relative names (resource_reader) are not modelled; '
         'imports whose module registers configurables are modelled (Stmt.imp regs) and generated.'),
 'C15': ('Theorems skip_decision / known_never_skipped / skipped_binding_is_noop / skipped_block_is_noop / missing_import / '
         'noop_can_be_deleted (deleting no-op statements anywhere in a text does not change the result) / unlisted_unknown_errors / '
         'placeholder_kept / unknown_reference_errors / placeholder_raises_on_use / placeholder_rejected_at_finalize hold for every '
         'state, text and skip_unknown form; tied to gin.config by texts mixing known/unknown targets, references, macros, blocks and '
         'imports under every form of skip_unknown, compared with the mirror and with a fresh-interpreter parse of the reduced text.',
         BASE + 'Static registration on the statement mirror (with imports whose module registers a configurable: known_is_judged_when_reached, '
         'reference_known_after_import); dynamic registration on the object-graph mirror of C19 (Props/C15b: dyn_known_never_skipped, '
         'dyn_unknown_covered_deleted, dyn_unknown_uncovered_errors, dyn_reference_placeholder, dyn_missing_import) with files generated by '
         'the C19 generator plus unknown names, every form of skip_unknown; found and repaired D30. D20 (an unknown unlisted reference '
         'inside a skipped statement) excluded by hypothesis; under dynamic registration a written name that no import provides but that '
         'ends a registered selector is not generated (the registry-suffix test of _should_skip is not in the object-graph mirror).'),
 'C16': ('Theorems failure_stops / success_continues / failed_parse_ignores_rest / failing_statement_changes_nothing / '
         'parse_keeps_lock_and_registry (mutual induction over nested includes) / include_extends_chain / semantic_error_located / '
         'provenance_last_setter hold for every statement list, include depth and fault position; tied to gin.config by injecting '
         'every fault kind of the property at every statement position of generated include trees in real files, comparing store, '
         'provenance comments, recorded imports, lock flag, scope and the error location chain with the mirror and with a '
         'fresh-interpreter parse of the flattened prefix. D17 is a recorded known finding.',
         BASE + 'The tokenizer and parser proper are outside this model (they are C02/C03); location chains are read from the '
         'exception message; statements rendered one per line.'),
 'C17': ('Theorems of Props/C17b.lean over the model of the whole call path (Gin/ExcChain.lean), by induction over its depth: '
         'non_exception_untouched, unbuildable_keeps_original, class_kept (every except clause that catches the original catches what '
         'arrives), attrs_agree (every public attribute reads as on the original), message_extended (text = original text + one message '
         'per configurable, innermost first, nothing dropped or repeated) / message_untouched / message_names / hint_only_for_type_error, '
         'one_proxy_per_level, traceback_kept; plus proxy_reads_agree / fallback_agrees_off_slots / fallback_shadows_slots / '
         'fallback_loses_args about the attribute-lookup protocol. The real code is run on every exception class of `builtins` that can be '
         'instantiated from a constructor-argument table (enumerated completely, incl. exception groups and errno-selected OSError '
         'subclasses) and on user classes with required __init__/__new__ arguments, slots, custom __str__ and properties, raised at depth '
         '1-3 of configurable calls, during reference evaluation, inside a singleton constructor and on random call paths of depth 2-9 '
         '(nested scopes, Gin-bound and caller-supplied parameters): which object arrives, its exact text and its user traceback frames '
         'are compared with the model; class, catchability, args and every public attribute with the original.',
         BASE + 'Modelled, not verified: class creation, C-level slots, with_traceback are CPython\'s; whether a bare instance of a '
         'subclass can be made is measured per class by the harness and handed to the model; attribute values and repr() texts are opaque.'),
 'C18': ('Theorems locked_constructs_at_most_once (the locked singleton_value at the granularity of its shared accesses: at most one '
         'construction under every schedule of any number of threads, by an invariant over all reachable states) / singleton_none_is_cached / singleton_stable / singleton_first_use / singletonUse_preserves / uses_return_cached (every history of uses from any '
         'threads) / singleton_cleared / operative_updates_commute, plus kernel-checked witnesses unlocked_race_exists and '
         'sequential_constructs_once for the check-then-act without the lock; tied to gin.config by running 2-4 real threads whose '
         'accesses to the singleton table, the operative record and the locks go through instrumented objects with a scheduling point '
         'before every access, under random schedules and (two first uses) all schedules of a bounded length: constructions per key, '
         'identity of delivered objects, exceptions, parseability of every concurrent read and equality of the final operative text with '
         'a sequential run are checked.',
         BASE + 'Partial: the theorems treat a lock-bracketed section as atomic (the reduction from the interleaving semantics is an '
         'assumption, exercised by the instrumented lock); GIL atomicity of single dict operations and CPython\'s iteration checks are '
         'runtime behaviour outside the model.'),
 'C20': ('Theorems clear_total / clear_pristine / clear_fields / clear_constants / clear_observationally_fresh (every continuation of '
         'operations) / clear_idempotent hold for every state; over histories: runOps_append / clear_after_any_history / clear_forgets_history (whatever ran before, the rest of the history runs as from the pristine state with the same registrations); tied to gin.config by random histories (binds, finalize, nested unlocks, '
         'calls under scopes, singleton uses, colliding constants in interactive mode, failed operations) followed by clear_config and a '
         'tail of observers and calls that is also run in a fresh interpreter with only the registrations. Tables on the real code: a singleton whose constructor fails, then clear_config (or not), then the same scope name; clear_config after printing the configuration failed (run aside with a time limit).',
         BASE + 'config_str / operative_config_str are compared structurally through the stores here; their text is C06/C07.'),
 'C02': ('Theorem parseValue_complete: every layout (line breaks and comments after every opener, colon, comma, closer and string piece; '
         'optional trailing commas; the shapes () (x) (x,)) of every literal tree of atoms, numbers with a leading minus, runs of adjacent '
         'string literals, lists, tuples and dicts, to any nesting depth, parses to exactly that '
         'literal and stops right after it; parseSingle_complete / parseSingle_rejects_trailing: gin.config.parse_value (mirror parseSingleValue) yields that literal when only line ends, blank lines and comments follow and a syntax error otherwise - proved by mutual structural induction on the laid-out literal about the token-level mirror '
         'of config_parser; plus layout_irrelevant, statement_rejects_trailing, minus_requires_basic, adjacent_strings_concat. The mirror '
         'runs on Python\'s own token stream and is compared statement by statement with the real parser on generated literals in random '
         'layouts and on a near-miss stream; ast.literal_eval of the same text is the independent oracle (value and type). Table on the real code: an equal literal of another type, zero sign or element types bound over the first (what is stored is the last text\'s value and type).',
         BASE + 'Partial: text->tokens (tokenize) and token->atom (ast.literal_eval of one token) are CPython\'s; the completeness theorem '
         'covers str pieces (not bytes pieces) in adjacent concatenation; '
         'soundness (nothing outside the grammar is accepted) is tested by the near-miss stream, not proved. D9 is a recorded finding.'),
 'C03': ('Theorems parseStatement_block + blockMembers_render + block_member_is_flat_binding (a block with any comments / blank lines around '
         'its header and members, member values in any layout, is read as its declaration followed by exactly its member bindings; a member '
         'is the binding the flat statement spells) / parseAll_bindings + flat_layouts_agree (statement-level completeness for flat bindings: any sequence of binding '
         'statements, each preceded by arbitrary comments / blank lines and with its value in any layout, is read as exactly those '
         'bindings in order; two layouts agree) / parseStatement_binding / selector_must_be_contiguous / selector_components_valid / bad_selector_is_syntax_error / value_layout_irrelevant / '
         'trivia_between_statements_skipped / statement_must_end about the statement-level parser mirror (parse_statement, _parse_selector '
         'incl. the re-check against the raw line, _parse_import, _parse_binding_block, parse_binding_key). The mirror runs on Python\'s '
         'own token stream and is compared statement by statement (incl. line numbers) with config_parser.ConfigParser on statement '
         'lists rendered in two independently drawn layouts (comments, blank lines, continuations, spacing, flat vs block form, '
         'indentation width, CRLF, form feed, trailing newline) and on a malformed-selector stream; both layouts must give the same '
         'bindings, imports and includes. Table through gin.parse_config with skip_unknown: an unknown configurable written as a block or flat, at three positions among known bindings - one configuration for all layouts.',
         BASE + 'Partial: the statement-level completeness theorem covers flat bindings (the tokens of a scoped name are taken with the fact '
         'that parseSelector accepts them, shown for concrete names); a sequence mixing blocks and flat statements, imports and includes '
         'are covered by the correspondence only. '
         'tokenize is CPython\'s. Layouts respect Python\'s own indentation rules.'),
 'C04': ('Theorems ref_plain / ref_scope / macro_is_scoped_ref / caller_supplied_not_evaluated / call_preserves_config (frame of the '
         'fuel-indexed evaluator, by induction over all five mutually recursive evaluation functions) / query_after_call / eval_counts_monotone / evaluated_ref_fresh (two evaluations of an evaluated reference, anything in between, give different results) / same_ref_twice_two_runs hold for every '
         'store, value nesting, scope and fuel; the evaluator is tied to gin.config by comparing the complete per-target call log (scope '
         'seen, values received, fresh result indices) of nested reference DAGs under random ambient scopes and caller overrides, with '
         'every probe mutating the containers it receives and the store re-observed afterwards. Tables on the real code (two registrations of one function; referenced configurables that raise an Exception or a bare BaseException) and a stream of C19-generated dynamic-registration files that hold references, judged by C19\'s machinery.',
         BASE + 'Partial: aliasing cannot be exhibited by the immutable model (it is detected as disagreement after mutation); deepcopy '
         'traversal order is mirrored; each textual reference occurrence is a distinct object; acyclic configurations.'),
 'C05': ('Theorems constant_delivers_identity / macro_reads_store_at_use / constant_rules / constant_clash_iff (via the suffix-map '
         'theorems of C08) / resolve_spec / finalize_rejects_unbound_macro / finalize_rejects_unevaluated_macro / macro_most_recent (Props/C05b.lean: %name yields the value its own section holds, i.e. the most recent binding, for every store and ambient scope) / macro_section_after_bind hold for every state; the '
         'evaluator and the constant map are tied to gin.config by histories that define, redefine and use macros in every order across '
         'parse calls and programmatic binds (incl. macros bound to evaluated references), define colliding constants in and out of '
         'interactive mode, resolve %abbreviations at parse time, make consuming calls and finalize under random active scopes.',
         BASE + 'Partial: that two histories reach the same store is observed, not proved (evaluation_depends_only_on_state is '
         'the trivial half); macro names are identifiers or scope-like a/b; acyclic definitions.'),
 'C06': ('Theorems parse_roundtrip / parse_roundtrip_reachable (the statements the text spells, parsed into the cleared configuration, '
         'restore exactly the representable bindings: for every configuration reachable by binding) / roundtrip_reachable / '
         'config_str_roundtrip / printed_resolves (the printed name resolves back, class kept for methods) / imports_order_independent '
         '(the import section is a function of the set of recorded statements) / requirements_order_independent (… and of the set of '
         'configurables config_str has to import itself: any order of making the bindings gives the same names) / emit_order_independent (permutation invariance: two stores with the same bindings made in any order emit the same '
         'document; insertion sort yields the unique sorted permutation, keyLe is a total preorder whose ties are equal sort keys) / '
         'emit_only_representable / emit_macros_representable / emit_sections_from_store / emit_params_complete / mem_sortBy / '
         'length_sortBy about the structural mirror of _config_str (which sections and bindings are printed, under which minimal '
         'selector, in which order); config_str() of generated stores (case-colliding names and scopes, methods, long values that '
         'pprint splits, references, macros, values without literal form also as macro values) is compared structurally with the '
         'mirror, and the real code is its own oracle for: same text for two binding orders, clear + parse restores every '
         'representable binding with value and type, second serialisation identical, wrap rule, markdown keeps binding lines, for '
         'several (max_line_length, continuation_indent).',
         BASE + 'Partial: repr / pprint.pformat and line wrapping are CPython\'s (text level is checked on the real code only); '
         'permutation invariance is a Lean theorem under the hypothesis that distinct keys have distinct sort keys (true when components are '
         'identifiers: the tie-break is the key\'s own spelling) and is also checked by the two-order oracle; the round-trip theorems are at '
         'statement level (text to statements is C03, literal text to value is C02 / CPython) under stated side conditions (StoreOK, TextOK: '
         'e.g. no macro named like a constant); bindings under dynamic registration are round-tripped by the C19 check; D24 is a recorded '
         'finding, D10, D11, D29 were repaired.'),
 'C07': ('Theorems operative_suffices_to_replay (for any sequence of calls from an empty record with fixed bindings: in the configuration '
         'holding exactly the final operative record, every accepted call is accepted again, Gin supplies it exactly the values it supplied the '
         'first time and it records what it recorded; with replay_supplies_same / replay_records_same / runCalls_invariant) / operative_param (exact per-parameter characterisation of what one call records) / operative_excludes_caller_supplied / '
         'operative_only_supplied (binding, or configurable representable default) / positional_only_default_not_recorded (D56/D57) / call_records (entry update, frame for never-called '
         'configurables) / rejected_call_records_nothing hold for every signature, lists, store, scope and argument split; the mirror is '
         'tied to gin.config by comparing the parsed operative_config_str() after every call; the replay half (clear, parse the text, '
         'repeat the calls: same arguments, same text) is executed on the real code for every generated case with a fixed store. A table on the real code checks that the operative text is still produced and parses after a call that evaluated an unbound macro, and that a recorded reference survives the re-registration of its class.',
         BASE + 'Partial: the replay theorem is about the record as a store (reference-free values, every supplied value taken as representable); '
         'that the text of the record parses back to that store is C06/C02 and is checked by real replay. Calls failing on a missing REQUIRED are excluded from replay (DESIGN §7 D23). Values reference-free here.'),
 'C08': ('printed_reference_resolves (Props/C08c.lean): the name a stored reference is printed under resolves back after any history; Theorems inv_reachable / matching_spec / matching_nodup / getMatch_spec / getAll_spec / minimal_spec (the reported name is a '
         'non-empty suffix addressing exactly that entry, every shorter non-empty suffix addresses another entry) / minimal_resolves_back hold for every history of '
         'insertions, removals and clears and every query; the trie mirror is tied to gin/selector_map.py by running the same random '
         'operation histories on both; an independent naive set-of-names oracle (incl. minimal_selector resolve-back and minimality, '
         'copy independence) is evaluated on the implementation.',
         BASE + 'Modelled, not verified: CPython dict semantics. Identifiers ASCII.'),
 'C13': ('Theorems register_reject_atomic (a rejected registration changes nothing, for every state and request) / '
         'register_changes_registry_only / reregister_rejected / reregister_interactive_no_clash / reregister_same_object_no_clash / '
         'interactive_only_flag / registered_resolves / exact_unless_methods / subclass_only_for_methods hold for every state; the '
         'registration state machine is tied to gin.config by random histories of accepted and rejected registrations (registry observed '
         'after each, independent Python reference as judge); the object-model half (direct call vs registry call, type / isinstance / '
         'issubclass, metadata, signature, pickling, class __dict__ untouched) is decided on the real code over a fixed table of 14 '
         'shapes x 3 APIs x scoped/unscoped, enumerated completely on every run. Shapes also include a falsy callable object registered in the direct form, constructors that are aliases of other functions, a bound method and a callable object; a caller\'s positional value must win over a binding for every shape but the decorated one.',
         BASE + 'Partial: instance class, functools.wraps metadata and pickling are CPython\'s; they are checked on the real code only '
         '(finite table), the theorems cover the registration state machine and the decision table.'),
 'C19': ('Theorems emitted_selector_resolves (every selector the import manager of config_str() emits resolves, in a file making exactly '
         'its imports in any order, to the object it was built for - also after re-aliasing) / bound_names_distinct / inv_addAll / '
         'resolve_follows_attrs / unbound_first_is_name_error / follow_append / same_object_same_key / same_spelling_other_file / no_import_binds_reserved / printed_import_accepted / boundName_forms / '
         'import_binds / gin_is_reserved / enabling_rules / include_isolated hold for every object graph, symbol table and statement list; '
         'the mirror (per-file symbol table, attribute-chain resolution, bindings keyed by the resolved object) is tied to gin.config by '
         'generated files over a real package tree (harness/c19pkg: packages, re-exported names, nested class, methods, colliding leaf '
         'names) with random import forms, aliases, spellings, includes and sequential parse calls, plus a malformed stream; oracles on '
         'the real code: bindings sit on the intended Python objects, and config_str() parsed back gives the same per-object bindings.',
         BASE + 'Partial: the object graph is extracted from the real package by introspection; __import__/getattr are CPython\'s; '
         'reference re-initialisation after re-registration is covered by the round-trip oracle only; the import manager mirror '
         '(Gin/ImportMgr.lean) is compared with ImportManager(_IMPORTS) on every case; every generated file enables dynamic registration. D19, D26, D27, D28 were found by this check and repaired (fix: a0ac27e, 985b5f8, b97ba12, ea91ea2).'),
}
REASON_PENDING = 'check not built yet in this round; planned with the same technique (DESIGN.md §6, §9) - nothing is claimed until the check exists'


def main():
  props = [json.loads(l) for l in (V / 'properties.jsonl').read_text().splitlines() if l.strip()]
  checks = []
  for p in props:
    pid = p['id']
    if pid not in CLAIMED:
      continue
    text, note = CLAIMED[pid]
    checks.append({
        'property_id': pid,
        'quick_cmd': f'./check {pid} --tier quick',
        'thorough_cmd': f'./check {pid} --tier thorough',
        'evidence_file': f'evidence/{pid}.json',
        'replay_cmd_template': f'./check {pid} --replay {{path}}',
        'engine': 'lean-model+correspondence',
        'level_claimed': {'category': 'proof', 'text': text, 'design_ref': f'DESIGN.md §6 {pid}'},
        'level_note': note,
        'technique': TECH,
    })
  m = {
      'version': 1,
      'setup_cmd': 'cd lean && lake build',
      'hooks': {'guard': 'GIN_CONFIG_VERIF',
                'enable': 'environment variable only; no source hooks were needed (instrumentation is done from the harness)',
                'baseline_off_cmd': 'cd /repo && /venv/bin/python -m pytest -ra -q -p no:cacheprovider --timeout=900 --continue-on-collection-errors',
                'source_commits': [], 'add_only': True},
      'engines': [{'name': 'lean-model+correspondence', 'path': 'lean/ + harness/',
                   'serves_properties': sorted(CLAIMED),
                   'kind_free_text': 'Lean 4 theorems about an executable mirror of gin; compiled JSON-line driver gindrv; '
                                     'Python differential harness driving the code in /repo'}],
      'checks': checks,
      'not_applicable': [{'property_id': p['id'], 'reason': REASON_PENDING} for p in props if p['id'] not in CLAIMED],
      'notes': 'See DESIGN.md. KNOWN_FINDINGS.json lists repaired defects (fix: commits in /repo) and recorded findings.',
  }
  (V / 'MANIFEST.json').write_text(json.dumps(m, indent=1))


if __name__ == '__main__':
  main()
