#!/bin/bash
# usage: tools/try_mutant.sh <mutant-dir> <PROP> [more props...]
# applies patch.diff to /repo, runs the demo and the quick checks, and always reverts.
d="$1"; shift
cd /repo || exit 2
if ! git diff --quiet; then echo "repo dirty"; exit 2; fi
git apply "$d/patch.diff" || { echo "PATCH-DOES-NOT-APPLY"; exit 2; }
trap 'git -C /repo checkout -- . ' EXIT
echo "== demo with mutant: $(cd /repo && PYTHONPATH=/repo /venv/bin/python $d/demo.py 2>&1 | tail -1 | cut -c1-200)"
for p in "$@"; do
  out=$(cd /verif && timeout 900 ./check "$p" 2>&1 | tail -2)
  echo "== check $p: $(echo "$out" | tail -1)"
  echo "$out" | grep -c VIOLATION | sed 's/^/   violation lines: /'
done
