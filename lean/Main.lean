/- JSON line driver: one case per line in, one result per line out. -/
import Gin.Drv.Selmap
import Gin.Drv.GinDom
import Gin.Drv.ScopesDom
import Gin.Drv.ParseDom
import Gin.Drv.SchedDom
import Gin.Drv.ExcDom
import Gin.Drv.DynDom
open Lean Gin.Drv

def handle (j : Json) : Json :=
  match jstr (jfield j "dom") with
  | "selmap" => Gin.Drv.Selmap.run j
  | "gin" => Gin.Drv.GinDom.run j
  | "scopes" => Gin.Drv.ScopesDom.run j
  | "parse" => Gin.Drv.ParseDom.run j
  | "sched" => Gin.Drv.SchedDom.run j
  | "exc" => Gin.Drv.ExcDom.run j
  | "dyn" => Gin.Drv.DynDom.run j
  | "parse2" => Json.mkObj [("runs", Json.arr ((jarr (jfield j "runs")).map Gin.Drv.ParseDom.run).toArray)]
  | d => Json.mkObj [("error", Json.str s!"unknown domain {d}")]

partial def loop (hin : IO.FS.Stream) (hout : IO.FS.Stream) : IO Unit := do
  let line ← hin.getLine
  if line.isEmpty then return ()
  if line.trimAscii.isEmpty then loop hin hout else
  let out := match Json.parse line with
    | .error e => (Json.mkObj [("error", Json.str s!"bad-json {e}")]).compress
    | .ok j => (handle j).compress
  hout.putStrLn out
  hout.flush
  loop hin hout

def main : IO Unit := do
  let hin ← IO.getStdin
  let hout ← IO.getStdout
  loop hin hout
  hout.flush
