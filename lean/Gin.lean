import Gin.Basic
import Gin.SelectorMap
