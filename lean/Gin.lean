import Gin.Basic
import Gin.SelectorMap
import Gin.Lemmas.AList
import Gin.Lemmas.Trie
import Gin.Lemmas.SelMapInv
import Gin.Props.C08
