/-
Mirror of the call path of gin: `_get_bindings` (config.py 1381-1398) and `gin_wrapper`
(config.py 1504-1607), plus Python's own argument binding for the wrapped function (so that the
mirror predicts what the function body receives).

The wrapper is split in the three phases the Python code has:
  A  (1506-1562)  look up bindings, bookkeeping of REQUIRED markers, drop positionally supplied
                  names, compute and record the operative parameters;
  B  (1570)       `copy.deepcopy(new_kwargs)` – evaluation of references, a parameter `ev` here;
  C  (1572-1604)  substitute REQUIRED markers, report missing ones, let caller kwargs win.
-/
import Gin.Value

namespace Gin

/-- `inspect.getfullargspec` data.  Defaults are optional per parameter. -/
structure Sig where
  pos : List (String × Option Val) := []
  kwonly : List (String × Option Val) := []
  varargs : Bool := false
  varkw : Bool := false
  /-- how many of the leading positional parameters are positional-only (`def f(a, b, /, c)`: 2) -/
  posOnly : Nat := 0
deriving Repr, Inhabited

namespace Sig
def args (s : Sig) : List String := s.pos.map (·.1)
def kwonlyNames (s : Sig) : List String := s.kwonly.map (·.1)
/-- `_get_kwarg_defaults`: positional defaults, then keyword-only defaults (a dict). -/
def kwargDefaults (s : Sig) : AList String Val :=
  AList.update [] (s.pos.filterMap (fun p => p.2.map (fun d => (p.1, d)))
                   ++ s.kwonly.filterMap (fun p => p.2.map (fun d => (p.1, d))))
/-- `_might_have_parameter` -/
def mightHave (s : Sig) (name : String) : Bool :=
  s.varkw || s.args.contains name || s.kwonlyNames.contains name
/-- the names a keyword argument can fill: positional-only parameters are not among them -/
def kwNames (s : Sig) : List String := s.args.drop s.posOnly ++ s.kwonlyNames
/-- `_might_have_parameter(…, by_keyword=True)` (D56): what a *binding* may name — Gin supplies values by keyword -/
def byKeyword (s : Sig) (name : String) : Bool := s.varkw || s.kwNames.contains name
/-- `_get_all_positional_parameter_names`: positional parameters without default -/
def allArgs (s : Sig) : List String := s.args ++ s.kwonlyNames
end Sig

/-- The part of a `Configurable` the call path uses.  An empty list means "no list"
    (Python tests `if allowlist and …`). -/
structure Cfgable where
  selector : Sel
  sig : Sig
  allow : List String := []
  deny : List String := []
  isMethod : Bool := false
  /-- the signature at the end of the `__wrapped__` chain when the registered callable is an ordinary
      (`functools.wraps`) decorator around another function: parameter *names* are looked up there
      (`_might_have_parameter` unwraps), calls are bound against the callable's own signature `sig` -/
  innerSig : Option Sig := none
deriving Repr, Inhabited

namespace Cfgable
/-- `_might_have_parameter` -/
def mightHave (c : Cfgable) (name : String) : Bool := (c.innerSig.getD c.sig).mightHave name
/-- … as the target of a binding (`ParsedBindingKey.parse`) -/
def byKeyword (c : Cfgable) (name : String) : Bool := (c.innerSig.getD c.sig).byKeyword name

/-- is `name` configurable under the allow/deny lists -/
def listed (c : Cfgable) (name : String) : Bool :=
  !(!c.allow.isEmpty && !c.allow.contains name) && !(!c.deny.isEmpty && c.deny.contains name)

/-- `_get_default_configurable_parameter_values` -/
def configurableDefaults (c : Cfgable) : AList String Val :=
  c.sig.kwargDefaults.filter (fun kv => c.listed kv.1 && kv.2.representable && c.sig.kwNames.contains kv.1)

/-- names whose signature default is `gin.REQUIRED` (`_get_validated_required_kwargs`) -/
def requiredKwargs (c : Cfgable) : List String :=
  (c.sig.kwargDefaults.filter (fun kv => kv.2.isRequired)).map (·.1)

/-- registration-time validation of signature-level REQUIRED against the lists -/
def requiredKwargsValid (c : Cfgable) : Bool :=
  c.requiredKwargs.all c.listed
end Cfgable

/-- `_CONFIG`: (scope components, complete selector) ↦ parameter dict. -/
abbrev Store := AList (Scope × Sel) (AList String Val)

/-- `[scope[:i] for i in range(len(scope) + 1)]` -/
def prefixes (σ : Scope) : List Scope := (List.range (σ.length + 1)).map (fun i => σ.take i)

def Store.params (cfg : Store) (π : Scope) (sel : Sel) : AList String Val :=
  (AList.lookup (π, sel) cfg).getD []

/-- `_get_bindings(selector)` with `inherit_scopes=True`: dict updates, shortest prefix first. -/
def getBindings (cfg : Store) (sel : Sel) (σ : Scope) : AList String Val :=
  (prefixes σ).foldl (fun acc π => AList.update acc (cfg.params π sel)) []

/-- `inherit_scopes=False` -/
def getBindingsStrict (cfg : Store) (sel : Sel) (σ : Scope) : AList String Val :=
  AList.update [] (cfg.params σ sel)

inductive CallErr where
  /-- `gin.REQUIRED` in an unnamed `*args` position → `ValueError` -/
  | varargRequired
  /-- `RuntimeError: Required bindings for … not provided in config: [names]` -/
  | missingRequired (names : List String)
  /-- Python's own `TypeError` when binding the final arguments to the signature -/
  | typeError
deriving Repr, BEq, Inhabited

structure PhaseA where
  newKw : AList String Val
  argNames : List String
  reqNames : List String
  callerReq : List String
  operative : AList String Val
deriving Repr, Inhabited

def popAll (d : AList String Val) (names : List String) : AList String Val :=
  names.foldl (fun acc n => AList.erase n acc) d

/-- names of the named positional arguments that are the REQUIRED marker (1521-1526) -/
def reqNamesOf : List String → List Val → List String
  | n :: ns, a :: as => if a.isRequired then n :: reqNamesOf ns as else reqNamesOf ns as
  | _, _ => []

def phaseA (c : Cfgable) (cfg : Store) (σ : Scope) (args : List Val) (kwargs : AList String Val) :
    Except CallErr PhaseA :=
  let bound := getBindings cfg c.selector σ
  let argNames := c.sig.args.take args.length
  if (args.drop argNames.length).any Val.isRequired then .error .varargRequired else
  let reqNames := reqNamesOf argNames args
  let callerReq := (kwargs.filter (fun kv => kv.2.isRequired)).map (·.1)
  -- positionally supplied names lose their binding (unless marked REQUIRED)
  let newKw := popAll bound (argNames.filter (fun n => !reqNames.contains n))
  -- operative parameters: defaults, overlaid by bindings, minus whatever the caller supplied
  let op := AList.update c.configurableDefaults newKw
  let op := popAll op (argNames.filter (fun n => !reqNames.contains n))
  let op := popAll op ((AList.keys kwargs).filter (fun n => !callerReq.contains n))
  .ok { newKw, argNames, reqNames, callerReq, operative := op }

/-- `_order_by_signature` -/
def orderBySignature (s : Sig) (names : List String) : List String :=
  let ordered := s.allArgs.filter (fun a => names.contains a)
  ordered ++ names.filter (fun n => !ordered.contains n)

structure Delivered where
  args : List Val
  kwargs : AList String Val
deriving Repr, Inhabited, BEq

/-- substitution of positional REQUIRED markers (1574-1579): a marker in a named position is
    replaced by the evaluated binding of that position's name, when there is one. -/
def substArgs : List String → List Val → AList String Val → List Val
  | n :: ns, a :: as, kw =>
      (if a.isRequired then (AList.lookup n kw).getD a else a) :: substArgs ns as kw
  | _, as, _ => as

/-- the parameters whose binding is — or evaluated to — the REQUIRED marker itself (`f.x = %gin.REQUIRED` never
    overridden): such a binding supplies nothing -/
def markerNames (evaluated : AList String Val) : List String :=
  (evaluated.filter (fun kv => kv.2.isRequired)).map (·.1)

def dropMarkers (evaluated : AList String Val) : AList String Val :=
  evaluated.filter (fun kv => !kv.2.isRequired)

/-- names the caller supplied itself by keyword (not as a REQUIRED marker) -/
def kwSupplied (kwargs : AList String Val) : List String :=
  (kwargs.filter (fun kv => !kv.2.isRequired)).map (·.1)

def phaseC (c : Cfgable) (a : PhaseA) (args : List Val) (kwargs : AList String Val)
    (evaluated0 : AList String Val) : Except CallErr Delivered :=
  -- (a binding the caller overrides by keyword is dropped before it is looked at: it cannot be "the marker")
  let marked := (markerNames evaluated0).filter (fun n => !(kwSupplied kwargs).contains n)
  let evaluated := dropMarkers evaluated0
  let missPos := a.reqNames.filter (fun n => !AList.contains n evaluated && !marked.contains n)
  let newArgs := substArgs a.argNames args evaluated
  let kw := popAll evaluated a.reqNames
  let missSig := c.requiredKwargs.filter (fun rk =>
      !a.argNames.contains rk && !AList.contains rk kwargs && !AList.contains rk kw && !marked.contains rk)
  let missKw := a.callerReq.filter (fun rk => !AList.contains rk kw && !marked.contains rk)
  let kwargs' := popAll kwargs (a.callerReq.filter (fun rk => AList.contains rk kw))
  let missing := marked ++ missPos ++ missSig ++ missKw
  if !missing.isEmpty then .error (.missingRequired (orderBySignature c.sig missing)) else
  .ok { args := newArgs, kwargs := AList.update kw kwargs' }

def evalKw (ev : Val → Val) (kw : AList String Val) : AList String Val :=
  kw.map (fun kv => (kv.1, ev kv.2))

/-- the bindings that are evaluated (deep-copied): a binding for a parameter the caller supplies
    by keyword is dropped first, so an overridden `@ref()` is not called -/
def toEvaluate (a : PhaseA) (kwargs : AList String Val) : AList String Val :=
  popAll a.newKw (kwSupplied kwargs)

/-- `gin_wrapper` up to (not including) the call of the wrapped function, for a *pure* evaluation
    `ev`.  (The code drops the bindings of keyword-supplied names before evaluating, `toEvaluate`;
    with a pure `ev` that is unobservable because caller keywords overwrite those entries anyway, so
    this layer evaluates all of `newKw`; the effectful layer `callCfg` in `Gin/Eval.lean` follows
    the code exactly, and the C04 correspondence runs both on reference-free stores.)  Returns what is passed
    on and the operative parameters to be merged into the record. -/
def wrapperCall (ev : Val → Val) (c : Cfgable) (cfg : Store) (σ : Scope)
    (args : List Val) (kwargs : AList String Val) :
    Except CallErr (Delivered × AList String Val) :=
  match phaseA c cfg σ args kwargs with
  | .error e => .error e
  | .ok a =>
    match phaseC c a args kwargs (evalKw ev a.newKw) with
    | .error e => .error e
    | .ok d => .ok (d, a.operative)

/-- the operative parameters are recorded before evaluation and before the REQUIRED check -/
def wrapperOperative (c : Cfgable) (cfg : Store) (σ : Scope)
    (args : List Val) (kwargs : AList String Val) : Option (AList String Val) :=
  match phaseA c cfg σ args kwargs with
  | .error _ => none
  | .ok a => some a.operative

/-! ### Python's argument binding for `def f(pos…, *args, kwonly…, **kw)` -/

structure Received where
  params : AList String Val
  extra : List Val
  kw : AList String Val
deriving Repr, Inhabited, BEq

def bindKwargs (s : Sig) : AList String Val → AList String Val → AList String Val →
    Option (AList String Val × AList String Val)
  | [], params, kw => some (params, kw)
  | (k, v) :: rest, params, kw =>
      if s.kwNames.contains k then
        if AList.contains k params then none  -- multiple values for argument
        else bindKwargs s rest (AList.set k v params) kw
      else if s.varkw then bindKwargs s rest params (AList.set k v kw)
      else none  -- unexpected keyword argument

def pyBind (s : Sig) (d : Delivered) : Except CallErr Received :=
  let n := s.args.length
  if d.args.length > n && !s.varargs then .error .typeError else
  let params : AList String Val := (s.args.zip d.args)
  let extra := d.args.drop n
  match bindKwargs s d.kwargs params [] with
  | none => .error .typeError
  | some (params, kw) =>
    -- fill defaults, in signature order; a parameter without value or default is a TypeError
    let all := s.pos ++ s.kwonly
    let filled := all.map (fun p => match AList.lookup p.1 params with
        | some v => some (p.1, v)
        | none => p.2.map (fun dflt => (p.1, dflt)))
    if filled.any Option.isNone then .error .typeError
    else .ok { params := filled.filterMap id, extra, kw }

/-! ### Scope entry (`config_scope`, config.py 1262-1342) -/

inductive ScopeArg where
  | name (s : String)          -- a non-empty string, possibly 'a/b'
  | listArg (l : List String)  -- an explicit scope list
  | clear                      -- None or ''
  | invalid                    -- any other object
deriving Repr, Inhabited

/-- MODULE_RE on one scope component (dotted identifiers) -/
def isModuleName (s : String) : Bool := isSelector (splitChar s '.')

/-- the scope a `config_scope(arg)` block runs under, or `none` when it raises `ValueError` -/
def enterScope (cur : Scope) : ScopeArg → Option Scope
  | .name s => let new := cur ++ splitChar s '/'; if new.all isModuleName then some new else none
  | .listArg l => if l.all isModuleName then some l else none
  | .clear => some []
  | .invalid => none

end Gin
