/- Driver domain `selmap`: histories of SelectorMap operations on several live maps. -/
import Gin.Drv.Util
import Gin.SelectorMap
open Lean

namespace Gin.Drv.Selmap
open Gin Gin.Drv

abbrev St := List (Nat × SelMap Int)

def getMap (st : St) (i : Nat) : SelMap Int := (AList.lookup i st).getD SelMap.empty

/-- one operation; returns new state and the observable -/
def step (st : St) (op : Json) : St × Json :=
  let name := jstr (jidx op 0)
  let i := jnat (jidx op 1)
  let m := getMap st i
  match name with
  | "new" => (AList.set i SelMap.empty st, ok Json.null)
  | "set" =>
    let s := splitDot (jstr (jidx op 2))
    if isSelector s then
      (AList.set i (m.set s (jint (jidx op 3))) st, ok Json.null)
    else (st, err "ValueError")
  | "pop" =>
    let s := splitDot (jstr (jidx op 2))
    match m.pop s with
    | none => (st, err "KeyError")
    | some (v, m') => (AList.set i m' st, ok (toJson v))
  | "copy" => (AList.set (jnat (jidx op 2)) m st, ok Json.null)
  | "clear" => (AList.set i SelMap.empty st, ok Json.null)
  | "match" =>
    let q := splitDot (jstr (jidx op 2))
    (st, ok (strs (sortStrs ((m.matching q).map joinDot))))
  | "getm" =>
    let q := splitDot (jstr (jidx op 2))
    match m.getMatch q with
    | .none => (st, ok (Json.str "default"))
    | .ambiguous _ => (st, err "KeyError")
    | .one _ v => (st, ok (toJson v))
  | "getall" =>
    let q := splitDot (jstr (jidx op 2))
    let vs := (m.matching q).filterMap (fun s => (m.get? s).map (fun v => (joinDot s, v)))
    let sorted := sortStrs (vs.map (·.1))
    (st, ok (Json.arr (sorted.filterMap (fun k => (AList.lookup k vs).map toJson)).toArray))
  | "min" =>
    let s := splitDot (jstr (jidx op 2))
    match m.minimal s with
    | none => (st, err "KeyError")
    | some r => (st, ok (Json.str (joinDot r)))
  | "get" =>
    let s := splitDot (jstr (jidx op 2))
    (st, ok (match m.get? s with | some v => toJson v | none => Json.null))
  | "contains" => (st, ok (toJson (m.contains (splitDot (jstr (jidx op 2))))))
  | "len" => (st, ok (toJson m.map.length))
  | "items" =>
    (st, ok (Json.arr (m.map.map (fun kv => Json.arr #[Json.str (joinDot kv.1), toJson kv.2])).toArray))
  | _ => (st, err "bad-op")

def run (case : Json) : Json :=
  let ops := jarr (jfield case "ops")
  let (_, outs) := ops.foldl (fun (acc : St × Array Json) op =>
    let (st', o) := step acc.1 op
    (st', acc.2.push o)) (([] : St), #[])
  Json.mkObj [("out", Json.arr outs)]

end Gin.Drv.Selmap
