/- JSON codec for `Val` (unverified glue; encoding documented in harness/encode.py). -/
import Gin.Drv.Util
import Gin.Value
open Lean

namespace Gin.Drv

partial def valOfJson : Json → Val
  | .null => .none
  | .bool b => .bool b
  | .num n => .int n.mantissa  -- the harness sends integers only (exponent 0)
  | j@(.obj _) =>
    let has (k : String) : Option Json := (j.getObjVal? k).toOption
    if let some v := has "s" then .str (jstr v)
    else if let some v := has "b" then .bytes (jstr v)
    else if let some v := has "f" then .float (jstr v) (jbool (jfield j "fin"))
    else if let some v := has "c" then .complex (jstr v)
    else if let some v := has "l" then .list ((jarr v).map valOfJson)
    else if let some v := has "t" then .tuple ((jarr v).map valOfJson)
    else if let some v := has "set" then .set ((jarr v).map valOfJson)
    else if let some v := has "d" then
      .dict ((jarr v).map (fun kv => (valOfJson (jidx kv 0), valOfJson (jidx kv 1))))
    else if let some v := has "ref" then
      .ref (jstrs (jidx v 0)) (splitDot (jstr (jidx v 1))) (jbool (jidx v 2))
    else if let some v := has "macro" then .macro (jstr v)
    else if let some v := has "const" then .const (splitDot (jstr v))
    else if let some v := has "unk" then .unknownRef (jstr (jidx v 0)) (jbool (jidx v 1))
    else if let some v := has "o" then .obj (jnat v)
    else if (has "req").isSome then .required
    else if let some v := has "fn" then .fn (splitDot (jstr (jidx v 0))) (jstrs (jidx v 1))
    else if let some v := has "res" then .result (splitDot (jstr (jidx v 0))) (jnat (jidx v 1))
    else .obj 999999
  | _ => .obj 999998

partial def valToJson : Val → Json
  | .none => .null
  | .bool b => .bool b
  | .int i => .num ⟨i, 0⟩
  | .float r fin => Json.mkObj [("f", .str r), ("fin", .bool fin)]
  | .complex r => Json.mkObj [("c", .str r)]
  | .str s => Json.mkObj [("s", .str s)]
  | .bytes h => Json.mkObj [("b", .str h)]
  | .list xs => Json.mkObj [("l", .arr (xs.map valToJson).toArray)]
  | .tuple xs => Json.mkObj [("t", .arr (xs.map valToJson).toArray)]
  | .set xs => Json.mkObj [("set", .arr (xs.map valToJson).toArray)]
  | .dict kvs => Json.mkObj [("d", .arr (kvs.map (fun kv => Json.arr #[valToJson kv.1, valToJson kv.2])).toArray)]
  | .ref sc sel ev => Json.mkObj [("ref", .arr #[strs sc, .str (joinDot sel), .bool ev])]
  | .macro n => Json.mkObj [("macro", .str n)]
  | .const n => Json.mkObj [("const", .str (joinDot n))]
  | .unknownRef s ev => Json.mkObj [("unk", .arr #[.str s, .bool ev])]
  | .obj i => Json.mkObj [("o", toJson i)]
  | .required => Json.mkObj [("req", toJson (1 : Nat))]
  | .fn sel sc => Json.mkObj [("fn", .arr #[.str (joinDot sel), strs sc])]
  | .result sel n => Json.mkObj [("res", .arr #[.str (joinDot sel), toJson n])]

def kvsOfJson (j : Json) : AList String Val := (jarr j).map (fun kv => (jstr (jidx kv 0), valOfJson (jidx kv 1)))
def kvsToJson (l : AList String Val) : Json := .arr (l.map (fun kv => Json.arr #[.str kv.1, valToJson kv.2])).toArray
/-- dict rendered with keys sorted (dict order is not an observable) -/
def kvsToJsonSorted (l : AList String Val) : Json :=
  kvsToJson ((sortStrs (l.map (·.1))).filterMap (fun k => (AList.lookup k l).map (fun v => (k, v))))

end Gin.Drv
