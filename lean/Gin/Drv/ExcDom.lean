/- Driver domain `exc`: what the forwarding proxy answers for each attribute of the original. -/
import Gin.Drv.Util
import Gin.ExcProxy
open Lean

namespace Gin.Drv.ExcDom
open Gin Gin.Drv Gin.ExcProxy

def run (case : Json) : Json :=
  -- attribute values are opaque canonical strings here: only the lookup protocol is modelled
  let orig : Exc := { slots := [], dict := (jarr (jfield case "orig")).map (fun kv => (jstr (jidx kv 0), Val.str (jstr (jidx kv 1)))) }
  let attrs := orig.dict.map (fun kv => match proxyForward orig kv.1 with
    | some (.str s) => Json.arr #[.str kv.1, .str s]
    | _ => Json.arr #[.str kv.1, .null])
  Json.mkObj [("attrs", .arr attrs.toArray)]

end Gin.Drv.ExcDom
