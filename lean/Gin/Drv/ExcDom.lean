/- Driver domain `exc`: what the forwarding proxy answers for each attribute of the original, and — when the
   case describes the call path — what reaches the caller after the exception passed every configurable on it. -/
import Gin.Drv.Util
import Gin.ExcProxy
import Gin.ExcChain
open Lean

namespace Gin.Drv.ExcDom
open Gin Gin.Drv Gin.ExcProxy Gin.ExcChain

def levelOfJson (j : Json) : Level :=
  { name := jstr (jfield j "name"), repr := jstr (jfield j "repr"), scope := jstr (jfield j "scope"),
    posNames := jstrs (jfield j "posNames"), nArgs := jnat (jfield j "nArgs"), kwNames := jstrs (jfield j "kwNames"),
    ginBound := jstrs (jfield j "ginBound"), callerSupplied := jstrs (jfield j "callerSupplied"),
    frames := jstrs (jfield j "frames") }

def run (case : Json) : Json :=
  -- attribute values are opaque canonical strings here: only the lookup protocol is modelled
  let orig : Exc := { slots := [], dict := (jarr (jfield case "orig")).map (fun kv => (jstr (jidx kv 0), Val.str (jstr (jidx kv 1)))) }
  let chain := jfield case "chain"
  if jisNull chain then
    let attrs := orig.dict.map (fun kv => match proxyForward orig kv.1 with
      | some (.str s) => Json.arr #[.str kv.1, .str s]
      | _ => Json.arr #[.str kv.1, .null])
    Json.mkObj [("attrs", .arr attrs.toArray)]
  else
    let c := jfield chain "cls"
    let cls : ClassInfo := { name := jstr (jfield c "name"), module := jstr (jfield c "module"), bases := jstrs (jfield c "bases"),
                             isException := jbool (jfield case "is_exception"),
                             newAcceptsArgs := jbool (jfield c "newAcceptsArgs"), bareNewWorks := jbool (jfield c "bareNewWorks") }
    let o : Original := { cls := cls, data := orig, str := jstr (jfield chain "str"), tb := jstrs (jfield chain "tb") }
    let levels := (jarr (jfield chain "levels")).map levelOfJson
    let f := propagate o levels
    let attrs := orig.dict.map (fun kv => match f.getattr o kv.1 with
      | some (.str s) => Json.arr #[.str kv.1, .str s]
      | _ => Json.arr #[.str kv.1, .null])
    Json.mkObj [("attrs", .arr attrs.toArray), ("same_object", .bool f.sameObject), ("str", .str (f.str o)),
                ("tb", strs (tracebackAfter o levels)), ("depth", toJson f.depth),
                ("catchable", .bool (cls.bases.all (fun b => f.isInstance o b))),
                ("type_name", .str cls.name), ("type_module", .str cls.module)]

end Gin.Drv.ExcDom
