/- Driver domain `gin`: histories of API operations against one gin state. -/
import Gin.Drv.ValJson
import Gin.Machine
open Lean

namespace Gin.Drv.GinDom
open Gin Gin.Drv

def optDefault (j : Json) : Option Val := if jisNull j then none else some (valOfJson (jfield j "v"))

def sigOfJson (j : Json) : Sig :=
  { pos := (jarr (jfield j "pos")).map (fun p => (jstr (jidx p 0), optDefault (jidx p 1))),
    kwonly := (jarr (jfield j "kwonly")).map (fun p => (jstr (jidx p 0), optDefault (jidx p 1))),
    varargs := jbool (jfield j "varargs"), varkw := jbool (jfield j "varkw"),
    posOnly := jnat (jfield j "posonly") }

def errJson (e : Err) : Json := err e.name

def callErrJson : CallErr → Json
  | .varargRequired => err "ValueError"
  | .missingRequired names => Json.mkObj [("err", .str "RuntimeError"), ("missing", strs names)]
  | .typeError => err "TypeError"

def storeToJson (s : Store) : Json :=
  let rows := s.map (fun kv => (joinScope kv.1.1 ++ "|" ++ joinDot kv.1.2, kvsToJsonSorted kv.2))
  let keys := sortStrs (rows.map (·.1))
  .arr (keys.filterMap (fun k => (AList.lookup k rows).map (fun v => Json.arr #[.str k, v]))).toArray

def keyOfJson (op : Json) : Key :=
  { scope := splitScope (jstr (jfield op "scope")), sel := splitDot (jstr (jfield op "sel")),
    arg := jstr (jfield op "arg") }

def scopeArgOfJson (j : Json) : ScopeArg :=
  match jstr (jfield j "k") with
  | "name" => .name (jstr (jfield j "v"))
  | "list" => .listArg (jstrs (jfield j "v"))
  | "clear" => .clear
  | _ => .invalid

def hookOfJson (j : Json) : Hook :=
  let r := jfield j "ret"
  { ret := if jisNull r then none
           else some ((jarr r).map (fun kv => (keyOfJson (jidx kv 0), valOfJson (jidx kv 1)))),
    raises := jbool (jfield j "raises") }

partial def rawOfJson (j : Json) : RawVal :=
  match j with
  | .obj _ =>
    let has (k : String) : Option Json := (j.getObjVal? k).toOption
    if let some v := has "rawref" then .ref (jstrs (jidx v 0)) (splitDot (jstr (jidx v 1))) (jbool (jidx v 2))
    else if let some v := has "rawmacro" then .macro (jstr v)
    else if let some v := has "l" then .list ((jarr v).map rawOfJson)
    else if let some v := has "t" then .tuple ((jarr v).map rawOfJson)
    else if let some v := has "d" then .dict ((jarr v).map (fun kv => (rawOfJson (jidx kv 0), rawOfJson (jidx kv 1))))
    else .lit (valOfJson j)
  | _ => .lit (valOfJson j)

def regReqOfJson (op : Json) : State.RegReq :=
  let modJ := jfield op "module"
  { name := splitDot (jstr (jfield op "name")), nameValid := jbool (jfield op "nameValid"),
    module := if jisNull modJ then none else some (splitDot (jstr modJ)),
    moduleValid := jbool (jfield op "moduleValid"),
    sig := sigOfJson (jfield op "sig"),
    innerSig := (match jfield op "innerSig" with | .null => none | j => some (sigOfJson j)),
    allow := jstrs (jfield op "allow"),
    deny := jstrs (jfield op "deny"), listTypesOk := jbool (jfield op "listTypesOk"),
    objId := jnat (jfield op "obj"), isMethod := jbool (jfield op "method"),
    isClass := jbool (jfield op "cls"),
    methods := (jstrs (jfield op "methods")).map splitDot }

partial def stmtOfJson (j : Json) : Stmt :=
  let line := jnat (jfield j "line")
  match jstr (jfield j "k") with
  | "bind" => .binding (splitScope (jstr (jfield j "scope"))) (splitDot (jstr (jfield j "sel")))
      (jstr (jfield j "arg")) (rawOfJson (jfield j "val")) line
  | "block" => .block (splitScope (jstr (jfield j "scope"))) (splitDot (jstr (jfield j "sel"))) line
  | "import" => .imp (jstr (jfield j "module")) (jbool (jfield j "found")) line
      ((jarr (jfield j "regs")).map regReqOfJson)
  | "include" =>
    let f := jfield j "file"
    .incl (jstr (jfield j "name")) (if jisNull f then none else some ((jarr f).map stmtOfJson)) line
  | _ => .syntaxErr line

def skipOfJson (j : Json) : SkipSpec :=
  match jstr (jfield j "k") with
  | "all" => .all
  | "names" => .names (jstrs (jfield j "v"))
  | _ => .no

partial def parsedToJson : Parsed → Json
  | .node name imports includes =>
    Json.arr #[.str name, strs imports, .arr (includes.map parsedToJson).toArray]

partial def opOfJson (op : Json) : Op :=
  match jstr (jfield op "op") with
  | "register" => .register (regReqOfJson op)
  | "bind" =>
    let locJ := jfield op "loc"
    if jisNull locJ then
      if jbool (jfield op "block") then .bindBlock (keyOfJson op) (valOfJson (jfield op "val"))
      else .bind (keyOfJson op) (valOfJson (jfield op "val"))
    else
      let fJ := jfield locJ "file"
      let loc : Loc := { file := if jisNull fJ then none else some (jstr fJ), line := jnat (jfield locJ "line") }
      if jbool (jfield op "block") then .bindBlockAt (keyOfJson op) (valOfJson (jfield op "val")) loc
      else .bindAt (keyOfJson op) (valOfJson (jfield op "val")) loc
  | "query" => .query (keyOfJson op)
  | "call" => .call (splitDot (jstr (jfield op "sel"))) ((jarr (jfield op "enter")).map scopeArgOfJson)
      ((jarr (jfield op "args")).map valOfJson) (kvsOfJson (jfield op "kwargs"))
  | "ecall" => .ecall (splitDot (jstr (jfield op "sel"))) ((jarr (jfield op "enter")).map scopeArgOfJson)
      ((jarr (jfield op "args")).map valOfJson) (kvsOfJson (jfield op "kwargs"))
  | "getb" => .getb (splitDot (jstr (jfield op "sel"))) (jstrs (jfield op "scope")) (jbool (jfield op "inherit"))
  | "getbq" => .getbq (splitDot (jstr (jfield op "q"))) (jstrs (jfield op "scope")) (jbool (jfield op "inherit"))
  | "hook" => .addHook (hookOfJson op)
  | "finalize" => .finalize
  | "clear" => .clear (jbool (jfield op "constants"))
  | "constant" => .constant (splitDot (jstr (jfield op "name"))) (jbool (jfield op "nameValid"))
      (valOfJson (jfield op "val"))
  | "interactive" => .interactive (jbool (jfield op "on"))
  | "macrolookup" => .macroLookup (jstr (jfield op "name"))
  | "singleton" => .singleton (jstr (jfield op "key")) (jbool (jfield op "ctor")) (jbool (jfield op "none"))
  | "enter" => .enter (jstrs (jfield op "cur")) (scopeArgOfJson (jfield op "arg"))
  | "parse" =>
    let f := jfield op "file"
    .parse (if jisNull f then none else some (jstr f)) (skipOfJson (jfield op "skip"))
      ((jarr (jfield op "stmts")).map stmtOfJson)
  | "parsefiles" =>
    .parseFiles (skipOfJson (jfield op "skip"))
      ((jarr (jfield op "files")).map (fun f =>
        let c := jidx f 1
        (jstr (jidx f 0), if jisNull c then none else some ((jarr c).map stmtOfJson))))
      ((jarr (jfield op "bindings")).map stmtOfJson) (jbool (jfield op "finalize"))
  | "resolve" => .resolve (jstrs (jfield op "prefixes")) (jstrs (jfield op "readers")) (jbool (jfield op "abs"))
      ((jarr (jfield op "present")).map (fun x => (jstr (jidx x 0), jstr (jidx x 1))))
  | "unlock" => .unlock ((jarr (jfield op "body")).map opOfJson) (jbool (jfield op "raises"))
  | "locked" => .observe "locked"
  | other => .observe other

partial def outToJson : Out → Json
  | .ok => ok .null
  | .err e => errJson e
  | .callErr e => callErrJson e
  | .value v => ok (valToJson v)
  | .received r σ => ok (Json.mkObj [("params", kvsToJson r.params),
      ("extra", .arr (r.extra.map valToJson).toArray), ("kw", kvsToJsonSorted r.kw), ("scope", strs σ)])
  | .kvs l => ok (kvsToJsonSorted l)
  | .store s => ok (storeToJson s)
  | .flag b => ok (.bool b)
  | .scope s => ok (strs s)
  | .names l => ok (strs (sortStrs l))
  | .pair a b => ok (strs [a, b])
  | .body outs => ok (Json.mkObj [("body", .arr (outs.map outToJson).toArray)])
  | .parsed includes imports =>
    ok (Json.mkObj [("includes", .arr (includes.map parsedToJson).toArray), ("imports", strs imports)])
  | .failed f =>
    Json.mkObj [("err", .str f.err.name),
      ("chain", .arr (f.chain.map (fun c => Json.arr #[(match c.1 with | some n => .str n | none => .null), toJson c.2])).toArray)]
  | .doc d =>
    ok (Json.mkObj [
      ("macros", .arr (d.macros.map (fun m => Json.arr #[.str m.1, valToJson m.2])).toArray),
      ("sections", .arr (d.sections.map (fun s => Json.arr #[.str (joinScope s.scope ++ "|" ++ joinDot s.printed),
          kvsToJson s.params])).toArray)])
  | .locs l =>
    let rows := l.map (fun x => (joinScope x.1.1 ++ "|" ++ joinDot x.1.2 ++ "." ++ x.2.1,
      (x.2.2.file.getD "bindings string") ++ ":" ++ toString x.2.2.line))
    let keys := sortStrs (rows.map (·.1))
    ok (.arr (keys.filterMap (fun k => (AList.lookup k rows).map (fun v => Json.arr #[.str k, .str v]))).toArray)
  | .events l =>
    -- per target, in call order: [scope, params, extra, kw]
    let sels := sortStrs ((l.map (fun e => joinDot e.sel)).eraseDups)
    ok (.arr (sels.map (fun s => Json.arr #[.str s, .arr ((l.filter (fun e => joinDot e.sel == s)).map (fun e =>
      Json.arr #[strs e.scope, kvsToJson e.received.params, .arr (e.received.extra.map valToJson).toArray,
                 kvsToJsonSorted e.received.kw])).toArray])).toArray)

def run (case : Json) : Json :=
  let ops := (jarr (jfield case "ops")).map opOfJson
  let (_, outs) := runOps initState ops
  Json.mkObj [("out", Json.arr (outs.map outToJson).toArray)]

end Gin.Drv.GinDom
