/- Driver domain `gin`: histories of API operations against one gin state. -/
import Gin.Drv.ValJson
import Gin.State
open Lean

namespace Gin.Drv.GinDom
open Gin Gin.Drv

def optDefault (j : Json) : Option Val := if jisNull j then none else some (valOfJson (jfield j "v"))

def sigOfJson (j : Json) : Sig :=
  { pos := (jarr (jfield j "pos")).map (fun p => (jstr (jidx p 0), optDefault (jidx p 1))),
    kwonly := (jarr (jfield j "kwonly")).map (fun p => (jstr (jidx p 0), optDefault (jidx p 1))),
    varargs := jbool (jfield j "varargs"), varkw := jbool (jfield j "varkw") }

def errJson (e : Err) : Json := err e.name

def callErrJson : CallErr → Json
  | .varargRequired => err "ValueError"
  | .missingRequired names => Json.mkObj [("err", .str "RuntimeError"), ("missing", strs names)]
  | .typeError => err "TypeError"

def storeToJson (s : Store) : Json :=
  let rows := s.map (fun kv => (joinScope kv.1.1 ++ "|" ++ joinDot kv.1.2, kvsToJsonSorted kv.2))
  let keys := sortStrs (rows.map (·.1))
  .arr (keys.filterMap (fun k => (AList.lookup k rows).map (fun v => Json.arr #[.str k, v]))).toArray

def keyOfJson (op : Json) : Key :=
  { scope := splitScope (jstr (jfield op "scope")), sel := splitDot (jstr (jfield op "sel")),
    arg := jstr (jfield op "arg") }

def scopeArgOfJson (j : Json) : ScopeArg :=
  match jstr (jfield j "k") with
  | "name" => .name (jstr (jfield j "v"))
  | "list" => .listArg (jstrs (jfield j "v"))
  | "clear" => .clear
  | _ => .invalid

def step (st : State) (op : Json) : State × Json :=
  match jstr (jfield op "op") with
  | "register" =>
    let modJ := jfield op "module"
    let r : State.RegReq :=
      { name := splitDot (jstr (jfield op "name")), nameValid := jbool (jfield op "nameValid"),
        module := if jisNull modJ then none else some (splitDot (jstr modJ)),
        moduleValid := jbool (jfield op "moduleValid"),
        sig := sigOfJson (jfield op "sig"), allow := jstrs (jfield op "allow"),
        deny := jstrs (jfield op "deny"), listTypesOk := jbool (jfield op "listTypesOk"),
        objId := jnat (jfield op "obj"), isMethod := jbool (jfield op "method") }
    match st.register r with
    | .ok st' => (st', ok .null)
    | .error e => (st, errJson e)
  | "bind" =>
    match st.bind (keyOfJson op) (valOfJson (jfield op "val")) with
    | .ok st' => (st', ok .null)
    | .error e => (st, errJson e)
  | "query" =>
    match st.query (keyOfJson op) with
    | .ok v => (st, ok (valToJson v))
    | .error e => (st, errJson e)
  | "call" =>
    let σ? := (jarr (jfield op "enter")).foldl (fun (acc : Option Scope) a =>
      acc.bind (fun cur => enterScope cur (scopeArgOfJson a))) (some [])
    match σ? with
    | none => (st, err "ValueError")
    | some σ =>
    let (st', out) := st.call id (splitDot (jstr (jfield op "sel"))) σ
      ((jarr (jfield op "args")).map valOfJson) (kvsOfJson (jfield op "kwargs"))
    match out with
    | .failed e => (st', callErrJson e)
    | .received r _ => (st', ok (Json.mkObj [("params", kvsToJson r.params),
        ("extra", .arr (r.extra.map valToJson).toArray), ("kw", kvsToJsonSorted r.kw),
        ("scope", strs σ)]))
  | "getb" =>
    let sel := splitDot (jstr (jfield op "sel"))
    let σ := jstrs (jfield op "scope")
    let b := if jbool (jfield op "inherit") then getBindings st.config sel σ
             else getBindingsStrict st.config sel σ
    (st, ok (kvsToJsonSorted b))
  | "operative" => (st, ok (storeToJson st.operative))
  | "config" => (st, ok (storeToJson st.config))
  | "enter" =>
    match enterScope (jstrs (jfield op "cur")) (scopeArgOfJson (jfield op "arg")) with
    | some s => (st, ok (strs s))
    | none => (st, err "ValueError")
  | _ => (st, err "bad-op")

def run (case : Json) : Json :=
  let ops := jarr (jfield case "ops")
  let (_, outs) := ops.foldl (fun (acc : State × Array Json) op =>
    let (st', o) := step acc.1 op
    (st', acc.2.push o)) (({} : State), #[])
  Json.mkObj [("out", Json.arr outs)]

end Gin.Drv.GinDom
