/- JSON glue shared by the driver domains (unverified, deliberately dumb). -/
import Lean.Data.Json
import Gin.Basic
open Lean

namespace Gin.Drv

def splitDot (s : String) : List String := s.splitOn "."
def joinDot (cs : List String) : String := ".".intercalate cs
/-- scope string ↦ components (`''` ↦ `[]`) -/
def splitScope (s : String) : List String := if s.isEmpty then [] else s.splitOn "/"
def joinScope (cs : List String) : String := "/".intercalate cs

def jstr (j : Json) : String := (j.getStr?).toOption.getD ""
def jnat (j : Json) : Nat := (j.getNat?).toOption.getD 0
def jint (j : Json) : Int := (j.getInt?).toOption.getD 0
def jbool (j : Json) : Bool := (j.getBool?).toOption.getD false
def jarr (j : Json) : List Json := ((j.getArr?).toOption.getD #[]).toList
def jfield (j : Json) (k : String) : Json := (j.getObjVal? k).toOption.getD Json.null
def jidx (j : Json) (i : Nat) : Json := (jarr j).getD i Json.null
def jstrs (j : Json) : List String := (jarr j).map jstr
def jisNull (j : Json) : Bool := match j with | .null => true | _ => false

def ok (j : Json) : Json := Json.mkObj [("ok", j)]
def err (cls : String) : Json := Json.mkObj [("err", Json.str cls)]
def strs (l : List String) : Json := Json.arr (l.map Json.str).toArray

/-- insertion sort on strings (canonical order for set-valued observables) -/
def sortStrs (l : List String) : List String :=
  l.foldl (fun acc s =>
    let (a, b) := acc.span (fun x => x < s)
    a ++ s :: b) []

end Gin.Drv
