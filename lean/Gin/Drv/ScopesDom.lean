/- Driver domain `scopes`: per-thread block programs under a schedule. -/
import Gin.Drv.ValJson
import Gin.Drv.GinDom
import Gin.Scopes
open Lean

namespace Gin.Drv.ScopesDom
open Gin Gin.Drv Gin.Scopes

partial def itemOfJson (j : Json) : Item :=
  match jstr (jfield j "k") with
  | "obs" => .obs
  | "raise" => .raise
  | "catch" => .catch ((jarr (jfield j "body")).map itemOfJson)
  | _ => .block (GinDom.scopeArgOfJson (jfield j "arg")) ((jarr (jfield j "body")).map itemOfJson)

def run (case : Json) : Json :=
  let progs := (jarr (jfield case "threads")).map (fun t => (jarr t).map itemOfJson)
  let store : Store := (jarr (jfield case "binds")).map (fun b =>
    ((splitScope (jstr (jidx b 0)), ["pm", "f"]), [("x", valOfJson (jidx b 1))]))
  let xOf (σ : Scope) : Json :=
    match AList.lookup "x" (getBindings store ["pm", "f"] σ) with
    | some v => valToJson v
    | none => Json.null
  let obsJson (l : List Scope) : Json := .arr (l.map (fun σ => Json.arr #[strs σ, xOf σ])).toArray
  let ths : Threads := (List.range progs.length).zip (progs.map (fun p =>
    ({ todo := (compileItems 0 0 p).1 } : Th)))
  let final := runSched ths ((jarr (jfield case "schedule")).map jnat)
  let thJson := final.map (fun kv => Json.mkObj [
    ("obs", obsJson kv.2.obs),
    ("top", strs (current kv.2.stack)),
    ("depth", toJson kv.2.stack.length),
    ("done", .bool kv.2.todo.isEmpty)])
  let treeJson := progs.map (fun p =>
    let r := runItems [[]] p
    Json.mkObj [("obs", obsJson r.2.1), ("raised", .bool (r.2.2 == .raised)), ("depth", toJson r.1.length)])
  Json.mkObj [("threads", .arr thJson.toArray), ("tree", .arr treeJson.toArray)]

end Gin.Drv.ScopesDom
