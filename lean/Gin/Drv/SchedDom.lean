/- Driver domain `sched`: constructions per singleton key for a set of thread programs. -/
import Gin.Drv.Util
import Gin.Sched
open Lean

namespace Gin.Drv.SchedDom
open Gin Gin.Drv Gin.Sched

def run (case : Json) : Json :=
  -- with atomic uses the order does not matter for the counts: take the threads one after another
  let uses : List (Nat × String) := ((jarr (jfield case "threads")).zipIdx).flatMap (fun (prog, t) =>
    (jarr prog).filterMap (fun act => if jstr (jidx act 0) == "single" then some (t, jstr (jidx act 1)) else none))
  let (st, _) := runUses initState uses
  let keys := sortStrs ((uses.map (·.2)).eraseDups)
  let counts := keys.map (fun k => (k, toJson ((uses.filter (fun u => u.2 == k)).length.min 1)))
  Json.mkObj [("counts", Json.mkObj counts), ("constructed", toJson st.constructed)]

end Gin.Drv.SchedDom
