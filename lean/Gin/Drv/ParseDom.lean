/- Driver domain `parse`: the parser mirror on Python's token stream. -/
import Gin.Drv.ValJson
import Gin.Parser
open Lean

namespace Gin.Drv.ParseDom
open Gin Gin.Drv Gin.Parser

def kindOfStr : String → TKind
  | "NAME" => .name | "NUMBER" => .number | "STRING" => .string | "OP" => .op
  | "NEWLINE" => .newline | "NL" => .nl | "COMMENT" => .comment | "INDENT" => .indent
  | "DEDENT" => .dedent | "ENDMARKER" => .endmarker | "TOKERR" => .tokerr
  | _ => .errortoken

def tokOfJson (j : Json) : Token :=
  let a := jfield j "a"
  let n := jfield j "n"
  { kind := kindOfStr (jstr (jfield j "k")), str := jstr (jfield j "s"),
    srow := jnat (jfield j "r"), scol := jnat (jfield j "c"), ecol := jnat (jfield j "e"),
    line := jstr (jfield j "l"),
    atom := if jisNull a then none else some (valOfJson (jfield a "v")),
    neg := if jisNull n then none else some (valOfJson (jfield n "v")) }

partial def pvalToJson : PVal → Json
  | .lit v => valToJson v
  | .list xs => Json.mkObj [("l", .arr (xs.map pvalToJson).toArray)]
  | .tuple xs => Json.mkObj [("t", .arr (xs.map pvalToJson).toArray)]
  | .dict kvs => Json.mkObj [("d", .arr (kvs.map (fun kv => Json.arr #[pvalToJson kv.1, pvalToJson kv.2])).toArray)]
  | .ref n ev => Json.mkObj [("pref", .arr #[.str n, .bool ev])]
  | .macroRef n => Json.mkObj [("pmacro", .str n)]

def stmtToJson : PStmt → Json
  | .binding scope sel arg v line => Json.arr #[.str "bind", .str scope, .str sel, .str arg, pvalToJson v, toJson line]
  | .block scope sel line => Json.arr #[.str "block", .str scope, .str sel, toJson line]
  | .imp m isFrom alias line => Json.arr #[.str "import", .str m, .bool isFrom,
      (match alias with | some a => .str a | none => .null), toJson line]
  | .incl f line => Json.arr #[.str "include", .str f, toJson line]

/-- `gin.config.parse_value` on the tokens of a value text alone -/
def runSingle (toks : List Token) : Json :=
  let first : P (List Token) := match toks with
    | [] => .ok []
    | _ :: _ => advOne (({ kind := TKind.nl } : Token) :: toks)
  match first with
  | .error _ => Json.mkObj [("err", .str "syntax")]
  | .ok ts0 =>
    match parseSingleValue (toks.length + 2) ts0 with
    | .ok v => Json.mkObj [("v", pvalToJson v)]
    | .error _ => Json.mkObj [("err", .str "syntax")]

def run (case : Json) : Json :=
  let toks := (jarr (jfield case "tokens")).map tokOfJson
  -- the constructor of ConfigParser advances onto the first token
  let first : P (List Token) := match toks with
    | [] => .ok []
    | _ :: _ => advOne (({ kind := TKind.nl } : Token) :: toks)
  match first with
  | .error _ => Json.mkObj [("stmts", .arr #[]), ("err", .str "syntax"), ("at_construction", .bool true)]
  | .ok ts0 =>
    let (stmts, e) := parseAll (toks.length + 2) false ts0 []
    let single := jfield case "single"
    Json.mkObj ([("stmts", .arr (stmts.map stmtToJson).toArray),
      ("err", match e with | none => .null | some _ => .str "syntax")] ++
      (if jisNull single then [] else [("pv", runSingle ((jarr single).map tokOfJson))]))

end Gin.Drv.ParseDom
