/- Driver domain `dyn`: dynamic registration over an abstract package tree. -/
import Gin.Drv.Util
import Gin.DynReg
import Gin.ImportMgr
open Lean

namespace Gin.Drv.DynDom
open Gin Gin.Drv Gin.DynReg

def importOfJson (j : Json) : Import :=
  { module := jstrs (jfield j "module"), isFrom := jbool (jfield j "from"),
    alias := if jisNull (jfield j "alias") then none else some (jstr (jfield j "alias")) }

partial def stmtOfJson (j : Json) : DStmt :=
  match jstr (jfield j "k") with
  | "imp" => .imp (importOfJson j)
  | "bind" => .bind (jstrs (jfield j "sel")) (jstr (jfield j "arg")) (jint (jfield j "v"))
  | "bindref" => .bindRef (jstrs (jfield j "sel")) (jstr (jfield j "arg")) (jstrs (jfield j "ref")) (jnat (jfield j "scope"))
  | "block" => .block (jstrs (jfield j "sel"))
  | _ => .unit ((jarr (jfield j "body")).map stmtOfJson)

def skipOfJson (j : Json) : DSkip :=
  match jstr (jfield j "k") with
  | "all" => .all
  | "names" => .names ((jarr (jfield j "v")).map jstrs)
  | _ => .no

def worldOfJson (j : Json) : World :=
  { modules := (jarr (jfield j "modules")).map (fun kv => (jstrs (jidx kv 0), jnat (jidx kv 1))),
    attrs := (jarr (jfield j "attrs")).map (fun kv =>
      (jnat (jidx kv 0), (jarr (jidx kv 1)).map (fun av => (jstr (jidx av 0), jnat (jidx av 1))))),
    params := (jarr (jfield j "params")).map (fun kv => (jnat (jidx kv 0), jstrs (jidx kv 1))) }

def errName : DErr → String
  | .syntaxError => "SyntaxError" | .valueError => "ValueError" | .nameError => "NameError"
  | .attributeError => "AttributeError" | .importError => "ImportError"

def importToJson (i : Import) : Json :=
  Json.arr #[strs i.module, .bool i.isFrom, match i.alias with | some a => .str a | none => .null]

/-- the import manager built from the recorded imports (given in any order) -/
def imJson (case : Json) : Json :=
  let l := (jarr (jfield case "imlist")).map importOfJson
  match IM.ofRecorded l with
  | none => .null
  | some im => Json.mkObj [("imports", .arr (im.imports.map importToJson).toArray),
      ("selectors", .arr (im.selectors.map (fun (m, s) => Json.arr #[strs m, strs s])).toArray)]

/-- the import manager `config_str()` prints from: recorded imports plus what the printed configurables need
    (`reqs`: `[selector, import statement]` pairs in any order) -/
def imReqJson (case : Json) : Json :=
  let l := (jarr (jfield case "imlist")).map importOfJson
  let reqs : List Req := (jarr (jfield case "reqs")).map (fun r => { sel := jstrs (jidx r 0), imp := importOfJson (jidx r 1) })
  match IM.ofConfig l reqs with
  | none => .null
  | some im => Json.mkObj [("imports", .arr (im.imports.map importToJson).toArray),
      ("selectors", .arr (im.selectors.map (fun (m, s) => Json.arr #[strs m, strs s])).toArray)]

def run (case : Json) : Json :=
  let w := worldOfJson (jfield case "world")
  let units := (jarr (jfield case "units")).map (fun u => (jarr u).map stmtOfJson)
  let (b, e) := runUnits w (skipOfJson (jfield case "skip")) [] units
  -- bindings made from Python after a successful parse: `[object, parameter, value]`
  let b := if e.isSome then b else
    (jarr (jfield case "prog")).foldl (fun b p => bindObj b (jnat (jidx p 0)) (jstr (jidx p 1)) (jint (jidx p 2))) b
  let rows := b.map (fun (o, kv) => Json.arr #[Json.num (o : Nat),
    Json.arr ((kv.map (fun (a, v) => Json.arr #[.str a, Json.num v])).toArray)])
  Json.mkObj [("bindings", .arr rows.toArray),
              ("err", match e with | none => .null | some e => .str (errName e)),
              ("im", imJson case), ("im_req", imReqJson case)]

end Gin.Drv.DynDom
