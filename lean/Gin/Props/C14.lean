/-
C14 — includes act as in-place inclusion; files resolve through ordered locations.
-/
import Gin.Lemmas.Statements
import Gin.Machine

namespace Gin.C14
open Gin

/-- Resolution picks a copy that exists, at one of the search locations (or at `''` for an absolute
    name) and through one of the registered readers. -/
theorem resolve_sound (prefixes readers : List String) (isAbs : Bool)
    (present : String → String → Bool) (p r : String)
    (h : resolveFile prefixes readers isAbs present = some (p, r)) :
    p ∈ (if isAbs then [""] else prefixes) ∧ r ∈ readers ∧ present p r = true := by
  unfold resolveFile at h
  obtain ⟨p', hp', h1⟩ := List.exists_of_findSome?_eq_some h
  obtain ⟨r', hr', h2⟩ := List.exists_of_findSome?_eq_some h1
  by_cases hpr : present p' r' = true
  · simp only [hpr, if_true, Option.some.injEq, Prod.mk.injEq] at h2
    obtain ⟨rfl, rfl⟩ := h2
    exact ⟨hp', hr', hpr⟩
  · simp [hpr] at h2

/-- A name nobody can read: exactly when no (location, reader) pair has it. -/
theorem resolve_none_iff (prefixes readers : List String) (isAbs : Bool)
    (present : String → String → Bool) :
    resolveFile prefixes readers isAbs present = none ↔
      ∀ p ∈ (if isAbs then [""] else prefixes), ∀ r ∈ readers, present p r = false := by
  unfold resolveFile
  simp only [List.findSome?_eq_none_iff]
  constructor
  · intro h p hp r hr
    have := h p hp r hr
    by_cases hpr : present p r = true
    · simp [hpr] at this
    · simpa using hpr
  · intro h p hp r hr
    simp [h p hp r hr]

/-- Locations are tried in the order registered and, within a location, the readers in the order
    registered: the first pair that has the file wins. -/
theorem resolve_first (pre post rpre rpost : List String) (p r : String)
    (present : String → String → Bool)
    (hearlier : ∀ p' ∈ pre, ∀ r' ∈ rpre ++ r :: rpost, present p' r' = false)
    (hsame : ∀ r' ∈ rpre, present p r' = false) (hhere : present p r = true) :
    resolveFile (pre ++ p :: post) (rpre ++ r :: rpost) false present = some (p, r) := by
  unfold resolveFile
  simp only [Bool.false_eq_true, if_false]
  rw [List.findSome?_append]
  have h1 : List.findSome? (fun p' => List.findSome?
      (fun r' => if present p' r' = true then some (p', r') else none) (rpre ++ r :: rpost)) pre = none := by
    rw [List.findSome?_eq_none_iff]
    intro p' hp'
    rw [List.findSome?_eq_none_iff]
    intro r' hr'
    simp [hearlier p' hp' r' hr']
  rw [h1]
  simp only [Option.none_or, List.findSome?_cons]
  rw [List.findSome?_append]
  have h2 : List.findSome? (fun r' => if present p r' = true then some (p, r') else none) rpre = none := by
    rw [List.findSome?_eq_none_iff]
    intro r' hr'
    simp [hsame r' hr']
  rw [h2]
  simp [hhere]

/-- An absolute name bypasses the search locations. -/
theorem resolve_absolute (prefixes readers : List String) (present : String → String → Bool) :
    resolveFile prefixes readers true present = resolveFile [""] readers false present := by
  simp [resolveFile]

/-- A name nobody can read raises the `IOError` (naming the locations searched) and applies
    nothing from it; the location of the `include` line is attached. -/
theorem missing_include_applies_nothing (st : State) (file : Option String) (skip : SkipSpec)
    (name : String) (line : Nat) :
    applyStmt st file skip (.incl name none line) =
      (st, [], [], some { err := .ioError, chain := [(file, line)] }) := by
  simp [applyStmt, withLoc]

/-- `include 'f'` applies the included file's statements at that point — the rest of the including
    file continues from the state they leave — and the value returned mirrors the include tree,
    listing each file's own imports. -/
theorem include_applies_in_place (st : State) (file : Option String) (skip : SkipSpec)
    (name : String) (stmts rest : List Stmt) (line : Nat)
    (hok : (applyStmts st (some name) skip stmts).failure = none) :
    let inner := applyStmts st (some name) skip stmts
    let st' := { inner.st with imports := inner.st.imports ++ inner.imports }
    (applyStmts st file skip (.incl name (some stmts) line :: rest)).st =
        (applyStmts st' file skip rest).st ∧
    (applyStmts st file skip (.incl name (some stmts) line :: rest)).includes =
        Parsed.node name inner.imports inner.includes :: (applyStmts st' file skip rest).includes := by
  simp [applyStmts, applyStmt, hok]

/-- The multi-file entry point: with no files it is `parse_config(bindings)` followed by `finalize`
    unless told not to; a file that fails stops everything after it. -/
theorem entry_point_bindings_then_finalize (st : State) (skip : SkipSpec) (bindings : List Stmt)
    (fin : Bool) (hok : (parseConfig st none skip bindings).failure = none) :
    (parseFilesAndBindings st skip [] bindings fin).st =
      if fin then (match (parseConfig st none skip bindings).st.finalize with
        | .ok st2 => st2
        | .error _ => (parseConfig st none skip bindings).st)
      else (parseConfig st none skip bindings).st := by
  unfold parseFilesAndBindings
  simp only [parseFilesAndBindings.go, hok]
  cases fin with
  | false => simp
  | true =>
    simp only [if_true]
    cases (parseConfig st none skip bindings).st.finalize <;> rfl

theorem entry_point_missing_file_stops (st : State) (skip : SkipSpec) (name : String)
    (rest : List (String × Option (List Stmt))) (bindings : List Stmt) (fin : Bool) :
    (parseFilesAndBindings st skip ((name, none) :: rest) bindings fin).st = st ∧
    ((parseFilesAndBindings st skip ((name, none) :: rest) bindings fin).failure.map (·.err)) =
      some .ioError := by
  simp [parseFilesAndBindings, parseFilesAndBindings.go]

end Gin.C14
