/-
C03 (continued) — statement level: a sequence of flat binding statements, in any layout (comments
and blank lines between statements, any layout inside the values), is recovered exactly, in order.

The tokens of a scoped name are taken as given together with the fact that `parseSelector` accepts
them (what it accepts is characterised by `selector_must_be_contiguous` / `selector_components_valid`
in `C03.lean`; its final check slices the physical line, which is string-level glue).
-/
import Gin.Lemmas.Parser
import Gin.Props.C03

namespace Gin.Parser

def newlineTok : Token := { kind := .newline }
def endTok : Token := { kind := .endmarker }

/-! ### the fuel of a statement suffices for every rendered literal -/

mutual
  theorem size_le (l : L) : size l + 1 ≤ 3 * (render l).length := by
    match l with
    | .atom v j => simp [size, render]; omega
    | .list j0 items final j =>
      have h1 := sizeItems_le items
      have h2 := sizeFinal_le final
      simp only [size, render, List.length_cons, List.length_append]
      omega
    | .tuple0 j0 j => simp only [size, render, List.length_cons, List.length_append]; omega
    | .tuple j0 f n1 items final j =>
      have h0 := size_le f
      have h1 := sizeItems_le items
      have h2 := sizeFinal_le final
      simp only [size, render, List.length_cons, List.length_append]
      omega
    | .paren j0 x j =>
      have h0 := size_le x
      simp only [size, render, List.length_cons, List.length_append]
      omega
    | .natom j1 v j => simp only [size, render, List.length_cons, List.length_append]; omega
    | .strs s0 j0 more => simp only [size, render, List.length_cons, List.length_append]; omega
    | .dict j0 entries final j =>
      have h1 := sizeEntries_le entries
      have h2 := sizeDFinal_le final
      simp only [size, render, List.length_cons, List.length_append]
      omega
  theorem sizeEntries_le (entries : List (L × List Bool × L × List Bool)) :
      sizeEntries entries ≤ 3 * (renderEntries entries).length := by
    match entries with
    | [] => simp [sizeEntries]
    | (k, a, v, b) :: rest =>
      have h0 := size_le k
      have h1 := size_le v
      have h2 := sizeEntries_le rest
      simp only [sizeEntries, renderEntries, List.length_cons, List.length_append]
      omega
  theorem sizeDFinal_le (final : Option (L × List Bool × L)) :
      sizeDFinal final ≤ 3 * (renderDFinal final).length := by
    match final with
    | none => simp [sizeDFinal]
    | some (k, a, v) =>
      have h0 := size_le k
      have h1 := size_le v
      simp only [sizeDFinal, renderDFinal, List.length_cons, List.length_append]
      omega
  theorem sizeItems_le (items : List (L × List Bool)) : sizeItems items ≤ 3 * (renderItems items).length := by
    match items with
    | [] => simp [sizeItems]
    | (l, n) :: rest =>
      have h0 := size_le l
      have h1 := sizeItems_le rest
      simp only [sizeItems, renderItems, List.length_cons, List.length_append]
      omega
  theorem sizeFinal_le (final : Option L) : sizeFinal final ≤ 3 * (renderFinal final).length := by
    match final with
    | none => simp [sizeFinal]
    | some l =>
      have h0 := size_le l
      simp only [sizeFinal, renderFinal]
      omega
end

/-! ### one flat binding statement -/

/-- the tokens of a scoped name, as accepted by `parseSelector` in front of `=` -/
structure KeyToks (toks : List Token) (key : String) (line : Nat) : Prop where
  clean : Clean toks
  first : ∃ t rest, toks = t :: rest ∧ t.kind = .name ∧ t.srow = line
  parses : ∀ r, Clean r →
    parseSelector false true false (toks ++ opTok "=" :: r) = .ok (key, opTok "=" :: r)

/-- a flat binding with all its layout: trivia before it, the name tokens, the laid-out value -/
structure BindL where
  pre : List Bool
  toks : List Token
  key : String
  line : Nat
  value : L

def BindL.stmt (b : BindL) : PStmt :=
  .binding (splitKey b.key).1 (splitKey b.key).2.1 (splitKey b.key).2.2 (val b.value) b.line

def BindL.render (b : BindL) : List Token :=
  triv b.pre ++ (b.toks ++ opTok "=" :: (Gin.Parser.render b.value ++ [newlineTok]))

def renderAll : List BindL → List Token
  | [] => []
  | b :: bs => b.render ++ renderAll bs

theorem BindL.render_clean (b : BindL) (hk : KeyToks b.toks b.key b.line) : Clean b.render :=
  clean_append (triv_clean _) (clean_append hk.clean (clean_cons rfl
    (clean_append (Gin.Parser.render_clean _) (clean_cons rfl (fun _ h => by cases h)))))

theorem renderAll_clean (bs : List BindL) (hk : ∀ b ∈ bs, KeyToks b.toks b.key b.line) :
    Clean (renderAll bs) := by
  induction bs with
  | nil => intro t ht; cases ht
  | cons b bs ih =>
    exact clean_append (b.render_clean (hk b (by simp))) (ih (fun x hx => hk x (by simp [hx])))

/-- One statement: whatever trivia precedes it and however its value is laid out, `parse_statement`
    yields exactly the binding it spells and stops at the end of its line. -/
theorem parseStatement_binding (b : BindL) (hk : KeyToks b.toks b.key b.line) (r : List Token)
    (hr : Clean r) :
    parseStatement false (b.render ++ r) = .ok (some ([b.stmt], newlineTok :: r, true)) := by
  obtain ⟨t, rest, htoks, hname, hline⟩ := hk.first
  have hvclean : Clean (Gin.Parser.render b.value ++ newlineTok :: r) :=
    clean_append (Gin.Parser.render_clean _) (clean_cons rfl hr)
  have hall : Clean (b.render ++ r) := clean_append (b.render_clean hk) hr
  have hskip : ¬ skippable false t = true := by simp [skippable, hname]
  -- 1. leading trivia is skipped and the name is reached
  have hdrop : dropTriv false (b.render ++ r) =
      b.toks ++ opTok "=" :: (Gin.Parser.render b.value ++ newlineTok :: r) := by
    simp only [BindL.render, List.append_assoc, List.cons_append, List.nil_append, dropTriv_triv false]
    rw [htoks]
    exact dropTriv_cons_of_not false _ _ (by simpa using hskip)
  have hcur : cur (b.toks ++ opTok "=" :: (Gin.Parser.render b.value ++ newlineTok :: r)) = t := by
    rw [htoks]; rfl
  unfold parseStatement
  simp only [Bool.false_eq_true, if_false, skipWs_clean false _ hall, hdrop, hcur, hname, hline]
  have hne : (TKind.name == TKind.endmarker) = false := by decide
  have hnotempty : (b.toks ++ opTok "=" :: (Gin.Parser.render b.value ++ newlineTok :: r)).isEmpty = false := by
    rw [htoks]; rfl
  simp only [hne, hnotempty, Bool.or_self, Bool.false_eq_true, if_false]
  -- 2. the scoped name, `=`, the value, the end of the line
  rw [hk.parses _ hvclean]
  have heq : ((cur (opTok "=" :: (Gin.Parser.render b.value ++ newlineTok :: r))).str == "=" &&
      (cur (opTok "=" :: (Gin.Parser.render b.value ++ newlineTok :: r))).kind == TKind.op) = true := by
    simp [cur_cons, opTok]
  simp only [heq, if_true, advOne_cons _ _ hvclean]
  have hfuel : size b.value ≤ 3 * (Gin.Parser.render b.value ++ newlineTok :: r).length + 3 := by
    have := size_le b.value
    simp only [List.length_append]; omega
  have hns : NoStr false (newlineTok :: r) := by
    unfold NoStr
    rw [dropTriv_cons_of_not false _ _ (by simp [skippable, newlineTok])]
    simp [cur_cons, newlineTok]
  rw [parse_render false b.value _ (newlineTok :: r) (clean_cons rfl hr) hns hfuel]
  have hnl : dropTriv false (newlineTok :: r) = newlineTok :: r :=
    dropTriv_cons_of_not false _ _ (by simp [skippable, newlineTok])
  simp only [hnl, finishStmt, cur_cons, BindL.stmt]
  simp [isEnd, newlineTok]

/-- the deferred advance of the previous statement just steps over its NEWLINE -/
theorem parseStatement_pending (ts : List Token) (hc : Clean ts) :
    parseStatement true (newlineTok :: ts) = parseStatement false ts := by
  unfold parseStatement
  simp [advOne_cons _ _ hc]

/-- at the end of the text (trailing comments / blank lines, then ENDMARKER) parsing stops -/
theorem parseStatement_end (post : List Bool) :
    parseStatement false (triv post ++ [endTok]) = .ok none := by
  have hc : Clean (triv post ++ [endTok]) :=
    clean_append (triv_clean _) (clean_cons rfl (fun _ h => by cases h))
  have : dropTriv false [endTok] = [endTok] := dropTriv_cons_of_not false _ _ (by simp [skippable, endTok])
  unfold parseStatement
  simp only [Bool.false_eq_true, if_false, skipWs_clean false _ hc, dropTriv_triv false, this, cur_cons]
  simp [endTok]

/-- **Statement-level completeness for flat bindings.**  Any sequence of binding statements, each
    preceded by arbitrary comments and blank lines and with its value in any layout, followed by
    trailing trivia, is read as exactly those bindings, in order, without error. -/
theorem parseAll_bindings (bs : List BindL) (hk : ∀ b ∈ bs, KeyToks b.toks b.key b.line)
    (post : List Bool) (acc : List PStmt) (n : Nat) (hn : bs.length < n) :
    parseAll n false (renderAll bs ++ (triv post ++ [endTok])) acc = (acc ++ bs.map BindL.stmt, none) ∧
    parseAll n true (newlineTok :: (renderAll bs ++ (triv post ++ [endTok]))) acc =
        (acc ++ bs.map BindL.stmt, none) := by
  have hend : Clean (triv post ++ [endTok]) :=
    clean_append (triv_clean _) (clean_cons rfl (fun _ h => by cases h))
  induction bs generalizing acc n with
  | nil =>
    cases n with
    | zero => simp at hn
    | succ n =>
      have h1 : parseAll (n + 1) false (renderAll [] ++ (triv post ++ [endTok])) acc = (acc ++ [], none) := by
        simp only [renderAll, List.nil_append, parseAll, parseStatement_end, List.append_nil]
      refine ⟨by simpa using h1, ?_⟩
      simp only [renderAll, List.nil_append, parseAll, parseStatement_pending _ hend,
        parseStatement_end, List.map_nil, List.append_nil]
  | cons b bs ih =>
    cases n with
    | zero => simp at hn
    | succ n =>
      have hk' : ∀ x ∈ bs, KeyToks x.toks x.key x.line := fun x hx => hk x (by simp [hx])
      have hrest : Clean (renderAll bs ++ (triv post ++ [endTok])) :=
        clean_append (renderAll_clean bs hk') hend
      have hstep := parseStatement_binding b (hk b (by simp)) _ hrest
      have ihb := (ih hk' (acc ++ [b.stmt]) n (by simp at hn; omega)).2
      have h1 : parseAll (n + 1) false (renderAll (b :: bs) ++ (triv post ++ [endTok])) acc =
          (acc ++ (b :: bs).map BindL.stmt, none) := by
        simp only [renderAll, List.append_assoc, parseAll, hstep, ihb, List.map_cons]
        simp
      refine ⟨h1, ?_⟩
      have hallc : Clean (renderAll (b :: bs) ++ (triv post ++ [endTok])) :=
        clean_append (renderAll_clean _ hk) hend
      simp only [parseAll, parseStatement_pending _ hallc]
      simp only [renderAll, List.append_assoc, hstep, ihb, List.map_cons]
      simp

end Gin.Parser

namespace Gin.C03
open Gin Gin.Parser

/-- Two layouts of the same flat bindings (different comments and blank lines between the statements,
    different layouts inside the values, different trailing trivia) are read as the same statements. -/
theorem flat_layouts_agree (bs₁ bs₂ : List BindL)
    (h₁ : ∀ b ∈ bs₁, KeyToks b.toks b.key b.line) (h₂ : ∀ b ∈ bs₂, KeyToks b.toks b.key b.line)
    (hsame : bs₁.map BindL.stmt = bs₂.map BindL.stmt) (post₁ post₂ : List Bool) :
    parseAll (bs₁.length + 1) false (renderAll bs₁ ++ (triv post₁ ++ [endTok])) [] =
    parseAll (bs₂.length + 1) false (renderAll bs₂ ++ (triv post₂ ++ [endTok])) [] := by
  rw [(parseAll_bindings bs₁ h₁ post₁ [] _ (Nat.lt_succ_self _)).1,
      (parseAll_bindings bs₂ h₂ post₂ [] _ (Nat.lt_succ_self _)).1, hsame]

end Gin.C03

/-! ### non-vacuity: a concrete scoped name meets `KeyToks`, and a concrete two-statement text -/

namespace Gin.Parser

theorem go_name (n : Nat) (parts : List String) (e : Nat) (t : Token) (ts : List Token)
    (hk : t.kind = .name) (hc : Clean ts) :
    parseSelector.go (n + 1) true parts e (t :: ts) = parseSelector.go n false (parts ++ [t.str]) t.ecol ts := by
  simp [parseSelector.go, cur_cons, hk, advOne_cons t ts hc]

theorem go_sep (n : Nat) (parts : List String) (e : Nat) (t : Token) (ts : List Token)
    (hk : t.kind = .op) (hs : t.str = "/" ∨ t.str = ".") (hc : Clean ts) :
    parseSelector.go (n + 1) false parts e (t :: ts) = parseSelector.go n true (parts ++ [t.str]) t.ecol ts := by
  have : (t.str == "/" || t.str == ".") = true := by
    rcases hs with h | h <;> simp [h]
  simp [parseSelector.go, cur_cons, hk, this, advOne_cons t ts hc]

theorem go_stop (n : Nat) (parts : List String) (e : Nat) (t : Token) (ts : List Token)
    (hs : (t.kind == .op && (t.str == "/" || t.str == ".")) = false) :
    parseSelector.go (n + 1) false parts e (t :: ts) = .ok (parts, e, t :: ts) := by
  have h' : (t.kind == TKind.op && (t.str == "/" || t.str == ".")) = false := hs
  unfold parseSelector.go
  simp only [cur_cons, Bool.false_and, Bool.false_or, Bool.not_false, Bool.true_and]
  split
  · rename_i hc
    rw [h'] at hc; cases hc
  · rfl

def demoLine : String := "a/m.x = [1]"
def dnm (s : String) (c0 c1 : Nat) : Token :=
  { kind := .name, str := s, srow := 1, scol := c0, ecol := c1, line := demoLine }
def dop (s : String) (c0 c1 : Nat) : Token :=
  { kind := .op, str := s, srow := 1, scol := c0, ecol := c1, line := demoLine }
/-- the tokens of `a/m.x` as Python's tokenizer positions them -/
def demoKey : List Token := [dnm "a" 0 1, dop "/" 1 2, dnm "m" 2 3, dop "." 3 4, dnm "x" 4 5]

theorem demoKey_check :
    checkSelector (String.join ["a", "/", "m", ".", "x"]) (sliceLine demoLine 0 5) true false = true ∧
    String.join ["a", "/", "m", ".", "x"] = "a/m.x" := by decide +kernel

theorem demoKey_ok : KeyToks demoKey "a/m.x" 1 where
  clean := by
    intro t ht
    simp only [demoKey, List.mem_cons, List.not_mem_nil, or_false] at ht
    rcases ht with rfl | rfl | rfl | rfl | rfl <;> rfl
  first := ⟨_, _, rfl, rfl, rfl⟩
  parses := by
    intro r hr
    have c0 : Clean (opTok "=" :: r) := clean_cons rfl hr
    have c1 : Clean (dnm "x" 4 5 :: opTok "=" :: r) := clean_cons rfl c0
    have c2 : Clean (dop "." 3 4 :: dnm "x" 4 5 :: opTok "=" :: r) := clean_cons rfl c1
    have c3 : Clean (dnm "m" 2 3 :: dop "." 3 4 :: dnm "x" 4 5 :: opTok "=" :: r) := clean_cons rfl c2
    have c4 : Clean (dop "/" 1 2 :: dnm "m" 2 3 :: dop "." 3 4 :: dnm "x" 4 5 :: opTok "=" :: r) := clean_cons rfl c3
    unfold parseSelector
    simp only [demoKey, List.cons_append, List.nil_append, cur_cons, List.length_cons]
    rw [go_name _ _ _ _ _ rfl c4, go_sep _ _ _ _ _ rfl (Or.inl rfl) c3, go_name _ _ _ _ _ rfl c2,
        go_sep _ _ _ _ _ rfl (Or.inr rfl) c1, go_name _ _ _ _ _ rfl c0, go_stop _ _ _ _ _ (by rfl)]
    have hd : dropTriv false (opTok "=" :: r) = opTok "=" :: r :=
      dropTriv_cons_of_not false _ _ (by simp [skippable, opTok])
    simp only [skipWs_clean false _ c0, hd, List.nil_append, List.cons_append]
    have h := demoKey_check
    simp only [dnm, dop]
    rw [h.2] at h
    simp [h.1]

/-- `# c ⏎ a/m.x = [ ⏎ 1, ]` then a blank line: read as the one binding `a / m . x = [1]` -/
example :
    let b : BindL := { pre := [true, false], toks := demoKey, key := "a/m.x", line := 1,
                       value := .list [false] [(.atom (.int 1) [], [])] none [] }
    parseAll 2 false (renderAll [b] ++ (triv [false] ++ [endTok])) [] = ([b.stmt], none) := by
  intro b
  have := (parseAll_bindings [b] (by intro x hx; simp at hx; subst hx; exact demoKey_ok) [false] [] 2 (by simp)).1
  simpa using this

end Gin.Parser
