/-
C06 (continued) — the round trip: re-binding what the config string prints — (scope, printed name, parameter,
value) for every section line, (macro name, value) for every macro line — into a cleared configuration restores
exactly the literally representable bindings of the store, under the same scope, configurable and parameter.
-/
import Gin.Lemmas.Replay
import Gin.Props.C08b
import Gin.Props.C06
import Gin.Serialize
import Gin.Machine

namespace Gin.C06
open Gin Gin.AList Gin.SelMap Gin.C08

/-- a name that addresses exactly one stored entry resolves to it -/
theorem getMatch_of_unique {α : Type} (m : SelMap α) (h : Inv m) (q s : Sel)
    (huniq : ∀ k, Matches m q k ↔ k = s) : ∃ v, m.getMatch q = .one s v ∧ m.get? s = some v := by
  have hspec := getMatch_spec m h q
  cases hgm : m.getMatch q with
  | none =>
    rw [hgm] at hspec
    exact absurd ((huniq s).2 rfl) (hspec s)
  | one s' v =>
    rw [hgm] at hspec
    have : s' = s := (huniq s').1 hspec.1
    subst this
    exact ⟨v, rfl, hspec.2.2⟩
  | ambiguous ms =>
    rw [hgm] at hspec
    obtain ⟨a, b, hab, ha, hb⟩ := hspec
    exact absurd (((huniq a).1 ha).trans ((huniq b).1 hb).symm) hab

/-- if a suffix of `s` addresses `s` alone, so does every longer suffix of `s` -/
theorem longer_suffix_unique {α : Type} (m : SelMap α) (q q' s : Sel) (hs : s ∈ m.keys)
    (hqq' : q <:+ q') (hq's : q' <:+ s) (huniq : ∀ k, Matches m q k ↔ k = s) :
    ∀ k, Matches m q' k ↔ k = s := by
  intro k
  by_cases hq : q ∈ m.keys
  · -- q is itself stored: it addresses only itself, so q = s, and q' is squeezed between them
    have hsq : s = q := by
      have := (huniq s).2 rfl
      simpa [Matches, hq] using this
    subst hsq
    have hq'eq : q' = s := List.IsSuffix.eq_of_length_le hq's (List.IsSuffix.length_le hqq')
    subst hq'eq
    simp [Matches, hq]
  · have hkey : ∀ k', k' ∈ m.keys → q <:+ k' → k' = s := by
      intro k' hk' hsuf
      exact (huniq k').1 (by simp [Matches, hq, hk', hsuf])
    by_cases hq' : q' ∈ m.keys
    · have : q' = s := hkey q' hq' hqq'
      subst this
      simp [Matches, hq']
    · simp only [Matches, hq', if_false]
      constructor
      · rintro ⟨hk, hsuf⟩
        exact hkey k hk (hqq'.trans hsuf)
      · rintro rfl
        exact ⟨hs, hq's⟩

/-- The name a section is printed under resolves back to the configurable of that section (and carries the
    class name when the configurable is a method). -/
theorem printed_resolves (st : State) (hinv : Inv st.registry) (full : Sel) (hs : full ∈ st.registry.keys)
    (hne : full ≠ [])
    (hmeth : ∀ e, st.registry.get? full = some e → e.cfg.isMethod = true → 2 ≤ full.length) :
    ∃ e, st.registry.getMatch (printedSelector st full) = .one full e ∧ st.registry.get? full = some e ∧
      (e.cfg.isMethod = true → 2 ≤ (printedSelector st full).length) := by
  obtain ⟨q, hq, hsuf, hqne, huniq, _⟩ := minimal_spec st.registry hinv full hs hne
  obtain ⟨e, hgm, hget⟩ := getMatch_of_unique st.registry hinv q full huniq
  unfold printedSelector
  simp only [hq, hget]
  by_cases hm : e.cfg.isMethod = true
  · have h2 := hmeth e hget hm
    by_cases hlen : q.length < 2
    · simp only [hm, hlen, decide_true, Bool.and_self, if_true]
      -- the last two components: a longer suffix of `full` than `q`
      have hq' : (full.drop (full.length - 2)) <:+ full := List.drop_suffix _ _
      have hqlen : (full.drop (full.length - 2)).length = 2 := by simp; omega
      have hqq' : q <:+ full.drop (full.length - 2) := by
        obtain ⟨pre, hpre⟩ := hsuf
        obtain ⟨pre', hpre'⟩ := hq'
        -- both are suffixes of `full`; the shorter is a suffix of the longer
        exact List.suffix_of_suffix_length_le ⟨pre, hpre⟩ ⟨pre', hpre'⟩ (by omega)
      have hu' := longer_suffix_unique st.registry q _ full hs hqq' hq' huniq
      obtain ⟨e', hgm', hget'⟩ := getMatch_of_unique st.registry hinv _ full hu'
      have : e' = e := by rw [hget] at hget'; exact (Option.some.inj hget').symm
      subst this
      exact ⟨e', hgm', rfl, fun _ => by omega⟩
    · have : ¬ (decide (q.length < 2) = true) := by simpa using hlen
      simp only [hm, this, Bool.and_false, Bool.false_eq_true, if_false]
      exact ⟨e, hgm, rfl, fun _ => by omega⟩
  · have hmf : e.cfg.isMethod = false := by simpa using hm
    simp only [hmf, Bool.false_and, Bool.false_eq_true, if_false]
    exact ⟨e, hgm, rfl, fun h => by rw [hmf] at h; cases h⟩

/-! ### what the text prints, as (key, value) pairs -/

/-- the macro lines, with the scope kept as a list -/
def macroKeys (st : State) (s : Store) : List (Scope × Val) :=
  (sortBy (fun a b => keyLe st a.1 b.1) s).filterMap (fun kv =>
    if kv.1.2 == State.macroSel then
      match AList.lookup "value" kv.2 with
      | some v => if v.representable then some (kv.1.1, v) else none
      | none => none
    else none)

/-- every line of the config string as the binding it spells: `name = v` for a macro line,
    `scope/printed.param = v` for a section line -/
def replayKeys (st : State) (s : Store) : List (Key × Val) :=
  (macroKeys st s).map (fun x => ({ scope := x.1, sel := State.macroSel, arg := "value" }, x.2)) ++
  (emitDoc st s).sections.flatMap (fun sec =>
    sec.params.map (fun pv => ({ scope := sec.scope, sel := sec.printed, arg := pv.1 }, pv.2)))

/-- the macro section of the document is `macroKeys` with the scope joined -/
theorem macros_eq (st : State) (s : Store) :
    (emitDoc st s).macros = (macroKeys st s).map (fun x => ("/".intercalate x.1, x.2)) := by
  simp only [emitDoc, macroKeys, List.map_filterMap]
  congr 1
  funext kv
  by_cases h : (kv.1.2 == State.macroSel) = true
  · simp only [h, if_true]
    cases AList.lookup "value" kv.2 with
    | none => rfl
    | some v => by_cases hr : v.representable = true <;> simp [hr]
  · simp [h]

/-- what the store must satisfy — and does, when it was built by `bind` on this registry: keys are unique, a
    macro entry holds only `value`, every other entry belongs to a registered configurable all of whose bound
    parameters are (still) configurable -/
structure StoreOK (st : State) (s : Store) : Prop where
  nodup : (AList.keys s).Nodup
  pnodup : ∀ kv ∈ s, (AList.keys kv.2).Nodup
  noConst : ∀ kv ∈ s, kv.1.2 ≠ State.constSel
  macroOnlyValue : ∀ kv ∈ s, kv.1.2 = State.macroSel → ∀ pv ∈ kv.2, pv.1 = "value"
  bindable : ∀ kv ∈ s, kv.1.2 ≠ State.macroSel → ∃ e, st.registry.get? kv.1.2 = some e ∧ kv.1.2 ≠ [] ∧
      (e.cfg.isMethod = true → 2 ≤ kv.1.2.length) ∧
      ∀ pv ∈ kv.2, e.cfg.byKeyword pv.1 = true ∧ e.cfg.listed pv.1 = true
  macroReg : ∃ e, st.registry.getMatch State.macroSel = .one State.macroSel e ∧ e.cfg.isMethod = false ∧
      e.cfg.byKeyword "value" = true ∧ e.cfg.listed "value" = true

theorem lookup_of_mem {κ α : Type} [DecidableEq κ] : ∀ (l : AList κ α) (k : κ) (v : α),
    (AList.keys l).Nodup → (k, v) ∈ l → lookup k l = some v
  | [], _, _, _, h => by cases h
  | (k', v') :: rest, k, v, hn, h => by
    simp only [AList.keys, List.map_cons, List.nodup_cons] at hn
    rcases List.mem_cons.1 h with heq | hr
    · cases heq; simp [lookup]
    · have hne : k ≠ k' := by
        rintro rfl
        exact hn.1 (List.mem_map.2 ⟨(k, v), hr, rfl⟩)
      have hne' : ¬ k' = k := fun h => hne h.symm
      simp only [lookup, hne', if_false]
      exact lookup_of_mem rest k v hn.2 hr

/-- the normal form of a printed key under the registry of `st` -/
def nfOf (st : State) (k : Key) : Scope × Sel × String :=
  match st.registry.getMatch k.sel with
  | .one full _ => (k.scope, full, k.arg)
  | _ => (k.scope, k.sel, k.arg)

theorem getP_of_mem (s : Store) (hn : (AList.keys s).Nodup) (kv : (Scope × Sel) × AList String Val) (hkv : kv ∈ s)
    (hpn : (AList.keys kv.2).Nodup) (pv : String × Val) (hpv : pv ∈ kv.2) : getP s kv.1 pv.1 = some pv.2 := by
  unfold getP
  rw [lookup_of_mem s kv.1 kv.2 hn hkv]
  simp only [Option.bind_some]
  exact lookup_of_mem kv.2 pv.1 pv.2 hpn hpv

theorem mem_of_getP (s : Store) (key : Scope × Sel) (p : String) (v : Val) (h : getP s key p = some v) :
    ∃ params, (key, params) ∈ s ∧ (p, v) ∈ params := by
  unfold getP at h
  cases hl : lookup key s with
  | none => simp [hl] at h
  | some params =>
    simp only [hl, Option.bind_some] at h
    exact ⟨params, mem_of_lookup s key params hl, mem_of_lookup params p v h⟩

/-- every printed line parses back to the store entry it was printed from -/
theorem replayKeys_sound (st : State) (hinv : Inv st.registry) (s : Store) (hok : StoreOK st s)
    (kv : Key × Val) (hkv : kv ∈ replayKeys st s) :
    st.parseKey kv.1 = .ok (nfOf st kv.1) ∧
    getP s ((nfOf st kv.1).1, (nfOf st kv.1).2.1) (nfOf st kv.1).2.2 = some kv.2 ∧ kv.2.representable = true := by
  unfold replayKeys at hkv
  rcases List.mem_append.1 hkv with hm | hsec
  · -- a macro line
    obtain ⟨x, hx, rfl⟩ := List.mem_map.1 hm
    obtain ⟨skv, hskv, hf⟩ := List.mem_filterMap.1 hx
    have hmem : skv ∈ s := (mem_sortBy _ skv s).1 hskv
    by_cases hms : (skv.1.2 == State.macroSel) = true
    · simp only [hms, if_true] at hf
      cases hlv : AList.lookup "value" skv.2 with
      | none => simp [hlv] at hf
      | some v =>
        simp only [hlv] at hf
        by_cases hr : v.representable = true
        · simp only [hr, if_true, Option.some.injEq] at hf
          subst hf
          obtain ⟨e, hgm, hnm, hmh, hli⟩ := hok.macroReg
          have hsel : skv.1.2 = State.macroSel := by simpa using hms
          have hnf : nfOf st { scope := skv.1.1, sel := State.macroSel, arg := "value" } =
              (skv.1.1, State.macroSel, "value") := by simp [nfOf, hgm]
          refine ⟨?_, ?_, hr⟩
          · simp only [hnf]
            simp [State.parseKey, hgm, hnm, hmh, hli]
          · simp only [hnf]
            have hk : skv.1 = (skv.1.1, State.macroSel) := Prod.ext rfl hsel
            have := getP_of_mem s hok.nodup skv hmem (hok.pnodup skv hmem) ("value", v)
              (mem_of_lookup skv.2 "value" v hlv)
            rw [hk] at this
            exact this
        · simp [hr] at hf
    · simp [hms] at hf
  · -- a section line
    obtain ⟨sec, hsec', hpv⟩ := List.mem_flatMap.1 hsec
    obtain ⟨pv, hpv', rfl⟩ := List.mem_map.1 hpv
    simp only [emitDoc] at hsec'
    obtain ⟨skv, hskv, hf⟩ := List.mem_filterMap.1 hsec'
    have hmem : skv ∈ s := (mem_sortBy _ skv s).1 hskv
    by_cases hmc : (skv.1.2 == State.macroSel || skv.1.2 == State.constSel) = true
    · simp [hmc] at hf
    · simp only [hmc, Bool.false_eq_true, if_false, Option.some.injEq] at hf
      subst hf
      simp only at hpv'
      have hpv2 : pv ∈ skv.2.filter (fun pv => pv.2.representable) := (mem_sortBy _ pv _).1 hpv'
      obtain ⟨hpin, hrep⟩ := List.mem_filter.1 hpv2
      have hnm : skv.1.2 ≠ State.macroSel := by
        intro he; apply hmc; simp [he]
      obtain ⟨e, hget, hne, hmeth, hall⟩ := hok.bindable skv hmem hnm
      have hkeys : skv.1.2 ∈ st.registry.keys :=
        (lookup_isSome_iff skv.1.2 st.registry.map).1 (by
          have : AList.lookup skv.1.2 st.registry.map = some e := hget
          simp [this])
      obtain ⟨e', hgm, hget', hlen⟩ := printed_resolves st hinv skv.1.2 hkeys hne
        (fun e0 h0 hm0 => by
          have : e0 = e := by rw [hget] at h0; exact (Option.some.inj h0).symm
          subst this; exact hmeth hm0)
      have he : e' = e := by rw [hget] at hget'; exact (Option.some.inj hget').symm
      subst he
      obtain ⟨hmh, hli⟩ := hall pv hpin
      have hnf : nfOf st { scope := skv.1.1, sel := printedSelector st skv.1.2, arg := pv.1 } =
          (skv.1.1, skv.1.2, pv.1) := by simp [nfOf, hgm]
      refine ⟨?_, ?_, hrep⟩
      · simp only [hnf]
        by_cases hm : e'.cfg.isMethod = true
        · have := hlen hm
          have hlt : ¬ (printedSelector st skv.1.2).length < 2 := by omega
          simp [State.parseKey, hgm, hm, hlt, hmh, hli]
        · have hmf : e'.cfg.isMethod = false := by simpa using hm
          simp [State.parseKey, hgm, hmf, hmh, hli]
      · simp only [hnf]
        exact getP_of_mem s hok.nodup skv hmem (hok.pnodup skv hmem) pv hpin

/-- every representable binding of the store is printed -/
theorem replayKeys_complete (st : State) (hinv : Inv st.registry) (s : Store) (hok : StoreOK st s)
    (key : Scope × Sel) (p : String) (v : Val) (hg : getP s key p = some v) (hr : v.representable = true) :
    ∃ kv ∈ replayKeys st s, nfOf st kv.1 = (key.1, key.2, p) := by
  obtain ⟨params, hkp, hpv⟩ := mem_of_getP s key p v hg
  have hsorted : (key, params) ∈ sortBy (fun a b => keyLe st a.1 b.1) s := (mem_sortBy _ _ s).2 hkp
  by_cases hm : key.2 = State.macroSel
  · -- a macro: its only parameter is `value`
    have hp : p = "value" := hok.macroOnlyValue (key, params) hkp hm (p, v) hpv
    subst hp
    have hlv : AList.lookup "value" params = some v :=
      lookup_of_mem params "value" v (hok.pnodup (key, params) hkp) hpv
    obtain ⟨e, hgm, _, _, _⟩ := hok.macroReg
    refine ⟨({ scope := key.1, sel := State.macroSel, arg := "value" }, v), ?_, ?_⟩
    · unfold replayKeys
      apply List.mem_append_left
      refine List.mem_map.2 ⟨(key.1, v), ?_, rfl⟩
      unfold macroKeys
      refine List.mem_filterMap.2 ⟨(key, params), hsorted, ?_⟩
      simp [hm, hlv, hr]
    · show nfOf st { scope := key.1, sel := State.macroSel, arg := "value" } = (key.1, key.2, "value")
      simp only [nfOf, hgm, hm]
  · have hnc : key.2 ≠ State.constSel := hok.noConst (key, params) hkp
    obtain ⟨e, hget, hne, hmeth, hall⟩ := hok.bindable (key, params) hkp hm
    have hkeys : key.2 ∈ st.registry.keys :=
      (lookup_isSome_iff key.2 st.registry.map).1 (by
        have : AList.lookup key.2 st.registry.map = some e := hget
        simp [this])
    obtain ⟨e', hgm, _, _⟩ := printed_resolves st hinv key.2 hkeys hne
      (fun e0 h0 hm0 => by
        have : e0 = e := by rw [hget] at h0; exact (Option.some.inj h0).symm
        subst this; exact hmeth hm0)
    refine ⟨({ scope := key.1, sel := printedSelector st key.2, arg := p }, v), ?_, ?_⟩
    · unfold replayKeys
      apply List.mem_append_right
      refine List.mem_flatMap.2 ⟨Section.mk key.1 (printedSelector st key.2)
          (sortBy (fun a b => a.1 ≤ b.1) (params.filter (fun pv => pv.2.representable))), ?_, ?_⟩
      · simp only [emitDoc]
        refine List.mem_filterMap.2 ⟨(key, params), hsorted, ?_⟩
        have h1 : (key.2 == State.macroSel) = false := by simpa using hm
        have h2 : (key.2 == State.constSel) = false := by simpa using hnc
        simp [h1, h2]
      · refine List.mem_map.2 ⟨(p, v), ?_, rfl⟩
        exact (mem_sortBy _ _ _).2 (List.mem_filter.2 ⟨hpv, by simpa using hr⟩)
    · show nfOf st { scope := key.1, sel := printedSelector st key.2, arg := p } = (key.1, key.2, p)
      simp only [nfOf, hgm]

/-- **Round trip.** Re-binding every line the config string prints — each under the name it is printed under —
    into the cleared configuration succeeds, and afterwards every (scope, configurable, parameter) holds exactly
    what the store held if that value has a literal form, and nothing otherwise. -/
theorem config_str_roundtrip (st : State) (hinv : Inv st.registry) (hl : st.locked = false)
    (hok : StoreOK st st.config) :
    ∃ st', bindAll { st with config := [], prov := [] } (replayKeys st st.config) = .ok st' ∧
      ∀ key p, getP st'.config key p = (getP st.config key p).filter (fun v => v.representable) := by
  let st0 : State := { st with config := [], prov := [] }
  have hreg : st0.registry = st.registry := rfl
  obtain ⟨st', hb, _, _, hfin⟩ := bindAll_spec (nfOf st) (replayKeys st st.config) st0 hl
    (fun kv hkv => by
      rw [parseKey_congr hreg]
      exact (replayKeys_sound st hinv st.config hok kv hkv).1)
  refine ⟨st', hb, ?_⟩
  intro key p
  rw [hfin key p]
  have hinit : getP st0.config key p = none := by simp [st0, getP, lookup]
  rw [hinit]
  -- all lines addressing (key, p) carry the store's value
  have hsame : ∀ kv ∈ replayKeys st st.config, nfOf st kv.1 = (key.1, key.2, p) →
      getP st.config key p = some kv.2 ∧ kv.2.representable = true := by
    intro kv hkv hnf
    have := replayKeys_sound st hinv st.config hok kv hkv
    rw [hnf] at this
    exact ⟨this.2.1, this.2.2⟩
  cases hg : getP st.config key p with
  | none =>
    simp only [Option.filter_none]
    apply lastFor_none
    intro kv hkv hnf
    have := (hsame kv hkv hnf).1
    rw [hg] at this; cases this
  | some v =>
    by_cases hr : v.representable = true
    · simp only [Option.filter_some, hr, if_true]
      apply lastFor_consistent (nfOf st) _ v
      · intro kv hkv hnf
        have := (hsame kv hkv hnf).1
        rw [hg] at this
        exact (Option.some.inj this).symm
      · left
        exact replayKeys_complete st hinv st.config hok key p v hg hr
    · simp only [Option.filter_some, hr, Bool.false_eq_true, if_false]
      apply lastFor_none
      intro kv hkv hnf
      obtain ⟨h1, h2⟩ := hsame kv hkv hnf
      rw [hg] at h1
      have : kv.2 = v := (Option.some.inj h1).symm
      rw [this] at h2
      exact hr h2

/-! ### the hypothesis holds for every configuration reachable by binding -/

/-- what the registry must satisfy (it does from the start and after ordinary registrations): the trie invariant,
    no empty name, `gin.macro` takes exactly `value`, `gin.constant` takes nothing -/
structure RegOK (st : State) : Prop where
  inv : Inv st.registry
  nonempty : ∀ k ∈ st.registry.keys, k ≠ []
  macroReg : ∃ e, st.registry.getMatch State.macroSel = .one State.macroSel e ∧ e.cfg.isMethod = false ∧
      e.cfg.listed "value" = true ∧ ∀ p, e.cfg.byKeyword p = true ↔ p = "value"
  constReg : ∀ e, st.registry.get? State.constSel = some e → ∀ p, e.cfg.byKeyword p = false

theorem storeOK_empty (st : State) (hr : RegOK st) : StoreOK st [] where
  nodup := by simp [AList.keys]
  pnodup := by intro kv h; cases h
  noConst := by intro kv h; cases h
  macroOnlyValue := by intro kv h; cases h
  bindable := by intro kv h; cases h
  macroReg := by
    obtain ⟨e, h1, h2, h3, h4⟩ := hr.macroReg
    exact ⟨e, h1, h2, (h4 "value").2 rfl, h3⟩

theorem mem_keys_of_matches {α : Type} (m : SelMap α) (q k : Sel) (h : Matches m q k) :
    k ∈ m.keys ∧ q.length ≤ k.length := by
  unfold Matches at h
  split at h
  · rename_i hq; subst h; exact ⟨hq, Nat.le_refl _⟩
  · exact ⟨h.1, List.IsSuffix.length_le h.2⟩

/-- a successful `bind` keeps the store well-formed -/
theorem storeOK_bind (st st' : State) (hr : RegOK st) (hok : StoreOK st st.config) (k : Key) (v : Val)
    (loc : Option Loc) (hb : st.bind k v loc = .ok st') :
    StoreOK st' st'.config ∧ st'.registry = st.registry ∧ st'.locked = st.locked := by
  have hreg := (bind_registry_eq st st' k v loc hb).1
  have hlock := bind_locked_eq st st' k v loc hb
  refine ⟨?_, hreg, hlock⟩
  unfold State.bind at hb
  split at hb
  · cases hb
  · split at hb
    · cases hb
    · rename_i scope full arg hpk
      simp only [Except.ok.injEq] at hb
      -- what the key resolved to
      unfold State.parseKey at hpk
      split at hpk
      · cases hpk
      · cases hpk
      · rename_i full' e hgm
        split at hpk
        · cases hpk
        · rename_i hmth
          split at hpk
          · cases hpk
          · rename_i hmh
            split at hpk
            · cases hpk
            · rename_i hli
              simp only [Except.ok.injEq, Prod.mk.injEq] at hpk
              obtain ⟨hsc, hfull, harg⟩ := hpk
              subst hsc hfull harg
              have hspec := getMatch_spec st.registry hr.inv k.sel
              rw [hgm] at hspec
              obtain ⟨hmat, _, hget⟩ := hspec
              obtain ⟨hkeys, hlen⟩ := mem_keys_of_matches st.registry k.sel full' hmat
              have hmh' : e.cfg.byKeyword k.arg = true := by simpa using hmh
              have hli' : e.cfg.listed k.arg = true := by simpa using hli
              have hmeth : e.cfg.isMethod = true → 2 ≤ full'.length := by
                intro hm
                have : ¬ (k.sel.length < 2) := by
                  intro hlt; apply hmth; simp [hm, hlt]
                omega
              subst hb
              -- the new store
              have hcfg : ∀ kv ∈ State.setParam st.config (k.scope, full') k.arg v,
                  kv = ((k.scope, full'), AList.set k.arg v (st.config.params k.scope full')) ∨ kv ∈ st.config :=
                fun kv h => mem_of_mem_set _ _ _ kv h
              have hold : ∀ pv ∈ st.config.params k.scope full',
                  ∃ d, ((k.scope, full'), d) ∈ st.config ∧ pv ∈ d := by
                intro pv hpv
                unfold Store.params at hpv
                cases hl : AList.lookup (k.scope, full') st.config with
                | none => simp [hl] at hpv
                | some d =>
                  simp only [hl, Option.getD_some] at hpv
                  exact ⟨d, mem_of_lookup _ _ _ hl, hpv⟩
              have holdnd : (AList.keys (st.config.params k.scope full')).Nodup := by
                unfold Store.params
                cases hl : AList.lookup (k.scope, full') st.config with
                | none => simp [AList.keys]
                | some d => simpa using hok.pnodup _ (mem_of_lookup _ _ _ hl)
              obtain ⟨em, hgmm, hnm, hlim, hmhm⟩ := hr.macroReg
              have hgetm : st.registry.get? State.macroSel = some em := by
                have := getMatch_spec st.registry hr.inv State.macroSel
                rw [hgmm] at this
                exact this.2.2
              constructor
              · exact nodup_keys_set _ _ _ hok.nodup
              · intro kv hkv
                rcases hcfg kv hkv with rfl | hin
                · exact nodup_keys_set _ _ _ holdnd
                · exact hok.pnodup kv hin
              · intro kv hkv
                rcases hcfg kv hkv with rfl | hin
                · intro hc
                  simp only at hc
                  rw [hc] at hget
                  have := hr.constReg e hget k.arg
                  rw [this] at hmh'; cases hmh'
                · exact hok.noConst kv hin
              · intro kv hkv hm pv hpv
                rcases hcfg kv hkv with rfl | hin
                · simp only at hm hpv
                  rcases mem_of_mem_set _ _ _ pv hpv with rfl | hpold
                  · have : e = em := by rw [hm, hgetm] at hget; exact (Option.some.inj hget).symm
                    subst this
                    exact (hmhm k.arg).1 hmh'
                  · obtain ⟨d, hd, hpd⟩ := hold pv hpold
                    exact hok.macroOnlyValue _ hd hm pv hpd
                · exact hok.macroOnlyValue kv hin hm pv hpv
              · intro kv hkv hnm'
                rcases hcfg kv hkv with rfl | hin
                · simp only at hnm' ⊢
                  refine ⟨e, hget, hr.nonempty _ hkeys, hmeth, ?_⟩
                  intro pv hpv
                  rcases mem_of_mem_set _ _ _ pv hpv with rfl | hpold
                  · exact ⟨hmh', hli'⟩
                  · obtain ⟨d, hd, hpd⟩ := hold pv hpold
                    obtain ⟨e2, hget2, _, _, hall2⟩ := hok.bindable _ hd hnm'
                    have : e2 = e := by simp only at hget2; rw [hget] at hget2; exact (Option.some.inj hget2).symm
                    subst this
                    exact hall2 pv hpd
                · exact hok.bindable kv hin hnm'
              · exact hok.macroReg

theorem regOK_congr {s t : State} (h : s.registry = t.registry) (hr : RegOK s) : RegOK t := by
  obtain ⟨h1, h2, h3, h4⟩ := hr
  exact ⟨h ▸ h1, h ▸ h2, h ▸ h3, h ▸ h4⟩

/-- any number of programmatic binds; a rejected one changes nothing -/
def bindMany (st : State) : List (Key × Val) → State
  | [] => st
  | (k, v) :: rest => match st.bind k v with
    | .ok st' => bindMany st' rest
    | .error _ => bindMany st rest

theorem storeOK_reachable (L : List (Key × Val)) : ∀ (st : State), RegOK st → StoreOK st st.config →
    StoreOK (bindMany st L) (bindMany st L).config ∧ (bindMany st L).registry = st.registry ∧
      (bindMany st L).locked = st.locked := by
  induction L with
  | nil => intro st _ hok; exact ⟨hok, rfl, rfl⟩
  | cons kv rest ih =>
    intro st hr hok
    obtain ⟨k, v⟩ := kv
    simp only [bindMany]
    cases hb : st.bind k v with
    | error e => exact ih st hr hok
    | ok st1 =>
      obtain ⟨hok1, hreg1, hl1⟩ := storeOK_bind st st1 hr hok k v none hb
      obtain ⟨h1, h2, h3⟩ := ih st1 (regOK_congr hreg1.symm hr) hok1
      exact ⟨h1, h2.trans hreg1, h3.trans hl1⟩

/-- **Round trip for every configuration reachable by binding.** Start from any unlocked state with an empty
    store over a well-formed registry, make any sequence of bind attempts (with any spellings, accepted or
    rejected, overwriting or not), print the configuration and bind the printed lines into the cleared
    configuration: every parameter then holds what it held before if that value has a literal form, and is unbound
    otherwise. -/
theorem roundtrip_reachable (st0 : State) (hr : RegOK st0) (hl : st0.locked = false) (h0 : st0.config = [])
    (L : List (Key × Val)) :
    ∃ st', bindAll { (bindMany st0 L) with config := [], prov := [] }
        (replayKeys (bindMany st0 L) (bindMany st0 L).config) = .ok st' ∧
      ∀ key p, getP st'.config key p =
        (getP (bindMany st0 L).config key p).filter (fun v => v.representable) := by
  obtain ⟨hok, hreg, hlk⟩ := storeOK_reachable L st0 hr (h0 ▸ storeOK_empty st0 hr)
  exact config_str_roundtrip (bindMany st0 L) ((regOK_congr hreg.symm hr).inv) (hlk.trans hl) hok

/-! ### non-vacuity: gin's own registry plus two user configurables, one of them shadowing a suffix -/

theorem regOK_of_sets (st : State) (names : List (Sel × Entry))
    (hreg : st.registry = names.foldl (fun m ne => m.set ne.1 ne.2) initRegistry)
    (hne : ∀ ne ∈ names, ne.1 ≠ [] ∧ ne.1 ≠ State.macroSel ∧ ne.1 ≠ State.constSel) :
    Inv st.registry := by
  rw [hreg]
  have : ∀ (l : List (Sel × Entry)) (m : SelMap Entry), Inv m → Inv (l.foldl (fun m ne => m.set ne.1 ne.2) m) := by
    intro l
    induction l with
    | nil => intro m h; exact h
    | cons a rest ih => intro m h; exact ih _ (inv_set m h a.1 a.2)
  apply this
  unfold initRegistry
  exact inv_set _ (inv_set _ (inv_set _ inv_empty _ _) _ _) _ _

def macroEntry : Entry := { cfg := { selector := State.macroSel, sig := { pos := [("value", none)] } }, objId := 900001 }
def constEntry : Entry := { cfg := { selector := State.constSel, sig := {} }, objId := 900002 }

theorem regOK_init : RegOK initState where
  inv := regOK_of_sets initState [] rfl (by intro ne h; cases h)
  nonempty := by
    intro k hk
    have hkeys : initState.registry.keys = [State.macroSel, State.constSel, ["gin", "singleton"]] := by rfl
    rw [hkeys] at hk
    intro he; subst he; simp [State.macroSel, State.constSel] at hk
  macroReg := by
    refine ⟨macroEntry, by rfl, rfl, rfl, ?_⟩
    intro p
    simp [macroEntry, Cfgable.byKeyword, Sig.byKeyword, Sig.kwNames, Sig.args, Sig.kwonlyNames]
  constReg := by
    intro e he p
    have h2 : initState.registry.get? State.constSel = some constEntry := by rfl
    rw [h2] at he
    have : e = constEntry := (Option.some.inj he).symm
    subst this
    simp [constEntry, Cfgable.byKeyword, Sig.byKeyword, Sig.kwNames, Sig.args, Sig.kwonlyNames]

/-- two macro bindings under different spellings of `gin.macro`; the second value has no literal form -/
def demoBinds : List (Key × Val) :=
  [({ scope := ["m"], sel := ["macro"], arg := "value" }, .int 3),
   ({ scope := ["n"], sel := ["gin", "macro"], arg := "value" }, .obj 7)]

example : ∃ st', bindAll { (bindMany initState demoBinds) with config := [], prov := [] }
      (replayKeys (bindMany initState demoBinds) (bindMany initState demoBinds).config) = .ok st' ∧
    ∀ key p, getP st'.config key p =
      (getP (bindMany initState demoBinds).config key p).filter (fun v => v.representable) :=
  roundtrip_reachable initState regOK_init rfl rfl demoBinds

/-- … and both binds of the demo were accepted: the store is not empty -/
example : (bindMany initState demoBinds).config.length = 2 := by rfl

end Gin.C06
