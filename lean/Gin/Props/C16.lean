/-
C16 — a failed parse applies exactly the preceding statements; errors say where.
-/
import Gin.Lemmas.Statements
import Gin.Lemmas.AList

namespace Gin.C16
open Gin Gin.AList

/-- The statement loop stops at the first failing statement: nothing after it is looked at. -/
theorem failure_stops (st : State) (file : Option String) (skip : SkipSpec) (s : Stmt)
    (rest : List Stmt) (st1 : State) (imps : List String) (incs : List Parsed) (f : Failure)
    (h : applyStmt st file skip s = (st1, imps, incs, some f)) :
    applyStmts st file skip (s :: rest) =
      { st := st1, imports := imps, includes := incs, failure := some f } := by
  simp [applyStmts, h]

/-- A succeeding statement hands its state on to the rest of the text. -/
theorem success_continues (st : State) (file : Option String) (skip : SkipSpec) (s : Stmt)
    (rest : List Stmt) (st1 : State) (imps : List String) (incs : List Parsed)
    (h : applyStmt st file skip s = (st1, imps, incs, none)) :
    (applyStmts st file skip (s :: rest)).st = (applyStmts st1 file skip rest).st ∧
    (applyStmts st file skip (s :: rest)).failure = (applyStmts st1 file skip rest).failure := by
  simp [applyStmts, h]

/-- If parsing fails at some statement, exactly the statements preceding it have taken effect:
    for a text `pre ++ s :: post` whose prefix `pre` parses and whose statement `s` fails, the
    resulting state and failure are those of `pre ++ [s]` — `post` is irrelevant — … -/
theorem failed_parse_ignores_rest (st : State) (file : Option String) (skip : SkipSpec)
    (pre : List Stmt) (s : Stmt) (post : List Stmt)
    (hpre : (applyStmts st file skip pre).failure = none)
    (hs : (applyStmt (applyStmts st file skip pre).st file skip s).2.2.2.isSome = true) :
    (applyStmts st file skip (pre ++ s :: post)).st = (applyStmts st file skip (pre ++ [s])).st ∧
    (applyStmts st file skip (pre ++ s :: post)).failure =
      (applyStmts st file skip (pre ++ [s])).failure := by
  induction pre generalizing st with
  | nil =>
    simp only [List.nil_append]
    simp only [applyStmts] at hs ⊢
    rcases h : applyStmt st file skip s with ⟨st1, imps, incs, fo⟩
    rw [h] at hs
    cases fo with
    | none => simp at hs
    | some f => simp
  | cons p pre ih =>
    simp only [List.cons_append, applyStmts]
    rcases h : applyStmt st file skip p with ⟨st1, imps, incs, fo⟩
    cases fo with
    | some f =>
      simp only [applyStmts, h] at hpre
      simp at hpre
    | none =>
      simp only [applyStmts, h] at hpre hs
      simp only []
      exact ih st1 hpre hs

/-- … and a failing statement that is not an include leaves the state it found: the state after
    the failed call is exactly the state after the prefix. -/
theorem failing_statement_changes_nothing (st : State) (file : Option String) (skip : SkipSpec)
    (s : Stmt) (hni : ∀ n f l, s ≠ .incl n (some f) l) (hnr : stmtsRegs [s] = [])
    (hf : (applyStmt st file skip s).2.2.2.isSome = true) :
    (applyStmt st file skip s).1 = st := by
  cases s with
  | syntaxErr l => simp [applyStmt]
  | binding scope sel arg v line =>
    simp only [applyStmt] at hf ⊢
    cases hr : resolveRaw st skip v with
    | error e => simp
    | ok val =>
      simp only [hr] at hf ⊢
      by_cases ha : arg.isEmpty = true
      · simp only [ha, if_true] at hf ⊢
        cases hb : st.bind { scope := scope ++ [".".intercalate sel], sel := State.macroSel, arg := "value" }
            val (some { file := file, line := line }) with
        | ok st' => simp [hb] at hf
        | error e => simp
      · simp only [ha, Bool.false_eq_true, if_false] at hf ⊢
        by_cases hsk : shouldSkip st sel skip = true
        · simp [hsk]
        · simp only [hsk, Bool.false_eq_true, if_false] at hf ⊢
          cases hb : st.bind { scope := scope, sel := sel, arg := arg } val
              (some { file := file, line := line }) with
          | ok st' => simp [hb] at hf
          | error e => simp
  | block scope sel line =>
    simp only [applyStmt]
    split
    · rfl
    · split <;> rfl
  | imp m found line regs =>
    have hregs : regs = [] := by simpa [stmtsRegs] using hnr
    subst hregs
    simp only [applyStmt, registerAll]
    split
    · rfl
    · split <;> rfl
  | incl name fs line =>
    cases fs with
    | none => simp [applyStmt]
    | some stmts => exact absurd rfl (hni name stmts line)

theorem registerAll_changes_registry_only (st : State) (regs : List State.RegReq) :
    (registerAll st regs).1 = { st with registry := (registerAll st regs).1.registry } := by
  induction regs generalizing st with
  | nil => rfl
  | cons r rest ih =>
    simp only [registerAll]
    cases h : st.register r with
    | error e => rfl
    | ok st' =>
      simp only
      rw [ih st', (State.register_ok h).2]

/-- An import statement whose module registers configurables and then fails (say, one of its names is
    already taken by a different object) leaves behind what the module body registered up to there — and
    nothing else: bindings, lock, constants, imports and provenance are those of the prefix. -/
theorem failing_import_changes_registry_only (st : State) (file : Option String) (skip : SkipSpec)
    (m : String) (found : Bool) (line : Nat) (regs : List State.RegReq) :
    (applyStmt st file skip (.imp m found line regs)).1 =
      { st with registry := (applyStmt st file skip (.imp m found line regs)).1.registry } := by
  simp only [applyStmt]
  split
  · have h := registerAll_changes_registry_only st regs
    split
    · rename_i heq; rw [heq] at h; exact h
    · rename_i heq; rw [heq] at h; exact h
  · split <;> rfl

/-- Parsing never changes the lock state, and it changes the registry only through what imported modules
    register: a text none of whose import statements (at any include depth) registers anything leaves the
    registry as it was (the model has no other ambient state: the active scope and the per-file import
    tables are not touched by `applyStmts`). -/
theorem parse_keeps_lock_and_registry (st : State) (file : Option String) (skip : SkipSpec)
    (ss : List Stmt) :
    (parseConfig st file skip ss).st.locked = st.locked ∧
    (stmtsRegs ss = [] → (parseConfig st file skip ss).st.registry = st.registry) :=
  ⟨(parseConfig_frame st file skip ss).locked, parseConfig_registry st file skip ss⟩

/-- A configurable registered by an imported module is known to every later statement of the same parse:
    the reference `@name` that was unknown before the import resolves after it. -/
theorem import_makes_known (st st' : State) (file : Option String) (skip : SkipSpec) (m : String)
    (line : Nat) (regs : List State.RegReq) (h : registerAll st regs = (st', none)) :
    applyStmt st file skip (.imp m true line regs) = (st', [m], [], none) := by
  simp [applyStmt, h]

/-- A semantic error keeps its class and gains one (file, line) entry per include level, innermost
    first; syntax errors carry their own location and are passed through. -/
theorem include_extends_chain (st : State) (file : Option String) (skip : SkipSpec) (name : String)
    (stmts : List Stmt) (line : Nat) (f : Failure)
    (hin : (applyStmts st (some name) skip stmts).failure = some f) :
    (applyStmt st file skip (.incl name (some stmts) line)).2.2.2 =
      some (if f.err = .syntaxError then f else { f with chain := f.chain ++ [(file, line)] }) := by
  simp [applyStmt, hin, withLoc]

theorem semantic_error_located (st : State) (file : Option String) (skip : SkipSpec)
    (scope : Scope) (sel : Sel) (arg : String) (v : Val) (line : Nat) (e : Err)
    (hne : arg ≠ "") (hns : shouldSkip st sel skip = false)
    (hb : st.bind { scope, sel, arg } v (some { file, line }) = .error e) (hsyn : e ≠ .syntaxError) :
    (applyStmt st file skip (.binding scope sel arg (.lit v) line)).2.2.2 =
      some { err := e, chain := [(file, line)] } := by
  simp [applyStmt, resolveRaw, hne, hns, hb, withLoc, hsyn]

/-- Provenance: a binding made by a statement is attributed to that statement's file and line,
    replacing whatever was recorded before (last setter wins). -/
theorem provenance_last_setter (st st' : State) (k : Key) (v : Val) (loc : Option Loc)
    (h : st.bind k v loc = .ok st') :
    ∃ full, st.parseKey k = .ok (k.scope, full, k.arg) ∧
      AList.lookup k.arg ((AList.lookup (k.scope, full) st'.prov).getD []) = some loc := by
  unfold State.bind at h
  split at h
  · cases h
  · split at h
    · cases h
    · rename_i scope full arg hp
      have hk : scope = k.scope ∧ arg = k.arg := by
        unfold State.parseKey at hp
        repeat (first | (split at hp) | cases hp)
        exact ⟨rfl, rfl⟩
      obtain ⟨rfl, rfl⟩ := hk
      simp only [Except.ok.injEq] at h
      subst h
      exact ⟨full, hp, by simp [AList.lookup_set]⟩

end Gin.C16
