/-
C20 — clear_config returns the configuration to its pristine state.
-/
import Gin.Machine

namespace Gin.C20
open Gin

/-- The state of a fresh process that performed the same registrations (registry, finalize hooks,
    interactive-mode switch) and — unless they are cleared too — the same constant definitions.
    `calls` / `constructed` / `log` are the harness's probe counters, not part of gin's state. -/
def pristineOf (st : State) (clearConstants : Bool) : State :=
  { initState with
      registry := st.registry, hooks := st.hooks, interactive := st.interactive,
      constants := if clearConstants then State.initConstants else st.constants,
      calls := st.calls, constructed := st.constructed, log := st.log }

/-- `clear_config` succeeds in every state (any history: failed operations, locked configurations,
    constants defined in interactive mode) … -/
theorem clear_total (st : State) (c : Bool) : step st (.clear c) = (st.clear c, .ok) := by
  simp [step]

/-- … and the state it leaves *is* the pristine state with the same registrations. -/
theorem clear_pristine (st : State) (c : Bool) : st.clear c = pristineOf st c := by
  simp [State.clear, pristineOf, initState]

/-- No bindings, no provenance, no operative record, no cached singletons, no recorded imports,
    unlocked; registered configurables remain. -/
theorem clear_fields (st : State) (c : Bool) :
    (st.clear c).config = [] ∧ (st.clear c).prov = [] ∧ (st.clear c).operative = [] ∧
    (st.clear c).singletons = [] ∧ (st.clear c).imports = [] ∧ (st.clear c).locked = false ∧
    (st.clear c).registry = st.registry := by
  simp [State.clear]

/-- Constants survive unless `clear_constants=True`, in which case only `gin.REQUIRED` remains. -/
theorem clear_constants (st : State) :
    (st.clear false).constants = st.constants ∧
    (st.clear true).constants.keys = [["gin", "REQUIRED"]] := by
  constructor
  · simp [State.clear]
  · simp [State.clear]; rfl

/-- Indistinguishable from a fresh process: every continuation (queries, calls, binds, finalize,
    serialisation of the store and of the operative record, …) gives the same observations and the
    same final state after `clear_config` as after starting afresh with the same registrations. -/
theorem clear_observationally_fresh (st : State) (c : Bool) (ops : List Op) :
    runOps (step st (.clear c)).1 ops = runOps (pristineOf st c) ops := by
  rw [clear_total, clear_pristine]

/-- Histories compose: running `a ++ b` is running `a`, then `b` from the state `a` left. -/
theorem runOps_append (st : State) (a b : List Op) :
    runOps st (a ++ b) =
      ((runOps (runOps st a).1 b).1, (runOps st a).2 ++ (runOps (runOps st a).1 b).2) := by
  induction a generalizing st with
  | nil => simp [runOps]
  | cons op rest ih => simp [runOps, ih]

/-- The property over whole histories: whatever was done before the clear (`before`: any operations,
    failed ones included) and whatever is done after it (`after`), the clear itself succeeds and the
    rest of the history runs exactly as from the pristine state with the registrations `before`
    left — same final state, same observations. -/
theorem clear_after_any_history (st₀ : State) (before after : List Op) (c : Bool) :
    runOps st₀ (before ++ .clear c :: after) =
      ((runOps (pristineOf (runOps st₀ before).1 c) after).1,
       (runOps st₀ before).2 ++ .ok :: (runOps (pristineOf (runOps st₀ before).1 c) after).2) := by
  rw [runOps_append]
  simp [runOps, clear_total, clear_pristine]

/-- Two histories that leave the same registrations (and constants, unless those are cleared too)
    are indistinguishable after `clear_config`, whatever else they did. -/
theorem clear_forgets_history (s₁ s₂ : State) (c : Bool) (after : List Op)
    (hr : s₁.registry = s₂.registry) (hh : s₁.hooks = s₂.hooks) (hi : s₁.interactive = s₂.interactive)
    (hc : c = false → s₁.constants = s₂.constants)
    (hp : s₁.calls = s₂.calls ∧ s₁.constructed = s₂.constructed ∧ s₁.log = s₂.log) :
    runOps (step s₁ (.clear c)).1 after = runOps (step s₂ (.clear c)).1 after := by
  rw [clear_total, clear_total, clear_pristine, clear_pristine]
  have : pristineOf s₁ c = pristineOf s₂ c := by
    cases c
    · simp [pristineOf, hr, hh, hi, hc rfl, hp.1, hp.2.1, hp.2.2]
    · simp [pristineOf, hr, hh, hi, hp.1, hp.2.1, hp.2.2]
  rw [this]

theorem clear_idempotent (st : State) (c : Bool) : (st.clear c).clear c = st.clear c := by
  cases c <;> simp [State.clear]

/-! Non-vacuity: a locked state with bindings, operative record and a cached singleton. -/
def dirty : State :=
  { initState with locked := true, config := [(([], ["gin", "macro"]), [("value", .int 1)])],
                   operative := [((["a"], ["gin", "macro"]), [("value", .int 1)])],
                   singletons := [("k", .obj 1)], imports := ["m"] }
example : (dirty.clear false).locked = false ∧ (dirty.clear false).config = [] := by
  exact ⟨(clear_fields dirty false).2.2.2.2.2.1, (clear_fields dirty false).1⟩

end Gin.C20
