/-
C04 — references deliver the configurable or a fresh result, in the right scope.
-/
import Gin.Machine
import Gin.Lemmas.Eval
import Gin.Lemmas.Call
import Gin.Lemmas.EvalRel

namespace Gin.C04
open Gin Gin.AList

/-- `@name` (no parentheses) delivers the configurable itself, to be run under the reference's own
    scope when it has one; nothing is called. -/
theorem ref_plain (fuel : Nat) (st : State) (σ : Scope) (scopes : List String) (sel : Sel) :
    evalVal (fuel + 1) st σ (.ref scopes sel false) = .ok (st, .fn sel scopes) := by
  simp [evalVal]

/-- `@name()` is a call of the configurable, with no caller arguments, under exactly the scope the
    reference is written with, or — for an unscoped reference — under the scope active at the
    consuming call (`selfArg` is the instance itself when the configurable is a class). -/
theorem ref_scope (fuel : Nat) (st : State) (σ : Scope) (scopes : List String) (sel : Sel) :
    ∃ selfArg, evalVal (fuel + 1) st σ (.ref scopes sel true) =
      callCfg fuel st sel (if scopes.isEmpty then σ else scopes) selfArg [] := by
  refine ⟨(match st.registry.get? sel with
    | some e => if e.isClass then [.obj (5000 + e.objId)] else []
    | none => []), ?_⟩
  simp only [evalVal, if_true]
  rfl

/-- `%name` is an evaluated reference to the macro configurable under the scope `name`. -/
theorem macro_is_scoped_ref (fuel : Nat) (st : State) (σ : Scope) (name : String) :
    evalVal (fuel + 1) st σ (.macro name) =
      callCfg fuel st State.macroSel (if name.isEmpty then [] else splitChar name '/') [] [] := by
  simp [evalVal]

/-- The values a consuming call evaluates are exactly `toEvaluate`: a binding for a parameter the
    caller supplies — positionally or by keyword — is not among them, so a reference bound to such
    a parameter is not called. -/
theorem caller_supplied_not_evaluated (c : Cfgable) (cfg : Store) (σ : Scope) (args : List Val)
    (kwargs : AList String Val) (a : PhaseA) (hA : phaseA c cfg σ args kwargs = .ok a) (p : String)
    (hp : p ∈ (c.sig.args.take args.length).filter
              (fun n => !(reqNamesOf (c.sig.args.take args.length) args).contains n)
          ∨ p ∈ kwSupplied kwargs) :
    lookup p (toEvaluate a kwargs) = none := by
  unfold phaseA at hA
  by_cases hnv : (args.drop (c.sig.args.take args.length).length).any Val.isRequired = true
  · simp only [hnv, ↓reduceIte] at hA; cases hA
  · simp only [hnv, Bool.false_eq_true, ↓reduceIte, Except.ok.injEq] at hA
    subst hA
    unfold toEvaluate
    simp only []
    have hb := getBindings_nodup cfg c.selector σ
    rw [lookup_popAll _ (nodup_keys_popAll _ hb _), lookup_popAll _ hb]
    rcases hp with hp | hp
    · by_cases h2 : p ∈ kwSupplied kwargs
      · simp only [h2, if_true]
      · simp only [h2, if_false, hp, if_true]
    · simp only [hp, if_true]

/-- Evaluating a value, or calling a configurable with everything its bindings refer to, never
    writes the configuration: bindings, provenance, registry, constants, hooks and lock state after
    the call are those before it, so later calls, queries and config strings see the same
    configuration whatever happened during the call. -/
theorem call_preserves_config (st : State) (sel : Sel) (enter : List ScopeArg) (args : List Val)
    (kwargs : AList String Val) :
    Frame st (step st (.ecall sel enter args kwargs)).1 := by
  simp only [step]
  split
  · exact Frame.refl st
  · split
    · rename_i h; exact callCfg_frame _ _ _ _ _ _ _ _ h
    · exact ⟨rfl, rfl, rfl, rfl, rfl, rfl, rfl, rfl, rfl⟩

theorem eval_preserves_config (fuel : Nat) (st st' : State) (σ : Scope) (v v' : Val)
    (h : evalVal fuel st σ v = .ok (st', v')) : Frame st st' :=
  (eval_frame fuel).1 st σ v st' v' h

/-- Consequently a query after any consuming call returns what it returned before. -/
theorem query_after_call (st : State) (sel : Sel) (enter : List ScopeArg) (args : List Val)
    (kwargs : AList String Val) (k : Key) :
    (step st (.ecall sel enter args kwargs)).1.query k = st.query k := by
  have f := call_preserves_config st sel enter args kwargs
  unfold State.query State.parseKey
  rw [f.registry, f.config]

/-- The probes' counters never go down across an evaluation or a consuming call, however deeply the
    references in it are nested (induction on the evaluation depth, `Lemmas/EvalRel.lean`). -/
theorem eval_counts_monotone (fuel : Nat) (st st' : State) (σ : Scope) (v v' : Val)
    (h : evalVal fuel st σ v = .ok (st', v')) : CallsMono st st' :=
  (eval_callsMono fuel).1 st σ v st' v' h

theorem call_counts_monotone (fuel : Nat) (st st' : State) (sel : Sel) (σ : Scope) (args : List Val)
    (kwargs : AList String Val) (v : Val) (h : callCfg fuel st sel σ args kwargs = .ok (st', v)) :
    CallsMono st st' :=
  (eval_callsMono fuel).2.2.2.2 st sel σ args kwargs st' v h

/-- `@name()` is called anew each time. Two evaluations of an evaluated reference to the same
    configurable (any spelling of scope, any ambient scope, any nesting depth `f₁`, `f₂`) — within one
    consuming call or in different ones, with anything at all evaluated or called in between (the
    only thing asked of the intermediate steps `s₁ → s₁'` is what `eval_counts_monotone` /
    `call_counts_monotone` give for every one of them) — deliver *different* results: the second is
    the result of a later run of the configurable, never a cached copy of the first. -/
theorem evaluated_ref_fresh (f₁ f₂ : Nat) (s s₁ s₁' s₂ : State) (σ σ' : Scope)
    (sc sc' : List String) (sel : Sel) (r₁ r₂ : Val)
    (hm : (sel == State.macroSel) = false) (hc : (sel == State.constSel) = false)
    (h₁ : evalVal (f₁ + 1) s σ (.ref sc sel true) = .ok (s₁, r₁))
    (hmid : CallsMono s₁ s₁')
    (h₂ : evalVal (f₂ + 1) s₁' σ' (.ref sc' sel true) = .ok (s₂, r₂)) : r₁ ≠ r₂ := by
  simp only [evalVal, if_true] at h₁ h₂
  obtain ⟨n₁, e₁, _, c₁⟩ := callCfg_probe _ _ _ _ _ _ _ _ hm hc h₁
  obtain ⟨n₂, e₂, l₂, _⟩ := callCfg_probe _ _ _ _ _ _ _ _ hm hc h₂
  have := hmid sel
  subst e₁ e₂
  intro he
  simp only [Val.result.injEq, true_and] at he
  omega

/-- In particular the two occurrences of one evaluated reference inside one list value are two runs:
    the list a consumer receives holds two different results. -/
theorem same_ref_twice_two_runs (f : Nat) (s s' : State) (σ : Scope) (sc : List String) (sel : Sel)
    (v : Val) (hm : (sel == State.macroSel) = false) (hc : (sel == State.constSel) = false)
    (h : evalVal (f + 3) s σ (.list [.ref sc sel true, .ref sc sel true]) = .ok (s', v)) :
    ∃ a b, v = .list [a, b] ∧ a ≠ b := by
  simp only [evalVal, evalVals] at h
  split at h
  · rename_i es' ys hh
    split at hh
    · cases hh
    · rename_i s₁ a h₁
      split at hh
      · cases hh
      · rename_i s₂ rest h₂
        split at h₂
        · cases h₂
        · rename_i s₃ b h₃
          cases f with
          | zero => simp [evalVals] at h₂
          | succ f' =>
            simp only [evalVals, Except.ok.injEq, Prod.mk.injEq] at h₂ hh h
            refine ⟨a, b, ?_, ?_⟩
            · rw [← h.2, ← hh.2, ← h₂.2]
            · have e₁ : evalVal (f' + 1 + 1) s σ (.ref sc sel true) = .ok (s₁, a) := by
                simpa [evalVal] using h₁
              have e₂ : evalVal (f' + 1) s₁ σ (.ref sc sel true) = .ok (s₃, b) := by
                simpa [evalVal] using h₃
              exact evaluated_ref_fresh _ _ _ _ _ _ _ _ _ _ _ _ _ hm hc e₁ (CallsMono.refl _) e₂
  · cases h

/-! Non-vacuity: the evaluator on a concrete nested value (plain reference inside a list). -/
example : evalVal 10 initState ["a"] (.list [.ref ["s"] ["m", "f"] false, .int 1]) =
    .ok (initState, .list [.fn ["m", "f"] ["s"], .int 1]) := by
  simp [evalVal, evalVals]

/-! Non-vacuity of the freshness theorems: a registered probe referenced twice in one list. -/
def probeEntry : Entry := { cfg := { selector := ["m", "f"], sig := {} }, objId := 1 }
def probeState : State :=
  { initState with registry := (initState.registry.set ["m", "f"] probeEntry) }
def twice : Option Val :=
  match evalVal 10 probeState ["a"] (.list [.ref [] ["m", "f"] true, .ref [] ["m", "f"] true]) with
  | .ok (_, v) => some v | .error _ => none
example : twice = some (.list [.result ["m", "f"] 0, .result ["m", "f"] 1]) := by rfl

end Gin.C04
