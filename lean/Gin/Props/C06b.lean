/-
C06 (continued) — the emitted structure depends only on the *set* of bindings, not on the order in
which they were made: permutation invariance of `emitDoc`.
-/
import Gin.Lemmas.Sort
import Gin.Machine
import Gin.Lemmas.AList

namespace Gin.C06
open Gin Gin.AList Gin.Sort

/-! ### the section order is a total preorder whose ties are exactly equal sort keys -/

theorem keyLe_total (st : State) (a b : Scope × Sel) : keyLe st a b = true ∨ keyLe st b a = true := by
  simp only [keyLe]
  by_cases h : (sortKey st a).1 = (sortKey st b).1
  · simp only [h, beq_self_eq_true, if_true]
    exact lexLe_total _ _
  · have h' : ¬ (sortKey st b).1 = (sortKey st a).1 := fun e => h e.symm
    simp only [beq_iff_eq, h, h', if_false]
    exact lexLe_total _ _

theorem keyLe_antisymm (st : State) (a b : Scope × Sel) (h1 : keyLe st a b = true)
    (h2 : keyLe st b a = true) : sortKey st a = sortKey st b := by
  simp only [keyLe] at h1 h2
  by_cases h : (sortKey st a).1 = (sortKey st b).1
  · simp only [h, beq_self_eq_true, if_true] at h1 h2
    exact Prod.ext h (lexLe_antisymm _ _ h1 h2)
  · have h' : ¬ (sortKey st b).1 = (sortKey st a).1 := fun e => h e.symm
    simp only [beq_iff_eq, h, h', if_false] at h1 h2
    exact absurd (lexLe_antisymm _ _ h1 h2) h

theorem keyLe_trans (st : State) (a b c : Scope × Sel) (h1 : keyLe st a b = true)
    (h2 : keyLe st b c = true) : keyLe st a c = true := by
  simp only [keyLe] at h1 h2 ⊢
  by_cases hab : (sortKey st a).1 = (sortKey st b).1
  · by_cases hbc : (sortKey st b).1 = (sortKey st c).1
    · simp only [hab, hbc, beq_self_eq_true, if_true] at h1 h2 ⊢
      exact lexLe_trans _ _ _ h1 h2
    · have hac : ¬ (sortKey st a).1 = (sortKey st c).1 := fun e => hbc (hab ▸ e)
      simp only [beq_iff_eq, hbc, hac, if_false] at h2 ⊢
      rw [hab]; exact h2
  · by_cases hbc : (sortKey st b).1 = (sortKey st c).1
    · have hac : ¬ (sortKey st a).1 = (sortKey st c).1 := fun e => hab (hbc ▸ e)
      simp only [beq_iff_eq, hab, hac, if_false] at h1 ⊢
      rw [← hbc]; exact h1
    · simp only [beq_iff_eq, hab, hbc, if_false] at h1 h2
      have hle := lexLe_trans _ _ _ h1 h2
      by_cases hac : (sortKey st a).1 = (sortKey st c).1
      · exfalso
        -- a ≤ b ≤ c = a on the first component forces a = b there
        rw [← hac] at h2
        exact hab (lexLe_antisymm _ _ h1 h2)
      · simp only [beq_iff_eq, hac, if_false]; exact hle

/-! ### helpers -/

theorem eq_of_fst_eq_of_nodup {κ α : Type} : ∀ (l : List (κ × α)), (l.map Prod.fst).Nodup →
    ∀ a ∈ l, ∀ b ∈ l, a.1 = b.1 → a = b
  | [], _, a, ha, _, _, _ => by cases ha
  | x :: xs, hn, a, ha, b, hb, hab => by
    simp only [List.map_cons, List.nodup_cons] at hn
    rcases List.mem_cons.1 ha with rfl | ha'
    · rcases List.mem_cons.1 hb with rfl | hb'
      · rfl
      · exact absurd (List.mem_map.2 ⟨b, hb', hab.symm⟩) hn.1
    · rcases List.mem_cons.1 hb with rfl | hb'
      · exact absurd (List.mem_map.2 ⟨a, ha', hab⟩) hn.1
      · exact eq_of_fst_eq_of_nodup xs hn.2 a ha' b hb' hab

theorem lookup_perm {κ α : Type} [DecidableEq κ] (k : κ) (l1 l2 : AList κ α) (hp : l1.Perm l2)
    (hn : (l1.map Prod.fst).Nodup) : lookup k l1 = lookup k l2 := by
  induction hp with
  | nil => rfl
  | cons x _ ih =>
    simp only [List.map_cons, List.nodup_cons] at hn
    obtain ⟨k', v⟩ := x
    simp only [lookup]; split
    · rfl
    · exact ih hn.2
  | swap x y l =>
    obtain ⟨kx, vx⟩ := x
    obtain ⟨ky, vy⟩ := y
    simp only [List.map_cons, List.nodup_cons, List.mem_cons, not_or] at hn
    simp only [lookup]
    by_cases h1 : ky = k
    · by_cases h2 : kx = k
      · exact absurd (h1.trans h2.symm) hn.1.1
      · simp [h1, h2]
    · by_cases h2 : kx = k <;> simp [h1, h2]
  | trans h12 _ ih1 ih2 =>
    rw [ih1 hn]
    exact ih2 ((h12.map Prod.fst).nodup_iff.1 hn)

/-- element-wise relation between two lists of the same length -/
inductive Forall2 {α β : Type} (R : α → β → Prop) : List α → List β → Prop
  | nil : Forall2 R [] []
  | cons {a b l1 l2} : R a b → Forall2 R l1 l2 → Forall2 R (a :: l1) (b :: l2)

/-- the relation between two stores holding the same bindings: the same (scope, configurable)
    entries in any order, each with the same parameters in any order -/
def SameBindings (s1 s2 : Store) : Prop :=
  ∃ s1' : Store, s1.Perm s1' ∧
    Forall2 (fun e1 e2 => e1.1 = e2.1 ∧ e1.2.Perm e2.2) s1' s2

theorem insertBy_forall₂ {α : Type} (R : α → α → Prop) (le : α → α → Bool)
    (hle : ∀ a a' b b', R a a' → R b b' → le a b = le a' b') (x x' : α) (hx : R x x') :
    ∀ l l', Forall2 R l l' → Forall2 R (insertBy le x l) (insertBy le x' l')
  | [], [], _ => by simp only [insertBy]; exact .cons hx .nil
  | y :: ys, y' :: ys', h => by
    cases h with
    | cons hy hys =>
      simp only [insertBy, hle x x' y y' hx hy]
      split
      · exact .cons hx (.cons hy hys)
      · exact .cons hy (insertBy_forall₂ R le hle x x' hx ys ys' hys)

theorem sortBy_forall₂ {α : Type} (R : α → α → Prop) (le : α → α → Bool)
    (hle : ∀ a a' b b', R a a' → R b b' → le a b = le a' b') :
    ∀ l l', Forall2 R l l' → Forall2 R (sortBy le l) (sortBy le l')
  | [], [], _ => by simp only [sortBy, List.foldr_nil]; exact .nil
  | x :: xs, x' :: xs', h => by
    cases h with
    | cons hx hxs =>
      simp only [sortBy, List.foldr_cons]
      exact insertBy_forall₂ R le hle x x' hx _ _ (sortBy_forall₂ R le hle xs xs' hxs)

theorem filterMap_forall₂ {α β : Type} (R : α → α → Prop) (f : α → Option β)
    (hf : ∀ a a', R a a' → f a = f a') :
    ∀ l l', Forall2 R l l' → l.filterMap f = l'.filterMap f
  | [], [], _ => rfl
  | x :: xs, x' :: xs', h => by
    cases h with
    | cons hx hxs =>
      simp only [List.filterMap_cons, hf x x' hx, filterMap_forall₂ R f hf xs xs' hxs]

/-- parameters of one section: sorting by name forgets the binding order -/
theorem params_order_independent (p1 p2 : AList String Val) (hp : p1.Perm p2)
    (hn : (p1.map Prod.fst).Nodup) :
    sortBy (fun a b => decide (a.1 ≤ b.1)) (p1.filter (fun pv => pv.2.representable)) =
    sortBy (fun a b => decide (a.1 ≤ b.1)) (p2.filter (fun pv => pv.2.representable)) := by
  apply sortBy_eq_of_perm
  · intro a b
    rcases String.le_total a.1 b.1 with h | h
    · left; simpa using h
    · right; simpa using h
  · intro a b c h1 h2
    simp only [decide_eq_true_eq] at h1 h2 ⊢
    exact String.le_trans h1 h2
  · exact hp.filter _
  · intro a ha b hb h1 h2
    simp only [decide_eq_true_eq] at h1 h2
    have hab : a.1 = b.1 := String.le_antisymm h1 h2
    exact eq_of_fst_eq_of_nodup p1 hn a (List.mem_filter.1 ha).1 b (List.mem_filter.1 hb).1 hab

/-- **Permutation invariance.**  Two stores that hold the same bindings — made in any order, per
    (scope, configurable) entry and per parameter — serialise to the same document, provided keys and
    parameter names are not duplicated (they never are: the store is a dict of dicts) and distinct keys
    have distinct sort keys (the tie-break of the sort key is the key's own spelling). -/
theorem emit_order_independent (st : State) (s1 s2 : Store) (h : SameBindings s1 s2)
    (hk : (s1.map Prod.fst).Nodup) (hp : ∀ e ∈ s1, (e.2.map Prod.fst).Nodup)
    (hinj : ∀ a ∈ s1, ∀ b ∈ s1, sortKey st a.1 = sortKey st b.1 → a.1 = b.1) :
    emitDoc st s1 = emitDoc st s2 := by
  obtain ⟨s1', hperm, hrel⟩ := h
  -- 1. sorting forgets the order of the entries
  have hsort : sortBy (fun a b => keyLe st a.1 b.1) s1 = sortBy (fun a b => keyLe st a.1 b.1) s1' := by
    apply sortBy_eq_of_perm _ (fun a b => keyLe_total st a.1 b.1)
      (fun a b c => keyLe_trans st a.1 b.1 c.1) _ _ hperm
    intro a ha b hb h1 h2
    exact eq_of_fst_eq_of_nodup s1 hk a ha b hb (hinj a ha b hb (keyLe_antisymm st a.1 b.1 h1 h2))
  -- 2. sorting commutes with the entry-wise relation
  have hrel' := sortBy_forall₂ (fun (e1 e2 : (Scope × Sel) × AList String Val) => e1.1 = e2.1 ∧ e1.2.Perm e2.2 ∧
      (e1.2.map Prod.fst).Nodup) (fun a b => keyLe st a.1 b.1)
    (by intro a a' b b' ha hb; rw [ha.1, hb.1]) s1' s2
    (by
      have hp' : ∀ e ∈ s1', (e.2.map Prod.fst).Nodup := fun e he => hp e (hperm.mem_iff.2 he)
      clear hsort hperm
      induction hrel with
      | nil => exact .nil
      | cons hab _ ih =>
        exact .cons ⟨hab.1, hab.2, hp' _ List.mem_cons_self⟩
          (ih (fun e he => hp' e (List.mem_cons_of_mem _ he))))
  -- 3. every emitted piece is computed entry by entry from order-independent data
  simp only [emitDoc, hsort]
  congr 1
  · apply filterMap_forall₂ _ _ _ _ _ hrel'
    intro a a' ⟨h1, h2, h3⟩
    rw [h1, lookup_perm "value" a.2 a'.2 h2 h3]
  · apply filterMap_forall₂ _ _ _ _ _ hrel'
    intro a a' ⟨h1, h2, h3⟩
    rw [h1, params_order_independent a.2 a'.2 h2 h3]

end Gin.C06

namespace Gin.C06
open Gin Gin.AList

theorem example_keys_distinct :
    sortKey initState (([], ["m", "f"]) : Scope × Sel) ≠ sortKey initState ((["s"], ["m", "g"]) : Scope × Sel) := by
  decide +kernel

/-- non-vacuity: two different binding orders of a two-section store meet every hypothesis -/
example :
    let k1 : Scope × Sel := ([], ["m", "f"])
    let k2 : Scope × Sel := (["s"], ["m", "g"])
    let s1 : Store := [(k1, [("a", .int 1), ("b", .int 2)]), (k2, [("x", .int 3)])]
    let s2 : Store := [(k2, [("x", .int 3)]), (k1, [("b", .int 2), ("a", .int 1)])]
    SameBindings s1 s2 ∧ (s1.map Prod.fst).Nodup ∧ (∀ e ∈ s1, (e.2.map Prod.fst).Nodup) ∧
    (∀ a ∈ s1, ∀ b ∈ s1, sortKey initState a.1 = sortKey initState b.1 → a.1 = b.1) := by
  intro k1 k2 s1 s2
  refine ⟨⟨[(k2, [("x", .int 3)]), (k1, [("a", .int 1), ("b", .int 2)])], List.Perm.swap _ _ _,
      .cons ⟨rfl, List.Perm.refl _⟩ (.cons ⟨rfl, List.Perm.swap _ _ _⟩ .nil)⟩, by decide, ?_, ?_⟩
  · intro e he
    simp only [s1, List.mem_cons, List.not_mem_nil, or_false] at he
    rcases he with rfl | rfl <;> decide
  · have hne : sortKey initState k1 ≠ sortKey initState k2 := example_keys_distinct
    intro a ha b hb h
    simp only [s1, List.mem_cons, List.not_mem_nil, or_false] at ha hb
    rcases ha with rfl | rfl <;> rcases hb with rfl | rfl
    · rfl
    · exact absurd h hne
    · exact absurd h.symm hne
    · rfl

end Gin.C06
