/-
C08 (continued) — `minimal_selector`: the shortest name reported for an entry resolves back to that
entry and no shorter suffix does.
-/
import Gin.Lemmas.Minimal
import Gin.Props.C08

namespace Gin.C08
open Gin Gin.Tree Gin.SelMap

variable {α : Type}

theorem len_pos_of_mem_terms (t : Tree) (s : Sel) (hs : s ∈ terms t) : 1 ≤ len t := by
  cases t with
  | node tm ks =>
    rw [terms_node, List.mem_append, List.mem_flatMap] at hs
    rcases hs with hs | ⟨x, hx, _⟩
    · cases tm with
      | none => simp at hs
      | some _ => simp [len]
    · cases ks with
      | nil => cases hx
      | cons _ _ => simp [len]; omega

theorem exists_ne_of_two_le {β : Type} (l : List β) (hn : l.Nodup) (h2 : 2 ≤ l.length) (s : β) :
    ∃ k ∈ l, k ≠ s := by
  match l, hn, h2 with
  | a :: b :: _, hn, _ =>
    by_cases ha : a = s
    · refine ⟨b, by simp, ?_⟩
      intro hb
      simp only [List.nodup_cons, List.mem_cons, not_or] at hn
      exact hn.1.1 (ha.trans hb.symm)
    · exact ⟨a, by simp, ha⟩

/-- the node reached by the last `n` components of a stored name exists, and the names below it are
    exactly the stored names ending with those components -/
theorem node_of_suffix (m : SelMap α) (h : Inv m) (s : Sel) (hs : s ∈ m.keys) (n : Nat) :
    ∃ nd, get m.tree (s.reverse.take n) = some nd ∧ s ∈ terms nd := by
  have hf : find m.tree s.reverse = some s := (h.sem _ _).2 ⟨hs, rfl⟩
  have hsplit : s.reverse = s.reverse.take n ++ s.reverse.drop n := (List.take_append_drop n _).symm
  rw [hsplit, find_append] at hf
  cases hg : get m.tree (s.reverse.take n) with
  | none => simp [hg] at hf
  | some nd =>
    simp only [hg, Option.bind_some] at hf
    exact ⟨nd, rfl, mem_terms_of_find nd _ s hf⟩

theorem terms_nodup_of_get (m : SelMap α) (h : Inv m) (q : List String) (nd : Tree)
    (hg : get m.tree q = some nd) : (terms nd).Nodup := by
  apply terms_nodup nd (wf_get _ h.wf _ _ hg) q
  intro p s hf
  have : find m.tree (q ++ p) = some s := by simp [find_append, hg, hf]
  exact ((h.sem _ _).1 this).2

/-- a suffix that is not itself a stored name addresses exactly the names below its node -/
theorem matches_iff_mem_terms (m : SelMap α) (h : Inv m) (q : Sel) (hq : q ∉ m.keys) (nd : Tree)
    (hg : get m.tree q.reverse = some nd) (k : Sel) : Matches m q k ↔ k ∈ terms nd := by
  rw [← matching_spec m h q k]
  have hc : m.contains q = false := by
    cases hcq : m.contains q with
    | false => rfl
    | true => exact absurd ((AList.contains_iff q m.map).1 hcq) hq
  simp [matching, hc, hg]

theorem suffix_reverse_take (s : Sel) (n : Nat) (hn : n ≤ s.length) :
    (s.drop (s.length - n)).reverse = s.reverse.take n := by
  rw [List.reverse_drop]
  congr 1
  omega

/-- **`minimal_selector`.**  For a stored, non-empty name `s` the reported name `q` is a non-empty
    suffix of `s`, it addresses `s` and nothing else (so it resolves back to that entry), and every
    shorter non-empty suffix of `s` addresses some other entry (so it does not). -/
theorem minimal_spec (m : SelMap α) (h : Inv m) (s : Sel) (hs : s ∈ m.keys) (hne : s ≠ []) :
    ∃ q, m.minimal s = some q ∧ q <:+ s ∧ q ≠ [] ∧ (∀ k, Matches m q k ↔ k = s) ∧
      ∀ q', q' <:+ s → q' ≠ [] → q'.length < q.length → ∃ k, k ≠ s ∧ Matches m q' k := by
  have hcont : m.contains s = true := (AList.contains_iff s m.map).2 hs
  have hf : find m.tree s.reverse = some s := (h.sem _ _).2 ⟨hs, rfl⟩
  -- the reversed path is non-empty
  obtain ⟨c, p, hrp⟩ : ∃ c p, s.reverse = c :: p := by
    cases hr : s.reverse with
    | nil => exact absurd (List.reverse_eq_nil_iff.1 hr) hne
    | cons c p => exact ⟨c, p, rfl⟩
  have hlen : s.length = p.length + 1 := by
    have := congrArg List.length hrp; simpa using this
  -- shorter suffixes: common part of the minimality argument
  have shorter : ∀ (L : Nat) (j' : Nat) (n' : Tree), j' ≤ s.length →
      get m.tree (s.reverse.take j') = some n' → 2 ≤ len n' →
      ∀ q', q' <:+ s → q' ≠ [] → q'.length ≤ j' → q'.length < L → L ≤ s.length →
        ∃ k, k ≠ s ∧ Matches m q' k := by
    intro L j' n' hj' hn' hl2 q' hsuf hq'ne hq'j hq'L hL
    by_cases hq' : q' ∈ m.keys
    · refine ⟨q', ?_, by simp [Matches, hq']⟩
      intro e; rw [e] at hq'L; omega
    · obtain ⟨pre, hpre⟩ := hsuf
      have hq'rev : q'.reverse = s.reverse.take q'.length := by
        rw [← hpre]; simp
      obtain ⟨nq, hnq, _⟩ := node_of_suffix m h s hs q'.length
      rw [← hq'rev] at hnq
      -- n' lies below nq
      have hbelow : get nq ((s.reverse.take j').drop q'.length) = some n' := by
        have : s.reverse.take j' = q'.reverse ++ (s.reverse.take j').drop q'.length := by
          rw [hq'rev]
          have : s.reverse.take q'.length = (s.reverse.take j').take q'.length := by
            rw [List.take_take]; congr 1; omega
          rw [this, List.take_append_drop]
        rw [this, get_append, hnq] at hn'
        simpa using hn'
      have hnd := terms_nodup_of_get m h _ _ hn'
      have h2 := two_le_terms_of_two_le_len n' (wf_get _ h.wf _ _ hn') hl2
      obtain ⟨k, hk, hks⟩ := exists_ne_of_two_le _ hnd h2 s
      exact ⟨k, hks, (matches_iff_mem_terms m h q' hq' nq hnq k).2 (terms_sub_of_get nq _ n' hbelow k hk)⟩
  -- run the loop: the first step never starts a run
  simp only [minimal, hcont, if_true, minimalLen, hrp]
  cases hroot : m.tree with
  | node tm ks =>
    rw [hrp, hroot] at hf
    simp only [minLoop]
    cases hc : child ks c with
    | none => simp [find, Tree.get, hc] at hf
    | some sub =>
      simp only [hc]
      have hfsub : find sub p = some s := by simpa [find, Tree.get, hc] using hf
      cases hml : minLoop sub p 1 (if 0 ≠ 0 ∧ len (Tree.node tm ks) = 1 then some 0 else none) with
      | none =>
        -- impossible: the path exists
        exfalso
        have hcond : (if 0 ≠ 0 ∧ len (Tree.node tm ks) = 1 then some 0 else none : Option Nat) = none := by simp
        rw [hcond] at hml
        have : ∀ (p : List String) (t : Tree) (i : Nat) (st : Option Nat), (get t p).isSome →
            (minLoop t p i st).isSome := by
          intro p
          induction p with
          | nil => intro t i st _; simp [minLoop]
          | cons c' p' ih =>
            intro t i st hg
            cases t with
            | node tm' ks' =>
              simp only [Tree.get] at hg
              simp only [minLoop]
              cases hc' : child ks' c' with
              | none => simp [hc'] at hg
              | some sub' => simp only [hc'] at hg ⊢; exact ih sub' _ _ hg
        have hsome := this p sub 1 none (by
          cases hg : get sub p with
          | none => simp [find, hg] at hfsub
          | some _ => simp)
        simp [hml] at hsome
      | some res =>
        obtain ⟨last, st'⟩ := res
        have hcond : (if 0 ≠ 0 ∧ len (Tree.node tm ks) = 1 then some 0 else none : Option Nat) = none := by simp
        rw [hcond] at hml
        obtain ⟨hglast, hspec⟩ := minLoop_spec p sub 1 none last st' (by omega) hml
        -- absolute positions: get m.tree (s.reverse.take (x+1)) = get sub (p.take x)
        have habs : ∀ x, get m.tree (s.reverse.take (x + 1)) = get sub (p.take x) := by
          intro x; rw [hrp, hroot]; simp [Tree.get, hc]
        have hlast_term : term last = some s := by
          simpa [find, hglast] using hfsub
        have hlast_abs : get m.tree (s.reverse.take s.length) = some last := by
          rw [hlen, habs, List.take_length]; exact hglast
        have hwf_last : WF last := wf_get _ h.wf _ _ hlast_abs
        -- the full name always qualifies
        have full : (∀ k, Matches m s k ↔ k = s) := by
          intro k; simp [Matches, hs]
        have hdrop : s.drop (s.length - (c :: p).length) = s := by
          simp [← hlen]
        by_cases hbig : len last > 1
        · -- the complete name is also the end of longer names: nothing shorter will do
          simp only [hbig, if_true, hdrop]
          refine ⟨s, rfl, List.suffix_refl _, hne, full, ?_⟩
          intro q' hsuf hq'ne hq'lt
          exact shorter s.length s.length last (Nat.le_refl _) hlast_abs (by omega) q' hsuf hq'ne
            (by omega) hq'lt (Nat.le_refl _)
        · simp only [hbig, if_false]
          have hlast1 : terms last = [s] := by
            cases last with
            | node tml ksl =>
              simp only [term] at hlast_term
              subst hlast_term
              exact terms_of_len_le_one_term s ksl (by omega)
          cases st' with
          | none =>
            -- no trailing run of single-entry nodes: the complete name is reported
            simp only at hspec ⊢
            rw [hdrop]
            refine ⟨s, rfl, List.suffix_refl _, hne, full, ?_⟩
            intro q' hsuf hq'ne hq'lt
            rcases hspec with ⟨hp, _⟩ | ⟨hpne, n', hn', hln'⟩
            · -- a one-component name has no shorter non-empty suffix
              subst hp
              have : q'.length ≠ 0 := fun e => hq'ne (List.eq_nil_of_length_eq_zero e)
              simp at hlen; omega
            · have hpl : p.length ≠ 0 := fun e => hpne (List.eq_nil_of_length_eq_zero e)
              have hn'abs : get m.tree (s.reverse.take (p.length - 1 + 1)) = some n' := by
                rw [habs]; exact hn'
              have hs_in : s ∈ terms n' := by
                obtain ⟨nd, hnd, hsin⟩ := node_of_suffix m h s hs (p.length - 1 + 1)
                rw [hn'abs] at hnd; cases hnd; exact hsin
              have hl2 : 2 ≤ len n' := by
                have := len_pos_of_mem_terms n' s hs_in; omega
              exact shorter s.length (p.length - 1 + 1) n' (by omega) hn'abs hl2 q' hsuf hq'ne
                (by omega) hq'lt (Nat.le_refl _)
          | some a =>
            simp only at hspec ⊢
            rcases hspec with ⟨hs0, _⟩ | ⟨d, hd, ha, ⟨n, hn, hall⟩, _, hdp⟩
            · cases hs0
            · subst ha
              -- the run of single-entry nodes starts at absolute position 1 + d
              have hnabs : get m.tree (s.reverse.take (d + 1)) = some n := by rw [habs]; exact hn
              have hnlast : get n (p.drop d) = some last := by
                have : p = p.take d ++ p.drop d := (List.take_append_drop d p).symm
                rw [this, get_append, hn] at hglast
                simpa using hglast
              have hterms : terms n = [s] := by
                rw [terms_of_allOne n (p.drop d) last hall hnlast, hlast1]
              have hle : 1 + d ≤ s.length := by omega
              let q := s.drop (s.length - (1 + d))
              have hqlen : q.length = 1 + d := by simp [q]; omega
              have hqrev : q.reverse = s.reverse.take (d + 1) := by
                have := suffix_reverse_take s (1 + d) hle
                rw [Nat.add_comm d 1]; exact this
              have hqne : q ≠ [] := by
                intro e; rw [e, List.length_nil] at hqlen; omega
              have hqnot : q ∉ m.keys := by
                intro hq
                have hfq : find m.tree q.reverse = some q := (h.sem _ _).2 ⟨hq, rfl⟩
                rw [hqrev] at hfq
                have : q ∈ terms n := by
                  apply mem_terms_of_find n [] q
                  simpa [find, Tree.get, hnabs] using hfq
                rw [hterms] at this
                have : q = s := by simpa using this
                have := congrArg List.length this
                rw [hqlen] at this; omega
              refine ⟨q, rfl, List.drop_suffix _ _, hqne, ?_, ?_⟩
              · intro k
                rw [matches_iff_mem_terms m h q hqnot n (by rw [hqrev]; exact hnabs) k, hterms]
                simp
              · intro q' hsuf hq'ne hq'lt
                rw [hqlen] at hq'lt
                have hd0 : 0 < d := by
                  have : q'.length ≠ 0 := fun e => hq'ne (List.eq_nil_of_length_eq_zero e)
                  omega
                obtain ⟨n', hn', hln'⟩ := hdp hd0
                have hn'abs : get m.tree (s.reverse.take (d - 1 + 1)) = some n' := by
                  rw [habs]; exact hn'
                have hs_in : s ∈ terms n' := by
                  obtain ⟨nd, hnd, hsin⟩ := node_of_suffix m h s hs (d - 1 + 1)
                  rw [hn'abs] at hnd; cases hnd; exact hsin
                have hl2 : 2 ≤ len n' := by
                  have := len_pos_of_mem_terms n' s hs_in; omega
                exact shorter (1 + d) (d - 1 + 1) n' (by omega) hn'abs hl2 q' hsuf hq'ne
                  (by omega) hq'lt hle

/-- the same statement in terms of `get_match`: the reported name resolves back to the entry -/
theorem minimal_resolves_back (m : SelMap α) (h : Inv m) (s : Sel) (hs : s ∈ m.keys) (hne : s ≠ []) :
    ∃ q v, m.minimal s = some q ∧ m.getMatch q = .one s v := by
  obtain ⟨q, hq, _, _, huniq, _⟩ := minimal_spec m h s hs hne
  have hspec := getMatch_spec m h q
  cases hgm : m.getMatch q with
  | none =>
    rw [hgm] at hspec
    exact absurd ((huniq s).2 rfl) (hspec s)
  | one s' v =>
    rw [hgm] at hspec
    have : s' = s := (huniq s').1 hspec.1
    subst this
    exact ⟨q, v, hq, hgm⟩
  | ambiguous ms =>
    rw [hgm] at hspec
    obtain ⟨a, b, hab, ha, hb⟩ := hspec
    exact absurd (((huniq a).1 ha).trans ((huniq b).1 hb).symm) hab

/-! non-vacuity on the reachable demo map: `a.b.c` needs its first component (since `b.c` is itself
    stored), `b.c` is reported in full although `c` is shorter (two names end with `c`). -/
example : demo.minimal ["a", "b", "c"] = some ["a", "b", "c"] := by decide
example : demo.minimal ["b", "c"] = some ["b", "c"] := by decide
example : (["a", "b", "c"] : Sel) ∈ demo.keys ∧ (["a", "b", "c"] : Sel) ≠ [] := by decide

end Gin.C08
