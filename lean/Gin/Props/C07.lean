/-
C07 — the operative config records exactly what Gin supplied (record part; the replay part is
tied by running the real replay, see harness/props/c07.py).
-/
import Gin.Machine
import Gin.Lemmas.Call

namespace Gin.C07
open Gin Gin.AList

/-- names whose value the caller supplied itself (positionally or by keyword, not as a
    `gin.REQUIRED` marker) -/
def callerSupplied (c : Cfgable) (args : List Val) (kwargs : AList String Val) : List String :=
  (c.sig.args.take args.length).filter
      (fun n => !(reqNamesOf (c.sig.args.take args.length) args).contains n)
  ++ (keys kwargs).filter
      (fun n => !((kwargs.filter (fun kv => kv.2.isRequired)).map (·.1)).contains n)

theorem kwargDefaults_nodup (s : Sig) : (keys s.kwargDefaults).Nodup :=
  nodup_keys_update_nil _

theorem configurableDefaults_nodup (c : Cfgable) : (keys c.configurableDefaults).Nodup :=
  List.Sublist.nodup (keys_filter_sublist _ _) (kwargDefaults_nodup c.sig)

/-- What one call contributes to the operative record, parameter by parameter: nothing for a
    parameter the caller supplied; otherwise the applicable binding if there is one, else the
    signature default if that default is configurable (inside the allowlist / outside the denylist)
    and literally representable. -/
theorem operative_param (c : Cfgable) (cfg : Store) (σ : Scope) (args : List Val)
    (kwargs : AList String Val) (a : PhaseA) (hA : phaseA c cfg σ args kwargs = .ok a) (p : String) :
    lookup p a.operative =
      if p ∈ callerSupplied c args kwargs then none
      else (lookup p (getBindings cfg c.selector σ)).orElse
             (fun _ => lookup p c.configurableDefaults) := by
  unfold phaseA at hA
  by_cases hnv : (args.drop (c.sig.args.take args.length).length).any Val.isRequired = true
  · simp only [hnv, ↓reduceIte] at hA; cases hA
  · simp only [hnv, Bool.false_eq_true, ↓reduceIte, Except.ok.injEq] at hA
    subst hA
    simp only []
    have hb := getBindings_nodup cfg c.selector σ
    have hnk := nodup_keys_popAll _ hb ((c.sig.args.take args.length).filter
      (fun n => !(reqNamesOf (c.sig.args.take args.length) args).contains n))
    have hu := nodup_keys_update c.configurableDefaults
      (popAll (getBindings cfg c.selector σ) ((c.sig.args.take args.length).filter
        (fun n => !(reqNamesOf (c.sig.args.take args.length) args).contains n)))
      (configurableDefaults_nodup c)
    rw [lookup_popAll _ (nodup_keys_popAll _ hu _), lookup_popAll _ hu, lookup_update' _ _ hnk,
      lookup_popAll _ hb]
    unfold callerSupplied
    simp only [List.mem_append]
    by_cases h2 : p ∈ (keys kwargs).filter
        (fun n => !((kwargs.filter (fun kv => kv.2.isRequired)).map (·.1)).contains n)
    · simp only [h2, if_true, or_true]
    · by_cases h1 : p ∈ (c.sig.args.take args.length).filter
          (fun n => !(reqNamesOf (c.sig.args.take args.length) args).contains n)
      · simp only [h1, if_true, true_or, h2, if_false]
      · simp only [h2, h1, if_false, or_self]

/-- Parameters the caller supplied never appear in what the call records. -/
theorem operative_excludes_caller_supplied (c : Cfgable) (cfg : Store) (σ : Scope)
    (args : List Val) (kwargs : AList String Val) (a : PhaseA)
    (hA : phaseA c cfg σ args kwargs = .ok a) (p : String)
    (hp : p ∈ callerSupplied c args kwargs) : lookup p a.operative = none := by
  rw [operative_param c cfg σ args kwargs a hA, if_pos hp]

/-- Whatever is recorded was supplied by Gin: it is the applicable binding, or — when there is no
    binding — a signature default of a configurable parameter that is literally representable.
    Parameters outside the allowlist or inside the denylist therefore never appear through their
    defaults. -/
theorem operative_only_supplied (c : Cfgable) (cfg : Store) (σ : Scope) (args : List Val)
    (kwargs : AList String Val) (a : PhaseA) (hA : phaseA c cfg σ args kwargs = .ok a)
    (p : String) (v : Val) (hv : lookup p a.operative = some v) :
    lookup p (getBindings cfg c.selector σ) = some v ∨
    (lookup p (getBindings cfg c.selector σ) = none ∧ lookup p c.sig.kwargDefaults = some v ∧
      c.listed p = true ∧ v.representable = true) := by
  rw [operative_param c cfg σ args kwargs a hA] at hv
  split at hv
  · cases hv
  · cases hb : lookup p (getBindings cfg c.selector σ) with
    | some w => left; simp [hb] at hv; rw [hv]
    | none =>
      right
      simp only [hb, Option.orElse_none] at hv
      unfold Cfgable.configurableDefaults at hv
      rw [lookup_filter _ _ (kwargDefaults_nodup c.sig)] at hv
      cases hd : lookup p c.sig.kwargDefaults with
      | none => simp [hd] at hv
      | some w =>
        simp only [hd, Option.filter_some] at hv
        split at hv
        · rename_i hf
          simp only [Option.some.injEq] at hv
          subst hv
          simp only [Bool.and_eq_true] at hf
          exact ⟨rfl, rfl, hf.1.1, hf.1.2⟩
        · cases hv

/-- A positional-only parameter (D56, D57) is never among the defaults the operative record starts from: no binding
    could fill it on replay (with `**kwargs` a binding of that name is accepted, but lands in `**kwargs`). -/
theorem positional_only_default_not_recorded (c : Cfgable) (p : String)
    (hpo : p ∈ c.sig.args.take c.sig.posOnly) (hnd : c.sig.allArgs.Nodup) :
    lookup p c.configurableDefaults = none := by
  have hno : c.sig.kwNames.contains p = false := by
    simp only [Sig.kwNames]
    rw [Bool.eq_false_iff]
    intro hc
    simp only [List.contains_iff_mem, List.mem_append] at hc
    have hsplit : c.sig.allArgs =
        c.sig.args.take c.sig.posOnly ++ (c.sig.args.drop c.sig.posOnly ++ c.sig.kwonlyNames) := by
      simp [Sig.allArgs, ← List.append_assoc, List.take_append_drop]
    rw [hsplit] at hnd
    exact (List.nodup_append.1 hnd).2.2 _ hpo _ (List.mem_append.2 hc) rfl
  unfold Cfgable.configurableDefaults
  rw [lookup_filter _ _ (kwargDefaults_nodup c.sig)]
  cases lookup p c.sig.kwargDefaults with
  | none => rfl
  | some w =>
    have hnm : ¬ p ∈ c.sig.kwNames := by
      intro hm; rw [← List.contains_iff_mem] at hm; rw [hm] at hno; cases hno
    simp [hnm]

/-- The record update of one call: the entry of the (active scope, configurable) pair is created or
    updated with what this call contributes (most recent value wins); every other entry — in
    particular every configurable never called — is untouched. -/
theorem call_records (ev : Val → Val) (st : State) (full : Sel) (σ : Scope) (args : List Val)
    (kwargs : AList String Val) (e : Entry) (a : PhaseA)
    (he : st.registry.get? full = some e)
    (hA : phaseA e.cfg st.config σ args kwargs = .ok a) (key : Scope × Sel) :
    lookup key (st.call ev full σ args kwargs).1.operative =
      if key = (σ, full) then some (update (st.operative.params σ full) a.operative)
      else lookup key st.operative := by
  have hop : (st.call ev full σ args kwargs).1.operative =
      AList.set (σ, full) (update (st.operative.params σ full) a.operative) st.operative := by
    unfold State.call
    simp only [he, hA]
    split <;> (try split) <;> rfl
  rw [hop, lookup_set]

/-- A call whose arguments are rejected before the wrapper's bookkeeping (REQUIRED in `*args`)
    records nothing. -/
theorem rejected_call_records_nothing (ev : Val → Val) (st : State) (full : Sel) (σ : Scope)
    (args : List Val) (kwargs : AList String Val) (e : Entry) (err : CallErr)
    (he : st.registry.get? full = some e)
    (hA : phaseA e.cfg st.config σ args kwargs = .error err) :
    (st.call ev full σ args kwargs).1 = st := by
  unfold State.call
  simp [he, hA]

/-! Non-vacuity -/
def demoC : Cfgable :=
  { selector := ["f"], deny := ["z"],
    sig := { pos := [("x", none), ("y", some (.int 2)), ("z", some (.int 3)), ("w", some (.obj 1))] } }
example : (wrapperOperative demoC [(([], ["f"]), [("x", .int 7)])] [] [] [("y", .int 0)]) =
    some [("x", .int 7)] := by rfl
example : (wrapperOperative demoC [] [] [.int 1] []) = some [("y", .int 2)] := by rfl

end Gin.C07
