/-
C02 — literal values parse to exactly what Python evaluates them to (token level).
-/
import Gin.Lemmas.Parser

namespace Gin.C02
open Gin Gin.Parser

/-- Completeness of the value parser: every layout of every literal of the rendered grammar —
    atoms, numbers with a leading minus, runs of adjacent string literals, lists, dicts, the three
    parenthesis shapes `()`, `(x)`, "at least one comma", optional trailing commas, line breaks and
    comments after every opener, colon, comma, closer and string piece, to any nesting depth — parses
    to exactly that literal and stops right after it (trivia skipped).  `NoStr false rest`: what follows is
    not yet another string literal (which Python, too, would concatenate). -/
theorem parseValue_complete (l : L) (rest : List Token) (hr : Clean rest) (hns : NoStr false rest) :
    parseValue false (size l) (render l ++ rest) = .ok (val l, dropTriv false rest) :=
  parse_render false l (size l) rest hr hns (Nat.le_refl _)

/-- More fuel never changes the answer (the fuel only bounds nesting). -/
theorem parseValue_complete_fuel (l : L) (n : Nat) (rest : List Token) (hr : Clean rest)
    (hns : NoStr false rest) (h : size l ≤ n) :
    parseValue false n (render l ++ rest) = .ok (val l, dropTriv false rest) :=
  parse_render false l n rest hr hns h

/-- `(x)` is `x`, not a tuple … -/
theorem paren_is_value (j0 : List Bool) (x : L) (j : List Bool) : val (.paren j0 x j) = val x := by
  simp [val]

/-- … `(x,)` is the one-element tuple, `()` the empty one. -/
theorem one_tuple_needs_comma (j0 n1 j : List Bool) (x : L) :
    val (.tuple j0 x n1 [] none j) = .tuple [val x] ∧ val (.tuple0 j0 j) = .tuple [] := by
  simp [val, valItems, valFinal]

/-- The layout (trivia and trailing commas) never matters: two renderings of the same literal tree
    that differ only in layout parse to the same value. -/
theorem layout_irrelevant (l₁ l₂ : L) (r₁ r₂ : List Token) (h₁ : Clean r₁) (h₂ : Clean r₂)
    (n₁ : NoStr false r₁) (n₂ : NoStr false r₂) (hv : val l₁ = val l₂) :
    (parseValue false (size l₁) (render l₁ ++ r₁)).toOption.map (·.1) =
    (parseValue false (size l₂) (render l₂ ++ r₂)).toOption.map (·.1) := by
  rw [parseValue_complete l₁ r₁ h₁ n₁, parseValue_complete l₂ r₂ h₂ n₂]
  simp [Except.toOption, hv]

/-- `gin.config.parse_value` (D53): a laid-out literal followed by nothing but line ends, blank lines and comments
    parses to exactly that literal … -/
theorem parseSingle_complete (l : L) (rest : List Token) (hr : Clean rest) (hns : NoStr false rest)
    (hend : (cur ((dropTriv false rest).dropWhile endSkippable)).kind = .endmarker) :
    parseSingleValue (size l) (render l ++ rest) = .ok (val l) := by
  have hc : Clean (dropTriv false rest) := fun t ht => hr t ((List.dropWhile_sublist _).subset ht)
  simp only [parseSingleValue, parseValue_complete l rest hr hns,
    skipWhile_clean endSkippable _ _ hc (Nat.le_refl _), hend, beq_self_eq_true, if_true]

/-- … and anything else after it — another value, an operator, a name — is a syntax error; the first value is never
    handed out on its own. -/
theorem parseSingle_rejects_trailing (l : L) (rest : List Token) (hr : Clean rest) (hns : NoStr false rest)
    (hjunk : (cur ((dropTriv false rest).dropWhile endSkippable)).kind ≠ .endmarker) :
    ∃ m, parseSingleValue (size l) (render l ++ rest) = .error (.syntax m) := by
  have hc : Clean (dropTriv false rest) := fun t ht => hr t ((List.dropWhile_sublist _).subset ht)
  refine ⟨"Expected end of input.", ?_⟩
  simp only [parseSingleValue, parseValue_complete l rest hr hns,
    skipWhile_clean endSkippable _ _ hc (Nat.le_refl _)]
  have : ((cur ((dropTriv false rest).dropWhile endSkippable)).kind == TKind.endmarker) = false := by
    simpa using hjunk
  simp [this]

/-- Trailing junk: a statement whose value is followed by anything but NEWLINE / DEDENT /
    ENDMARKER is rejected with a syntax error. -/
theorem statement_rejects_trailing (stmts : List PStmt) (ts : List Token)
    (h : isEnd (cur ts) = false) : ∃ m, finishStmt stmts ts = .error (.syntax m) := by
  simp [finishStmt, h]

/-- A leading minus must be followed by a number-like token (`-@f`, `-%m`, `-[1]` are errors). -/
theorem minus_requires_basic (t : Token) (ts : List Token) (hminus : isOp t "-" = true)
    (hc : Clean ts) (hnb : isBasic (cur (dropTriv false ts)) = false) :
    ∃ m, parseBasic false (t :: ts) = .error (.syntax m) := by
  simp [parseBasic, cur_cons, hminus, adv_clean false t ts hc, hnb]

/-- Adjacent string literals concatenate piecewise; mixing `str` and `bytes` is an error. -/
theorem adjacent_strings_concat (a b : String) :
    concatAtoms (.str a) (.str b) = some (.str (a ++ b)) ∧
    concatAtoms (.bytes a) (.bytes b) = some (.bytes (a ++ b)) ∧
    concatAtoms (.str a) (.bytes b) = none ∧ concatAtoms (.bytes a) (.str b) = none := by
  simp [concatAtoms]

/-- the new shapes evaluate as Python does: `- 3` is the negated number, adjacent pieces concatenate,
    a dict keeps its entries in order -/
theorem new_shapes (j1 j : List Bool) (v : Val) (s0 : String) (j0 : List Bool) (s1 : String)
    (k w : L) (a : List Bool) :
    val (.natom j1 v j) = .lit v ∧
    val (.strs s0 j0 [(s1, j)]) = .lit (.str (s0 ++ s1)) ∧
    val (.dict j0 [] (some (k, a, w)) j) = .dict [(val k, val w)] := by
  simp [val, valEntries, valDFinal, joinStrs]

/-! Non-vacuity: `[ # c \n 1, (2,), ]` -/
def demo : L :=
  .list [true, false] [(.atom (.int 1) [], [false]), (.tuple [] (.atom (.int 2) []) [] [] none [], [])] none [false]
example : val demo = .list [.lit (.int 1), .tuple [.lit (.int 2)]] := by
  simp [demo, val, valItems, valFinal]
example : (render demo).length = 13 := by
  simp [demo, render, renderItems, renderFinal, triv]

end Gin.C02
