/-
C18 — shared records stay consistent under threads; singletons are constructed once.
-/
import Gin.Sched
import Gin.Lemmas.AList

namespace Gin.C18
open Gin Gin.Sched Gin.AList

/-- Once an object is cached for a key, every later use — from any thread — returns that very
    object and runs no constructor. -/
theorem singleton_stable (st : State) (k : String) (v : Val) (h : lookup k st.singletons = some v)
    (c : Bool) : st.singletonUse k c = .ok (st, v) := by
  simp [State.singletonUse, h]

/-- A first use constructs exactly one object, caches it, and returns it. -/
theorem singleton_first_use (st : State) (k : String) (h : lookup k st.singletons = none) :
    st.singletonUse k true =
      .ok ({ st with singletons := AList.set k (.obj (7000 + st.constructed)) st.singletons,
                     constructed := st.constructed + 1 }, .obj (7000 + st.constructed)) := by
  simp [State.singletonUse, h]

/-- A use never disturbs another key, and never replaces a cached object. -/
theorem singletonUse_preserves (st st' : State) (k k' : String) (c : Bool) (v v' : Val)
    (h : st.singletonUse k c = .ok (st', v)) (hk : lookup k' st.singletons = some v') :
    lookup k' st'.singletons = some v' := by
  unfold State.singletonUse at h
  split at h
  · simp only [Except.ok.injEq, Prod.mk.injEq] at h; rw [← h.1]; exact hk
  · rename_i hnone
    split at h
    · cases h
    · simp only [Except.ok.injEq, Prod.mk.injEq] at h
      rw [← h.1]
      simp only [lookup_set]
      by_cases hkk : k' = k
      · subst hkk; rw [hnone] at hk; cases hk
      · simp [hkk, hk]

/-- Over every history of uses (any threads, any order), all uses of a key that is already cached
    receive the cached object: so every use of a key, from the second on, gets what the first got. -/
theorem uses_return_cached (st : State) (h : List (Nat × String)) (k : String) (v : Val)
    (hk : lookup k st.singletons = some v) :
    ∀ x ∈ (runUses st h).2, x.2.1 = k → x.2.2 = v := by
  induction h generalizing st with
  | nil => simp [runUses]
  | cons u rest ih =>
    obtain ⟨t, k'⟩ := u
    simp only [runUses]
    cases hu : st.singletonUse k' true with
    | error e => simp only []; exact ih st hk
    | ok r =>
      obtain ⟨st', v'⟩ := r
      simp only []
      have hk' := singletonUse_preserves st st' k' k true v' v hu hk
      intro x hx hxk
      simp only [List.mem_cons] at hx
      rcases hx with rfl | hx
      · simp only at hxk
        subst hxk
        rw [singleton_stable st k' v hk true] at hu
        simp only [Except.ok.injEq, Prod.mk.injEq] at hu
        exact hu.2.symm
      · exact ih st' hk' x hx hxk

/-- `clear_config` forgets the cache: the next use constructs anew. -/
theorem singleton_cleared (st : State) (k : String) (c : Bool) :
    lookup k (st.clear c).singletons = none := by
  simp [State.clear, lookup]

/-- The unlocked check-then-act is racy: there is a schedule of two threads on which the
    constructor runs twice (kernel-checked witness; this is the unrepaired code, finding D12). -/
theorem unlocked_race_exists : (raceRun [0, 1, 0, 1]).built = 2 := by decide

/-- … while running the two uses one after the other constructs once. -/
theorem sequential_constructs_once : (raceRun [0, 0, 0, 1, 1, 1]).built = 1 := by decide

/-- Updates of the operative record commute when they agree on the parameters they share (the
    store is fixed during the run, so two calls of one configurable under one scope supply equal
    values for a parameter both supply): the final record does not depend on the order in which
    threads got the lock. -/
theorem operative_updates_commute (d a b : AList String Val) (ha : (keys a).Nodup) (hb : (keys b).Nodup)
    (hagree : ∀ p va vb, lookup p a = some va → lookup p b = some vb → va = vb) (p : String) :
    lookup p (update (update d a) b) = lookup p (update (update d b) a) := by
  rw [lookup_update' _ _ hb, lookup_update' _ _ ha, lookup_update' _ _ ha, lookup_update' _ _ hb]
  cases hpa : lookup p a with
  | none => cases hpb : lookup p b <;> simp
  | some va =>
    cases hpb : lookup p b with
    | none => simp
    | some vb => simp [hagree p va vb hpa hpb]

/-- A constructor that returns `None` is a constructor like any other: its (only) run is recorded and
    `None` is what every later use of that scope name receives — it is not run again. -/
theorem singleton_none_is_cached (st : State) (k : String) (h : lookup k st.singletons = none) :
    ∃ st', st.singletonUse k true true = .ok (st', .none) ∧ st'.constructed = st.constructed + 1 ∧
      ∀ c rn, st'.singletonUse k c rn = .ok (st', .none) := by
  refine ⟨{ st with singletons := AList.set k .none st.singletons, constructed := st.constructed + 1 }, ?_, rfl, ?_⟩
  · simp [State.singletonUse, h]
  · intro c rn
    simp [State.singletonUse, lookup_set]

end Gin.C18
