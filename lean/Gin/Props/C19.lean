/-
C19 — dynamic registration resolves names through the file's own imports.
-/
import Gin.DynReg
import Gin.Lemmas.AList

namespace Gin.C19
open Gin Gin.AList Gin.DynReg

/-- A dotted name resolves by looking its first component up among the context's symbols and then
    following attributes. -/
theorem resolve_follows_attrs (w : World) (c : Ctx) (s : String) (rest : List String) (m : Nat)
    (h : lookup s c.symtab = some m) : resolve w c (s :: rest) = follow w m rest := by
  simp [resolve, h]

/-- A first component that this context's imports did not bind is a NameError, whatever the world or
    other contexts contain. -/
theorem unbound_first_is_name_error (w : World) (c : Ctx) (s : String) (rest : List String)
    (h : lookup s c.symtab = none) : resolve w c (s :: rest) = .error .nameError := by
  simp [resolve, h]

/-- `follow` distributes over concatenation: resolving `a.b.c.d` is resolving `a.b` and continuing. -/
theorem follow_append (w : World) (o : Nat) (p q : List String) :
    follow w o (p ++ q) = (follow w o p).bind (fun o' => follow w o' q) := by
  induction p generalizing o with
  | nil => simp [follow, Except.bind]
  | cons a p ih =>
    simp only [List.cons_append, follow]
    cases w.getattr o a with
    | none => simp [Except.bind]
    | some o' => simpa using ih o'

/-- Different spellings of one object: if two selectors resolve (in any two contexts) to the same object,
    a binding through either lands on the same key. -/
theorem same_object_same_key (w : World) (sk : DSkip) (c1 c2 : Ctx) (b : Bindings) (s1 s2 : List String) (o : Nat)
    (arg : String) (v : Int) (hd1 : c1.dyn = true) (hd2 : c2.dyn = true)
    (h1 : resolve w c1 s1 = .ok o) (h2 : resolve w c2 s2 = .ok o) :
    (runStmt w sk c1 b (.bind s1 arg v)).1 = (runStmt w sk c2 b (.bind s2 arg v)).1 := by
  simp only [runStmt, shouldSkip, known, hd1, hd2, h1, h2, Bool.true_and, Bool.not_true, Bool.false_and,
    Bool.false_eq_true, if_false, Bool.not_true]
  by_cases hp : ((lookup o w.params).getD []).contains arg = true
  · rw [if_pos hp, if_pos hp]
  · rw [if_neg hp, if_neg hp]

/-- The four import forms bind: the alias if given, else the last component for `from`, else the first. -/
theorem boundName_forms (m : List String) (a : String) :
    ({ module := m, alias := some a } : Import).boundName = a ∧
    ({ module := m, isFrom := true, alias := some a } : Import).boundName = a ∧
    ({ module := m, isFrom := true } : Import).boundName = m.getLastD "" ∧
    ({ module := m } : Import).boundName = m.headD "" := by
  simp [Import.boundName]

/-- … and the bound object is the named module for `from` / `as`, the top-level package otherwise. -/
theorem import_binds (w : World) (c c' : Ctx) (i : Import) (hd : c.dyn = true) (hg : isGinFeature i = false)
    (h : processImport w c i = .ok c') :
    ∃ m, w.importTarget i = some m ∧ c'.symtab = AList.set i.boundName m c.symtab := by
  unfold processImport at h
  simp only [hg, Bool.false_eq_true, if_false] at h
  cases ht : w.importTarget i with
  | none => simp [ht] at h
  | some m =>
    simp only [ht, hd, if_true] at h
    split at h
    · cases h
    · cases h; exact ⟨m, rfl, rfl⟩

/-- The reserved name `gin` cannot be bound by an import. -/
theorem gin_is_reserved (w : World) (c : Ctx) (i : Import) (hd : c.dyn = true) (hg : isGinFeature i = false)
    (m : Nat) (ht : w.importTarget i = some m) (hn : i.boundName = "gin") :
    processImport w c i = .error .valueError := by
  simp [processImport, hg, ht, hd, hn]

/-- Enabling must be the first import, may not be aliased, and unknown features are errors. -/
theorem enabling_rules (w : World) (c : Ctx) (i : Import) (hg : isGinFeature i = true) :
    (i.alias.isSome = true → processImport w c i = .error .syntaxError) ∧
    (i.alias = none → i.module.tail ≠ ["dynamic_registration"] → processImport w c i = .error .syntaxError) ∧
    (i.alias = none → i.module.tail = ["dynamic_registration"] → c.imports ≠ [] →
      processImport w c i = .error .syntaxError) := by
  refine ⟨?_, ?_, ?_⟩
  · intro h; simp [processImport, hg, h]
  · intro h h2; simp [processImport, hg, h, h2]
  · intro h h2 h3; simp [processImport, hg, h, h2, h3]

/-- Symbols are per file: an included file starts from an empty symbol table, and what it imports does
    not reach the including file (the context after the include is the context before it). -/
theorem include_isolated (w : World) (sk : DSkip) (c : Ctx) (b : Bindings) (body : List DStmt) :
    (runStmt w sk c b (.unit body)).2.1 = c ∧
    (runStmt w sk c b (.unit body)).1 = (runStmts w sk {} b body).1 := by
  simp [runStmt]

/-- One spelling, two files, two objects: when the same selector resolves to different objects in two
    files (each file binds the name through its own imports), both bindings are accepted and each object
    keeps its own value — what the first file configured is not refused, renamed or overwritten by the
    second (D31: the implementation used to refuse the second object). -/
theorem same_spelling_other_file (w : World) (sk : DSkip) (c1 c2 : Ctx) (b : Bindings) (s : List String)
    (o1 o2 : Nat) (arg : String) (v1 v2 : Int) (hd1 : c1.dyn = true) (hd2 : c2.dyn = true)
    (h1 : resolve w c1 s = .ok o1) (h2 : resolve w c2 s = .ok o2) (hne : o1 ≠ o2)
    (hp1 : ((lookup o1 w.params).getD []).contains arg = true)
    (hp2 : ((lookup o2 w.params).getD []).contains arg = true) :
    (runStmt w sk c1 b (.bind s arg v1)).2.2 = none ∧
    (runStmt w sk c2 (runStmt w sk c1 b (.bind s arg v1)).1 (.bind s arg v2)).2.2 = none ∧
    lookup arg ((lookup o1 (runStmt w sk c2 (runStmt w sk c1 b (.bind s arg v1)).1 (.bind s arg v2)).1).getD [])
      = some v1 ∧
    lookup arg ((lookup o2 (runStmt w sk c2 (runStmt w sk c1 b (.bind s arg v1)).1 (.bind s arg v2)).1).getD [])
      = some v2 := by
  simp only [runStmt, shouldSkip, known, hd1, hd2, h1, h2, Bool.true_and, Bool.not_true, Bool.false_and,
    Bool.false_eq_true, if_false, hp1, hp2, if_true, bindObj, lookup_set, hne, Ne.symm hne]
  simp [lookup_set]

/-- non-vacuity: two spellings, one object -/
example :
    let w : World := { modules := [(["p"], 1), (["p", "m"], 2)], attrs := [(1, [("m", 2)]), (2, [("f", 3)])],
                       params := [(3, ["a"])] }
    let c : Ctx := { dyn := true, symtab := [("p", 1), ("al", 2)] }
    resolve w c ["p", "m", "f"] = .ok 3 ∧ resolve w c ["al", "f"] = .ok 3 ∧
    resolve w c ["q", "f"] = .error .nameError ∧ resolve w c ["al", "zz"] = .error .attributeError := by
  intro w c
  exact ⟨rfl, rfl, rfl, rfl⟩

/-- non-vacuity of `same_spelling_other_file`: `m1.shared` is object 3 in one file and object 4 in the other -/
example :
    let w : World := { modules := [(["p", "alt"], 1), (["p", "sub"], 2)], attrs := [(1, [("shared", 3)]), (2, [("shared", 4)])],
                       params := [(3, ["a"]), (4, ["a"])] }
    let c1 : Ctx := { dyn := true, symtab := [("m1", 1)] }
    let c2 : Ctx := { dyn := true, symtab := [("m1", 2)] }
    resolve w c1 ["m1", "shared"] = .ok 3 ∧ resolve w c2 ["m1", "shared"] = .ok 4 ∧
    (runStmts w .no c2 (runStmts w .no c1 [] [.bind ["m1", "shared"] "a" 91]).1
      [.bind ["m1", "shared"] "a" 66]) = ([(3, [("a", 91)]), (4, [("a", 66)])], none) := by
  intro w c1 c2
  exact ⟨rfl, rfl, by decide⟩

end Gin.C19
