/-
C11 — only configurable parameters of registered configurables can ever be bound.
-/
import Gin.Machine
import Gin.Lemmas.Call

namespace Gin.C11
open Gin Gin.AList

/-- What it means for a key to name a configurable parameter of a registered configurable. -/
def Bindable (st : State) (k : Key) (full : Sel) : Prop :=
  ∃ e, st.registry.getMatch k.sel = .one full e
    ∧ e.cfg.byKeyword k.arg = true              -- a parameter (of the undecorated function) that a keyword can fill
                                                --   (not a positional-only one: D56), or it takes **kwargs
    ∧ e.cfg.listed k.arg = true                 -- inside the allowlist / outside the denylist
    ∧ (e.cfg.isMethod = true → 2 ≤ k.sel.length) -- a method is addressed through its class

theorem parseKey_sound (st : State) (k : Key) (scope : Scope) (full : Sel) (arg : String)
    (h : st.parseKey k = .ok (scope, full, arg)) :
    Bindable st k full ∧ scope = k.scope ∧ arg = k.arg := by
  unfold State.parseKey at h
  split at h
  · cases h
  · cases h
  · rename_i full' e hm
    split at h
    · cases h
    · rename_i h1
      split at h
      · cases h
      · rename_i h2
        split at h
        · cases h
        · rename_i h3
          simp only [Except.ok.injEq, Prod.mk.injEq] at h
          obtain ⟨rfl, rfl, rfl⟩ := h
          refine ⟨⟨e, hm, by simpa using h2, by simpa using h3, ?_⟩, rfl, rfl⟩
          intro hmeth
          simp only [hmeth, Bool.true_and, decide_eq_true_eq, Nat.not_lt] at h1
          exact h1

/-- An accepted binding names a registered configurable and one of its configurable parameters, and
    changes exactly that parameter of that (scope, complete selector). -/
theorem bind_sound (st st' : State) (k : Key) (v : Val) (loc : Option Loc)
    (h : st.bind k v loc = .ok st') :
    st.locked = false ∧ ∃ full, Bindable st k full ∧
      st'.config = State.setParam st.config (k.scope, full) k.arg v ∧
      st'.registry = st.registry ∧ st'.locked = st.locked ∧ st'.operative = st.operative := by
  unfold State.bind at h
  split at h
  · cases h
  · rename_i hl
    split at h
    · cases h
    · rename_i scope full arg hp
      obtain ⟨hb, rfl, rfl⟩ := parseKey_sound st k _ _ _ hp
      simp only [Except.ok.injEq] at h
      subst h
      exact ⟨by simpa using hl, full, hb, rfl, rfl, rfl, rfl⟩

/-- A rejected binding leaves the whole state exactly as it was (this is the statement for every
    API path: string keys, tuple keys, config text, blocks and scoped keys all reach the store
    through `bind`). -/
theorem bind_reject_unchanged (st : State) (k : Key) (v : Val) (e : Err)
    (h : (step st (.bind k v)).2 = .err e) : (step st (.bind k v)).1 = st := by
  simp only [step] at h ⊢
  split <;> simp_all

/-- Finalize hooks go through the same validation: if `finalize` succeeds, every key returned by
    every hook is bindable (so a hook cannot introduce a non-configurable parameter either). -/
theorem collectHooks_sound (st : State) (hooks : List Hook)
    (acc upd : List ((Scope × Sel × String) × Val))
    (h : State.collectHooks st hooks acc = .ok upd) :
    ∀ hk ∈ hooks, ∀ kvs, hk.ret = some kvs → ∀ kv ∈ kvs, ∃ full, Bindable st kv.1 full := by
  induction hooks generalizing acc with
  | nil => simp
  | cons hk rest ih =>
    intro hk' hmem kvs hret kv hkv
    unfold State.collectHooks at h
    split at h
    · cases h
    · split at h
      · rename_i hnone
        rcases List.mem_cons.1 hmem with rfl | hm
        · rw [hnone] at hret; cases hret
        · exact ih acc h hk' hm kvs hret kv hkv
      · rename_i kvs0 hsome
        split at h
        · cases h
        · rename_i acc' hgo
          rcases List.mem_cons.1 hmem with rfl | hm
          · rw [hsome] at hret
            cases hret
            -- every key processed by `go` parsed successfully
            have hgen : ∀ (l : List (Key × Val)) (a a' : List ((Scope × Sel × String) × Val)),
                State.collectHooks.go st l a = .ok a' → ∀ kv ∈ l, ∃ full, Bindable st kv.1 full := by
              intro l
              induction l with
              | nil => simp
              | cons x more ihl =>
                intro a a' hg kv hkv
                obtain ⟨k0, v0⟩ := x
                unfold State.collectHooks.go at hg
                split at hg
                · cases hg
                · rename_i nk hpk
                  split at hg
                  · cases hg
                  · rcases List.mem_cons.1 hkv with rfl | hkv'
                    · obtain ⟨s, f, a0⟩ := nk
                      exact ⟨f, (parseKey_sound st k0 s f a0 hpk).1⟩
                    · exact ihl _ _ hg kv hkv'
            exact hgen kvs acc acc' hgo kv hkv
          · exact ih acc' h hk' hm kvs hret kv hkv

theorem finalize_hooks_validated (st st' : State) (h : st.finalize = .ok st') :
    ∀ hk ∈ st.hooks, ∀ kvs, hk.ret = some kvs → ∀ kv ∈ kvs, ∃ full, Bindable st kv.1 full := by
  unfold State.finalize at h
  split at h
  · cases h
  · split at h
    · cases h
    · split at h
      · cases h
      · rename_i upd hc
        exact collectHooks_sound st st.hooks [] upd hc

/-- A method registered under a registered class is rejected when addressed without its class. -/
theorem method_needs_class (st : State) (k : Key) (full : Sel) (e : Entry)
    (hm : st.registry.getMatch k.sel = .one full e) (hmeth : e.cfg.isMethod = true)
    (hshort : k.sel.length < 2) : st.parseKey k = .error .valueError := by
  unfold State.parseKey
  simp [hm, hmeth, hshort]

/-- An ordinary decorator between Gin and the function does not widen what can be bound: although the
    registered callable itself takes `**kwargs`, a parameter is bindable only if the function at the end of
    the `__wrapped__` chain might have it. -/
theorem decorator_does_not_widen (st : State) (k : Key) (full : Sel) (e : Entry) (inner : Sig)
    (hm : st.registry.getMatch k.sel = .one full e) (hin : e.cfg.innerSig = some inner)
    (hno : inner.byKeyword k.arg = false) : st.parseKey k = .error .valueError := by
  unfold State.parseKey
  simp only [hm]
  split
  · rfl
  · simp [Cfgable.byKeyword, hin, hno]

/-- A positional-only parameter cannot be bound (D56): Gin supplies values by keyword, so the signature cannot accept
    one for it — unless the callable takes `**kwargs`, where the name lands. Every binding path goes through
    `parseKey`, so this holds for string keys, tuple keys, config text, blocks and finalize hooks alike. -/
theorem positional_only_not_bindable (st : State) (k : Key) (full : Sel) (e : Entry)
    (hm : st.registry.getMatch k.sel = .one full e) (hin : e.cfg.innerSig = none)
    (hkw : e.cfg.sig.varkw = false)
    (hpo : k.arg ∈ e.cfg.sig.args.take e.cfg.sig.posOnly)
    (hnd : e.cfg.sig.allArgs.Nodup) : st.parseKey k = .error .valueError := by
  unfold State.parseKey
  simp only [hm]
  split
  · rfl
  · have hno : e.cfg.byKeyword k.arg = false := by
      simp only [Cfgable.byKeyword, hin, Option.getD_none, Sig.byKeyword, hkw, Bool.false_or, Sig.kwNames]
      rw [Bool.eq_false_iff]
      intro hc
      simp only [List.contains_iff_mem, List.mem_append] at hc
      have hsplit : e.cfg.sig.allArgs =
          e.cfg.sig.args.take e.cfg.sig.posOnly ++ (e.cfg.sig.args.drop e.cfg.sig.posOnly ++ e.cfg.sig.kwonlyNames) := by
        simp [Sig.allArgs, ← List.append_assoc, List.take_append_drop]
      rw [hsplit] at hnd
      exact (List.nodup_append.1 hnd).2.2 _ hpo _ (List.mem_append.2 hc) rfl
    simp [hno]

/-! Non-vacuity. -/
def demoDeco : State :=
  match initState.register { name := ["g"], module := some ["m"], sig := { varargs := true, varkw := true },
                             innerSig := some { pos := [("x", none)] }, objId := 2 } with
  | .ok s => s
  | .error _ => initState
example : (demoDeco.bind { scope := [], sel := ["g"], arg := "x" } (.int 1)).toOption.isSome = true := by rfl
example : (demoDeco.bind { scope := [], sel := ["g"], arg := "y" } (.int 1)).toOption.isSome = false := by rfl

def demoSt : State :=
  match initState.register { name := ["f"], module := some ["m"], sig := { pos := [("x", none)] },
                             deny := [], allow := ["x"], objId := 1 } with
  | .ok s => s
  | .error _ => initState

example : (demoSt.bind { scope := ["a"], sel := ["f"], arg := "x" } (.int 1)).toOption.isSome = true := by rfl
example : (demoSt.bind { scope := ["a"], sel := ["f"], arg := "y" } (.int 1)).toOption.isSome = false := by rfl

end Gin.C11
