/-
C06 (continued) — the round trip at statement level: the statements the config string spells (one binding
statement per printed line, values written with `@printed.name` and `%macro`), parsed into the cleared
configuration, restore exactly the representable bindings.  Text → statements is C03's subject; value text →
value (`repr` / literal parsing) is CPython's and C02's.
-/
import Gin.Props.C06d
import Gin.Lemmas.Flatten
import Gin.Props.C11

namespace Gin.C06
open Gin Gin.AList Gin.SelMap Gin.C08

mutual
  /-- a value as the config string writes it: references under the printed name of their target, macros and
      constants as `%name`, everything else literally -/
  def toRaw (st : State) : Val → RawVal
    | .list xs => .list (toRaws st xs)
    | .tuple xs => .tuple (toRaws st xs)
    | .dict kvs => .dict (toRawD st kvs)
    | .ref scopes full ev => .ref scopes (printedSelector st full) ev
    | .macro name => .macro name
    | .const name => .macro (".".intercalate name)
    | v => .lit v
  def toRaws (st : State) : List Val → List RawVal
    | [] => []
    | x :: xs => toRaw st x :: toRaws st xs
  def toRawD (st : State) : List (Val × Val) → List (RawVal × RawVal)
    | [] => []
    | (k, v) :: rest => (toRaw st k, toRaw st v) :: toRawD st rest
end

mutual
  /-- what a value must satisfy to be read back as itself: every reference names a registered configurable, no
      macro is named like a constant, every constant is still the only one its name addresses -/
  def Readable (st : State) : Val → Prop
    | .list xs => ReadableL st xs
    | .tuple xs => ReadableL st xs
    | .dict kvs => ReadableD st kvs
    | .ref _ full _ => full ∈ st.registry.keys ∧ full ≠ [] ∧
        (∀ e, st.registry.get? full = some e → e.cfg.isMethod = true → 2 ≤ full.length)
    | .macro name => st.constants.matching (splitChar name '.') = []
    | .const name => st.constants.matching (splitChar (".".intercalate name) '.') = [name]
    | _ => True
  def ReadableL (st : State) : List Val → Prop
    | [] => True
    | x :: xs => Readable st x ∧ ReadableL st xs
  def ReadableD (st : State) : List (Val × Val) → Prop
    | [] => True
    | (k, v) :: rest => Readable st k ∧ Readable st v ∧ ReadableD st rest
end

mutual
  theorem resolve_toRaw (st : State) (hinv : Inv st.registry) : ∀ (v : Val), Readable st v →
      resolveRaw st .no (toRaw st v) = .ok v
    | .list xs, h => by
      simp only [toRaw, resolveRaw, resolve_toRaws st hinv xs (by simpa [Readable] using h)]
    | .tuple xs, h => by
      simp only [toRaw, resolveRaw, resolve_toRaws st hinv xs (by simpa [Readable] using h)]
    | .dict kvs, h => by
      simp only [toRaw, resolveRaw, resolve_toRawD st hinv kvs (by simpa [Readable] using h)]
    | .ref scopes full ev, h => by
      simp only [Readable] at h
      obtain ⟨hk, hne, hm⟩ := h
      obtain ⟨e, hgm, _, _⟩ := printed_resolves st hinv full hk hne hm
      have hmatch : (st.registry.matching (printedSelector st full)).isEmpty = false := by
        simp only [SelMap.getMatch] at hgm
        cases hmm : st.registry.matching (printedSelector st full) with
        | nil => simp [hmm] at hgm
        | cons a r => rfl
      simp [toRaw, resolveRaw, shouldSkip, hmatch, hgm]
    | .macro name, h => by
      simp only [Readable] at h
      simp [toRaw, resolveRaw, State.resolveMacro, h]
    | .const name, h => by
      simp only [Readable] at h
      simp [toRaw, resolveRaw, State.resolveMacro, h]
    | .none, _ => by simp [toRaw, resolveRaw]
    | .bool _, _ => by simp [toRaw, resolveRaw]
    | .int _, _ => by simp [toRaw, resolveRaw]
    | .float _ _, _ => by simp [toRaw, resolveRaw]
    | .complex _, _ => by simp [toRaw, resolveRaw]
    | .str _, _ => by simp [toRaw, resolveRaw]
    | .bytes _, _ => by simp [toRaw, resolveRaw]
    | .set _, _ => by simp [toRaw, resolveRaw]
    | .unknownRef _ _, _ => by simp [toRaw, resolveRaw]
    | .obj _, _ => by simp [toRaw, resolveRaw]
    | .required, _ => by simp [toRaw, resolveRaw]
    | .fn _ _, _ => by simp [toRaw, resolveRaw]
    | .result _ _, _ => by simp [toRaw, resolveRaw]
  theorem resolve_toRaws (st : State) (hinv : Inv st.registry) : ∀ (xs : List Val), ReadableL st xs →
      resolveRaws st .no (toRaws st xs) = .ok xs
    | [], _ => by simp [toRaws, resolveRaws]
    | x :: xs, h => by
      simp only [ReadableL] at h
      simp only [toRaws, resolveRaws, resolve_toRaw st hinv x h.1, resolve_toRaws st hinv xs h.2]
  theorem resolve_toRawD (st : State) (hinv : Inv st.registry) : ∀ (kvs : List (Val × Val)), ReadableD st kvs →
      resolveRawD st .no (toRawD st kvs) = .ok kvs
    | [], _ => by simp [toRawD, resolveRawD]
    | (k, v) :: rest, h => by
      simp only [ReadableD] at h
      simp only [toRawD, resolveRawD, resolve_toRaw st hinv k h.1, resolve_toRaw st hinv v h.2.1,
        resolve_toRawD st hinv rest h.2.2]
end

/-! ### the statements of the text -/

/-- a macro line `a/b = v`: the parser reads scope `a`, name `b` -/
def macroStmt (st : State) (x : Scope × Val) : Stmt :=
  .binding x.1.dropLast [x.1.getLastD ""] "" (toRaw st x.2) 0

/-- a section line `scope/printed.param = v` -/
def paramStmt (st : State) (sec : Section) (pv : String × Val) : Stmt :=
  .binding sec.scope sec.printed pv.1 (toRaw st pv.2) 0

/-- the binding statements the config string of store `s` spells, in text order -/
def docStmts (st : State) (s : Store) : List Stmt :=
  (macroKeys st s).map (macroStmt st) ++
  (emitDoc st s).sections.flatMap (fun sec => sec.params.map (paramStmt st sec))

/-- statements paired with the (key, value) they spell -/
def docPairs (st : State) (s : Store) : List (Stmt × Key × Val) :=
  (macroKeys st s).map (fun x => (macroStmt st x, { scope := x.1, sel := State.macroSel, arg := "value" }, x.2)) ++
  (emitDoc st s).sections.flatMap (fun sec => sec.params.map (fun pv =>
    (paramStmt st sec pv, { scope := sec.scope, sel := sec.printed, arg := pv.1 }, pv.2)))

theorem docPairs_fst (st : State) (s : Store) : (docPairs st s).map (·.1) = docStmts st s := by
  simp [docPairs, docStmts, List.map_flatMap, Function.comp_def]

theorem docPairs_snd (st : State) (s : Store) : (docPairs st s).map (·.2) = replayKeys st s := by
  simp [docPairs, replayKeys, List.map_flatMap, Function.comp_def]

/-- one statement against one bind: same verdict, same core -/
def Spells (st : State) (x : Stmt × Key × Val) : Prop :=
  ∀ (s1 s2 : State), s1.core = s2.core → s2.registry = st.registry → s2.constants = st.constants →
    match s1.bind x.2.1 x.2.2, applyStmt s2 none .no x.1 with
    | .ok s1', (s2', _, _, none) => s1'.core = s2'.core
    | .error _, (_, _, _, some _) => True
    | _, _ => False

theorem applyStmts_of_spells (st : State) (L : List (Stmt × Key × Val)) (hsp : ∀ x ∈ L, Spells st x) :
    ∀ (s1 s2 s1' : State), s1.core = s2.core → s2.registry = st.registry → s2.constants = st.constants →
      bindAll s1 (L.map (·.2)) = .ok s1' →
      (applyStmts s2 none .no (L.map (·.1))).failure = none ∧
      (applyStmts s2 none .no (L.map (·.1))).st.core = s1'.core := by
  induction L with
  | nil =>
    intro s1 s2 s1' hc _ _ hb
    simp only [List.map_nil, bindAll, Except.ok.injEq] at hb
    subst hb
    exact ⟨rfl, hc.symm⟩
  | cons x rest ih =>
    intro s1 s2 s1' hc hr hcs hb
    have hx := hsp x List.mem_cons_self s1 s2 hc hr hcs
    simp only [List.map_cons, bindAll] at hb
    simp only [List.map_cons, applyStmts]
    cases hb1 : s1.bind x.2.1 x.2.2 with
    | error e => simp [hb1] at hb
    | ok s1m =>
      simp only [hb1] at hb hx
      rcases ha : applyStmt s2 none .no x.1 with ⟨s2m, imps, incs, fl⟩
      rw [ha] at hx
      cases fl with
      | some f => simp at hx
      | none =>
        simp only at hx
        have hfr := applyStmt_frame s2 none .no x.1
        rw [ha] at hfr
        -- the registry is untouched by a binding statement
        have hreg2 : s2m.registry = st.registry := by
          have h1 : s2m.core = s1m.core := hx.symm
          have := (core_fields h1).1
          rw [this, (bind_registry_eq s1 s1m x.2.1 x.2.2 none hb1).1, (core_fields hc).1, hr]
        have hcs2 : s2m.constants = st.constants := by rw [hfr.constants, hcs]
        obtain ⟨h1, h2⟩ := ih (fun y hy => hsp y (List.mem_cons_of_mem _ hy)) s1m s2m s1' hx hreg2 hcs2 hb
        simp only
        exact ⟨by simpa using h1, by simpa using h2⟩

/-- what the text level needs beyond `StoreOK`: macro names and parameter names are not empty, and every printed
    value reads back as itself -/
structure TextOK (st : State) (s : Store) : Prop where
  macroNamed : ∀ kv ∈ s, kv.1.2 = State.macroSel → kv.1.1 ≠ []
  paramNamed : ∀ kv ∈ s, ∀ pv ∈ kv.2, pv.1 ≠ ""
  readable : ∀ kv ∈ s, ∀ pv ∈ kv.2, pv.2.representable = true → Readable st pv.2

theorem shouldSkip_no (s : State) (sel : Sel) : shouldSkip s sel .no = false := by
  unfold shouldSkip; split <;> rfl

theorem intercalate_single (y : String) : ".".intercalate [y] = y := by
  rfl

theorem spells_binding (st : State) (hinv : Inv st.registry) (scope : Scope) (sel : Sel) (arg : String) (v : Val)
    (key : Key) (hr : Readable st v)
    (hkey : (arg.isEmpty = true ∧ key = { scope := scope ++ [".".intercalate sel], sel := State.macroSel, arg := "value" }) ∨
            (arg.isEmpty = false ∧ key = { scope := scope, sel := sel, arg := arg })) :
    Spells st (.binding scope sel arg (toRaw st v) 0, key, v) := by
  intro s1 s2 hc hreg hcs
  have hres : resolveRaw s2 .no (toRaw st v) = .ok v := by
    rw [resolveRaw_congr hreg hcs .no (toRaw st v)]
    exact resolve_toRaw st hinv v hr
  simp only [applyStmt, hres]
  rcases hkey with ⟨he, rfl⟩ | ⟨hne, rfl⟩
  · simp only [he, if_true]
    have hb := bind_core hc { scope := scope ++ [".".intercalate sel], sel := State.macroSel, arg := "value" } v
      none (some { file := none, line := 0 })
    revert hb
    cases s1.bind _ v none <;> cases s2.bind _ v _ <;> simp
  · simp only [hne, Bool.false_eq_true, if_false, shouldSkip_no]
    have hb := bind_core hc { scope := scope, sel := sel, arg := arg } v none (some { file := none, line := 0 })
    revert hb
    cases s1.bind _ v none <;> cases s2.bind _ v _ <;> simp

theorem docPairs_spell (st : State) (hinv : Inv st.registry) (s : Store) (ht : TextOK st s)
    (x : Stmt × Key × Val) (hx : x ∈ docPairs st s) : Spells st x := by
  unfold docPairs at hx
  rcases List.mem_append.1 hx with hm | hsec
  · obtain ⟨m, hmk, rfl⟩ := List.mem_map.1 hm
    obtain ⟨skv, hskv, hf⟩ := List.mem_filterMap.1 hmk
    have hmem : skv ∈ s := (mem_sortBy _ skv s).1 hskv
    by_cases hms : (skv.1.2 == State.macroSel) = true
    · simp only [hms, if_true] at hf
      cases hlv : AList.lookup "value" skv.2 with
      | none => simp [hlv] at hf
      | some v =>
        simp only [hlv] at hf
        by_cases hrp : v.representable = true
        · simp only [hrp, if_true, Option.some.injEq] at hf
          subst hf
          have hsel : skv.1.2 = State.macroSel := by simpa using hms
          have hne : skv.1.1 ≠ [] := ht.macroNamed skv hmem hsel
          have hread := ht.readable skv hmem ("value", v) (mem_of_lookup skv.2 "value" v hlv) hrp
          apply spells_binding st hinv _ _ _ _ _ hread
          left
          refine ⟨rfl, ?_⟩
          have : skv.1.1.dropLast ++ [".".intercalate [skv.1.1.getLastD ""]] = skv.1.1 := by
            rw [intercalate_single]
            have hl : skv.1.1.getLastD "" = skv.1.1.getLast hne := by
              rw [List.getLastD_eq_getLast?, List.getLast?_eq_some_getLast hne]; rfl
            rw [hl]
            exact List.dropLast_concat_getLast hne
          simp only [this]
        · simp [hrp] at hf
    · simp [hms] at hf
  · obtain ⟨sec, hsec', hpv⟩ := List.mem_flatMap.1 hsec
    obtain ⟨pv, hpv', rfl⟩ := List.mem_map.1 hpv
    simp only [emitDoc] at hsec'
    obtain ⟨skv, hskv, hf⟩ := List.mem_filterMap.1 hsec'
    have hmem : skv ∈ s := (mem_sortBy _ skv s).1 hskv
    by_cases hmc : (skv.1.2 == State.macroSel || skv.1.2 == State.constSel) = true
    · simp [hmc] at hf
    · simp only [hmc, Bool.false_eq_true, if_false, Option.some.injEq] at hf
      subst hf
      simp only at hpv'
      have hpv2 : pv ∈ skv.2.filter (fun pv => pv.2.representable) := (mem_sortBy _ pv _).1 hpv'
      obtain ⟨hpin, hrep⟩ := List.mem_filter.1 hpv2
      have hread := ht.readable skv hmem pv hpin hrep
      have hname := ht.paramNamed skv hmem pv hpin
      apply spells_binding st hinv _ _ _ _ _ hread
      right
      refine ⟨?_, rfl⟩
      cases hpe : pv.1.isEmpty with
      | false => rfl
      | true => exact absurd (by simpa [String.isEmpty_iff] using hpe) hname

/-- **Round trip at statement level.** Parsing the statements the config string spells into the cleared
    configuration fails nowhere and leaves every (scope, configurable, parameter) with exactly what the store held
    if that value has a literal form, and unbound otherwise. -/
theorem parse_roundtrip (st : State) (hinv : Inv st.registry) (hl : st.locked = false)
    (hok : StoreOK st st.config) (ht : TextOK st st.config) :
    let out := applyStmts { st with config := [], prov := [] } none .no (docStmts st st.config)
    out.failure = none ∧
    ∀ key p, getP out.st.config key p = (getP st.config key p).filter (fun v => v.representable) := by
  obtain ⟨st', hb, hcfg⟩ := config_str_roundtrip st hinv hl hok
  have hsp := docPairs_spell st hinv st.config ht
  rw [← docPairs_snd] at hb
  have := applyStmts_of_spells st (docPairs st st.config) hsp { st with config := [], prov := [] }
    { st with config := [], prov := [] } st' rfl rfl rfl hb
  rw [docPairs_fst] at this
  refine ⟨this.1, ?_⟩
  intro key p
  have hc : (applyStmts { st with config := [], prov := [] } none .no (docStmts st st.config)).st.config = st'.config :=
    (core_fields this.2).2.1
  rw [hc]
  exact hcfg key p

mutual
  theorem readable_congr {s t : State} (hr : s.registry = t.registry) (hc : s.constants = t.constants) :
      ∀ (v : Val), Readable s v → Readable t v
    | .list xs, h => by simp only [Readable] at h ⊢; exact readableL_congr hr hc xs h
    | .tuple xs, h => by simp only [Readable] at h ⊢; exact readableL_congr hr hc xs h
    | .dict kvs, h => by simp only [Readable] at h ⊢; exact readableD_congr hr hc kvs h
    | .ref _ _ _, h => by simp only [Readable] at h ⊢; rw [← hr]; exact h
    | .macro _, h => by simp only [Readable] at h ⊢; rw [← hc]; exact h
    | .const _, h => by simp only [Readable] at h ⊢; rw [← hc]; exact h
    | .none, _ => by simp [Readable]
    | .bool _, _ => by simp [Readable]
    | .int _, _ => by simp [Readable]
    | .float _ _, _ => by simp [Readable]
    | .complex _, _ => by simp [Readable]
    | .str _, _ => by simp [Readable]
    | .bytes _, _ => by simp [Readable]
    | .set _, _ => by simp [Readable]
    | .unknownRef _ _, _ => by simp [Readable]
    | .obj _, _ => by simp [Readable]
    | .required, _ => by simp [Readable]
    | .fn _ _, _ => by simp [Readable]
    | .result _ _, _ => by simp [Readable]
  theorem readableL_congr {s t : State} (hr : s.registry = t.registry) (hc : s.constants = t.constants) :
      ∀ (xs : List Val), ReadableL s xs → ReadableL t xs
    | [], _ => by simp [ReadableL]
    | x :: xs, h => by
      simp only [ReadableL] at h ⊢
      exact ⟨readable_congr hr hc x h.1, readableL_congr hr hc xs h.2⟩
  theorem readableD_congr {s t : State} (hr : s.registry = t.registry) (hc : s.constants = t.constants) :
      ∀ (kvs : List (Val × Val)), ReadableD s kvs → ReadableD t kvs
    | [], _ => by simp [ReadableD]
    | (k, v) :: rest, h => by
      simp only [ReadableD] at h ⊢
      exact ⟨readable_congr hr hc k h.1, readable_congr hr hc v h.2.1, readableD_congr hr hc rest h.2.2⟩
end

theorem textOK_empty (st : State) : TextOK st [] where
  macroNamed := by intro kv h; cases h
  paramNamed := by intro kv h; cases h
  readable := by intro kv h; cases h

/-- what is asked of a binding for the text to read back: a named parameter, a named macro, a value that reads
    back as itself if it is printed at all -/
def BindOK (st : State) (k : Key) (v : Val) : Prop :=
  k.arg ≠ "" ∧ k.scope ≠ [] ∧ (v.representable = true → Readable st v)

/-- a successful `bind` of such a pair keeps the text-level side conditions -/
theorem textOK_bind (st st' : State) (ht : TextOK st st.config) (k : Key) (v : Val)
    (hb : st.bind k v = .ok st') (hk : k.arg ≠ "") (hsc : k.scope ≠ [])
    (hv : v.representable = true → Readable st v) : TextOK st' st'.config := by
  have hreg := (bind_registry_eq st st' k v none hb).1
  have hcon := (bind_registry_eq st st' k v none hb).2
  have hl : st.locked = false := by
    cases h : st.locked with
    | false => rfl
    | true => simp [State.bind, h] at hb
  cases hpk : st.parseKey k with
  | error e => simp [State.bind, hl, hpk] at hb
  | ok r =>
    obtain ⟨scope, full, arg⟩ := r
    obtain ⟨rfl, rfl⟩ : scope = k.scope ∧ arg = k.arg := (C11.parseKey_sound st k scope full arg hpk).2
    obtain ⟨stb, hb2, hcfgeq, _, _⟩ := bind_ok_of_parse st k v k.scope full k.arg hl hpk
    have hst : st' = stb := by rw [hb2] at hb; exact (Except.ok.inj hb).symm
    subst hst
    rw [hcfgeq]
    have hcfg : ∀ kv ∈ State.setParam st.config (k.scope, full) k.arg v,
        kv = ((k.scope, full), AList.set k.arg v (st.config.params k.scope full)) ∨ kv ∈ st.config :=
      fun kv h => mem_of_mem_set _ _ _ kv h
    have hold : ∀ pv ∈ st.config.params k.scope full, ∃ d, ((k.scope, full), d) ∈ st.config ∧ pv ∈ d := by
      intro pv hpv
      unfold Store.params at hpv
      cases hl2 : AList.lookup (k.scope, full) st.config with
      | none => simp [hl2] at hpv
      | some d =>
        simp only [hl2, Option.getD_some] at hpv
        exact ⟨d, mem_of_lookup _ _ _ hl2, hpv⟩
    have hrc : ∀ w, Readable st w → Readable st' w := fun w h => readable_congr hreg.symm hcon.symm w h
    refine ⟨?_, ?_, ?_⟩
    · intro kv hkv hm
      rcases hcfg kv hkv with rfl | hin
      · exact hsc
      · exact ht.macroNamed kv hin hm
    · intro kv hkv pv hpv
      rcases hcfg kv hkv with rfl | hin
      · rcases mem_of_mem_set _ _ _ pv hpv with rfl | hpold
        · exact hk
        · obtain ⟨d, hd, hpd⟩ := hold pv hpold
          exact ht.paramNamed _ hd pv hpd
      · exact ht.paramNamed kv hin pv hpv
    · intro kv hkv pv hpv hrep
      apply hrc
      rcases hcfg kv hkv with rfl | hin
      · rcases mem_of_mem_set _ _ _ pv hpv with rfl | hpold
        · exact hv hrep
        · obtain ⟨d, hd, hpd⟩ := hold pv hpold
          exact ht.readable _ hd pv hpd hrep
      · exact ht.readable kv hin pv hpv hrep

theorem textOK_reachable (L : List (Key × Val)) : ∀ (st : State), TextOK st st.config →
    (∀ kv ∈ L, BindOK st kv.1 kv.2) → TextOK (bindMany st L) (bindMany st L).config := by
  induction L with
  | nil => intro st h _; exact h
  | cons kv rest ih =>
    intro st ht hall
    obtain ⟨k, v⟩ := kv
    simp only [bindMany]
    cases hb : st.bind k v with
    | error e => exact ih st ht (fun kv' h' => hall kv' (List.mem_cons_of_mem _ h'))
    | ok st1 =>
      obtain ⟨h1, h2, h3⟩ := hall (k, v) List.mem_cons_self
      have ht1 := textOK_bind st st1 ht k v hb h1 h2 h3
      have hreg := (bind_registry_eq st st1 k v none hb).1
      have hcon := (bind_registry_eq st st1 k v none hb).2
      apply ih st1 ht1
      intro kv' h'
      obtain ⟨a1, a2, a3⟩ := hall kv' (List.mem_cons_of_mem _ h')
      exact ⟨a1, a2, fun hr => readable_congr hreg.symm hcon.symm _ (a3 hr)⟩

/-- **Round trip at statement level for every configuration reachable by binding**: start from an unlocked state with
    an empty store over a well-formed registry, make any sequence of bind attempts whose parameters and scopes are
    named and whose printable values name registered configurables (and no macro like a constant), print, and parse the
    printed statements into the cleared configuration: nothing fails, and every parameter holds what it held if that
    has a literal form, and nothing otherwise. -/
theorem parse_roundtrip_reachable (st0 : State) (hr : RegOK st0) (hl : st0.locked = false) (h0 : st0.config = [])
    (L : List (Key × Val)) (hL : ∀ kv ∈ L, BindOK st0 kv.1 kv.2) :
    let st := bindMany st0 L
    let out := applyStmts { st with config := [], prov := [] } none .no (docStmts st st.config)
    out.failure = none ∧
    ∀ key p, getP out.st.config key p = (getP st.config key p).filter (fun v => v.representable) := by
  obtain ⟨hok, hreg, hlk⟩ := storeOK_reachable L st0 hr (h0 ▸ storeOK_empty st0 hr)
  have ht := textOK_reachable L st0 (h0 ▸ textOK_empty st0) hL
  exact parse_roundtrip (bindMany st0 L) ((regOK_congr hreg.symm hr).inv) (hlk.trans hl) hok ht

/-! Non-vacuity: the demo binds of `C06d` (two macros, one of them without literal form). -/
theorem demo_bindOK : ∀ kv ∈ demoBinds, BindOK initState kv.1 kv.2 := by
  intro kv h
  simp only [demoBinds, List.mem_cons, List.mem_nil_iff, or_false] at h
  rcases h with rfl | rfl
  · exact ⟨by decide, by decide, fun _ => by simp [Readable]⟩
  · exact ⟨by decide, by decide, fun h => by simp [Val.representable] at h⟩

example : (applyStmts { (bindMany initState demoBinds) with config := [], prov := [] } none .no
    (docStmts (bindMany initState demoBinds) (bindMany initState demoBinds).config)).failure = none :=
  (parse_roundtrip_reachable initState regOK_init rfl rfl demoBinds demo_bindOK).1

end Gin.C06
