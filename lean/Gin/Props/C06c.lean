/-
C06 (continued) — the import section of the config string depends only on the *set* of recorded import
statements: the import manager sorts them by a total order before deduplicating, so neither the order in
which they were parsed nor the iteration order of the set they are kept in can show in the text.
-/
import Gin.Lemmas.Sort
import Gin.ImportMgr

namespace Gin.C06
open Gin Gin.DynReg Gin.Sort

theorem key_injective (a b : Import) (h : a.key = b.key) : a = b := by
  obtain ⟨ma, fa, aa⟩ := a
  obtain ⟨mb, fb, ab⟩ := b
  simp only [Import.key, Prod.mk.injEq, List.cons.injEq] at h
  obtain ⟨hm, hf, hal⟩ := h
  subst hm
  have hf' : fa = fb := by cases fa <;> cases fb <;> simp_all
  subst hf'
  have ha' : aa = ab := by cases aa <;> cases ab <;> simp_all
  subst ha'
  rfl

theorem importLe_total (a b : Import) : importLe a b = true ∨ importLe b a = true := by
  simp only [importLe]
  by_cases h : a.key.1 = b.key.1
  · simp only [h, beq_self_eq_true, if_true]
    exact lexLe_total _ _
  · have h' : ¬ b.key.1 = a.key.1 := fun e => h e.symm
    simp only [beq_iff_eq, h, h', if_false]
    exact lexLe_total _ _

theorem importLe_antisymm (a b : Import) (h1 : importLe a b = true) (h2 : importLe b a = true) : a = b := by
  apply key_injective
  simp only [importLe] at h1 h2
  by_cases h : a.key.1 = b.key.1
  · simp only [h, beq_self_eq_true, if_true] at h1 h2
    exact Prod.ext h (lexLe_antisymm _ _ h1 h2)
  · have h' : ¬ b.key.1 = a.key.1 := fun e => h e.symm
    simp only [beq_iff_eq, h, h', if_false] at h1 h2
    exact absurd (lexLe_antisymm _ _ h1 h2) h

theorem importLe_trans (a b c : Import) (h1 : importLe a b = true) (h2 : importLe b c = true) :
    importLe a c = true := by
  simp only [importLe] at h1 h2 ⊢
  by_cases hab : a.key.1 = b.key.1
  · by_cases hbc : b.key.1 = c.key.1
    · simp only [hab, hbc, beq_self_eq_true, if_true] at h1 h2 ⊢
      exact lexLe_trans _ _ _ h1 h2
    · have hac : ¬ a.key.1 = c.key.1 := fun e => hbc (hab ▸ e)
      simp only [beq_iff_eq, hbc, hac, if_false] at h2 ⊢
      rw [hab]; exact h2
  · by_cases hbc : b.key.1 = c.key.1
    · have hac : ¬ a.key.1 = c.key.1 := fun e => hab (hbc ▸ e)
      simp only [beq_iff_eq, hab, hac, if_false] at h1 ⊢
      rw [← hbc]; exact h1
    · simp only [beq_iff_eq, hab, hbc, if_false] at h1 h2
      have hle := lexLe_trans _ _ _ h1 h2
      by_cases hac : a.key.1 = c.key.1
      · exfalso
        rw [← hac] at h2
        exact hab (lexLe_antisymm _ _ h1 h2)
      · simp only [beq_iff_eq, hac, if_false]; exact hle

/-- The import manager — which statements survive deduplication, under which aliases, and the selector each
    module's configurables are printed under — is a function of the set of recorded statements: any two
    orders of recording (or of iterating over the recorded set) give the same manager. -/
theorem imports_order_independent (l1 l2 : List Import) (hp : l1.Perm l2) :
    IM.ofRecorded l1 = IM.ofRecorded l2 := by
  unfold IM.ofRecorded
  rw [sortBy_eq_of_perm importLe importLe_total importLe_trans l1 l2 hp
    (fun a _ b _ h1 h2 => importLe_antisymm a b h1 h2)]
  have hany : l1.any isEnabling = l2.any isEnabling := by
    rw [Bool.eq_iff_iff]
    simp only [List.any_eq_true]
    exact ⟨fun ⟨x, hx, he⟩ => ⟨x, hp.mem_iff.1 hx, he⟩, fun ⟨x, hx, he⟩ => ⟨x, hp.mem_iff.2 hx, he⟩⟩
  rw [hany]

theorem reqLe_total (a b : Req) : reqLe a b = true ∨ reqLe b a = true := by
  unfold reqLe
  by_cases h : a.sel = b.sel
  · simp only [h, beq_self_eq_true, if_true]; exact importLe_total _ _
  · have h' : ¬ b.sel = a.sel := fun e => h e.symm
    simp only [beq_iff_eq, h, h', if_false]; exact lexLe_total _ _

theorem reqLe_antisymm (a b : Req) (h1 : reqLe a b = true) (h2 : reqLe b a = true) : a = b := by
  unfold reqLe at h1 h2
  by_cases h : a.sel = b.sel
  · simp only [h, beq_self_eq_true, if_true] at h1 h2
    have := importLe_antisymm _ _ h1 h2
    cases a; cases b; simp_all
  · have h' : ¬ b.sel = a.sel := fun e => h e.symm
    simp only [beq_iff_eq, h, h', if_false] at h1 h2
    exact absurd (lexLe_antisymm _ _ h1 h2) h

theorem reqLe_trans (a b c : Req) (h1 : reqLe a b = true) (h2 : reqLe b c = true) : reqLe a c = true := by
  obtain ⟨sa, ia⟩ := a
  obtain ⟨sb, ib⟩ := b
  obtain ⟨sc, ic⟩ := c
  unfold reqLe at *
  simp only at h1 h2 ⊢
  by_cases hab : sa = sb
  · subst hab
    by_cases hbc : sa = sc
    · subst hbc
      simp only [beq_self_eq_true, if_true] at h1 h2 ⊢
      exact importLe_trans _ _ _ h1 h2
    · simp only [beq_self_eq_true, if_true, beq_iff_eq, hbc, if_false] at h1 h2 ⊢
      exact h2
  · by_cases hbc : sb = sc
    · subst hbc
      simp only [beq_self_eq_true, if_true, beq_iff_eq, hab, if_false] at h1 h2 ⊢
      exact h1
    · simp only [beq_iff_eq, hab, hbc, if_false] at h1 h2
      have hle := lexLe_trans _ _ _ h1 h2
      by_cases hac : sa = sc
      · exfalso
        subst hac
        exact hab (lexLe_antisymm _ _ h1 h2)
      · simp only [beq_iff_eq, hac, if_false]; exact hle

/-- **The text's import section depends only on the set of bindings**: the manager `config_str()` prints from —
    the statements, their aliases and the name every configurable is printed under — is the same for any two
    orders in which the bindings (and so the requirements for their configurables) were made, and any two
    orders in which the imports were recorded (D33: requirements used to be served in binding order, so two
    modules with one leaf name swapped `name` / `name2`). -/
theorem requirements_order_independent (rec1 rec2 : List Import) (reqs1 reqs2 : List Req)
    (hr : rec1.Perm rec2) (hq : reqs1.Perm reqs2) : IM.ofConfig rec1 reqs1 = IM.ofConfig rec2 reqs2 := by
  unfold IM.ofConfig
  rw [imports_order_independent rec1 rec2 hr,
    sortBy_eq_of_perm reqLe reqLe_total reqLe_trans reqs1 reqs2 hq
      (fun a _ b _ h1 h2 => reqLe_antisymm a b h1 h2)]

/-- A statement for a module that already has one is dropped: of several statements importing one module
    the first in sorted order — the `from` form, then no alias, then the smallest alias — is the one kept. -/
theorem later_of_module_dropped (im : IM) (st : Import)
    (h : (AList.lookup st.module im.selectors).isSome = true) : im.add st = some im := by
  simp [IM.add, h]

/-! Non-vacuity: two aliases of one module recorded in either order. -/
def demoA : Import := { module := ["collections", "abc"], alias := some "abc" }
def demoB : Import := { module := ["collections", "abc"], alias := some "collections" }
example : IM.ofRecorded [demoA, demoB] = IM.ofRecorded [demoB, demoA] :=
  imports_order_independent _ _ (List.Perm.swap _ _ _)
example : (IM.ofRecorded [demoB, demoA]).map (·.imports) = some [demoA] := by decide +kernel

/-! Non-vacuity of `requirements_order_independent`: `a.util` and `b.util`, bound programmatically in either order. -/
def reqA : Req := { sel := ["a", "util", "fa"], imp := { module := ["a", "util"], isFrom := true } }
def reqB : Req := { sel := ["b", "util", "fb"], imp := { module := ["b", "util"], isFrom := true } }
example : IM.ofConfig [] [reqA, reqB] = IM.ofConfig [] [reqB, reqA] :=
  requirements_order_independent _ _ _ _ (List.Perm.refl _) (List.Perm.swap _ _ _)
example : (IM.ofConfig [] [reqB, reqA]).map (·.selectors) = some [(["a", "util"], ["util"]), (["b", "util"], ["util2"])] := by
  decide +kernel

end Gin.C06
