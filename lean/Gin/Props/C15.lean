/-
C15 — skip_unknown drops exactly the statements that target unknown names.
-/
import Gin.Lemmas.Statements
import Gin.Machine
import Gin.Props.C12

namespace Gin.C15
open Gin

/-- "known": some registered configurable is addressed by the name -/
def Known (st : State) (sel : Sel) : Prop := st.registry.matching sel ≠ []

/-- The skip decision: never for a known name; for an unknown one, according to the boolean or to
    membership in the list / tuple / set. -/
theorem skip_decision (st : State) (sel : Sel) (skip : SkipSpec) :
    shouldSkip st sel skip = true ↔
      (¬ Known st sel ∧ match skip with
        | .no => False
        | .all => True
        | .names l => (".".intercalate sel) ∈ l) := by
  unfold shouldSkip Known
  cases hm : st.registry.matching sel with
  | nil => cases skip <;> simp
  | cons a rest => simp

theorem known_never_skipped (st : State) (sel : Sel) (skip : SkipSpec) (hk : Known st sel) :
    shouldSkip st sel skip = false := by
  cases h : shouldSkip st sel skip with
  | false => rfl
  | true => exact absurd hk ((skip_decision st sel skip).1 h).1

/-- A binding or block whose target is skipped has no effect at all (when its value parses). -/
theorem skipped_binding_is_noop (st : State) (file : Option String) (skip : SkipSpec)
    (scope : Scope) (sel : Sel) (arg : String) (v : RawVal) (line : Nat) (val : Val)
    (hne : arg ≠ "") (hv : resolveRaw st skip v = .ok val) (hs : shouldSkip st sel skip = true) :
    applyStmt st file skip (.binding scope sel arg v line) = (st, [], [], none) := by
  simp [applyStmt, hv, hne, hs]

theorem skipped_block_is_noop (st : State) (file : Option String) (skip : SkipSpec)
    (scope : Scope) (sel : Sel) (line : Nat) (hs : shouldSkip st sel skip = true) :
    applyStmt st file skip (.block scope sel line) = (st, [], [], none) := by
  simp [applyStmt, hs]

/-- An import of a missing module is dropped when `skip_unknown` is enabled, an error otherwise. -/
theorem missing_import (st : State) (file : Option String) (skip : SkipSpec) (m : String) (line : Nat) :
    applyStmt st file skip (.imp m false line) =
      if skip.truthy then (st, [], [], none)
      else (st, [], [], some (withLoc file line { err := .importError })) := by
  simp [applyStmt]

/-- Statements without effect can be deleted: parsing `pre ++ s :: post` where `s` is a no-op gives
    exactly the result of parsing `pre ++ post` — so parsing with `skip_unknown` yields the
    configuration of the text with every skipped binding, block and missing import deleted. -/
theorem noop_can_be_deleted (st : State) (file : Option String) (skip : SkipSpec)
    (pre : List Stmt) (s : Stmt) (post : List Stmt)
    (hnoop : ∀ st', applyStmt st' file skip s = (st', [], [], none)) :
    applyStmts st file skip (pre ++ s :: post) = applyStmts st file skip (pre ++ post) := by
  induction pre generalizing st with
  | nil => simp [applyStmts, hnoop st]
  | cons p pre ih =>
    simp only [List.cons_append, applyStmts]
    rcases h : applyStmt st file skip p with ⟨st1, imps, incs, fo⟩
    cases fo with
    | some f => rfl
    | none => simp only []; rw [ih st1]

/-- An unknown name that is not covered by `skip_unknown` is still an error. -/
theorem unlisted_unknown_errors (st : State) (file : Option String) (skip : SkipSpec)
    (scope : Scope) (sel : Sel) (arg : String) (v : Val) (line : Nat)
    (hne : arg ≠ "") (hunk : st.registry.matching sel = []) (hs : shouldSkip st sel skip = false)
    (hl : st.locked = false) :
    applyStmt st file skip (.binding scope sel arg (.lit v) line) =
      (st, [], [], some { err := .valueError, chain := [(file, line)] }) := by
  have hgm : st.registry.getMatch sel = .none := by simp [SelMap.getMatch, hunk]
  simp [applyStmt, resolveRaw, hne, hs, State.bind, hl, State.parseKey, hgm, withLoc]

/-- A reference to an unknown configurable inside an applied binding is kept as a placeholder —
    never dropped, never resolved to something else — when the name is skippable … -/
theorem placeholder_kept (st : State) (skip : SkipSpec) (scopes : List String) (spelled : Sel)
    (ev : Bool) (hs : shouldSkip st spelled skip = true) :
    resolveRaw st skip (.ref scopes spelled ev) = .ok (.unknownRef (".".intercalate spelled) ev) := by
  simp [resolveRaw, hs]

/-- … and is an error right away when it is not. -/
theorem unknown_reference_errors (st : State) (skip : SkipSpec) (scopes : List String)
    (spelled : Sel) (ev : Bool) (hunk : st.registry.matching spelled = [])
    (hs : shouldSkip st spelled skip = false) :
    resolveRaw st skip (.ref scopes spelled ev) = .error .valueError := by
  simp [resolveRaw, hs, SelMap.getMatch, hunk]

/-- Using a value that contains a placeholder raises the "no configurable matching" error … -/
theorem placeholder_raises_on_use (fuel : Nat) (st : State) (σ : Scope) (sel : String) (ev : Bool) :
    evalVal (fuel + 1) st σ (.unknownRef sel ev) = .error (.valueError, st) := by
  simp [evalVal]

/-- … and so does finalize. -/
theorem placeholder_rejected_at_finalize (st : State) (hl : st.locked = false) (sel : String)
    (ev : Bool) (h : Val.unknownRef sel ev ∈ State.allValues st.config) :
    step st .finalize = (st, .err .valueError) :=
  C12.finalize_rejects_invalid st hl
    (C12.unknown_reference_is_invalid st _ h (by simp [State.isUnknownRef]))

/-- "Known" is judged statement by statement, against the registry as it is when the statement is reached:
    after an import whose module registers configurables, the rest of the text is processed with the enlarged
    registry — whatever was decided about a name before the import (skipped binding, placeholder) is not
    remembered. -/
theorem known_is_judged_when_reached (st st' : State) (file : Option String) (skip : SkipSpec) (m : String)
    (line : Nat) (regs : List State.RegReq) (rest : List Stmt) (h : registerAll st regs = (st', none)) :
    (applyStmts st file skip (.imp m true line regs :: rest)).st = (applyStmts st' file skip rest).st ∧
    (applyStmts st file skip (.imp m true line regs :: rest)).failure = (applyStmts st' file skip rest).failure := by
  simp [applyStmts, applyStmt, h]

/-- … so the very reference that became a placeholder before the import is a real reference after it. -/
theorem reference_known_after_import (st st' : State) (skip : SkipSpec) (scopes : List String) (spelled full : Sel)
    (ev : Bool) (e : Entry) (regs : List State.RegReq) (_h : registerAll st regs = (st', none))
    (hbefore : shouldSkip st spelled skip = true)
    (hafter : st'.registry.getMatch spelled = .one full e) :
    resolveRaw st skip (.ref scopes spelled ev) = .ok (.unknownRef (".".intercalate spelled) ev) ∧
    resolveRaw st' skip (.ref scopes spelled ev) = .ok (.ref scopes full ev) := by
  refine ⟨by simp [resolveRaw, hbefore], ?_⟩
  have hk : Known st' spelled := by
    unfold Known
    intro hnil
    simp [SelMap.getMatch, hnil] at hafter
  have hns := known_never_skipped st' spelled skip hk
  simp [resolveRaw, hns, hafter]

end Gin.C15
