/-
C09 — config scopes nest, are restored on every exit path, and are private to a thread.
-/
import Gin.Scopes
import Gin.Lemmas.AList

namespace Gin.C09
open Gin Gin.Scopes

mutual
  /-- Leaving a block by any path — normal exit, an exception raised anywhere inside at any depth,
      an invalid scope name — restores the stack of active scopes exactly, to any nesting depth. -/
  theorem item_restores (stk : List Scope) (i : Item) : (runItem stk i).1 = stk := by
    cases i with
    | obs => simp [runItem]
    | raise => simp [runItem]
    | block arg body =>
      simp only [runItem]
      split
      · simp
      · have := items_restores (stk ++ [(pushed (current stk) arg).1]) body
        simp only []
        rw [this]; simp
    | «catch» body =>
      simp only [runItem]
      exact items_restores stk body
  theorem items_restores (stk : List Scope) (is : List Item) : (runItems stk is).1 = stk := by
    cases is with
    | nil => simp [runItems]
    | cons i rest =>
      simp only [runItems]
      have h1 := item_restores stk i
      split
      · simpa using h1
      · have h2 := items_restores (runItem stk i).1 rest
        simp only []
        rw [h2, h1]
end

/-- In particular the *active* scope after a block is the one before it. -/
theorem block_restores (stk : List Scope) (arg : ScopeArg) (body : List Item) :
    current (runItem stk (.block arg body)).1 = current stk := by
  rw [item_restores]

/-- `pushed` is `enterScope` (the scope arithmetic used by the call mirror of C01): the enclosing
    scope extended by the components of a name (`'a/b'` shorthand included), the explicit list, or
    empty for `None`/`''`; `none` = `ValueError`. -/
theorem pushed_enterScope (cur : Scope) (arg : ScopeArg) :
    enterScope cur arg = if (pushed cur arg).2 then some (pushed cur arg).1 else none := by
  cases arg <;> rfl

/-- Inside a block the active scope is exactly that scope; an invalid argument raises before the
    body runs. -/
theorem enter_semantics (stk : List Scope) (arg : ScopeArg) :
    (runItem stk (.block arg [.obs])).2 =
      if (pushed (current stk) arg).2 then ([(pushed (current stk) arg).1], .normal)
      else ([], .raised) := by
  simp only [runItem, runItems]
  cases (pushed (current stk) arg).2 <;> simp [current]

theorem turn_other (ths : Threads) (t t' : Nat) (h : t ≠ t') :
    AList.lookup t (turn ths t') = AList.lookup t ths := by
  unfold turn
  cases AList.lookup t' ths with
  | none => rfl
  | some th => simp [AList.lookup_set, h]

theorem turn_self (ths : Threads) (t : Nat) :
    AList.lookup t (turn ths t) = (AList.lookup t ths).map runGroup := by
  unfold turn
  cases h : AList.lookup t ths with
  | none => simp [h]
  | some th => simp [AList.lookup_set]

/-- The active scope is private to each thread: under *every* interleaving `w` of scheduling turns,
    the state of thread `t` (its stack of scopes, what it has observed, what it still has to do)
    is what `t` reaches on its own after as many turns as `w` gave it — no entry, exit or
    observation by another thread has any influence. -/
theorem thread_private (ths : Threads) (w : List Nat) (t : Nat) :
    AList.lookup t (runSched ths w) = (AList.lookup t ths).map (iter runGroup (w.count t)) := by
  unfold runSched
  induction w generalizing ths with
  | nil => cases h : AList.lookup t ths <;> simp [iter, h]
  | cons t' w ih =>
    rw [List.foldl_cons, ih]
    by_cases h : t' = t
    · subst h
      rw [turn_self]
      cases AList.lookup t' ths with
      | none => simp
      | some th => simp [iter]
    · have h' : t ≠ t' := fun e => h e.symm
      rw [turn_other ths t t' h']
      simp [List.count_cons, h]

/-- Consequently two schedules that give `t` the same number of turns leave `t` in the same state
    (same observations, same active scope). -/
theorem thread_schedule_independent (ths : Threads) (w₁ w₂ : List Nat) (t : Nat)
    (h : w₁.count t = w₂.count t) :
    AList.lookup t (runSched ths w₁) = AList.lookup t (runSched ths w₂) := by
  rw [thread_private, thread_private, h]

/-! Non-vacuity: nested blocks, an exception three levels deep, an invalid name. -/
def demo : List Item :=
  [.block (.name "a") [.obs, .block (.name "b/c") [.block (.listArg ["x"]) [.obs, .raise]]],
   .obs]
example : (runItems [[]] demo).1 = [[]] := items_restores _ _
def demo2 : List Item := [.block .clear [.obs, .block .invalid [.obs]], .obs]
example : (runItems [["k"]] demo2) = ([["k"]], [[]], .raised) := by decide

/-- What `get_configurable` hands out under a non-empty scope `σ` is the configurable wrapped in
    `config_scope(σ)` with `σ` as an explicit list: wherever and under whatever scope it is called
    later, its body runs under exactly `σ`, and the caller's scope is restored afterwards. -/
theorem handle_runs_in_captured_scope (stk : List Scope) (σ : Scope) (hv : σ.all isModuleName = true) :
    (runItem stk (.block (.listArg σ) [.obs])).2 = ([σ], .normal) ∧
    current (runItem stk (.block (.listArg σ) [.obs])).1 = current stk := by
  refine ⟨?_, block_restores stk _ _⟩
  rw [enter_semantics]
  simp [pushed, hv]

end Gin.C09
