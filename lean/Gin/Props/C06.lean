/-
C06 — the config string round-trips, is canonical and always parses (structure part; the text-level
round trip, permutation invariance, wrap rule and markdown are checked on the real code).
-/
import Gin.Serialize

namespace Gin.C06
open Gin

theorem mem_insertBy {α : Type} (le : α → α → Bool) (x y : α) (l : List α) :
    y ∈ insertBy le x l ↔ y = x ∨ y ∈ l := by
  induction l with
  | nil => simp [insertBy]
  | cons z zs ih =>
    simp only [insertBy]
    split
    · simp
    · simp only [List.mem_cons, ih]
      constructor
      · rintro (h | h | h)
        · exact Or.inr (Or.inl h)
        · exact Or.inl h
        · exact Or.inr (Or.inr h)
      · rintro (h | h | h)
        · exact Or.inr (Or.inl h)
        · exact Or.inl h
        · exact Or.inr (Or.inr h)

/-- sorting neither drops nor invents entries -/
theorem mem_sortBy {α : Type} (le : α → α → Bool) (y : α) (l : List α) : y ∈ sortBy le l ↔ y ∈ l := by
  induction l with
  | nil => simp [sortBy]
  | cons x xs ih =>
    simp only [sortBy, List.foldr_cons] at ih ⊢
    rw [mem_insertBy, ih]; simp

theorem length_insertBy {α : Type} (le : α → α → Bool) (x : α) (l : List α) :
    (insertBy le x l).length = l.length + 1 := by
  induction l with
  | nil => simp [insertBy]
  | cons z zs ih => simp only [insertBy]; split <;> simp [ih]

theorem length_sortBy {α : Type} (le : α → α → Bool) (l : List α) : (sortBy le l).length = l.length := by
  induction l with
  | nil => simp [sortBy]
  | cons x xs ih => simp only [sortBy, List.foldr_cons] at ih ⊢; rw [length_insertBy, ih]; simp

/-- Values that have no literal form are omitted rather than emitted unparseably: every parameter
    printed in a section is literally representable … -/
theorem emit_only_representable (st : State) (s : Store) (sec : Section)
    (hs : sec ∈ (emitDoc st s).sections) (p : String) (v : Val) (hp : (p, v) ∈ sec.params) :
    v.representable = true := by
  simp only [emitDoc, List.mem_filterMap] at hs
  obtain ⟨kv, _, hkv⟩ := hs
  split at hkv
  · cases hkv
  · simp only [Option.some.injEq] at hkv
    subst hkv
    simp only [mem_sortBy, List.mem_filter] at hp
    exact hp.2

/-- … and so is every macro printed in the macro section. -/
theorem emit_macros_representable (st : State) (s : Store) (name : String) (v : Val)
    (hm : (name, v) ∈ (emitDoc st s).macros) : v.representable = true := by
  simp only [emitDoc, List.mem_filterMap] at hm
  obtain ⟨kv, _, hkv⟩ := hm
  split at hkv
  · split at hkv
    · split at hkv
      · rename_i hr
        simp only [Option.some.injEq, Prod.mk.injEq] at hkv
        rw [← hkv.2]; exact hr
      · cases hkv
    · cases hkv
  · cases hkv

/-- Each parameter section comes from a (scope, configurable) key of the store that is neither the
    macro nor the constant configurable, under its scope; nothing else is printed. -/
theorem emit_sections_from_store (st : State) (s : Store) (sec : Section)
    (hs : sec ∈ (emitDoc st s).sections) :
    ∃ key params, (key, params) ∈ s ∧ key.2 ≠ State.macroSel ∧ key.2 ≠ State.constSel ∧
      sec.scope = key.1 ∧ sec.printed = printedSelector st key.2 := by
  simp only [emitDoc, List.mem_filterMap] at hs
  obtain ⟨kv, hmem, hkv⟩ := hs
  rw [mem_sortBy] at hmem
  split at hkv
  · cases hkv
  · rename_i hne
    simp only [Option.some.injEq] at hkv
    subst hkv
    simp only [Bool.or_eq_true, beq_iff_eq, not_or] at hne
    exact ⟨kv.1, kv.2, hmem, hne.1, hne.2, rfl, rfl⟩

/-- A section lists exactly the representable parameters of its key, none dropped. -/
theorem emit_params_complete (st : State) (s : Store) (key : Scope × Sel) (params : AList String Val)
    (hk : (key, params) ∈ s) (hm : key.2 ≠ State.macroSel) (hc : key.2 ≠ State.constSel)
    (p : String) (v : Val) (hp : (p, v) ∈ params) (hr : v.representable = true) :
    ∃ sec ∈ (emitDoc st s).sections, sec.scope = key.1 ∧ (p, v) ∈ sec.params := by
  refine ⟨{ scope := key.1, printed := printedSelector st key.2,
            params := sortBy (fun a b => a.1 ≤ b.1) (params.filter (fun pv => pv.2.representable)) }, ?_, rfl, ?_⟩
  · simp only [emitDoc, List.mem_filterMap]
    refine ⟨(key, params), (mem_sortBy _ _ _).2 hk, ?_⟩
    have h1 : (key.2 == State.macroSel) = false := by simpa using hm
    have h2 : (key.2 == State.constSel) = false := by simpa using hc
    simp [h1, h2]
  · simp only [mem_sortBy, List.mem_filter]
    exact ⟨hp, hr⟩

end Gin.C06
