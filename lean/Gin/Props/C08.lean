import Gin.SelectorMap
namespace Gin.C08
theorem placeholder : True := trivial
end Gin.C08
