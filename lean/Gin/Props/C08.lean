/-
C08 — names resolve by unique dotted suffix.

Property theorems about the `SelectorMap` mirror (`Gin/SelectorMap.lean`); helper lemmas live in
`Gin/Lemmas/`.  Names are component lists (outermost first); "`q` is a dotted suffix of `k`" is
`q <:+ k` (`List.IsSuffix`).
-/
import Gin.Lemmas.SelMapInv

namespace Gin.C08
open Gin Gin.Tree Gin.SelMap
variable {α : Type}

/-- The mutating operations of a `SelectorMap` (a `clear` is a fresh map; a `copy` is, in this
    immutable model, the map itself — see DESIGN §6 C08 "model limit"). -/
inductive Op (α : Type) where
  | set (s : Sel) (v : α)
  | pop (s : Sel)
  | clear

/-- `pop` of a missing name raises `KeyError` and changes nothing. -/
def apply (m : SelMap α) : Op α → SelMap α
  | .set s v => m.set s v
  | .pop s => match m.pop s with | some (_, m') => m' | none => m
  | .clear => SelMap.empty

/-- The representation invariant holds after every history of insertions, removals and clears. -/
theorem inv_reachable (ops : List (Op α)) : Inv (ops.foldl apply (SelMap.empty : SelMap α)) := by
  suffices h : ∀ (m : SelMap α), Inv m → Inv (ops.foldl apply m) from h _ inv_empty
  induction ops with
  | nil => intro m h; exact h
  | cons op ops ih =>
    intro m h
    apply ih
    cases op with
    | set s v => exact inv_set m h s v
    | pop s =>
      simp only [apply]
      cases hp : m.pop s with
      | none => exact h
      | some r => obtain ⟨v, m'⟩ := r; exact inv_pop m h s v m' hp
    | clear => exact inv_empty

/-- The declarative meaning of "the stored name `k` is addressed by `q`": a name equal to a complete
    stored name addresses exactly that entry; otherwise `q` addresses every stored name that ends
    with it. -/
def Matches (m : SelMap α) (q k : Sel) : Prop :=
  if q ∈ m.keys then k = q else (k ∈ m.keys ∧ q <:+ k)

/-- `matching_selectors` returns exactly the addressed names … -/
theorem matching_spec (m : SelMap α) (h : Inv m) (q k : Sel) :
    k ∈ m.matching q ↔ Matches m q k := by
  unfold matching Matches
  by_cases hq : q ∈ m.keys
  · have : m.contains q = true := (AList.contains_iff q m.map).2 hq
    simp [this, hq]
  · have hc : m.contains q = false := by
      cases hcq : m.contains q with
      | false => rfl
      | true => exact absurd ((AList.contains_iff q m.map).1 hcq) hq
    simp only [hc, Bool.false_eq_true, if_false, hq]
    cases hg : m.tree.get q.reverse with
    | none =>
      simp only [List.not_mem_nil, false_iff, not_and]
      rintro hk ⟨pre, rfl⟩
      have hf := (h.sem (pre ++ q).reverse (pre ++ q)).2 ⟨hk, rfl⟩
      rw [List.reverse_append, find_append, hg] at hf
      simp at hf
    | some n =>
      simp only
      rw [mem_terms_get m.tree h.wf q.reverse n hg]
      constructor
      · rintro ⟨p, hp⟩
        obtain ⟨hk, e⟩ := (h.sem _ _).1 hp
        refine ⟨hk, p.reverse, ?_⟩
        have := congrArg List.reverse e
        simpa using this
      · rintro ⟨hk, pre, rfl⟩
        refine ⟨pre.reverse, ?_⟩
        have := (h.sem (pre ++ q).reverse (pre ++ q)).2 ⟨hk, rfl⟩
        simpa using this

/-- … each exactly once. -/
theorem matching_nodup (m : SelMap α) (h : Inv m) (q : Sel) : (m.matching q).Nodup := by
  unfold matching
  split
  · simp
  · cases hg : m.tree.get q.reverse with
    | none => simp
    | some n =>
      simp only
      apply terms_nodup n (wf_get _ h.wf _ _ hg) q.reverse
      intro p s hf
      have : find m.tree (q.reverse ++ p) = some s := by simp [find_append, hg, hf]
      exact ((h.sem _ _).1 this).2

/-- `get_match`: the value of the single addressed entry, an ambiguity error when several entries
    are addressed, the default when none is. -/
theorem getMatch_spec (m : SelMap α) (h : Inv m) (q : Sel) :
    match m.getMatch q with
    | .none => ∀ k, ¬ Matches m q k
    | .one s v => Matches m q s ∧ (∀ k, Matches m q k → k = s) ∧ m.get? s = some v
    | .ambiguous _ => ∃ a b, a ≠ b ∧ Matches m q a ∧ Matches m q b := by
  have hspec := matching_spec m h q
  have hnd := matching_nodup m h q
  unfold getMatch
  cases hm : m.matching q with
  | nil =>
    simp only
    intro k hk
    have := (hspec k).2 hk
    simp [hm] at this
  | cons a rest =>
    cases rest with
    | nil =>
      have ha : Matches m q a := (hspec a).1 (by simp [hm])
      have hak : a ∈ m.keys := by
        unfold Matches at ha
        by_cases hq : q ∈ m.keys
        · simp only [hq, if_true] at ha; subst ha; exact hq
        · simp only [hq, if_false] at ha; exact ha.1
      have hsome : (m.get? a).isSome := (AList.lookup_isSome_iff a m.map).2 hak
      simp only
      cases hv : m.get? a with
      | none => simp [hv] at hsome
      | some v =>
        simp only
        refine ⟨ha, ?_, hv⟩
        intro k hk
        have := (hspec k).2 hk
        simpa [hm] using this
    | cons b rest' =>
      simp only
      rw [hm] at hnd
      refine ⟨a, b, ?_, (hspec a).1 (by simp [hm]), (hspec b).1 (by simp [hm])⟩
      intro e; subst e
      simp at hnd

/-- `get_all_matches` returns the values of exactly the addressed entries. -/
theorem getAll_spec (m : SelMap α) (h : Inv m) (q : Sel) (v : α) :
    v ∈ m.getAll q ↔ ∃ k, Matches m q k ∧ m.get? k = some v := by
  unfold getAll
  simp only [List.mem_filterMap]
  constructor
  · rintro ⟨k, hk, hv⟩; exact ⟨k, (matching_spec m h q k).1 hk, hv⟩
  · rintro ⟨k, hk, hv⟩; exact ⟨k, (matching_spec m h q k).2 hk, hv⟩

/-! Non-vacuity: a reachable map with names that are suffixes of one another. -/
def demo : SelMap Nat :=
  [Op.set ["a", "b", "c"] 1, Op.set ["x", "b", "c"] 2, Op.set ["b", "c"] 3,
   Op.pop ["x", "b", "c"]].foldl apply SelMap.empty

example : Inv demo := inv_reachable _
example : (demo.matching ["c"]).length = 2 := by decide
example : demo.matching ["b", "c"] = [["b", "c"]] := by decide

end Gin.C08
