/-
C08 (continued) — the name a stored reference is printed under (`ConfigurableReference.__repr__`, static
registration): the spelling it was written with as long as that still names its configurable and nothing
else; otherwise the shortest name the registry reports for the configurable.  Whatever was registered
since the reference was written, the printed name resolves back to the configurable (D36: the
implementation used to print the written spelling unconditionally, and `config_str()` failed when a later
registration had made it ambiguous).
-/
import Gin.Props.C08b

namespace Gin.C08
open Gin Gin.SelMap

/-- the selector a reference to the entry `target`, written as `written`, is printed with -/
def printedSel {α : Type} (m : SelMap α) (written target : Sel) : Option Sel :=
  if m.matching written = [target] then some written else m.minimal target

/-- **The printed name resolves back**, in every registry the reference's configurable is still part of:
    after any history of additions (or removals of other entries) since the reference was written. -/
theorem printed_reference_resolves {α : Type} (m : SelMap α) (h : Inv m) (written target : Sel)
    (ht : target ∈ m.keys) (hne : target ≠ []) :
    ∃ q v, printedSel m written target = some q ∧ m.getMatch q = .one target v := by
  unfold printedSel
  by_cases hw : m.matching written = [target]
  · simp only [hw, if_true]
    have hsome : (m.get? target).isSome := (AList.lookup_isSome_iff target m.map).2 ht
    cases hv : m.get? target with
    | none => simp [hv] at hsome
    | some v =>
      refine ⟨written, v, rfl, ?_⟩
      unfold getMatch
      simp [hw, hv]
  · simp only [hw, if_false]
    obtain ⟨q, v, hq, hm⟩ := minimal_resolves_back m h target ht hne
    exact ⟨q, v, hq, hm⟩

/-- While the written spelling is unambiguous it is what gets printed (nothing changes for configurations that
    print today). -/
theorem printed_as_written {α : Type} (m : SelMap α) (written target : Sel) (hw : m.matching written = [target]) :
    printedSel m written target = some written := by
  simp [printedSel, hw]

/-! non-vacuity on the reachable demo map of `C08.lean` -/
example : printedSel demo ["c"] ["a", "b", "c"] = some ["a", "b", "c"] := by decide        -- `c` names two entries now
example : printedSel demo ["a", "b", "c"] ["a", "b", "c"] = some ["a", "b", "c"] := by decide
example : printedSel demo ["b", "c"] ["b", "c"] = some ["b", "c"] := by decide              -- a complete name is unambiguous

end Gin.C08
