/-
C18 (continued) — the locked `singleton_value` at the granularity of its shared accesses: under
*every* schedule of any number of threads the constructor runs at most once.
-/
import Gin.Sched

namespace Gin.C18
open Gin

/-- program counter of one thread executing
    `with _SINGLETONS_LOCK: (if key not in _SINGLETONS: _SINGLETONS[key] = ctor()); return _SINGLETONS[key]` -/
inductive LPc where
  | start | acquired | checkedAbsent | checkedPresent | stored | released | done
deriving DecidableEq, Repr, Inhabited

def LPc.critical : LPc → Bool
  | .acquired | .checkedAbsent | .checkedPresent | .stored => true
  | _ => false

structure LockSt where
  present : Bool := false        -- key in _SINGLETONS
  built : Nat := 0               -- constructor runs
  lock : Option Nat := none      -- owner of _SINGLETONS_LOCK
  pc : Nat → LPc := fun _ => .start

def setPc (s : LockSt) (t : Nat) (p : LPc) : LockSt :=
  { s with pc := fun u => if u = t then p else s.pc u }

/-- one scheduling turn of thread `t` (a thread waiting for the lock does not move) -/
def lockStep (s : LockSt) (t : Nat) : LockSt :=
  match s.pc t with
  | .start => if s.lock.isNone then setPc { s with lock := some t } t .acquired else s
  | .acquired => setPc s t (if s.present then .checkedPresent else .checkedAbsent)
  | .checkedAbsent => setPc { s with present := true, built := s.built + 1 } t .stored
  | .checkedPresent => setPc { s with lock := none } t .released
  | .stored => setPc { s with lock := none } t .released
  | .released => setPc s t .done
  | .done => s

def lockRun (w : List Nat) : LockSt := w.foldl lockStep {}

/-- what the lock guarantees, as an invariant of every reachable state -/
structure LInv (s : LockSt) : Prop where
  owner : ∀ t, (s.pc t).critical = true → s.lock = some t
  absent : ∀ t, s.pc t = .checkedAbsent → s.present = false
  built0 : s.present = false → s.built = 0
  built1 : s.present = true → s.built = 1

theorem linv_init : LInv {} where
  owner := by intro t h; simp [LPc.critical] at h
  absent := by intro t h; cases h
  built0 := by intro _; rfl
  built1 := by intro h; cases h

theorem linv_step (s : LockSt) (h : LInv s) (t : Nat) : LInv (lockStep s t) := by
  unfold lockStep
  cases hp : s.pc t with
  | start =>
    simp only
    by_cases hl : s.lock.isNone = true
    · simp only [hl, if_true]
      have hfree : s.lock = none := by simpa using hl
      refine ⟨?_, ?_, h.built0, h.built1⟩
      · intro u hu
        simp only [setPc] at hu ⊢
        by_cases hut : u = t
        · simp [hut]
        · simp only [hut, if_false] at hu
          have := h.owner u hu
          rw [hfree] at this; cases this
      · intro u hu
        simp only [setPc] at hu
        by_cases hut : u = t
        · simp [hut] at hu
        · simp only [hut, if_false] at hu; exact h.absent u hu
    · simp only [hl, if_false]; exact h
  | acquired =>
    simp only
    have hown := h.owner t (by simp [hp, LPc.critical])
    refine ⟨?_, ?_, h.built0, h.built1⟩
    · intro u hu
      simp only [setPc] at hu ⊢
      by_cases hut : u = t
      · subst hut; exact hown
      · simp only [hut, if_false] at hu; exact h.owner u hu
    · intro u hu
      simp only [setPc] at hu
      by_cases hut : u = t
      · simp only [hut, if_true] at hu
        cases hpr : s.present with
        | false => simp [setPc, hpr]
        | true => simp [hpr] at hu
      · simp only [hut, if_false] at hu; exact h.absent u hu
  | checkedAbsent =>
    simp only
    have hown := h.owner t (by simp [hp, LPc.critical])
    have habs := h.absent t hp
    refine ⟨?_, ?_, ?_, ?_⟩
    · intro u hu
      simp only [setPc] at hu ⊢
      by_cases hut : u = t
      · subst hut; exact hown
      · simp only [hut, if_false] at hu; exact h.owner u hu
    · intro u hu
      simp only [setPc] at hu
      by_cases hut : u = t
      · simp [hut] at hu
      · -- another thread cannot be past its check: it would own the lock that `t` owns
        simp only [hut, if_false] at hu
        have := h.owner u (by simp [hu, LPc.critical])
        rw [hown] at this
        exact absurd (Option.some.inj this).symm hut
    · intro hpres; simp [setPc] at hpres
    · intro _; simp only [setPc]; rw [h.built0 habs]
  | checkedPresent =>
    simp only
    have hown := h.owner t (by simp [hp, LPc.critical])
    refine ⟨?_, ?_, h.built0, h.built1⟩
    · intro u hu
      simp only [setPc] at hu ⊢
      by_cases hut : u = t
      · simp [hut, LPc.critical] at hu
      · simp only [hut, if_false] at hu
        have := h.owner u hu
        rw [hown] at this
        exact absurd (Option.some.inj this).symm hut
    · intro u hu
      simp only [setPc] at hu
      by_cases hut : u = t
      · simp [hut] at hu
      · simp only [hut, if_false] at hu; exact h.absent u hu
  | stored =>
    simp only
    have hown := h.owner t (by simp [hp, LPc.critical])
    refine ⟨?_, ?_, h.built0, h.built1⟩
    · intro u hu
      simp only [setPc] at hu ⊢
      by_cases hut : u = t
      · simp [hut, LPc.critical] at hu
      · simp only [hut, if_false] at hu
        have := h.owner u hu
        rw [hown] at this
        exact absurd (Option.some.inj this).symm hut
    · intro u hu
      simp only [setPc] at hu
      by_cases hut : u = t
      · simp [hut] at hu
      · simp only [hut, if_false] at hu; exact h.absent u hu
  | released =>
    simp only
    refine ⟨?_, ?_, h.built0, h.built1⟩
    · intro u hu
      simp only [setPc] at hu ⊢
      by_cases hut : u = t
      · simp [hut, LPc.critical] at hu
      · simp only [hut, if_false] at hu; exact h.owner u hu
    · intro u hu
      simp only [setPc] at hu
      by_cases hut : u = t
      · simp [hut] at hu
      · simp only [hut, if_false] at hu; exact h.absent u hu
  | done => exact h

theorem linv_run (w : List Nat) : LInv (lockRun w) := by
  unfold lockRun
  generalize hs : ({} : LockSt) = s0
  have h0 : LInv s0 := hs ▸ linv_init
  clear hs
  induction w generalizing s0 with
  | nil => exact h0
  | cons t rest ih => exact ih (lockStep s0 t) (linv_step s0 h0 t)

/-- **With the lock, the constructor runs at most once — under every schedule of any number of
    threads, of any length.**  (Compare `unlocked_race_exists`: without the lock a four-step schedule
    of two threads runs it twice.) -/
theorem locked_constructs_at_most_once (w : List Nat) : (lockRun w).built ≤ 1 := by
  have h := linv_run w
  cases hp : (lockRun w).present with
  | false => rw [h.built0 hp]; omega
  | true => rw [h.built1 hp]; omega

/-- … and it has run exactly once as soon as any thread got past its check. -/
theorem locked_constructed_when_present (w : List Nat) (h : (lockRun w).present = true) :
    (lockRun w).built = 1 := (linv_run w).built1 h

/-- the same interleaving that breaks the unlocked code: with the lock, thread 1 simply waits -/
example : (lockRun [0, 1, 0, 1, 0, 1, 0, 0, 1, 1, 1, 1, 1]).built = 1 ∧
    (lockRun [0, 1, 0, 1, 0, 1, 0, 0, 1, 1, 1, 1, 1]).pc 1 = .done := by decide

end Gin.C18
