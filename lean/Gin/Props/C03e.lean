/-
C03 (continued) — import statements in all four forms and include statements, in any layout of the trivia before
them: `parse_statement` yields exactly the statement spelled.  The reading of the dotted module name by
`parse_selector` is a hypothesis on the name tokens, exactly as for binding keys (`KeyToks`), discharged for
concrete tokens by evaluation.
-/
import Gin.Props.C03d

namespace Gin.Parser

def kwTok (s : String) (line : Nat) : Token := { kind := .name, str := s, srow := line }

/-- an import statement with its layout: `import <mod> [as <alias>]` or `from <mod> import <sub> [as <alias>]` -/
structure ImportL where
  pre : List Bool
  kw : Token
  modToks : List Token
  module : String
  sub : Option String
  alias : Option String
  line : Nat

def ImportL.tail (i : ImportL) : List Token :=
  (match i.sub with | some s => [kwTok "import" i.line, identTok s i.line] | none => []) ++
  (match i.alias with | some a => [kwTok "as" i.line, identTok a i.line] | none => [])

def ImportL.render (i : ImportL) : List Token :=
  triv i.pre ++ i.kw :: (i.modToks ++ (i.tail ++ [newlineTok]))

def ImportL.stmt (i : ImportL) : PStmt :=
  .imp (match i.sub with | some s => i.module ++ "." ++ s | none => i.module) i.sub.isSome i.alias i.line

/-- what is assumed of the tokens: the keyword is the NAME `import` (without `sub`) or `from` (with it) on line
    `line`; `parse_selector` reads the keyword alone from the statement's start and the dotted module name from the
    module tokens, whatever clean tokens follow as long as they do not continue a dotted name; the other names are
    identifiers -/
structure ImportToks (i : ImportL) : Prop where
  kwKind : i.kw.kind = .name
  kwRow : i.kw.srow = i.line
  kwStr : i.kw.str = if i.sub.isSome then "from" else "import"
  modClean : Clean i.modToks
  kwGood : good i.kw = true
  kwParses : ∀ r, Clean r → parseSelector false true false (i.kw :: (i.modToks ++ r)) = .ok (i.kw.str, i.modToks ++ r)
  modParses : ∀ r, Clean r → (cur r).kind ≠ .op →
    parseSelector false false false (i.modToks ++ r) = .ok (i.module, dropTriv false r)
  subIdent : ∀ s, i.sub = some s → isIdentStr s = true
  aliasIdent : ∀ a, i.alias = some a → isIdentStr a = true
  modFirst : ∃ t rest, i.modToks = t :: rest ∧ t.kind = .name

theorem kwTok_good (s : String) (l : Nat) : good (kwTok s l) = true := by simp [good, kwTok]
theorem identTok_good (s : String) (l : Nat) : good (identTok s l) = true := by simp [good, identTok]

theorem ImportL.tail_clean (i : ImportL) : Clean i.tail := by
  unfold ImportL.tail
  intro t ht
  cases hs : i.sub <;> cases ha : i.alias <;> simp [hs, ha] at ht
  · rcases ht with rfl | rfl
    · exact kwTok_good _ _
    · exact identTok_good _ _
  · rcases ht with rfl | rfl
    · exact kwTok_good _ _
    · exact identTok_good _ _
  · rcases ht with rfl | rfl | rfl | rfl
    · exact kwTok_good _ _
    · exact identTok_good _ _
    · exact kwTok_good _ _
    · exact identTok_good _ _

theorem newline_not_skippable : skippable false newlineTok = false := by simp [skippable, newlineTok]
theorem kwTok_not_skippable (s : String) (l : Nat) : skippable false (kwTok s l) = false := by simp [skippable, kwTok]
theorem identTok_not_skippable (s : String) (l : Nat) : skippable false (identTok s l) = false := by
  simp [skippable, identTok]

/-- **One import statement**, in any of its four forms, after any comments and blank lines. -/
theorem parseStatement_import (i : ImportL) (h : ImportToks i) (r : List Token) (hr : Clean r) :
    parseStatement false (i.render ++ r) = .ok (some ([i.stmt], newlineTok :: r, true)) := by
  obtain ⟨mt, mrest, hmod, hmname⟩ := h.modFirst
  have hnl : Clean (newlineTok :: r) := clean_cons rfl hr
  have htail : Clean (i.tail ++ newlineTok :: r) := clean_append i.tail_clean hnl
  have hmodr : Clean (i.modToks ++ (i.tail ++ newlineTok :: r)) := clean_append h.modClean htail
  have hall : Clean (i.render ++ r) := by
    unfold ImportL.render
    simp only [List.append_assoc, List.cons_append]
    exact clean_append (triv_clean _) (clean_cons h.kwGood (by simpa using hmodr))
  have hkwskip : skippable false i.kw = false := by simp [skippable, h.kwKind]
  have hdrop : dropTriv false (i.render ++ r) = i.kw :: (i.modToks ++ (i.tail ++ newlineTok :: r)) := by
    simp only [ImportL.render, List.append_assoc, List.cons_append, List.nil_append, dropTriv_triv false]
    exact dropTriv_cons_of_not false _ _ hkwskip
  unfold parseStatement
  simp only [Bool.false_eq_true, if_false, skipWs_clean false _ hall, hdrop, cur_cons]
  have hnotend : (i.kw.kind == TKind.endmarker) = false := by simp [h.kwKind]
  simp only [hnotend, List.isEmpty_cons, Bool.or_self, Bool.false_eq_true, if_false, h.kwParses _ htail]
  -- the token after the keyword is a NAME: neither `=` nor `:`
  have hcur : cur (i.modToks ++ (i.tail ++ newlineTok :: r)) = mt := by rw [hmod]; rfl
  have hnop : (mt.kind == TKind.op) = false := by simp [hmname]
  simp only [hcur, hnop, Bool.and_false, Bool.false_eq_true, if_false]
  have hkey : (i.kw.str == "import" || i.kw.str == "from") = true := by
    rw [h.kwStr]; cases i.sub.isSome <;> simp
  simp only [hkey, if_true]
  cases hs : i.sub with
  | none =>
    have hfrom : (i.kw.str == "from") = false := by rw [h.kwStr, hs]; simp
    cases ha : i.alias with
    | none =>
      have htl : i.tail = [] := by simp [ImportL.tail, hs, ha]
      have hcr : (cur (newlineTok :: r)).kind ≠ TKind.op := by simp [cur_cons, newlineTok]
      have := h.modParses (newlineTok :: r) hnl hcr
      simp only [htl, List.nil_append, this, dropTriv_cons_of_not false _ _ newline_not_skippable, hfrom,
        Bool.false_eq_true, if_false, cur_cons]
      simp [finishStmt, isEnd, newlineTok, cur_cons, ImportL.stmt, hs, ha, h.kwRow]
    | some a =>
      have htl : i.tail = [kwTok "as" i.line, identTok a i.line] := by simp [ImportL.tail, hs, ha]
      have hcl : Clean (kwTok "as" i.line :: identTok a i.line :: newlineTok :: r) :=
        clean_cons (kwTok_good _ _) (clean_cons (identTok_good _ _) hnl)
      have hcr : (cur (kwTok "as" i.line :: identTok a i.line :: newlineTok :: r)).kind ≠ TKind.op := by
        simp [cur_cons, kwTok]
      have := h.modParses _ hcl hcr
      simp only [htl, List.cons_append, List.nil_append, this,
        dropTriv_cons_of_not false _ _ (kwTok_not_skippable "as" i.line), hfrom, Bool.false_eq_true, if_false, cur_cons]
      have has : ((kwTok "as" i.line).str == "as") = true := by simp [kwTok]
      have hid := h.aliasIdent a ha
      simp only [has, if_true, advOne_cons _ _ (clean_cons (identTok_good a i.line) hnl), parseIdentifier, cur_cons,
        show (identTok a i.line).str = a from rfl, hid, Bool.not_true, Bool.false_eq_true, if_false,
        adv_clean false _ _ hnl, dropTriv_cons_of_not false _ _ newline_not_skippable]
      simp [finishStmt, isEnd, newlineTok, cur_cons, ImportL.stmt, hs, ha, h.kwRow]
  | some s =>
    have hfrom : (i.kw.str == "from") = true := by rw [h.kwStr, hs]; simp
    have hsid := h.subIdent s hs
    cases ha : i.alias with
    | none =>
      have htl : i.tail = [kwTok "import" i.line, identTok s i.line] := by simp [ImportL.tail, hs, ha]
      have hcl : Clean (kwTok "import" i.line :: identTok s i.line :: newlineTok :: r) :=
        clean_cons (kwTok_good _ _) (clean_cons (identTok_good _ _) hnl)
      have hcr : (cur (kwTok "import" i.line :: identTok s i.line :: newlineTok :: r)).kind ≠ TKind.op := by
        simp [cur_cons, kwTok]
      have := h.modParses _ hcl hcr
      simp only [htl, List.cons_append, List.nil_append, this,
        dropTriv_cons_of_not false _ _ (kwTok_not_skippable "import" i.line), hfrom, if_true, expectOp, cur_cons]
      have himp : ((kwTok "import" i.line).str == "import") = true := by simp [kwTok]
      simp only [himp, if_true, advOne_cons _ _ (clean_cons (identTok_good s i.line) hnl), parseIdentifier, cur_cons,
        show (identTok s i.line).str = s from rfl, hsid, Bool.not_true, Bool.false_eq_true, if_false,
        adv_clean false _ _ hnl, dropTriv_cons_of_not false _ _ newline_not_skippable]
      simp [finishStmt, isEnd, newlineTok, cur_cons, ImportL.stmt, hs, ha, h.kwRow]
    | some a =>
      have htl : i.tail = [kwTok "import" i.line, identTok s i.line, kwTok "as" i.line, identTok a i.line] := by
        simp [ImportL.tail, hs, ha]
      have hc2 : Clean (kwTok "as" i.line :: identTok a i.line :: newlineTok :: r) :=
        clean_cons (kwTok_good _ _) (clean_cons (identTok_good _ _) hnl)
      have hcl : Clean (kwTok "import" i.line :: identTok s i.line :: kwTok "as" i.line :: identTok a i.line ::
          newlineTok :: r) := clean_cons (kwTok_good _ _) (clean_cons (identTok_good _ _) hc2)
      have hcr : (cur (kwTok "import" i.line :: identTok s i.line :: kwTok "as" i.line :: identTok a i.line ::
          newlineTok :: r)).kind ≠ TKind.op := by simp [cur_cons, kwTok]
      have := h.modParses _ hcl hcr
      simp only [htl, List.cons_append, List.nil_append, this,
        dropTriv_cons_of_not false _ _ (kwTok_not_skippable "import" i.line), hfrom, if_true, expectOp, cur_cons]
      have himp : ((kwTok "import" i.line).str == "import") = true := by simp [kwTok]
      have has : ((kwTok "as" i.line).str == "as") = true := by simp [kwTok]
      have hid := h.aliasIdent a ha
      simp only [himp, if_true, advOne_cons _ _ (clean_cons (identTok_good s i.line) hc2), parseIdentifier, cur_cons,
        show (identTok s i.line).str = s from rfl, hsid, Bool.not_true, Bool.false_eq_true, if_false,
        adv_clean false _ _ hc2, dropTriv_cons_of_not false _ _ (kwTok_not_skippable "as" i.line), has,
        advOne_cons _ _ (clean_cons (identTok_good a i.line) hnl),
        show (identTok a i.line).str = a from rfl, hid, adv_clean false _ _ hnl,
        dropTriv_cons_of_not false _ _ newline_not_skippable]
      simp [finishStmt, isEnd, newlineTok, cur_cons, ImportL.stmt, hs, ha, h.kwRow]

/-- `include '<file>'` with the trivia before it -/
structure IncludeL where
  pre : List Bool
  kw : Token
  file : String
  line : Nat

def IncludeL.render (i : IncludeL) : List Token := triv i.pre ++ [i.kw, strTok i.file, newlineTok]
def IncludeL.stmt (i : IncludeL) : PStmt := .incl i.file i.line

structure IncludeToks (i : IncludeL) : Prop where
  kwKind : i.kw.kind = .name
  kwRow : i.kw.srow = i.line
  kwStr : i.kw.str = "include"
  kwGood : good i.kw = true
  kwParses : ∀ r, Clean r → (cur r).kind ≠ .op → parseSelector false true false (i.kw :: r) = .ok ("include", dropTriv false r)

theorem strTok_good (s : String) : good (strTok s) = true := by simp [good, strTok]

/-- **One include statement** after any comments and blank lines. -/
theorem parseStatement_include (i : IncludeL) (h : IncludeToks i) (r : List Token) (hr : Clean r) :
    parseStatement false (i.render ++ r) = .ok (some ([i.stmt], newlineTok :: r, true)) := by
  have hnl : Clean (newlineTok :: r) := clean_cons rfl hr
  have hstr : Clean (strTok i.file :: newlineTok :: r) := clean_cons (strTok_good _) hnl
  have hall : Clean (i.render ++ r) := by
    unfold IncludeL.render
    simp only [List.append_assoc, List.cons_append, List.nil_append]
    exact clean_append (triv_clean _) (clean_cons h.kwGood hstr)
  have hkwskip : skippable false i.kw = false := by simp [skippable, h.kwKind]
  have hdrop : dropTriv false (i.render ++ r) = i.kw :: strTok i.file :: newlineTok :: r := by
    simp only [IncludeL.render, List.append_assoc, List.cons_append, List.nil_append, dropTriv_triv false]
    exact dropTriv_cons_of_not false _ _ hkwskip
  unfold parseStatement
  simp only [Bool.false_eq_true, if_false, skipWs_clean false _ hall, hdrop, cur_cons]
  have hnotend : (i.kw.kind == TKind.endmarker) = false := by simp [h.kwKind]
  have hsc : (cur (strTok i.file :: newlineTok :: r)).kind ≠ TKind.op := by simp [cur_cons, strTok]
  have hds : dropTriv false (strTok i.file :: newlineTok :: r) = strTok i.file :: newlineTok :: r :=
    dropTriv_cons_of_not false _ _ (by simp [skippable, strTok])
  simp only [hnotend, List.isEmpty_cons, Bool.or_self, Bool.false_eq_true, if_false, h.kwParses _ hstr hsc, hds, cur_cons]
  have hnop : ((strTok i.file).kind == TKind.op) = false := by simp [strTok]
  simp only [hnop, Bool.and_false, Bool.false_eq_true, if_false]
  have hk1 : (("include" : String) == "import" || ("include" : String) == "from") = false := by decide
  have hk2 : (("include" : String) == "include") = true := by decide
  simp only [hk1, hk2, Bool.false_eq_true, if_false, if_true, parseBasic, cur_cons]
  have h1 : isOp (strTok i.file) "-" = false := by simp [isOp, strTok]
  have h2 : isBasic (strTok i.file) = true := by simp [isBasic, strTok]
  have h3 : (strTok i.file).atom = some (.str i.file) := rfl
  have h4 : ((strTok i.file).kind == TKind.string) = true := by simp [strTok]
  simp only [h1, h2, h3, h4, Bool.false_eq_true, if_false, Bool.not_true, if_true, adv_clean false _ _ hnl,
    dropTriv_cons_of_not false _ _ newline_not_skippable]
  have hms : moreStrings false (newlineTok :: r).length (.str i.file) (newlineTok :: r) =
      .ok (.str i.file, newlineTok :: r) := by
    simp [List.length_cons, moreStrings, cur_cons, newlineTok]
  simp only [hms]
  simp [finishStmt, isEnd, newlineTok, cur_cons, IncludeL.stmt, h.kwRow]

/-! ### non-vacuity: `from os.path import join as j` and `include 'a.gin'` as Python tokenizes them -/

def impLine : String := "from os.path import join as j"
def inm (s : String) (c0 c1 : Nat) : Token :=
  { kind := .name, str := s, srow := 1, scol := c0, ecol := c1, line := impLine }
def iop (s : String) (c0 c1 : Nat) : Token :=
  { kind := .op, str := s, srow := 1, scol := c0, ecol := c1, line := impLine }

def demoImport : ImportL :=
  { pre := [true, false], kw := inm "from" 0 4, modToks := [inm "os" 5 7, iop "." 7 8, inm "path" 8 12],
    module := "os.path", sub := some "join", alias := some "j", line := 1 }

theorem demoImport_check :
    checkSelector (String.join ["from"]) (sliceLine impLine 0 4) true false = true ∧
    checkSelector (String.join ["os", ".", "path"]) (sliceLine impLine 5 12) false false = true ∧
    String.join ["os", ".", "path"] = "os.path" ∧ String.join ["from"] = "from" := by decide +kernel

theorem go_stop_any (n : Nat) (parts : List String) (e : Nat) (r : List Token) (h : (cur r).kind ≠ .op) :
    parseSelector.go n false parts e r = .ok (parts, e, r) := by
  cases n with
  | zero => simp [parseSelector.go]
  | succ n =>
    unfold parseSelector.go
    have : ((cur r).kind == TKind.op) = false := by simpa using h
    simp [this]

theorem demoImport_ok : ImportToks demoImport where
  kwKind := rfl
  kwRow := rfl
  kwStr := rfl
  modClean := by
    intro t ht
    simp only [demoImport, List.mem_cons, List.not_mem_nil, or_false] at ht
    rcases ht with rfl | rfl | rfl <;> rfl
  kwGood := rfl
  modFirst := ⟨_, _, rfl, rfl⟩
  subIdent := by intro s hs; cases hs; decide
  aliasIdent := by intro a ha; cases ha; decide
  kwParses := by
    intro r hr
    have c1 : Clean (inm "path" 8 12 :: r) := clean_cons rfl hr
    have c2 : Clean (iop "." 7 8 :: inm "path" 8 12 :: r) := clean_cons rfl c1
    have c3 : Clean (inm "os" 5 7 :: iop "." 7 8 :: inm "path" 8 12 :: r) := clean_cons rfl c2
    unfold parseSelector
    simp only [demoImport, List.cons_append, List.nil_append, cur_cons, List.length_cons]
    rw [go_name _ _ _ _ _ rfl c3, go_stop _ _ _ _ _ (by rfl)]
    have hd : dropTriv false (inm "os" 5 7 :: iop "." 7 8 :: inm "path" 8 12 :: r) =
        inm "os" 5 7 :: iop "." 7 8 :: inm "path" 8 12 :: r :=
      dropTriv_cons_of_not false _ _ (by simp [skippable, inm])
    simp only [skipWs_clean false _ c3, hd, List.nil_append]
    have h := demoImport_check
    simp only [inm]
    rw [h.2.2.2] at h
    simp [h.1]
  modParses := by
    intro r hr hcur
    have c1 : Clean (inm "path" 8 12 :: r) := clean_cons rfl hr
    have c2 : Clean (iop "." 7 8 :: inm "path" 8 12 :: r) := clean_cons rfl c1
    unfold parseSelector
    simp only [demoImport, List.cons_append, List.nil_append, cur_cons, List.length_cons]
    rw [go_name _ _ _ _ _ rfl c2, go_sep _ _ _ _ _ rfl (Or.inr rfl) c1, go_name _ _ _ _ _ rfl hr,
        go_stop_any _ _ _ _ hcur]
    simp only [skipWs_clean false _ hr, List.nil_append, List.cons_append]
    have h := demoImport_check
    simp only [inm, iop]
    rw [h.2.2.1] at h
    simp [h.2.1]

/-! ### whole texts of all four statement kinds -/

inductive StmtL where
  | item (i : ItemL)
  | imp (i : ImportL)
  | incl (i : IncludeL)

def StmtL.render : StmtL → List Token
  | .item i => i.render
  | .imp i => i.render
  | .incl i => i.render

def StmtL.stmts : StmtL → List PStmt
  | .item i => i.stmts
  | .imp i => [i.stmt]
  | .incl i => [i.stmt]

def StmtL.OK : StmtL → Prop
  | .item i => i.OK
  | .imp i => ImportToks i
  | .incl i => IncludeToks i

def StmtL.last : StmtL → Token
  | .item i => i.last
  | _ => newlineTok

def renderStmts : List StmtL → List Token
  | [] => []
  | s :: ss => s.render ++ renderStmts ss

theorem ImportL.render_clean (i : ImportL) (h : ImportToks i) : Clean i.render := by
  unfold ImportL.render
  exact clean_append (triv_clean _) (clean_cons h.kwGood (clean_append h.modClean
    (clean_append i.tail_clean (clean_cons rfl (fun _ hh => by cases hh)))))

theorem IncludeL.render_clean (i : IncludeL) (h : IncludeToks i) : Clean i.render := by
  unfold IncludeL.render
  exact clean_append (triv_clean _) (clean_cons h.kwGood (clean_cons (strTok_good _)
    (clean_cons rfl (fun _ hh => by cases hh))))

theorem StmtL.render_clean (s : StmtL) (h : s.OK) : Clean s.render := by
  cases s with
  | item i => exact i.render_clean h
  | imp i => exact i.render_clean h
  | incl i => exact i.render_clean h

theorem renderStmts_clean (ss : List StmtL) (h : ∀ s ∈ ss, s.OK) : Clean (renderStmts ss) := by
  induction ss with
  | nil => intro t ht; cases ht
  | cons s ss ih =>
    exact clean_append (s.render_clean (h s (by simp))) (ih (fun x hx => h x (by simp [hx])))

theorem parseStatement_stmt (s : StmtL) (h : s.OK) (r : List Token) (hr : Clean r) :
    parseStatement false (s.render ++ r) = .ok (some (s.stmts, s.last :: r, true)) := by
  cases s with
  | item i => exact parseStatement_item i h r hr
  | imp i => exact parseStatement_import i h r hr
  | incl i => exact parseStatement_include i h r hr

theorem parseStatement_pending_stmt (s : StmtL) (ts : List Token) (hc : Clean ts) :
    parseStatement true (s.last :: ts) = parseStatement false ts := by
  cases s with
  | item i => exact parseStatement_pending_item i ts hc
  | imp i => exact parseStatement_pending ts hc
  | incl i => exact parseStatement_pending ts hc

/-- **Statement-level completeness.**  Any text — flat bindings, block statements, imports in all four forms and
    includes, in any order, each preceded by arbitrary comments and blank lines, with every value in any layout,
    followed by trailing trivia — is read as exactly the statements it spells, in order, without error. -/
theorem parseAll_stmts (ss : List StmtL) (h : ∀ s ∈ ss, s.OK) (post : List Bool) (acc : List PStmt) (n : Nat)
    (hn : ss.length < n) :
    parseAll n false (renderStmts ss ++ (triv post ++ [endTok])) acc = (acc ++ ss.flatMap StmtL.stmts, none) ∧
    ∀ j : StmtL, parseAll n true (j.last :: (renderStmts ss ++ (triv post ++ [endTok]))) acc =
        (acc ++ ss.flatMap StmtL.stmts, none) := by
  have hend : Clean (triv post ++ [endTok]) :=
    clean_append (triv_clean _) (clean_cons rfl (fun _ h => by cases h))
  induction ss generalizing acc n with
  | nil =>
    cases n with
    | zero => simp at hn
    | succ n =>
      refine ⟨?_, ?_⟩
      · simp only [renderStmts, List.nil_append, parseAll, parseStatement_end, List.flatMap_nil, List.append_nil]
      · intro j
        simp only [renderStmts, List.nil_append, parseAll, parseStatement_pending_stmt j _ hend,
          parseStatement_end, List.flatMap_nil, List.append_nil]
  | cons s ss ih =>
    cases n with
    | zero => simp at hn
    | succ n =>
      have h' : ∀ x ∈ ss, x.OK := fun x hx => h x (by simp [hx])
      have hrest : Clean (renderStmts ss ++ (triv post ++ [endTok])) :=
        clean_append (renderStmts_clean ss h') hend
      have hstep := parseStatement_stmt s (h s (by simp)) _ hrest
      have ihb := (ih h' (acc ++ s.stmts) n (by simp at hn; omega)).2 s
      have h1 : parseAll (n + 1) false (renderStmts (s :: ss) ++ (triv post ++ [endTok])) acc =
          (acc ++ (s :: ss).flatMap StmtL.stmts, none) := by
        simp only [renderStmts, List.append_assoc, parseAll, hstep, ihb, List.flatMap_cons]
      refine ⟨h1, ?_⟩
      intro j
      have hallc : Clean (renderStmts (s :: ss) ++ (triv post ++ [endTok])) :=
        clean_append (renderStmts_clean _ h) hend
      simp only [parseAll, parseStatement_pending_stmt j _ hallc]
      simp only [renderStmts, List.append_assoc, hstep, ihb, List.flatMap_cons]

def incLine : String := "include 'a.gin'"
def demoInclude : IncludeL :=
  { pre := [true], kw := { kind := .name, str := "include", srow := 1, scol := 0, ecol := 7, line := incLine },
    file := "a.gin", line := 1 }

theorem demoInclude_check :
    checkSelector (String.join ["include"]) (sliceLine incLine 0 7) true false = true ∧
    String.join ["include"] = "include" := by decide +kernel

theorem demoInclude_ok : IncludeToks demoInclude where
  kwKind := rfl
  kwRow := rfl
  kwStr := rfl
  kwGood := rfl
  kwParses := by
    intro r hr hop
    unfold parseSelector
    simp only [demoInclude, cur_cons, List.length_cons]
    rw [go_name _ _ _ _ _ rfl hr, go_stop_any _ _ _ _ hop]
    simp only [skipWs_clean false _ hr, List.nil_append]
    have h := demoInclude_check
    rw [h.2] at h
    simp [h.1]

end Gin.Parser

namespace Gin.C03
open Gin Gin.Parser

/-- Two layouts of the same statements (all four kinds) are read as the same statements. -/
theorem text_layouts_agree (s₁ s₂ : List StmtL) (h₁ : ∀ s ∈ s₁, s.OK) (h₂ : ∀ s ∈ s₂, s.OK)
    (hsame : s₁.flatMap StmtL.stmts = s₂.flatMap StmtL.stmts) (post₁ post₂ : List Bool) :
    parseAll (s₁.length + 1) false (renderStmts s₁ ++ (triv post₁ ++ [endTok])) [] =
    parseAll (s₂.length + 1) false (renderStmts s₂ ++ (triv post₂ ++ [endTok])) [] := by
  rw [(parseAll_stmts s₁ h₁ post₁ [] _ (Nat.lt_succ_self _)).1,
      (parseAll_stmts s₂ h₂ post₂ [] _ (Nat.lt_succ_self _)).1, hsame]

/-- non-vacuity: a text of all four kinds — a binding, an import, a block, an include -/
def demoText : List StmtL :=
  (C03.demoItems.take 1).map StmtL.item ++ [.imp demoImport] ++ (C03.demoItems.drop 1).map StmtL.item ++
    [.incl demoInclude]

theorem demoText_ok : ∀ s ∈ demoText, s.OK := by
  intro s hs
  simp only [demoText, List.mem_append, List.mem_map, List.mem_cons, List.mem_nil_iff, or_false] at hs
  rcases hs with ((⟨i, hi, rfl⟩ | rfl) | ⟨i, hi, rfl⟩) | rfl
  · exact C03.demoItems_ok i (List.mem_of_mem_take hi)
  · exact demoImport_ok
  · exact C03.demoItems_ok i (List.mem_of_mem_drop hi)
  · exact demoInclude_ok

example : (parseAll 5 false (renderStmts demoText ++ (triv [true] ++ [endTok])) []).2 = none ∧
    (parseAll 5 false (renderStmts demoText ++ (triv [true] ++ [endTok])) []).1.length = 6 := by
  rw [(parseAll_stmts demoText demoText_ok [true] [] 5 (by decide)).1]
  refine ⟨rfl, ?_⟩
  decide

end Gin.C03
