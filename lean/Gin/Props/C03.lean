/-
C03 — statements are recovered exactly, whatever the layout of the config text.
-/
import Gin.Lemmas.Parser
import Gin.Props.C02

namespace Gin.C03
open Gin Gin.Parser

/-- A scoped name is accepted only if the tokens consumed for it are *contiguous in the physical
    line* — the text between the first and the last of them is exactly their concatenation, so inner
    whitespace, comments or continuations are rejected rather than repaired — … -/
theorem selector_must_be_contiguous (sel raw : String) (allowScopes periods : Bool)
    (h : checkSelector sel raw allowScopes periods = true) : raw = sel := by
  simp only [checkSelector, Bool.and_eq_true, beq_iff_eq] at h
  exact h.1.1.1

/-- … its last part is a dotted name of identifiers and every scope component an identifier (a
    dotted name where periods are allowed: `@`/`%` names), so empty components and misplaced
    separators are rejected; and scopes appear only where they are allowed (not in `import`). -/
theorem selector_components_valid (sel raw : String) (allowScopes periods : Bool)
    (h : checkSelector sel raw allowScopes periods = true) :
    isModuleStr ((splitChar sel '/').getLastD "") = true ∧
    (∀ s ∈ (splitChar sel '/').dropLast, (if periods then isModuleStr s else isIdentStr s) = true) ∧
    (allowScopes = false → (splitChar sel '/').length = 1) := by
  simp only [checkSelector, Bool.and_eq_true, beq_iff_eq, List.all_eq_true, Bool.or_eq_true] at h
  refine ⟨h.1.2, h.1.1.2, ?_⟩
  intro hs
  rcases h.2 with h2 | h2
  · rw [hs] at h2; cases h2
  · exact h2

/-- A rejected scoped name is a syntax error of the statement (nothing is repaired). -/
theorem bad_selector_is_syntax_error (blk allowScopes periods : Bool) (ts : List Token)
    (hname : (cur ts).kind ≠ .name) :
    parseSelector blk allowScopes periods ts = .error (.syntax "Unexpected token.") := by
  unfold parseSelector
  have : ((cur ts).kind != TKind.name) = true := by simpa using hname
  simp [this]

/-- The value of a binding does not depend on its layout (re-export of the value-level theorem:
    any two renderings of one literal tree parse to the same value). -/
theorem value_layout_irrelevant (l₁ l₂ : L) (r₁ r₂ : List Token) (h₁ : Clean r₁) (h₂ : Clean r₂)
    (n₁ : NoStr false r₁) (n₂ : NoStr false r₂) (hv : val l₁ = val l₂) :
    (parseValue false (size l₁) (render l₁ ++ r₁)).toOption.map (·.1) =
    (parseValue false (size l₂) (render l₂ ++ r₂)).toOption.map (·.1) :=
  C02.layout_irrelevant l₁ l₂ r₁ r₂ h₁ h₂ n₁ n₂ hv

/-- Comments, blank lines and (outside blocks) indentation between statements are skipped: they
    never become part of a statement. -/
theorem trivia_between_statements_skipped (l : List Bool) (ts : List Token) (hc : Clean ts) :
    skipWs false (triv l ++ ts) = skipWs false ts := by
  rw [skipWs_clean false _ (clean_append (triv_clean l) hc), skipWs_clean false _ hc, dropTriv_triv false]

/-- A statement must end at NEWLINE / DEDENT / ENDMARKER. -/
theorem statement_must_end (stmts : List PStmt) (ts : List Token) (h : isEnd (cur ts) = false) :
    ∃ m, finishStmt stmts ts = .error (.syntax m) :=
  C02.statement_rejects_trailing stmts ts h

end Gin.C03
