/-
C07 (continued) — the operative config suffices to replay: in a configuration holding exactly what
the operative record holds, Gin supplies every call the same values it supplied the first time, and
the calls reproduce the same record.

Setting: values reference-free (evaluation is the identity), a fixed store `C` of bindings, every
recorded value taken as it is (the printable part of the record is the whole record when every
supplied value is literally representable — the hypothesis of the property's replay clause).
-/
import Gin.Props.C07
import Gin.Props.C01

namespace Gin.C07
open Gin Gin.AList

/-- what a call of `c` under `σ` records for a parameter the caller does not supply: the applicable
    binding, else the configurable (listed, representable) signature default -/
def recVal (C : Store) (c : Cfgable) (σ : Scope) (p : String) : Option Val :=
  (lookup p (getBindings C c.selector σ)).orElse (fun _ => lookup p c.configurableDefaults)

theorem operative_is_recVal (c : Cfgable) (C : Store) (σ : Scope) (args : List Val)
    (kwargs : AList String Val) (a : PhaseA) (hA : phaseA c C σ args kwargs = .ok a) (p : String)
    (hp : p ∉ callerSupplied c args kwargs) : lookup p a.operative = recVal C c σ p := by
  rw [operative_param c C σ args kwargs a hA, if_neg hp]; rfl

theorem operative_sub_recVal (c : Cfgable) (C : Store) (σ : Scope) (args : List Val)
    (kwargs : AList String Val) (a : PhaseA) (hA : phaseA c C σ args kwargs = .ok a) (p : String)
    (v : Val) (hv : lookup p a.operative = some v) : recVal C c σ p = some v := by
  rw [operative_param c C σ args kwargs a hA] at hv
  split at hv
  · cases hv
  · exact hv

/-- if some prefix of the active scope records a value for `p`, so does the active scope -/
theorem recVal_mono (C : Store) (hC : C.WF) (c : Cfgable) (π σ : Scope) (hπ : π <+: σ) (p : String)
    (v : Val) (h : recVal C c π p = some v) : (recVal C c σ p).isSome := by
  unfold recVal at h ⊢
  cases hb : lookup p (getBindings C c.selector π) with
  | some w =>
    -- a binding along `π` is a binding along `σ`
    rw [C01.overlay_lookup C hC] at hb
    obtain ⟨π', hπ', hw⟩ := List.exists_of_findSome?_eq_some hb
    have hpre : π' <+: σ := List.IsPrefix.trans ((mem_prefixes π π').1 (List.mem_reverse.1 hπ')) hπ
    cases hσ : lookup p (getBindings C c.selector σ) with
    | some _ => simp
    | none =>
      rw [C01.overlay_lookup C hC, List.findSome?_eq_none_iff] at hσ
      have := hσ π' (List.mem_reverse.2 ((mem_prefixes σ π').2 hpre))
      rw [hw] at this; cases this
  | none =>
    simp only [hb, Option.orElse_none] at h
    cases lookup p (getBindings C c.selector σ) with
    | some _ => simp
    | none => simp [h]

/-- the operative store is *justified* by `C`: every recorded value is the record value of its key -/
structure Justified (C : Store) (reg : SelMap Entry) (O : Store) : Prop where
  wf : O.WF
  just : ∀ π sel p v, lookup p (O.params π sel) = some v →
    ∃ e, reg.get? sel = some e ∧ e.cfg.selector = sel ∧ recVal C e.cfg π p = some v

theorem justified_empty (C : Store) (reg : SelMap Entry) : Justified C reg [] where
  wf := by intro k d h; cases h
  just := by intro π sel p v h; simp [Store.params, lookup] at h

theorem prefixes_reverse_head (σ : Scope) : ∃ rest, (prefixes σ).reverse = σ :: rest := by
  rw [prefixes_last σ, List.reverse_append]; exact ⟨_, rfl⟩

/-- **Replay, what Gin supplies.**  In a configuration that holds exactly the operative record `O`
    (justified by the original bindings `C`, and containing this call's own record), Gin supplies this
    call, for every parameter the caller does not supply, exactly the value it recorded — and nothing
    for the parameters it recorded nothing for. -/
theorem replay_supplies_same (C : Store) (hC : C.WF) (reg : SelMap Entry) (O : Store)
    (hJ : Justified C reg O) (sel : Sel) (e : Entry) (he : reg.get? sel = some e)
    (hsel : e.cfg.selector = sel) (σ : Scope) (args : List Val) (kwargs : AList String Val)
    (a : PhaseA) (hA : phaseA e.cfg C σ args kwargs = .ok a)
    (hrec : ∀ p v, lookup p a.operative = some v → lookup p (O.params σ sel) = some v)
    (p : String) (hp : p ∉ callerSupplied e.cfg args kwargs) :
    lookup p (getBindings O sel σ) = lookup p a.operative := by
  rw [C01.overlay_lookup O hJ.wf]
  obtain ⟨rest, hrev⟩ := prefixes_reverse_head σ
  cases hv : lookup p a.operative with
  | some v =>
    rw [hrev, List.findSome?_cons, hrec p v hv]
  | none =>
    rw [List.findSome?_eq_none_iff]
    intro π hπ
    cases hO : lookup p (O.params π sel) with
    | none => rfl
    | some w =>
      exfalso
      obtain ⟨e', he', _, hrv⟩ := hJ.just π sel p w hO
      rw [he] at he'; cases he'
      have hpre : π <+: σ := (mem_prefixes σ π).1 (List.mem_reverse.1 hπ)
      have hsome := recVal_mono C hC e.cfg π σ hpre p w hrv
      rw [← operative_is_recVal e.cfg C σ args kwargs a hA p hp, hv] at hsome
      cases hsome

/-- **Replay, the record.**  The replayed call is accepted exactly when the original was and records,
    parameter by parameter, what the original recorded: the operative text is reproduced. -/
theorem replay_records_same (C : Store) (hC : C.WF) (reg : SelMap Entry) (O : Store)
    (hJ : Justified C reg O) (sel : Sel) (e : Entry) (he : reg.get? sel = some e)
    (hsel : e.cfg.selector = sel) (σ : Scope) (args : List Val) (kwargs : AList String Val)
    (a : PhaseA) (hA : phaseA e.cfg C σ args kwargs = .ok a)
    (hrec : ∀ p v, lookup p a.operative = some v → lookup p (O.params σ sel) = some v) :
    ∃ a', phaseA e.cfg O σ args kwargs = .ok a' ∧ ∀ p, lookup p a'.operative = lookup p a.operative := by
  -- acceptance depends on the arguments only
  have hacc : ∃ a', phaseA e.cfg O σ args kwargs = .ok a' := by
    unfold phaseA at hA ⊢
    by_cases hnv : (args.drop (e.cfg.sig.args.take args.length).length).any Val.isRequired = true
    · simp only [hnv, if_true] at hA; cases hA
    · simp only [hnv, Bool.false_eq_true, if_false]; exact ⟨_, rfl⟩
  obtain ⟨a', hA'⟩ := hacc
  refine ⟨a', hA', ?_⟩
  intro p
  by_cases hp : p ∈ callerSupplied e.cfg args kwargs
  · rw [operative_excludes_caller_supplied e.cfg O σ args kwargs a' hA' p hp,
        operative_excludes_caller_supplied e.cfg C σ args kwargs a hA p hp]
  · rw [operative_param e.cfg O σ args kwargs a' hA', if_neg hp, hsel,
        replay_supplies_same C hC reg O hJ sel e he hsel σ args kwargs a hA hrec p hp]
    cases hv : lookup p a.operative with
    | some v => simp
    | none =>
      simp only [Option.orElse_none]
      have := operative_is_recVal e.cfg C σ args kwargs a hA p hp
      rw [hv] at this
      unfold recVal at this
      cases hb : lookup p (getBindings C e.cfg.selector σ) with
      | some w => simp [hb] at this
      | none => simp only [hb, Option.orElse_none] at this; exact this.symm

end Gin.C07

namespace Gin.C07
open Gin Gin.AList

theorem operative_nodup (c : Cfgable) (C : Store) (σ : Scope) (args : List Val)
    (kwargs : AList String Val) (a : PhaseA) (hA : phaseA c C σ args kwargs = .ok a) :
    (keys a.operative).Nodup := by
  unfold phaseA at hA
  by_cases hnv : (args.drop (c.sig.args.take args.length).length).any Val.isRequired = true
  · simp only [hnv, ↓reduceIte] at hA; cases hA
  · simp only [hnv, Bool.false_eq_true, ↓reduceIte, Except.ok.injEq] at hA
    subst hA
    exact nodup_keys_popAll _ (nodup_keys_popAll _
      (nodup_keys_update _ _ (configurableDefaults_nodup c)) _) _

/-- the operative store after one more call -/
theorem operative_after_call (st : State) (full : Sel) (σ : Scope) (args : List Val)
    (kwargs : AList String Val) :
    (st.call id full σ args kwargs).1.operative = st.operative ∨
    ∃ e a, st.registry.get? full = some e ∧ phaseA e.cfg st.config σ args kwargs = .ok a ∧
      (st.call id full σ args kwargs).1.operative =
        AList.set (σ, full) (update (st.operative.params σ full) a.operative) st.operative := by
  cases he : st.registry.get? full with
  | none => left; unfold State.call; simp [he]
  | some e =>
    cases hA : phaseA e.cfg st.config σ args kwargs with
    | error err => left; unfold State.call; simp [he, hA]
    | ok a =>
      right
      refine ⟨e, a, rfl, hA, ?_⟩
      unfold State.call
      simp only [he, hA]
      split <;> (try split) <;> rfl

theorem call_keeps_config (st : State) (full : Sel) (σ : Scope) (args : List Val)
    (kwargs : AList String Val) :
    (st.call id full σ args kwargs).1.config = st.config ∧
    (st.call id full σ args kwargs).1.registry = st.registry := by
  cases he : st.registry.get? full with
  | none => unfold State.call; simp [he]
  | some e =>
    cases hA : phaseA e.cfg st.config σ args kwargs with
    | error err => unfold State.call; simp [he, hA]
    | ok a =>
      unfold State.call
      simp only [he, hA]
      split <;> (try split) <;> exact ⟨rfl, rfl⟩

theorem params_set (O : Store) (key : Scope × Sel) (d : AList String Val) (π : Scope) (sel : Sel) :
    Store.params (AList.set key d O) π sel = if key = (π, sel) then d else O.params π sel := by
  unfold Store.params
  rw [lookup_set]
  by_cases h : key = (π, sel)
  · simp [h]
  · have h' : ¬ (π, sel) = key := fun e => h e.symm
    simp [h, h']

theorem wf_set (O : Store) (hO : O.WF) (key : Scope × Sel) (d : AList String Val) (hd : (keys d).Nodup) :
    Store.WF (AList.set key d O) := by
  intro k d' hmem
  rcases mem_of_mem_set key d O (k, d') hmem with h | h
  · cases h; exact hd
  · exact hO k d' h

/-- registry entries are stored under their own complete name -/
def RegCoherent (reg : SelMap Entry) : Prop := ∀ sel e, reg.get? sel = some e → e.cfg.selector = sel

/-- one call keeps the operative store justified by the (unchanged) bindings -/
theorem justified_call (st : State) (hreg : RegCoherent st.registry)
    (hJ : Justified st.config st.registry st.operative) (full : Sel) (σ : Scope) (args : List Val)
    (kwargs : AList String Val) :
    Justified st.config st.registry (st.call id full σ args kwargs).1.operative := by
  rcases operative_after_call st full σ args kwargs with h | ⟨e, a, he, hA, h⟩
  · rw [h]; exact hJ
  · rw [h]
    have hnd := operative_nodup e.cfg st.config σ args kwargs a hA
    refine ⟨wf_set _ hJ.wf _ _ (nodup_keys_update _ _ (Store.params_nodup _ hJ.wf σ full)), ?_⟩
    intro π sel p v hv
    rw [params_set] at hv
    by_cases hk : (σ, full) = (π, sel)
    · simp only [hk, if_true] at hv
      cases hk
      rw [lookup_update' _ _ hnd] at hv
      cases ho : lookup p a.operative with
      | some w =>
        simp only [ho, Option.orElse_some, Option.some.injEq] at hv
        subst hv
        exact ⟨e, he, hreg _ _ he, operative_sub_recVal e.cfg st.config σ args kwargs a hA p w ho⟩
      | none =>
        simp only [ho, Option.orElse_none] at hv
        exact hJ.just σ full p v hv
    · simp only [hk, if_false] at hv
      exact hJ.just π sel p v hv

/-- a call description -/
structure CallRec where
  sel : Sel
  σ : Scope
  args : List Val
  kwargs : AList String Val

def runCalls (st : State) : List CallRec → State
  | [] => st
  | c :: cs => runCalls (st.call id c.sel c.σ c.args c.kwargs).1 cs

/-- the record of call `c` (what `phaseA` computed for it) is present in the store `O` -/
def Present (C : Store) (reg : SelMap Entry) (O : Store) (c : CallRec) : Prop :=
  ∀ e a, reg.get? c.sel = some e → phaseA e.cfg C c.σ c.args c.kwargs = .ok a →
    ∀ p v, lookup p a.operative = some v → lookup p (O.params c.σ c.sel) = some v

/-- a later call never disturbs the record of an earlier one (values are functions of the bindings) -/
theorem present_call (st : State) (hreg : RegCoherent st.registry) (c : CallRec)
    (hP : Present st.config st.registry st.operative c) (full : Sel) (σ : Scope) (args : List Val)
    (kwargs : AList String Val) :
    Present st.config st.registry (st.call id full σ args kwargs).1.operative c := by
  rcases operative_after_call st full σ args kwargs with h | ⟨e2, a2, he2, hA2, h⟩
  · rw [h]; exact hP
  · rw [h]
    intro e a he hA p v hv
    rw [params_set]
    by_cases hk : (σ, full) = (c.σ, c.sel)
    · simp only [hk, if_true]
      cases hk
      have hee : e2 = e := by rw [he] at he2; exact (Option.some.inj he2).symm
      subst hee
      rw [lookup_update' _ _ (operative_nodup e2.cfg st.config c.σ args kwargs a2 hA2)]
      cases ho : lookup p a2.operative with
      | some w =>
        have h1 := operative_sub_recVal e2.cfg st.config c.σ args kwargs a2 hA2 p w ho
        have h2 := operative_sub_recVal e2.cfg st.config c.σ c.args c.kwargs a hA p v hv
        rw [h1] at h2; cases h2; rfl
      | none =>
        simp only [Option.orElse_none]
        exact hP e2 a he hA p v hv
    · simp only [hk, if_false]
      exact hP e a he hA p v hv

/-- the call just made has its record in the store -/
theorem present_self (st : State) (c : CallRec) :
    Present st.config st.registry (st.call id c.sel c.σ c.args c.kwargs).1.operative c := by
  intro e a he hA p v hv
  have hl := call_records id st c.sel c.σ c.args c.kwargs e a he hA (c.σ, c.sel)
  simp only [if_true] at hl
  unfold Store.params
  rw [hl]
  simp only [Option.getD_some]
  rw [lookup_update' _ _ (operative_nodup e.cfg st.config c.σ c.args c.kwargs a hA), hv]
  rfl

end Gin.C07

namespace Gin.C07
open Gin Gin.AList

/-- running calls changes neither the bindings nor the registry -/
theorem runCalls_keeps (st : State) (cs : List CallRec) :
    (runCalls st cs).config = st.config ∧ (runCalls st cs).registry = st.registry := by
  induction cs generalizing st with
  | nil => exact ⟨rfl, rfl⟩
  | cons c cs ih =>
    simp only [runCalls]
    have h := call_keeps_config st c.sel c.σ c.args c.kwargs
    have := ih (st.call id c.sel c.σ c.args c.kwargs).1
    exact ⟨this.1.trans h.1, this.2.trans h.2⟩

/-- after any sequence of calls the operative store is justified by the bindings, and the record of
    every call made — earlier ones included — is still in it -/
theorem runCalls_invariant (st : State) (hreg : RegCoherent st.registry)
    (hJ : Justified st.config st.registry st.operative)
    (done : List CallRec) (hdone : ∀ c ∈ done, Present st.config st.registry st.operative c)
    (cs : List CallRec) :
    Justified st.config st.registry (runCalls st cs).operative ∧
    ∀ c ∈ done ++ cs, Present st.config st.registry (runCalls st cs).operative c := by
  induction cs generalizing st done with
  | nil => exact ⟨hJ, by simpa [runCalls] using hdone⟩
  | cons c cs ih =>
    simp only [runCalls]
    have hk := call_keeps_config st c.sel c.σ c.args c.kwargs
    have hJ' := justified_call st hreg hJ c.sel c.σ c.args c.kwargs
    have hdone' : ∀ x ∈ done ++ [c], Present st.config st.registry
        (st.call id c.sel c.σ c.args c.kwargs).1.operative x := by
      intro x hx
      rcases List.mem_append.1 hx with h | h
      · exact present_call st hreg x (hdone x h) c.sel c.σ c.args c.kwargs
      · simp only [List.mem_singleton] at h; subst h; exact present_self st x
    have := ih (st.call id c.sel c.σ c.args c.kwargs).1 (by rw [hk.2]; exact hreg)
      (by rw [hk.1, hk.2]; exact hJ') (done ++ [c]) (by rw [hk.1, hk.2]; exact hdone')
    rw [hk.1, hk.2] at this
    simpa [List.append_assoc] using this

/-- **The operative config suffices to replay.**  Start from a state with bindings `C` and an empty
    operative record, make any sequence of calls, and let `O` be the operative record at the end.  In
    the configuration that holds exactly `O`, every one of those calls that Gin accepted is accepted
    again, Gin supplies it — for every parameter the caller does not supply — exactly the value it
    supplied the first time (and nothing where it supplied nothing), and the call records what it
    recorded the first time: the same arguments, the same operative text. -/
theorem operative_suffices_to_replay (st : State) (hC : st.config.WF) (hreg : RegCoherent st.registry)
    (hempty : st.operative = []) (cs : List CallRec) (c : CallRec) (hc : c ∈ cs)
    (e : Entry) (a : PhaseA) (he : st.registry.get? c.sel = some e)
    (hA : phaseA e.cfg st.config c.σ c.args c.kwargs = .ok a) :
    let O := (runCalls st cs).operative
    (∀ p, p ∉ callerSupplied e.cfg c.args c.kwargs →
        lookup p (getBindings O c.sel c.σ) = lookup p a.operative) ∧
    ∃ a', phaseA e.cfg O c.σ c.args c.kwargs = .ok a' ∧
      ∀ p, lookup p a'.operative = lookup p a.operative := by
  intro O
  have hJ0 : Justified st.config st.registry st.operative := by rw [hempty]; exact justified_empty _ _
  obtain ⟨hJ, hP⟩ := runCalls_invariant st hreg hJ0 [] (by intro x hx; cases hx) cs
  have hrec := hP c (by simpa using hc) e a he hA
  exact ⟨fun p hp => replay_supplies_same st.config hC st.registry O hJ c.sel e he (hreg _ _ he)
            c.σ c.args c.kwargs a hA hrec p hp,
         replay_records_same st.config hC st.registry O hJ c.sel e he (hreg _ _ he)
            c.σ c.args c.kwargs a hA hrec⟩

/-! non-vacuity: a default recorded under the root scope, a binding under `a` -/
def demoReg : SelMap Entry := (SelMap.empty : SelMap Entry).set ["f"] { cfg := demoC, objId := 1 }
def demoSt : State := { registry := demoReg, config := [((["a"], ["f"]), [("x", .int 7)])] }
example : (runCalls demoSt [⟨["f"], ["a"], [], []⟩, ⟨["f"], [], [.int 1], []⟩]).operative =
    [((["a"], ["f"]), [("y", .int 2), ("x", .int 7)]), (([], ["f"]), [("y", .int 2)])] := by
  rfl

end Gin.C07
