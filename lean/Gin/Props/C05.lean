/-
C05 — macros and constants are late-bound named values.
-/
import Gin.Machine
import Gin.Lemmas.Eval
import Gin.Props.C08

namespace Gin.C05
open Gin Gin.AList

/-- A `%name` that matched a constant delivers the stored object itself; nothing is called,
    copied or recorded. -/
theorem constant_delivers_identity (fuel : Nat) (st : State) (σ : Scope) (name : Sel) (c : Val)
    (h : st.constants.get? name = some c) :
    evalVal (fuel + 1) st σ (.const name) = .ok (st, c) := by
  simp [evalVal, h]

/-- `%name` that is not a constant is a call of the macro configurable under the scope `name`:
    it reads the store *at evaluation time*, whenever the macro was (last) defined. -/
theorem macro_reads_store_at_use (fuel : Nat) (st : State) (σ : Scope) (name : String) :
    evalVal (fuel + 1) st σ (.macro name) =
      callCfg fuel st State.macroSel (if name.isEmpty then [] else splitChar name '/') [] [] := by
  simp [evalVal]

/-- Two states that differ only in *how* they were reached agree on every evaluation: the
    evaluator is a function of the current store, registry and constants (and of the probes'
    counters), so the order of macro definitions and uses across parse calls is irrelevant once the
    resulting store is the same. -/
theorem evaluation_depends_only_on_state (fuel : Nat) (st₁ st₂ : State) (σ : Scope) (v : Val)
    (h : st₁ = st₂) : evalVal fuel st₁ σ v = evalVal fuel st₂ σ v := by rw [h]

/-- Constant definition: an invalid name is an error; outside interactive mode so is any name that
    already addresses a stored constant (a duplicate, or a dotted suffix / extension clash). -/
theorem constant_rules (st : State) (name : Sel) (valid : Bool) (v : Val) :
    (valid = false → st.defConstant name valid v = .error .valueError) ∧
    (valid = true → st.interactive = false → st.constants.matching name ≠ [] →
        st.defConstant name valid v = .error .valueError) ∧
    (valid = true → (st.interactive = true ∨ st.constants.matching name = []) →
        st.defConstant name valid v = .ok { st with constants := st.constants.set name v }) := by
  refine ⟨?_, ?_, ?_⟩
  · intro h; simp [State.defConstant, h]
  · intro h hi hm
    have : (st.constants.matching name).isEmpty = false := by
      cases hmm : st.constants.matching name with
      | nil => exact absurd hmm hm
      | cons _ _ => rfl
    simp [State.defConstant, h, hi, this]
  · intro h hor
    rcases hor with hi | hm
    · simp [State.defConstant, h, hi]
    · simp [State.defConstant, h, hm]

/-- "already addresses a stored constant", declaratively (C08): some stored constant name equals the
    new name or ends with it. -/
theorem constant_clash_iff (st : State) (h : SelMap.Inv st.constants) (name : Sel) :
    st.constants.matching name ≠ [] ↔ ∃ k, C08.Matches st.constants name k := by
  constructor
  · intro hne
    cases hm : st.constants.matching name with
    | nil => exact absurd hm hne
    | cons k rest => exact ⟨k, (C08.matching_spec st.constants h name k).1 (by simp [hm])⟩
  · rintro ⟨k, hk⟩ he
    have := (C08.matching_spec st.constants h name k).2 hk
    simp [he] at this

/-- `%name` at parse time: the unique constant it abbreviates, an error when the abbreviation is
    ambiguous, a macro otherwise. -/
theorem resolve_spec (st : State) (name : String) :
    (st.constants.matching (splitChar name '.') = [] → st.resolveMacro name = .ok (.macro name)) ∧
    (∀ full, st.constants.matching (splitChar name '.') = [full] → st.resolveMacro name = .ok (.const full)) ∧
    (∀ a b rest, st.constants.matching (splitChar name '.') = a :: b :: rest →
        st.resolveMacro name = .error .valueError) := by
  refine ⟨?_, ?_, ?_⟩
  · intro h; simp [State.resolveMacro, h]
  · intro full h; simp [State.resolveMacro, h]
  · intro a b rest h; simp [State.resolveMacro, h]

/-- Finalizing rejects a macro that is referenced but never bound (in its own scope) … -/
theorem finalize_rejects_unbound_macro (st : State) (hl : st.locked = false) (name : String)
    (huse : Val.macro name ∈ State.allValues st.config)
    (hunbound : AList.contains ((if name.isEmpty then [] else splitChar name '/'), State.macroSel)
                  st.config = false) :
    step st .finalize = (st, .err .valueError) := by
  have hbad : st.builtinHooksOk = false := by
    unfold State.builtinHooksOk
    have : (State.allValues st.config).all (State.macroRefOk st.config) = false := by
      rw [List.all_eq_false]
      exact ⟨_, huse, by simp only [State.macroRefOk, hunbound]; decide⟩
    simp [this]
  simp [step, State.finalize, hl, hbad]

/-- … and one that is referenced without being evaluated (`@name/gin.macro` without `()`),
    whatever scope is active when `finalize` is called (the scope is not an input of the check). -/
theorem finalize_rejects_unevaluated_macro (st : State) (hl : st.locked = false)
    (scopes : List String)
    (huse : Val.ref scopes State.macroSel false ∈ State.allValues st.config) :
    step st .finalize = (st, .err .valueError) := by
  have hbad : st.builtinHooksOk = false := by
    unfold State.builtinHooksOk
    have : (State.allValues st.config).all (State.macroRefOk st.config) = false := by
      rw [List.all_eq_false]
      exact ⟨_, huse, by simp [State.macroRefOk]⟩
    simp [this]
  simp [step, State.finalize, hl, hbad]

/-! Non-vacuity -/
example : (initState.defConstant ["X"] true (.int 1)).toOption.isSome = true := by rfl
example : evalVal 2 initState [] (.const ["gin", "REQUIRED"]) = .ok (initState, .required) := by
  simp [evalVal]; rfl

end Gin.C05
