/-
C17 — exceptions from configurables keep their type, data and traceback (lookup-protocol part).
-/
import Gin.ExcProxy
import Gin.Lemmas.AList

namespace Gin.C17
open Gin Gin.ExcProxy

/-- With the forwarding proxy every public attribute readable on the original reads the same on
    the exception that reaches the caller. -/
theorem proxy_reads_agree (orig : Exc) (a : String) : proxyForward orig a = getattr orig a := rfl

/-- The fallback-only construction agrees with the original exactly on the attributes that are
    *not* backed by a data descriptor of the class … -/
theorem fallback_agrees_off_slots (orig : Exc) (defaults : AList String Val) (a : String)
    (h : AList.lookup a defaults = none) : proxyFallback orig defaults a = getattr orig a := by
  simp [proxyFallback, h]

/-- … and shadows every slot-backed attribute with the proxy's own default: `args`, `errno`,
    `value`, … read differently from the original whenever the original's value is not the default
    (this is defect D7 of the unrepaired code). -/
theorem fallback_shadows_slots (orig : Exc) (defaults : AList String Val) (a : String) (d : Val)
    (h : AList.lookup a defaults = some d) : proxyFallback orig defaults a = some d := by
  simp [proxyFallback, h]

/-- concrete witness: `ValueError('bad', 7)` -/
def demoOrig : Exc := { slots := [("args", .tuple [.str "bad", .int 7])], dict := [("extra", .int 1)] }
theorem fallback_loses_args :
    proxyFallback demoOrig [("args", .tuple [])] "args" ≠ getattr demoOrig "args" := by
  intro h
  simp [proxyFallback, getattr, demoOrig, AList.lookup] at h
example : proxyForward demoOrig "args" = some (.tuple [.str "bad", .int 7]) := by rfl
example : proxyFallback demoOrig [("args", .tuple [])] "extra" = some (.int 1) := by rfl

end Gin.C17
