/-
C03 (continued) — whole texts: any sequence mixing flat bindings and block statements, each in any layout, with
any comments and blank lines between them, is read as exactly the statements it spells, in order.
-/
import Gin.Props.C03c

namespace Gin.Parser

/-- one statement of a text: a flat binding or a block, with all its layout -/
inductive ItemL where
  | bind (b : BindL)
  | block (b : BlockL)

def ItemL.render : ItemL → List Token
  | .bind b => b.render
  | .block b => b.render

def ItemL.stmts : ItemL → List PStmt
  | .bind b => [b.stmt]
  | .block b => b.stmts

/-- the side conditions of the single-statement theorems -/
def ItemL.OK : ItemL → Prop
  | .bind b => KeyToks b.toks b.key b.line
  | .block b => KeyToksColon b.toks b.key b.line ∧ ∀ m ∈ b.members, isIdentStr m.arg = true

/-- the token a statement leaves for the deferred advance: its NEWLINE, or the DEDENT closing its block -/
def ItemL.last : ItemL → Token
  | .bind _ => newlineTok
  | .block _ => dedentTok

/-- the tokens of a statement without that last one -/
def ItemL.body : ItemL → List Token
  | .bind b => triv b.pre ++ (b.toks ++ opTok "=" :: Gin.Parser.render b.value)
  | .block b => triv b.pre ++ (b.toks ++ opTok ":" :: ((if b.hdrComment then [commentTok] else []) ++
      newlineTok :: (triv b.mid1 ++ indentTok :: (triv b.mid2 ++ renderMembers b.members))))

theorem ItemL.render_eq (i : ItemL) : i.render = i.body ++ [i.last] := by
  cases i with
  | bind b => simp [ItemL.render, ItemL.body, ItemL.last, BindL.render]
  | block b => simp [ItemL.render, ItemL.body, ItemL.last, BlockL.render]

def renderTexts : List ItemL → List Token
  | [] => []
  | i :: is => i.render ++ renderTexts is

theorem BlockL.render_clean (b : BlockL) (hk : KeyToksColon b.toks b.key b.line) : Clean b.render := by
  unfold BlockL.render
  refine clean_append (triv_clean _) (clean_append hk.clean (clean_cons rfl (clean_append ?_ (clean_cons rfl
    (clean_append (triv_clean _) (clean_cons rfl (clean_append (triv_clean _)
      (clean_append (renderMembers_clean _) (clean_cons rfl (fun _ h => by cases h))))))))))
  cases b.hdrComment
  · intro t ht; cases ht
  · exact clean_cons rfl (fun _ h => by cases h)

theorem ItemL.render_clean (i : ItemL) (h : i.OK) : Clean i.render := by
  cases i with
  | bind b => exact b.render_clean h
  | block b => exact b.render_clean h.1

theorem renderTexts_clean (is : List ItemL) (h : ∀ i ∈ is, i.OK) : Clean (renderTexts is) := by
  induction is with
  | nil => intro t ht; cases ht
  | cons i is ih =>
    exact clean_append (i.render_clean (h i (by simp))) (ih (fun x hx => h x (by simp [hx])))

/-- one statement of either kind -/
theorem parseStatement_item (i : ItemL) (h : i.OK) (r : List Token) (hr : Clean r) :
    parseStatement false (i.render ++ r) = .ok (some (i.stmts, i.last :: r, true)) := by
  cases i with
  | bind b => exact parseStatement_binding b h r hr
  | block b => exact parseStatement_block b h.1 h.2 r hr

theorem parseStatement_pending_item (i : ItemL) (ts : List Token) (hc : Clean ts) :
    parseStatement true (i.last :: ts) = parseStatement false ts := by
  cases i with
  | bind b => exact parseStatement_pending ts hc
  | block b => exact parseStatement_pending_dedent ts hc

/-- **Statement-level completeness for texts of bindings and blocks.**  Any sequence of flat bindings and block
    statements — each preceded by arbitrary comments and blank lines, block headers and members separated by
    comments and blank lines, every value in any layout — followed by trailing trivia, is read as exactly those
    statements (a block as its declaration followed by its member bindings), in order, without error. -/
theorem parseAll_items (is : List ItemL) (h : ∀ i ∈ is, i.OK) (post : List Bool) (acc : List PStmt) (n : Nat)
    (hn : is.length < n) :
    parseAll n false (renderTexts is ++ (triv post ++ [endTok])) acc = (acc ++ is.flatMap ItemL.stmts, none) ∧
    ∀ j : ItemL, parseAll n true (j.last :: (renderTexts is ++ (triv post ++ [endTok]))) acc =
        (acc ++ is.flatMap ItemL.stmts, none) := by
  have hend : Clean (triv post ++ [endTok]) :=
    clean_append (triv_clean _) (clean_cons rfl (fun _ h => by cases h))
  induction is generalizing acc n with
  | nil =>
    cases n with
    | zero => simp at hn
    | succ n =>
      refine ⟨?_, ?_⟩
      · simp only [renderTexts, List.nil_append, parseAll, parseStatement_end, List.flatMap_nil, List.append_nil]
      · intro j
        simp only [renderTexts, List.nil_append, parseAll, parseStatement_pending_item j _ hend,
          parseStatement_end, List.flatMap_nil, List.append_nil]
  | cons i is ih =>
    cases n with
    | zero => simp at hn
    | succ n =>
      have h' : ∀ x ∈ is, x.OK := fun x hx => h x (by simp [hx])
      have hrest : Clean (renderTexts is ++ (triv post ++ [endTok])) :=
        clean_append (renderTexts_clean is h') hend
      have hstep := parseStatement_item i (h i (by simp)) _ hrest
      have ihb := (ih h' (acc ++ i.stmts) n (by simp at hn; omega)).2 i
      have h1 : parseAll (n + 1) false (renderTexts (i :: is) ++ (triv post ++ [endTok])) acc =
          (acc ++ (i :: is).flatMap ItemL.stmts, none) := by
        simp only [renderTexts, List.append_assoc, parseAll, hstep, ihb, List.flatMap_cons]
      refine ⟨h1, ?_⟩
      intro j
      have hallc : Clean (renderTexts (i :: is) ++ (triv post ++ [endTok])) :=
        clean_append (renderTexts_clean _ h) hend
      simp only [parseAll, parseStatement_pending_item j _ hallc]
      simp only [renderTexts, List.append_assoc, hstep, ihb, List.flatMap_cons]

end Gin.Parser

namespace Gin.C03
open Gin Gin.Parser

/-- Two layouts of the same statements — flat bindings and blocks, different comments, blank lines, indentation
    and value layouts — are read as the same statements. -/
theorem layouts_agree (is₁ is₂ : List ItemL) (h₁ : ∀ i ∈ is₁, i.OK) (h₂ : ∀ i ∈ is₂, i.OK)
    (hsame : is₁.flatMap ItemL.stmts = is₂.flatMap ItemL.stmts) (post₁ post₂ : List Bool) :
    parseAll (is₁.length + 1) false (renderTexts is₁ ++ (triv post₁ ++ [endTok])) [] =
    parseAll (is₂.length + 1) false (renderTexts is₂ ++ (triv post₂ ++ [endTok])) [] := by
  rw [(parseAll_items is₁ h₁ post₁ [] _ (Nat.lt_succ_self _)).1,
      (parseAll_items is₂ h₂ post₂ [] _ (Nat.lt_succ_self _)).1, hsame]

/-! Non-vacuity: a comment, the binding `a/m.x = [1, 2]` over two lines, a blank line, the block `a/m:` with a header
    comment and two members, trailing trivia. -/
def demoItems : List ItemL :=
  [.bind { pre := [true], toks := demoKey, key := "a/m.x", line := 1,
           value := .list [false] [(.atom (.int 1) [], [])] (some (.atom (.int 2) [])) [] },
   .block { pre := [false], toks := demoHeader, key := "a/m", line := 1, hdrComment := true, mid1 := [true], mid2 := [],
            members := [{ arg := "lr", line := 2, value := .atom (.int 3) [], after := [true] },
                        { arg := "n", line := 4, value := .tuple0 [] [], after := [] }] }]

theorem demoItems_ok : ∀ i ∈ demoItems, i.OK := by
  intro i hi
  simp only [demoItems, List.mem_cons, List.mem_nil_iff, or_false] at hi
  rcases hi with rfl | rfl
  · exact demoKey_ok
  · refine ⟨demoHeader_ok, ?_⟩
    intro m hm
    simp only [List.mem_cons, List.mem_nil_iff, or_false] at hm
    rcases hm with rfl | rfl <;> decide

example : (parseAll 3 false (renderTexts demoItems ++ (triv [true, false] ++ [endTok])) []).2 = none ∧
    (parseAll 3 false (renderTexts demoItems ++ (triv [true, false] ++ [endTok])) []).1.length = 4 := by
  rw [(parseAll_items demoItems demoItems_ok [true, false] [] 3 (by decide)).1]
  exact ⟨rfl, rfl⟩

end Gin.C03
