/-
C03 (continued) — a block `scope/name:` with indented members is read as its declaration followed by
exactly its member bindings, whatever comments and blank lines surround the header and the members
and however the member values are laid out.
-/
import Gin.Props.C03b

namespace Gin.Parser

def indentTok : Token := { kind := .indent }
def dedentTok : Token := { kind := .dedent }
def identTok (name : String) (line : Nat) : Token := { kind := .name, str := name, srow := line }

/-- the tokens of a scoped name, as accepted by `parseSelector` in front of `:` -/
structure KeyToksColon (toks : List Token) (key : String) (line : Nat) : Prop where
  clean : Clean toks
  first : ∃ t rest, toks = t :: rest ∧ t.kind = .name ∧ t.srow = line
  parses : ∀ r, Clean r →
    parseSelector false true false (toks ++ opTok ":" :: r) = .ok (key, opTok ":" :: r)

structure MemberL where
  arg : String
  line : Nat
  value : L
  after : List Bool      -- comments / blank lines after the member's line

def MemberL.render (m : MemberL) : List Token :=
  identTok m.arg m.line :: opTok "=" :: (Gin.Parser.render m.value ++ newlineTok :: triv m.after)

def renderMembers : List MemberL → List Token
  | [] => []
  | m :: ms => m.render ++ renderMembers ms

structure BlockL where
  pre : List Bool
  toks : List Token
  key : String
  line : Nat
  hdrComment : Bool      -- `scope/name:  # comment`
  mid1 : List Bool       -- between the header line and the indentation
  mid2 : List Bool       -- after the indentation, before the first member
  members : List MemberL

def BlockL.render (b : BlockL) : List Token :=
  triv b.pre ++ (b.toks ++ opTok ":" :: ((if b.hdrComment then [commentTok] else []) ++
    newlineTok :: (triv b.mid1 ++ indentTok :: (triv b.mid2 ++ (renderMembers b.members ++ [dedentTok])))))

def BlockL.stmts (b : BlockL) : List PStmt :=
  .block (splitScoped b.key).1 (splitScoped b.key).2 b.line ::
    b.members.map (fun m => .binding (splitScoped b.key).1 (splitScoped b.key).2 m.arg (val m.value) m.line)

theorem MemberL.render_clean (m : MemberL) : Clean m.render :=
  clean_cons rfl (clean_cons rfl (clean_append (Gin.Parser.render_clean _) (clean_cons rfl (triv_clean _))))

theorem renderMembers_clean (ms : List MemberL) : Clean (renderMembers ms) := by
  induction ms with
  | nil => intro t ht; cases ht
  | cons m ms ih => exact clean_append m.render_clean ih

theorem dropWhile_triv_cn (l : List Bool) (ts : List Token) :
    (triv l ++ ts).dropWhile (fun t => t.kind == .comment || t.kind == .nl) =
      ts.dropWhile (fun t => t.kind == .comment || t.kind == .nl) := by
  induction l with
  | nil => simp [triv]
  | cons b r ih =>
    cases b <;> simp only [triv, List.cons_append] <;>
      rw [List.dropWhile_cons_of_pos (by simp [commentTok, nlTok])] <;> exact ih

theorem dropWhile_members (ms : List MemberL) (r : List Token) :
    (renderMembers ms ++ dedentTok :: r).dropWhile (fun t => t.kind == TKind.comment || t.kind == TKind.nl) =
      renderMembers ms ++ dedentTok :: r := by
  cases ms with
  | nil => simp [renderMembers, dedentTok]
  | cons m ms => simp [renderMembers, MemberL.render, identTok]

/-- the member loop: every member becomes one binding under the block's scope and name, and the loop
    stops at the DEDENT -/
theorem blockMembers_render (scope sel : String) (ms : List MemberL)
    (hargs : ∀ m ∈ ms, isIdentStr m.arg = true) (r : List Token) (hr : Clean r) (acc : List PStmt)
    (n : Nat) (hn : ms.length < n) :
    blockMembers scope sel n (renderMembers ms ++ dedentTok :: r) acc =
      .ok (acc ++ ms.map (fun m => .binding scope sel m.arg (val m.value) m.line), dedentTok :: r) := by
  induction ms generalizing acc n with
  | nil =>
    cases n with
    | zero => simp at hn
    | succ n => simp [renderMembers, blockMembers, cur_cons, dedentTok]
  | cons m ms ih =>
    cases n with
    | zero => simp at hn
    | succ n =>
      have htailc : Clean (renderMembers ms ++ dedentTok :: r) :=
        clean_append (renderMembers_clean ms) (clean_cons rfl hr)
      have hafter : Clean (triv m.after ++ (renderMembers ms ++ dedentTok :: r)) :=
        clean_append (triv_clean _) htailc
      have hnl : Clean (newlineTok :: (triv m.after ++ (renderMembers ms ++ dedentTok :: r))) :=
        clean_cons rfl hafter
      have hval : Clean (Gin.Parser.render m.value ++ newlineTok :: (triv m.after ++ (renderMembers ms ++ dedentTok :: r))) :=
        clean_append (Gin.Parser.render_clean _) hnl
      have heq : Clean (opTok "=" :: (Gin.Parser.render m.value ++ newlineTok :: (triv m.after ++ (renderMembers ms ++ dedentTok :: r)))) :=
        clean_cons rfl hval
      have hid := hargs m (by simp)
      -- what follows the member's trivia is the next member's name or the DEDENT: neither is skipped
      have hnext : dropTriv true (renderMembers ms ++ dedentTok :: r) = renderMembers ms ++ dedentTok :: r := by
        cases ms with
        | nil => exact dropTriv_cons_of_not true _ _ (by simp [skippable, dedentTok])
        | cons m2 ms2 =>
          simp only [renderMembers, MemberL.render, List.cons_append]
          exact dropTriv_cons_of_not true _ _ (by simp [skippable, identTok])
      simp only [renderMembers, MemberL.render, List.cons_append, List.append_assoc, blockMembers, cur_cons]
      have hk : ((identTok m.arg m.line).kind == TKind.dedent) = false := by simp [identTok]
      simp only [hk, Bool.false_eq_true, if_false, parseIdentifier, cur_cons]
      have hstr : (identTok m.arg m.line).str = m.arg := rfl
      have hsrow : (identTok m.arg m.line).srow = m.line := rfl
      simp only [hstr, hsrow, hid, Bool.not_true, Bool.false_eq_true, if_false, adv_clean true _ _ heq,
        dropTriv_cons_of_not true _ _ (closer_not_skippable true "="), expectOp, cur_cons]
      have hop : ((opTok "=").str == "=") = true := by simp [opTok]
      simp only [hop, if_true, advOne_cons _ _ hval]
      have hns : NoStr true (newlineTok :: (triv m.after ++ (renderMembers ms ++ dedentTok :: r))) := by
        unfold NoStr
        rw [dropTriv_cons_of_not true _ _ (by simp [skippable, newlineTok])]
        simp [cur_cons, newlineTok]
      have hfuel : size m.value ≤ 3 * (Gin.Parser.render m.value ++ newlineTok ::
          (triv m.after ++ (renderMembers ms ++ dedentTok :: r))).length + 3 := by
        have := size_le m.value
        simp only [List.length_append]; omega
      rw [parse_render true m.value _ _ hnl hns hfuel]
      simp only [dropTriv_cons_of_not true _ _ (show skippable true newlineTok = false by simp [skippable, newlineTok]),
        expectKind, cur_cons]
      have hnk : (newlineTok.kind == TKind.newline) = true := by simp [newlineTok]
      simp only [hnk, if_true, advOne_cons _ _ hafter, skipWs_clean true _ hafter, dropTriv_triv, hnext]
      rw [ih (fun x hx => hargs x (by simp [hx])) (acc ++ [PStmt.binding scope sel m.arg (val m.value) m.line]) n
        (by simp at hn; omega)]
      simp

/-- **One block statement.**  Whatever comments and blank lines precede it, follow its header and
    separate its members, and however the member values are laid out, `parse_statement` yields the block
    declaration followed by exactly the member bindings, under the block's scope and name, and stops at
    the DEDENT that closes the block. -/
theorem parseStatement_block (b : BlockL) (hk : KeyToksColon b.toks b.key b.line)
    (hargs : ∀ m ∈ b.members, isIdentStr m.arg = true) (r : List Token) (hr : Clean r) :
    parseStatement false (b.render ++ r) = .ok (some (b.stmts, dedentTok :: r, true)) := by
  obtain ⟨t, rest, htoks, hname, hline⟩ := hk.first
  -- name the successive suffixes of the token list
  let tMembers := renderMembers b.members ++ dedentTok :: r
  let tMid2 := triv b.mid2 ++ tMembers
  let tIndent := indentTok :: tMid2
  let tMid1 := triv b.mid1 ++ tIndent
  let tNl := newlineTok :: tMid1
  let tHdr := (if b.hdrComment then [commentTok] else []) ++ tNl
  have cMembers : Clean tMembers := clean_append (renderMembers_clean _) (clean_cons rfl hr)
  have cMid2 : Clean tMid2 := clean_append (triv_clean _) cMembers
  have cIndent : Clean tIndent := clean_cons rfl cMid2
  have cMid1 : Clean tMid1 := clean_append (triv_clean _) cIndent
  have cNl : Clean tNl := clean_cons rfl cMid1
  have cHdr : Clean tHdr := by
    show Clean ((if b.hdrComment then [commentTok] else []) ++ tNl)
    cases b.hdrComment
    · simpa using cNl
    · exact clean_cons rfl cNl
  have hshape : b.render ++ r = triv b.pre ++ (b.toks ++ opTok ":" :: tHdr) := by
    simp only [BlockL.render, tHdr, tNl, tMid1, tIndent, tMid2, tMembers, List.append_assoc, List.cons_append,
      List.nil_append]
  have hall : Clean (b.render ++ r) := by
    rw [hshape]
    exact clean_append (triv_clean _) (clean_append hk.clean (clean_cons rfl cHdr))
  have hskip : ¬ skippable false t = true := by simp [skippable, hname]
  have hdrop : dropTriv false (b.render ++ r) = b.toks ++ opTok ":" :: tHdr := by
    rw [hshape, dropTriv_triv, htoks]
    exact dropTriv_cons_of_not false _ _ (by simpa using hskip)
  have hcur : cur (b.toks ++ opTok ":" :: tHdr) = t := by rw [htoks]; rfl
  unfold parseStatement
  simp only [Bool.false_eq_true, if_false, skipWs_clean false _ hall, hdrop, hcur, hname, hline]
  have hne : (TKind.name == TKind.endmarker) = false := by decide
  have hnotempty : (b.toks ++ opTok ":" :: tHdr).isEmpty = false := by rw [htoks]; rfl
  simp only [hne, hnotempty, Bool.or_self, Bool.false_eq_true, if_false]
  rw [hk.parses _ cHdr]
  have h1 : ((cur (opTok ":" :: tHdr)).str == "=" && (cur (opTok ":" :: tHdr)).kind == TKind.op) = false := by
    simp [cur_cons, opTok]
  have h2 : ((cur (opTok ":" :: tHdr)).str == ":" && (cur (opTok ":" :: tHdr)).kind == TKind.op) = true := by
    simp [cur_cons, opTok]
  simp only [h1, h2, Bool.false_eq_true, if_false, if_true, advOne_cons _ _ cHdr]
  -- header comment, NEWLINE, blank lines / comments, INDENT, blank lines / comments
  have hdrskip : tHdr.dropWhile (fun t => t.kind == TKind.comment) = tNl := by
    show ((if b.hdrComment then [commentTok] else []) ++ tNl).dropWhile _ = tNl
    cases b.hdrComment <;> simp [tNl, commentTok, newlineTok]
  rw [skipWhile_clean _ _ _ cHdr (Nat.le_refl _), hdrskip]
  have hnk : ((cur tNl).kind == TKind.newline) = true := by simp [tNl, cur_cons, newlineTok]
  simp only [expectKind, hnk, if_true]
  rw [show advOne tNl = .ok tMid1 from advOne_cons _ _ cMid1]
  simp only []
  rw [skipWhile_clean _ _ _ cMid1 (Nat.le_refl _)]
  have hmid1 : tMid1.dropWhile (fun t => t.kind == TKind.comment || t.kind == TKind.nl) = tIndent := by
    show (triv b.mid1 ++ tIndent).dropWhile _ = tIndent
    rw [dropWhile_triv_cn]
    simp [tIndent, indentTok]
  rw [hmid1]
  have hik : ((cur tIndent).kind == TKind.indent) = true := by simp [tIndent, cur_cons, indentTok]
  simp only [hik, if_true]
  rw [show advOne tIndent = .ok tMid2 from advOne_cons _ _ cMid2]
  simp only []
  rw [skipWhile_clean _ _ _ cMid2 (Nat.le_refl _)]
  have hmid2 : tMid2.dropWhile (fun t => t.kind == TKind.comment || t.kind == TKind.nl) = tMembers := by
    show (triv b.mid2 ++ tMembers).dropWhile _ = tMembers
    rw [dropWhile_triv_cn]
    exact dropWhile_members b.members r
  rw [hmid2]
  simp only []
  have hlen : b.members.length < tMembers.length := by
    show b.members.length < (renderMembers b.members ++ dedentTok :: r).length
    have : b.members.length ≤ (renderMembers b.members).length := by
      induction b.members with
      | nil => simp
      | cons m ms ih => simp only [renderMembers, MemberL.render, List.length_cons, List.length_append]; omega
    simp only [List.length_append, List.length_cons]; omega
  rw [show tMembers = renderMembers b.members ++ dedentTok :: r from rfl] at hlen ⊢
  rw [blockMembers_render _ _ b.members hargs r hr [] _ hlen]
  simp [finishStmt, cur_cons, isEnd, dedentTok, BlockL.stmts]

/-- the deferred advance after a block steps over its DEDENT -/
theorem parseStatement_pending_dedent (ts : List Token) (hc : Clean ts) :
    parseStatement true (dedentTok :: ts) = parseStatement false ts := by
  unfold parseStatement
  simp [advOne_cons _ _ hc]

end Gin.Parser

namespace Gin.Parser

/-- **Flat and block form agree.**  A member `arg = v` of the block `key:` is the very binding the flat
    statement `key.arg = v` spells (same scope, configurable, parameter, value), provided the flat key
    splits the way the block header and the member name do. -/
theorem block_member_is_flat_binding (b : BlockL) (m : MemberL) (f : BindL)
    (hkey : splitKey f.key = ((splitScoped b.key).1, (splitScoped b.key).2, m.arg))
    (hval : val f.value = val m.value) (hline : f.line = m.line) :
    f.stmt = .binding (splitScoped b.key).1 (splitScoped b.key).2 m.arg (val m.value) m.line := by
  simp [BindL.stmt, hkey, hval, hline]

/-! non-vacuity: the header `a/m:` as Python tokenizes it, and the key split of `a/m.x` -/
def blockLine : String := "a/m:"
def bnm (s : String) (c0 c1 : Nat) : Token :=
  { kind := .name, str := s, srow := 1, scol := c0, ecol := c1, line := blockLine }
def bop (s : String) (c0 c1 : Nat) : Token :=
  { kind := .op, str := s, srow := 1, scol := c0, ecol := c1, line := blockLine }
def demoHeader : List Token := [bnm "a" 0 1, bop "/" 1 2, bnm "m" 2 3]

theorem demoHeader_check :
    checkSelector (String.join ["a", "/", "m"]) (sliceLine blockLine 0 3) true false = true ∧
    String.join ["a", "/", "m"] = "a/m" ∧
    splitKey "a/m.x" = ((splitScoped "a/m").1, (splitScoped "a/m").2, "x") ∧ isIdentStr "x" = true := by
  decide +kernel

theorem demoHeader_ok : KeyToksColon demoHeader "a/m" 1 where
  clean := by
    intro t ht
    simp only [demoHeader, List.mem_cons, List.not_mem_nil, or_false] at ht
    rcases ht with rfl | rfl | rfl <;> rfl
  first := ⟨_, _, rfl, rfl, rfl⟩
  parses := by
    intro r hr
    have c0 : Clean (opTok ":" :: r) := clean_cons rfl hr
    have c1 : Clean (bnm "m" 2 3 :: opTok ":" :: r) := clean_cons rfl c0
    have c2 : Clean (bop "/" 1 2 :: bnm "m" 2 3 :: opTok ":" :: r) := clean_cons rfl c1
    unfold parseSelector
    simp only [demoHeader, List.cons_append, List.nil_append, cur_cons, List.length_cons]
    rw [go_name _ _ _ _ _ rfl c2, go_sep _ _ _ _ _ rfl (Or.inl rfl) c1, go_name _ _ _ _ _ rfl c0,
        go_stop _ _ _ _ _ (by rfl)]
    have hd : dropTriv false (opTok ":" :: r) = opTok ":" :: r :=
      dropTriv_cons_of_not false _ _ (by simp [skippable, opTok])
    simp only [skipWs_clean false _ c0, hd, List.nil_append, List.cons_append]
    have h := demoHeader_check
    simp only [bnm, bop]
    rw [h.2.1] at h
    simp [h.1]

/-- `a/m:  # c ⏎ ⏎ INDENT x = [1] ⏎ # c ⏎ DEDENT`: read as the block `a/m` with the one member `x = [1]` -/
example :
    let b : BlockL := { pre := [true], toks := demoHeader, key := "a/m", line := 1, hdrComment := true,
                        mid1 := [false], mid2 := [],
                        members := [{ arg := "x", line := 3, value := .list [] [] (some (.atom (.int 1) [])) [],
                                      after := [true] }] }
    parseStatement false (b.render ++ [endTok]) = .ok (some (b.stmts, dedentTok :: [endTok], true)) := by
  intro b
  exact parseStatement_block b demoHeader_ok
    (by intro m hm; simp [b] at hm; subst hm; exact demoHeader_check.2.2.2)
    [endTok] (clean_cons rfl (fun _ h => by cases h))

end Gin.Parser
