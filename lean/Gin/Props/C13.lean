/-
C13 — registration is transparent to the registered function or class.

The object-model half of the property (instance class, metadata, pickling) lives in CPython's
`type()` / `functools.wraps` / `pickle`, which the model does not contain; it is tied by the
exhaustive shape × API run of `harness/props/c13.py`.  What the model carries and what is proved
here is the registration state machine: a rejected registration changes nothing, a different
object under an existing complete name is accepted only in interactive mode, and the decision
table for the class of the instances a registry call produces.
-/
import Gin.Machine
import Gin.Lemmas.SelMapInv

namespace Gin.C13
open Gin Gin.AList

/-- A registration that is rejected — for whatever reason — leaves the whole state unchanged:
    the registry keeps its earlier entries and nothing else moves. -/
theorem register_reject_atomic (st : State) (r : State.RegReq) (e : Err)
    (h : (step st (.register r)).2 = .err e) : (step st (.register r)).1 = st := by
  simp only [step] at h ⊢
  cases hr : st.register r with
  | ok st' => simp [hr] at h
  | error e' => simp

/-- An accepted registration changes the registry only (bindings, operative record, lock, constants,
    imports, singletons, the interactive flag are untouched). -/
theorem register_changes_registry_only (st st' : State) (r : State.RegReq)
    (h : st.register r = .ok st') : st' = { st with registry := st'.registry } := by
  rw [(State.register_ok h).2]

/-- A different object under an already registered complete name is rejected outside interactive
    mode … -/
theorem reregister_rejected (st : State) (r : State.RegReq) (e : Entry)
    (hl : st.locked = false) (hn : r.nameValid = true) (hm : r.moduleValid = true)
    (hreg : st.registry.get? r.cfgable.selector = some e) (hobj : e.objId ≠ r.objId)
    (hi : st.interactive = false) :
    step st (.register r) = (st, .err .valueError) := by
  have hc : st.clashes r = true := by
    simp [State.clashes, hreg, hi, hobj]
  simp [step, State.register, State.regCheck, hl, hn, hm, hc]

/-- … and is not rejected for that reason inside interactive mode. -/
theorem reregister_interactive_no_clash (st : State) (r : State.RegReq)
    (hi : st.interactive = true) : st.clashes r = false := by
  unfold State.clashes
  split <;> simp [hi]

/-- Registering the same object again under the same name never clashes. -/
theorem reregister_same_object_no_clash (st : State) (r : State.RegReq) (e : Entry)
    (hreg : st.registry.get? r.cfgable.selector = some e) (hobj : e.objId = r.objId) :
    st.clashes r = false := by
  simp [State.clashes, hreg, hobj]

/-- Leaving interactive mode restores the rejection: the flag is the only thing the mode changes. -/
theorem interactive_only_flag (st : State) (on : Bool) :
    (step st (.interactive on)).1 = { st with interactive := on } := by
  simp [step]

/-- After an accepted registration the complete name resolves to the registered object. -/
theorem registered_resolves (st st' : State) (r : State.RegReq) (h : st.register r = .ok st') :
    ∃ reg : SelMap Entry, st'.registry = reg.set r.cfgable.selector
      { cfg := r.cfgable, objId := r.objId, isClass := r.isClass } := by
  rw [(State.register_ok h).2]
  exact ⟨_, rfl⟩

/-! ### decision table: what a registry call of a registered class constructs -/

inductive Api | configurable | register | external
deriving DecidableEq, Repr

inductive Made | exactClass | subclass
deriving DecidableEq, Repr

/-- `configurable` rewires the decorated class itself; `register` / `external_configurable` leave the
    class alone and construct through a subclass only when registered methods must be overridden
    (or a scope has to be carried by the returned class). -/
def made (api : Api) (hasRegisteredMethods : Bool) : Made :=
  match api with
  | .configurable => .exactClass
  | _ => if hasRegisteredMethods then .subclass else .exactClass

/-- instances are exactly of the original class unless registered methods need overriding -/
theorem exact_unless_methods (api : Api) : made api false = .exactClass := by
  cases api <;> rfl

theorem subclass_only_for_methods (api : Api) (m : Bool) (h : made api m = .subclass) :
    m = true ∧ api ≠ .configurable := by
  cases api <;> cases m <;> simp_all [made]

/-- non-vacuity: a concrete accepted registration followed by a rejected one -/
example :
    let r1 : State.RegReq := { name := ["f"], module := some ["m"], sig := {}, objId := 1 }
    let r2 : State.RegReq := { name := ["f"], module := some ["m"], sig := {}, objId := 2 }
    let s1 := (step initState (.register r1)).1
    (step initState (.register r1)).2 = .ok ∧ (step s1 (.register r2)).2 = .err .valueError := by
  intro r1 r2 s1
  exact ⟨rfl, rfl⟩

end Gin.C13
