/-
C12 — finalize locks the configuration; unlock_config always restores the lock.
-/
import Gin.Machine
import Gin.Lemmas.Call
import Gin.Lemmas.Eval
import Gin.Lemmas.Statements

namespace Gin.C12
open Gin Gin.AList

/-- Once locked, a binding attempt raises and changes nothing. -/
theorem locked_rejects_bind (st : State) (hl : st.locked = true) (k : Key) (v : Val) :
    step st (.bind k v) = (st, .err .runtimeError) := by
  simp [step, State.bind, hl]

/-- Once locked, registering a configurable raises and changes nothing. -/
theorem locked_rejects_register (st : State) (hl : st.locked = true) (r : State.RegReq) :
    step st (.register r) = (st, .err .runtimeError) := by
  simp [step, State.register, State.regCheck, hl]

/-- Finalizing twice is an error (and changes nothing). -/
theorem finalize_twice (st : State) (hl : st.locked = true) :
    step st .finalize = (st, .err .runtimeError) := by
  simp [step, State.finalize, hl]

/-- A successful finalize locks; a rejected one leaves the configuration unlocked and unmodified. -/
theorem finalize_outcome (st : State) :
    (∃ st', st.finalize = .ok st' ∧ step st .finalize = (st', .ok) ∧ st'.locked = true) ∨
    (∃ e, st.finalize = .error e ∧ step st .finalize = (st, .err e)) := by
  cases h : st.finalize with
  | error e => right; exact ⟨e, rfl, by simp [step, h]⟩
  | ok st' =>
    left
    refine ⟨st', rfl, by simp [step, h], ?_⟩
    unfold State.finalize at h
    split at h
    · cases h
    · split at h
      · cases h
      · split at h
        · cases h
        · simp only [Except.ok.injEq] at h; subst h; rfl

/-- Leaving an `unlock_config` block — whatever its body does, including nested unlock blocks,
    failing operations and a body that raises — restores the lock state that held on entry. -/
theorem unlock_restores (st : State) (body : List Op) (raises : Bool) :
    (step st (.unlock body raises)).1.locked = st.locked := by
  simp [step]

/-- Inside the block the configuration is unlocked. -/
theorem unlock_body_runs_unlocked (st : State) (body : List Op) (raises : Bool) :
    (step st (.unlock body raises)).2 = .body (runOps { st with locked := false } body).2 := by
  simp [step]

theorem register_locked (st st' : State) (r : State.RegReq) (h : st.register r = .ok st') :
    st'.locked = st.locked := by
  rw [(State.register_ok h).2]

theorem bind_locked (st st' : State) (k : Key) (v : Val) (h : st.bind k v = .ok st') :
    st'.locked = st.locked := by
  unfold State.bind at h
  repeat (first | (split at h) | cases h)
  rfl

theorem bind_locked' (st st' : State) (k : Key) (v : Val) (loc : Option Loc)
    (h : st.bind k v loc = .ok st') : st'.locked = st.locked := by
  unfold State.bind at h
  repeat (first | (split at h) | cases h)
  rfl

theorem call_locked (ev : Val → Val) (st : State) (sel : Sel) (σ : Scope) (args : List Val)
    (kwargs : AList String Val) : (st.call ev sel σ args kwargs).1.locked = st.locked := by
  unfold State.call
  repeat (first | split | rfl)

/-- The lock flag changes only through a successful finalize (→ locked), `clear_config`
    (→ unlocked) and temporarily inside an unlock block. -/
theorem lock_changes_only_by (st : State) (op : Op) :
    (step st op).1.locked =
      match op with
      | .finalize => (match st.finalize with | .ok _ => true | .error _ => st.locked)
      | .clear _ => false
      | .parseFiles _ _ _ _ => (step st op).1.locked   -- the multi-file entry point may finalize
      | _ => st.locked := by
  cases op with
  | finalize =>
    rcases finalize_outcome st with ⟨st', h1, h2, h3⟩ | ⟨e, h1, h2⟩
    · simp [h1, h2, h3]
    · simp [h1, h2]
  | clear c => simp [step, State.clear]
  | unlock body r => simp [step]
  | parse file skip stmts =>
    simp only [step]
    exact (parseConfig_frame st file skip stmts).locked
  | parseFiles skip files b fin => rfl
  | resolve ps rs a pr => rfl
  | register r =>
    simp only [step]
    cases h : st.register r with
    | error e => rfl
    | ok st' => exact register_locked st st' r h
  | bind k v =>
    simp only [step]
    cases h : st.bind k v with
    | error e => rfl
    | ok st' => exact bind_locked st st' k v h
  | bindBlock k v =>
    simp only [step]
    split
    · rfl
    · rfl
    · cases h : st.bind k v with
      | error e => rfl
      | ok st' => exact bind_locked st st' k v h
  | bindAt k v loc =>
    simp only [step]
    cases hr : st.resolveAbbrev v with
    | error e => rfl
    | ok v' =>
      simp only
      cases h : st.bind k v' (some loc) with
      | error e => rfl
      | ok st' => exact bind_locked' st st' k v' _ h
  | bindBlockAt k v loc =>
    simp only [step]
    cases hr : st.resolveAbbrev v with
    | error e => rfl
    | ok v' =>
      simp only
      split
      · rfl
      · rfl
      · cases h : st.bind k v' (some loc) with
        | error e => rfl
        | ok st' => exact bind_locked' st st' k v' _ h
  | query k => simp only [step]; split <;> rfl
  | call sel enter args kwargs =>
    simp only [step]
    split
    · rfl
    · rename_i σ _
      have := call_locked id st sel σ args kwargs
      split <;> simp_all
  | ecall sel enter args kwargs =>
    simp only [step]
    split
    · rfl
    · split
      · rename_i h; exact (callCfg_frame _ _ _ _ _ _ _ _ h).locked
      · rfl
  | getb sel σ inh => rfl
  | getbq q σ inh => simp only [step]; split <;> rfl
  | addHook h => rfl
  | constant name valid v =>
    simp only [step]
    cases h : st.defConstant name valid v with
    | error e => rfl
    | ok st' =>
      simp only
      unfold State.defConstant at h
      repeat (first | (split at h) | cases h)
      all_goals (first | rfl | skip)
  | interactive on => rfl
  | macroLookup name => simp only [step]; split <;> rfl
  | singleton key c rn =>
    simp only [step]
    cases h : st.singletonUse key c rn with
    | error e => rfl
    | ok r =>
      obtain ⟨st', v⟩ := r
      simp only
      unfold State.singletonUse at h
      split at h
      · cases h; rfl
      · split at h
        · cases h
        · simp only [Except.ok.injEq, Prod.mk.injEq] at h
          obtain ⟨h1, _⟩ := h
          subst h1; rfl
  | observe w => rfl
  | enter cur arg => simp only [step]; split <;> rfl

/-- Two hook updates that normalise to the same (scope, complete selector, parameter) conflict,
    however each of them spells the key. -/
theorem hook_conflict_detected (st : State) (k : Key) (v : Val) (more : List (Key × Val))
    (acc : List ((Scope × Sel × String) × Val)) (nk : Scope × Sel × String)
    (hp : st.parseKey k = .ok nk) (hin : acc.any (fun x => x.1 == nk) = true) :
    State.collectHooks.go st ((k, v) :: more) acc = .error .valueError := by
  unfold State.collectHooks.go
  simp [hp, hin]

/-- Finalize rejects a macro that is referenced but unbound or not evaluated, a reference to an
    unknown configurable, and a parameter still set to `%gin.REQUIRED`. -/
theorem finalize_rejects_invalid (st : State) (hl : st.locked = false)
    (hbad : st.builtinHooksOk = false) : step st .finalize = (st, .err .valueError) := by
  simp [step, State.finalize, hl, hbad]

theorem unbound_macro_is_invalid (st : State) (v : Val)
    (hv : v ∈ State.allValues st.config) (hm : State.macroRefOk st.config v = false) :
    st.builtinHooksOk = false := by
  unfold State.builtinHooksOk
  have : (State.allValues st.config).all (State.macroRefOk st.config) = false := by
    rw [List.all_eq_false]; exact ⟨v, hv, by simp [hm]⟩
  simp [this]

theorem unknown_reference_is_invalid (st : State) (v : Val)
    (hv : v ∈ State.allValues st.config) (hu : State.isUnknownRef v = true) :
    st.builtinHooksOk = false := by
  unfold State.builtinHooksOk
  have : (State.allValues st.config).any State.isUnknownRef = true := by
    rw [List.any_eq_true]; exact ⟨v, hv, hu⟩
  simp [this]

/-- A reference or macro written as a dict *key* is looked at like any other (D35: the implementation used to
    walk the values of a mapping only): whatever sits in a key of a bound dict is among the values the built-in
    hooks validate. -/
theorem dict_key_is_flattened (k v : Val) (rest : List (Val × Val)) (x : Val) (hx : x ∈ flattenVal k) :
    x ∈ flattenVal (.dict ((k, v) :: rest)) := by
  simp only [flattenVal, flattenDictVals, List.mem_append]
  left; left; left; exact hx

/-- … so an unknown reference used as a key of a bound dict makes finalize reject the configuration. -/
theorem unknown_reference_key_is_invalid (st : State) (key : Scope × Sel) (ps : AList String Val) (p : String)
    (k v : Val) (rest : List (Val × Val)) (hc : (key, ps) ∈ st.config) (hp : (p, Val.dict ((k, v) :: rest)) ∈ ps)
    (hu : State.isUnknownRef k = true) : st.builtinHooksOk = false := by
  apply unknown_reference_is_invalid st k _ hu
  unfold State.allValues
  rw [List.mem_flatMap]
  refine ⟨(key, ps), hc, ?_⟩
  rw [List.mem_flatMap]
  refine ⟨(p, Val.dict ((k, v) :: rest)), hp, ?_⟩
  apply dict_key_is_flattened
  cases k <;> simp [flattenVal] <;> simp [State.isUnknownRef] at hu

/-! Non-vacuity: lock, failed mutation, unlock block with nested unlock and a raising body. -/
def demoSt : State := { initState with locked := true }
example : (step demoSt (.unlock [.unlock [.observe "locked"] true, .observe "locked"] true)).1.locked = true := by
  rw [unlock_restores]; rfl

end Gin.C12
