/-
C17 — exceptions through nested configurable calls: class, data, text and traceback at every depth.
-/
import Gin.ExcChain

namespace Gin.C17b
open Gin Gin.ExcProxy Gin.ExcChain

/-! ### one step, generalised over what is already in flight -/

theorem foldl_catch_not_exception (o : Original) (h : o.cls.isException = false) (levels : List Level) (f : Flying) :
    levels.foldl (catchAt o) f = f := by
  induction levels generalizing f with
  | nil => rfl
  | cons lv rest ih => simp [List.foldl, catchAt, h, ih]

theorem foldl_catch_unbuildable (o : Original) (h : o.cls.buildable = false) (levels : List Level) (f : Flying) :
    levels.foldl (catchAt o) f = f := by
  induction levels generalizing f with
  | nil => rfl
  | cons lv rest ih =>
    simp only [List.foldl]
    have : catchAt o f lv = f := by
      unfold catchAt augment
      split <;> simp [h]
    rw [this]; exact ih f

/-- What is not an `Exception` subclass passes every level untouched: the very object raised reaches the
    caller, whatever the depth. -/
theorem non_exception_untouched (o : Original) (levels : List Level) (h : o.cls.isException = false) :
    propagate o levels = .orig := foldl_catch_not_exception o h levels .orig

/-- A class that cannot be proxied keeps the original object (nothing is replaced by another error). -/
theorem unbuildable_keeps_original (o : Original) (levels : List Level) (h : o.cls.buildable = false) :
    propagate o levels = .orig := foldl_catch_unbuildable o h levels .orig

theorem mro_catch (o : Original) (f : Flying) (lv : Level) (c : String) (h : (f.mro o).contains c = true) :
    ((catchAt o f lv).mro o).contains c = true := by
  unfold catchAt augment
  split
  · split
    · simp only [Flying.mro, List.contains_cons, h, Bool.or_true]
    · exact h
  · exact h

theorem mro_foldl (o : Original) (levels : List Level) (f : Flying) (c : String) (h : (f.mro o).contains c = true) :
    ((levels.foldl (catchAt o) f).mro o).contains c = true := by
  induction levels generalizing f with
  | nil => exact h
  | cons lv rest ih => exact ih _ (mro_catch o f lv c h)

/-- **Same class, same except clauses**: at every nesting depth, what reaches the caller is an instance of
    every class the original is an instance of — any `except` clause that catches the original catches it. -/
theorem class_kept (o : Original) (levels : List Level) (c : String) (hc : c ∈ o.cls.bases) :
    (propagate o levels).isInstance o c = true := by
  unfold propagate Flying.isInstance
  apply mro_foldl
  simp [Flying.mro, hc]

theorem getattr_catch (o : Original) (f : Flying) (lv : Level) (a : String) (ha : isMachinery a = false) :
    (catchAt o f lv).getattr o a = f.getattr o a := by
  unfold catchAt augment
  split
  · split
    · simp [Flying.getattr, ha]
    · rfl
  · rfl

theorem getattr_foldl (o : Original) (levels : List Level) (f : Flying) (a : String) (ha : isMachinery a = false) :
    (levels.foldl (catchAt o) f).getattr o a = f.getattr o a := by
  induction levels generalizing f with
  | nil => rfl
  | cons lv rest ih =>
    simp only [List.foldl]
    rw [ih, getattr_catch o f lv a ha]

/-- **Same data**: at every nesting depth every public attribute (anything but dunder names and
    `with_traceback`) reads on what reaches the caller exactly as on the original — `args`, `errno`, `value`,
    slot-backed or from the instance dictionary alike. -/
theorem attrs_agree (o : Original) (levels : List Level) (a : String) (ha : isMachinery a = false) :
    (propagate o levels).getattr o a = ExcProxy.getattr o.data a := by
  unfold propagate
  rw [getattr_foldl o levels .orig a ha]
  rfl

theorem str_foldl (o : Original) (hE : o.cls.isException = true) (hB : o.cls.buildable = true)
    (levels : List Level) (f : Flying) :
    (levels.foldl (catchAt o) f).str o =
      f.str o ++ joinAll (levels.map (fun lv => lv.message o.cls.isTypeError)) := by
  induction levels generalizing f with
  | nil => simp [joinAll]
  | cons lv rest ih =>
    simp only [List.foldl, List.map]
    rw [ih]
    simp only [catchAt, augment, hE, hB, if_true, Flying.str]
    simp [joinAll, String.append_assoc]

/-- **Only the message is extended**: the text is the original's text followed by one message per
    configurable on the call path, innermost first — nothing is dropped, repeated or reordered, at any depth. -/
theorem message_extended (o : Original) (levels : List Level) (hE : o.cls.isException = true)
    (hB : o.cls.buildable = true) :
    (propagate o levels).str o = o.str ++ joinAll (levels.map (fun lv => lv.message o.cls.isTypeError)) := by
  unfold propagate
  rw [str_foldl o hE hB]
  rfl

/-- … and in the two pass-through cases the text is the original's own. -/
theorem message_untouched (o : Original) (levels : List Level)
    (h : o.cls.isException = false ∨ o.cls.buildable = false) : (propagate o levels).str o = o.str := by
  rcases h with h | h
  · rw [non_exception_untouched o levels h]; rfl
  · rw [unbuildable_keeps_original o levels h]; rfl

/-- Each message names the configurable and — when there is one — the active scope. -/
theorem message_names (lv : Level) (t : Bool) :
    lv.message t = lv.hint t ++ "\n  In call to configurable '" ++ lv.name ++ "' (" ++ lv.repr ++ ")" ++
      (if lv.scope = "" then "" else " in scope '" ++ lv.scope ++ "'") := rfl

/-- The missing-arguments hint appears only for a `TypeError`. -/
theorem hint_only_for_type_error (lv : Level) : lv.hint false = "" := by
  simp [Level.hint]

theorem depth_foldl (o : Original) (hE : o.cls.isException = true) (hB : o.cls.buildable = true)
    (levels : List Level) (f : Flying) : (levels.foldl (catchAt o) f).depth = f.depth + levels.length := by
  induction levels generalizing f with
  | nil => rfl
  | cons lv rest ih =>
    simp only [List.foldl, List.length_cons]
    rw [ih]
    simp only [catchAt, augment, hE, hB, if_true, Flying.depth]
    omega

/-- One proxy per configurable on the path. -/
theorem one_proxy_per_level (o : Original) (levels : List Level) (hE : o.cls.isException = true)
    (hB : o.cls.buildable = true) : (propagate o levels).depth = levels.length := by
  unfold propagate
  rw [depth_foldl o hE hB]
  simp [Flying.depth]

theorem tb_foldl (levels : List Level) (tb : List String) :
    levels.foldl (fun tb lv => lv.frames ++ tb) tb = (levels.reverse.flatMap (·.frames)) ++ tb := by
  induction levels generalizing tb with
  | nil => rfl
  | cons lv rest ih =>
    simp only [List.foldl, List.reverse_cons, List.flatMap_append, List.flatMap_cons, List.flatMap_nil,
      List.append_nil, List.append_assoc]
    rw [ih]

/-- **Original traceback**: the traceback the caller sees ends with the original's traceback, preceded by
    the frames of the levels it passed, outermost first. -/
theorem traceback_kept (o : Original) (levels : List Level) :
    tracebackAfter o levels = (levels.reverse.flatMap (·.frames)) ++ o.tb := tb_foldl levels o.tb

/-! non-vacuity: `KeyError('k', 3)` through two configurables in scope `sc` -/
def demoO : Original :=
  { cls := { name := "KeyError", module := "builtins", bases := ["KeyError", "LookupError", "Exception", "BaseException", "object"],
             isException := true, newAcceptsArgs := true, bareNewWorks := true },
    data := { slots := [("args", .tuple [.str "k", .int 3])], dict := [] }, str := "('k', 3)", tb := ["leaf"] }
def demoLevels : List Level :=
  [{ name := "leaf", repr := "<f leaf>", scope := "sc", posNames := ["z"], nArgs := 0, kwNames := [], ginBound := [],
     callerSupplied := [], frames := ["leaf_wrapper"] },
   { name := "mid", repr := "<f mid>", scope := "", posNames := ["y"], nArgs := 0, kwNames := [], ginBound := [],
     callerSupplied := [], frames := ["mid_wrapper", "mid"] }]
example : (propagate demoO demoLevels).str demoO =
    "('k', 3)\n  In call to configurable 'leaf' (<f leaf>) in scope 'sc'\n  In call to configurable 'mid' (<f mid>)" := by
  decide +kernel
example : (propagate demoO demoLevels).isInstance demoO "LookupError" = true ∧
    (propagate demoO demoLevels).getattr demoO "args" = some (.tuple [.str "k", .int 3]) ∧
    (propagate demoO demoLevels).sameObject = false ∧
    tracebackAfter demoO demoLevels = ["mid_wrapper", "mid", "leaf_wrapper", "leaf"] := by
  refine ⟨by decide +kernel, ?_, by rfl, by rfl⟩
  rw [attrs_agree demoO demoLevels "args" (by decide +kernel)]
  simp [ExcProxy.getattr, demoO, AList.lookup]
example : isMachinery "args" = false ∧ isMachinery "errno" = false ∧ isMachinery "__str__" = true := by decide +kernel
/-- a TypeError gets the hint -/
example : (demoLevels.head!).message true =
    "\n  No values supplied by Gin or caller for arguments: ['z']\n  Gin had values bound for: []\n  Caller supplied values for: []\n  In call to configurable 'leaf' (<f leaf>) in scope 'sc'" := by
  decide +kernel

end Gin.C17b
