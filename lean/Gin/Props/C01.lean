/-
C01 — injected arguments: caller's values over scope-layered bindings.

Theorems about `getBindings` (the prefix overlay) and `wrapperCall` (`gin_wrapper`).
-/
import Gin.Lemmas.Call

namespace Gin.C01
open Gin Gin.AList

/-- The overlay, declaratively: scanning the prefixes of the active scope from the longest to the
    shortest (root last), the first one that binds `p` supplies the value. -/
theorem overlay_lookup (cfg : Store) (h : cfg.WF) (sel : Sel) (σ : Scope) (p : String) :
    lookup p (getBindings cfg sel σ) =
      (prefixes σ).reverse.findSome? (fun π => lookup p (cfg.params π sel)) := by
  unfold getBindings
  rw [foldl_update_lookup _ (fun π => cfg.params π sel) (fun π => cfg.params_nodup h π sel)]
  simp [lookup]

/-- A binding under a longer scope prefix overrides one under a shorter prefix: if `π` binds `p`
    and no strictly longer prefix `π ++ t` of the active scope does, the call gets `π`'s value. -/
theorem overlay_longest (cfg : Store) (h : cfg.WF) (sel : Sel) (π τ : Scope) (p : String) (v : Val)
    (hb : lookup p (cfg.params π sel) = some v)
    (hlonger : ∀ t, t <+: τ → t ≠ [] → lookup p (cfg.params (π ++ t) sel) = none) :
    lookup p (getBindings cfg sel (π ++ τ)) = some v := by
  rw [overlay_lookup cfg h, prefixes_append, List.reverse_append, List.findSome?_append]
  have h1 : List.findSome? (fun π' => lookup p (cfg.params π' sel))
      (List.map (fun t => π ++ t) (prefixes τ).tail).reverse = none := by
    rw [List.findSome?_eq_none_iff]
    intro x hx
    simp only [List.mem_reverse, List.mem_map] at hx
    obtain ⟨t, ht, rfl⟩ := hx
    have htp : t ∈ prefixes τ := List.mem_of_mem_tail ht
    have hne : t ≠ [] := by
      intro e; subst e
      unfold prefixes at ht
      rw [List.range_succ_eq_map] at ht
      simp only [List.map_cons, List.tail_cons, List.map_map, List.mem_map, List.mem_range,
        Function.comp] at ht
      obtain ⟨j, hj, hje⟩ := ht
      rcases List.take_eq_nil_iff.1 hje with h0 | h0
      · omega
      · subst h0; simp at hj
    exact hlonger t ((mem_prefixes τ t).1 htp) hne
  rw [h1, prefixes_last π, List.reverse_append]
  simp [hb]

/-- A parameter that no prefix of the active scope binds is not supplied by Gin. -/
theorem overlay_none (cfg : Store) (h : cfg.WF) (sel : Sel) (σ : Scope) (p : String)
    (hn : ∀ π, π <+: σ → lookup p (cfg.params π sel) = none) :
    lookup p (getBindings cfg sel σ) = none := by
  rw [overlay_lookup cfg h, List.findSome?_eq_none_iff]
  intro π hπ
  exact hn π ((mem_prefixes σ π).1 (List.mem_reverse.1 hπ))

/-- Bindings made under a scope that is not a prefix of the active scope (or for another
    configurable) never apply: rewriting the store at such a key changes nothing. -/
theorem overlay_frame (cfg : Store) (sel : Sel) (σ : Scope) (key : Scope × Sel)
    (d : AList String Val) (hk : ¬ (key.1 <+: σ ∧ key.2 = sel)) :
    getBindings (AList.set key d cfg) sel σ = getBindings cfg sel σ := by
  unfold getBindings
  apply foldl_congr_mem
  intro acc π hπ
  have hne : ¬ (π, sel) = key := by
    intro e; apply hk; subst e
    exact ⟨(mem_prefixes σ π).1 hπ, rfl⟩
  simp [Store.params, lookup_set, hne]

/-- Shape of a call in which no REQUIRED marker is involved. -/
structure Plain (c : Cfgable) (args : List Val) (kwargs : AList String Val) : Prop where
  args : ∀ a ∈ args, a.isRequired = false
  kwargs : ∀ kv ∈ kwargs, kv.2.isRequired = false
  sig : c.requiredKwargs = []

theorem reqNamesOf_nil (names : List String) (args : List Val)
    (h : ∀ a ∈ args, a.isRequired = false) : reqNamesOf names args = [] := by
  induction names generalizing args with
  | nil => simp [reqNamesOf]
  | cons n ns ih =>
    cases args with
    | nil => simp [reqNamesOf]
    | cons a as =>
      simp only [reqNamesOf, h a (by simp), Bool.false_eq_true, if_false]
      exact ih as (fun x hx => h x (by simp [hx]))

theorem substArgs_plain (names : List String) (args : List Val) (kw : AList String Val)
    (h : ∀ a ∈ args, a.isRequired = false) : substArgs names args kw = args := by
  induction names generalizing args with
  | nil => simp [substArgs]
  | cons n ns ih =>
    cases args with
    | nil => simp [substArgs]
    | cons a as =>
      simp only [substArgs, h a (by simp), Bool.false_eq_true, if_false]
      rw [ih as (fun x hx => h x (by simp [hx]))]

theorem dropMarkers_eq_self (e : AList String Val) (h : markerNames e = []) : dropMarkers e = e := by
  unfold markerNames at h
  unfold dropMarkers
  rw [List.map_eq_nil_iff, List.filter_eq_nil_iff] at h
  rw [List.filter_eq_self]
  intro kv hkv
  have := h kv hkv
  simpa using this

/-- Without REQUIRED markers — none passed by the caller, none demanded by the signature, and no binding of a
    parameter the call leaves to Gin that is (or evaluates to) the marker — the wrapper passes the positional
    arguments through, drops the bindings of the positionally supplied names, evaluates the rest and lets caller
    keywords win. -/
theorem wrapper_plain (ev : Val → Val) (c : Cfgable) (cfg : Store) (σ : Scope)
    (args : List Val) (kwargs : AList String Val) (hp : Plain c args kwargs)
    (hnm : markerNames (evalKw ev (popAll (getBindings cfg c.selector σ) (c.sig.args.take args.length))) = []) :
    ∃ op, wrapperCall ev c cfg σ args kwargs = .ok
      ({ args := args,
         kwargs := update (evalKw ev (popAll (getBindings cfg c.selector σ)
                      (c.sig.args.take args.length))) kwargs }, op) := by
  have hreq := reqNamesOf_nil (c.sig.args.take args.length) args hp.args
  have hsub := fun kw => substArgs_plain (c.sig.args.take args.length) args kw hp.args
  have hva : (args.drop (c.sig.args.take args.length).length).any Val.isRequired = false := by
    rw [List.any_eq_false]
    intro a ha
    simp [hp.args a (List.mem_of_mem_drop ha)]
  have hcr : (kwargs.filter (fun kv => kv.2.isRequired)) = [] := by
    rw [List.filter_eq_nil_iff]
    intro kv hkv; simp [hp.kwargs kv hkv]
  have hft : ∀ (l : List String), l.filter (fun _ => true) = l := fun l => by simp
  unfold wrapperCall phaseA
  simp only [hva, Bool.false_eq_true, if_false, hreq, List.map_nil, hcr]
  simp only [phaseC, hsub, hp.sig, List.filter_nil, List.append_nil,
    List.isEmpty_nil, Bool.not_true, Bool.false_eq_true, if_false, List.contains_nil,
    Bool.not_false, hft, hnm, dropMarkers_eq_self _ hnm]
  exact ⟨_, rfl⟩

/-- C01, at the wrapper: (a) positional arguments pass through unchanged; (b) every caller keyword
    reaches the function with the caller's value; (c) any other parameter is supplied iff the
    overlay binds it, with the evaluation of exactly that value; a positionally supplied name is
    never also passed by keyword (unless the caller did so). -/
theorem call_delivers (ev : Val → Val) (c : Cfgable) (cfg : Store) (σ : Scope)
    (args : List Val) (kwargs : AList String Val) (hp : Plain c args kwargs)
    (hnm : markerNames (evalKw ev (popAll (getBindings cfg c.selector σ) (c.sig.args.take args.length))) = [])
    (hkw : (keys kwargs).Nodup) :
    ∃ d op, wrapperCall ev c cfg σ args kwargs = .ok (d, op) ∧
      d.args = args ∧
      (∀ k v, lookup k kwargs = some v → lookup k d.kwargs = some v) ∧
      (∀ p, lookup p kwargs = none →
        lookup p d.kwargs =
          if p ∈ c.sig.args.take args.length then none
          else (lookup p (getBindings cfg c.selector σ)).map ev) := by
  obtain ⟨op, h⟩ := wrapper_plain ev c cfg σ args kwargs hp hnm
  refine ⟨_, op, h, rfl, ?_, ?_⟩
  · intro k v hk
    simp only []
    rw [lookup_update' _ _ hkw, hk]; rfl
  · intro p hpn
    simp only []
    rw [lookup_update' _ _ hkw, hpn]
    simp only [Option.orElse_none, evalKw, lookup_map_val,
      lookup_popAll _ (getBindings_nodup cfg c.selector σ)]
    by_cases hm : p ∈ c.sig.args.take args.length <;> simp [hm]

theorem keys_sublist_of_sublist {l₁ l₂ : AList String Val} (h : l₁.Sublist l₂) : (keys l₁).Sublist (keys l₂) :=
  List.Sublist.map _ h

/-- what `phaseC` hands on by keyword comes from the caller's keywords or from the evaluated bindings -/
theorem phaseC_keys (c : Cfgable) (a : PhaseA) (args : List Val) (kwargs evd0 : AList String Val) (d : Delivered)
    (h : phaseC c a args kwargs evd0 = .ok d) (k : String) (hk : k ∈ keys d.kwargs) :
    k ∈ keys kwargs ∨ k ∈ keys evd0 := by
  unfold phaseC at h
  simp only [] at h
  split at h
  · cases h
  · simp only [Except.ok.injEq] at h
    subst h
    simp only [mem_keys_update] at hk
    rcases hk with hk | hk
    · right
      have h1 := (keys_sublist_of_sublist (popAll_sublist (dropMarkers evd0) a.reqNames)).subset hk
      exact (keys_sublist_of_sublist (l₁ := dropMarkers evd0) (l₂ := evd0) List.filter_sublist).subset h1
    · left
      exact (keys_sublist_of_sublist (popAll_sublist kwargs _)).subset hk

/-- Nothing else is injected: every keyword the function receives was either passed by the
    caller or is bound for it in the overlay (function defaults stay the function's) — for every call that
    goes through, markers or not. -/
theorem call_injects_only_bound (ev : Val → Val) (c : Cfgable) (cfg : Store) (σ : Scope)
    (args : List Val) (kwargs : AList String Val)
    (d : Delivered) (op : AList String Val)
    (h : wrapperCall ev c cfg σ args kwargs = .ok (d, op)) (k : String)
    (hk : k ∈ keys d.kwargs) :
    k ∈ keys kwargs ∨ k ∈ keys (getBindings cfg c.selector σ) := by
  unfold wrapperCall phaseA at h
  by_cases hnv : (args.drop (c.sig.args.take args.length).length).any Val.isRequired = true
  · simp only [hnv, ↓reduceIte] at h; cases h
  · simp only [hnv, Bool.false_eq_true, if_false] at h
    split at h
    · cases h
    · rename_i d' hd'
      simp only [Except.ok.injEq, Prod.mk.injEq] at h
      obtain ⟨h1, _⟩ := h
      subst h1
      rcases phaseC_keys c _ args kwargs _ d' hd' k hk with hk' | hk'
      · exact Or.inl hk'
      · right
        simp only [evalKw, keys_map_val] at hk'
        exact (keys_sublist_of_sublist (popAll_sublist _ _)).subset hk'

/-! Non-vacuity: a concrete scoped store and call that meets the hypotheses. -/
def demoCfg : Store :=
  [(([], ["m", "f"]), [("x", .int 1), ("y", .int 2)]), ((["a"], ["m", "f"]), [("x", .int 10)]),
   ((["b"], ["m", "f"]), [("x", .int 99)])]
def demoC : Cfgable := { selector := ["m", "f"], sig := { pos := [("x", none), ("y", none), ("z", some (.int 0))] } }

example : demoCfg.WF := by
  intro key d hm
  simp only [demoCfg, List.mem_cons, Prod.mk.injEq, List.mem_nil_iff, or_false] at hm
  rcases hm with ⟨_, rfl⟩ | ⟨_, rfl⟩ | ⟨_, rfl⟩ <;> decide
example : Plain demoC [] [("y", .int 5)] := ⟨by simp, by simp [Val.isRequired], by decide⟩
example : getBindings demoCfg ["m", "f"] ["a", "c"] = [("x", .int 10), ("y", .int 2)] := by rfl

end Gin.C01
