/-
C05 (second file) — `%name` yields the value most recently bound to the macro.

`Props/C05.lean` says that `%name` is a call of `gin.macro` under the scope `name` at the moment of use. This file
computes that call: when the macro's own section of the store holds `value ↦ v` — which is what the last
`name = v` statement, or `bind_parameter('name/gin.macro.value', v)`, leaves there whatever was bound before — the
use yields `v` and leaves the configuration as it was.
-/
import Gin.Props.C05
import Gin.Props.C01
import Gin.Props.C07b
import Gin.Lemmas.Replay

namespace Gin.C05
open Gin Gin.AList

def macroEntry : Entry :=
  { cfg := { selector := State.macroSel, sig := { pos := [("value", none)] } }, objId := 900001 }

def macroA (v : Val) : PhaseA :=
  { newKw := [("value", v)], argNames := [], reqNames := [], callerReq := [], operative := [("value", v)] }

def macroScope (name : String) : Scope := if name.isEmpty then [] else splitChar name '/'

theorem alist_single (l : AList String Val) (v : Val) (hn : (keys l).Nodup)
    (hk : ∀ k ∈ keys l, k = "value") (hl : lookup "value" l = some v) : l = [("value", v)] := by
  cases l with
  | nil => simp [lookup] at hl
  | cons kv rest =>
    obtain ⟨k, x⟩ := kv
    have hk0 : k = "value" := hk k (by simp [keys])
    subst hk0
    simp only [lookup, if_true, Option.some.injEq] at hl
    subst hl
    cases rest with
    | nil => rfl
    | cons kv2 rest2 =>
      obtain ⟨k2, y⟩ := kv2
      have hk2 : k2 = "value" := hk k2 (by simp [keys])
      subst hk2
      simp [keys] at hn

theorem macro_yields_applicable_binding (fuel : Nat) (st : State) (σ : Scope) (name : String) (v : Val)
    (hreg : st.registry.get? State.macroSel = some macroEntry)
    (hb : getBindings st.config State.macroSel (macroScope name) = [("value", v)])
    (hreq : v.isRequired = false)
    (hplain : ∀ es τ, evalVal (fuel + 1) es τ v = .ok (es, v)) :
    ∃ st', evalVal (fuel + 4) st σ (.macro name) = .ok (st', v) ∧ st'.config = st.config := by
  simp only [evalVal]
  simp only [callCfg, hreg]
  have hA : phaseA macroEntry.cfg st.config (macroScope name) [] [] =
      .ok (macroA v) := by
    simp only [phaseA, macroEntry, macroScope, macroA] at *
    simp only [hb]
    simp [popAll, reqNamesOf, Cfgable.configurableDefaults, Sig.kwargDefaults, AList.update, AList.keys, AList.set]
  unfold macroScope at hA
  simp only [hA]
  have hT : toEvaluate (macroA v) [] = [("value", v)] := by simp [toEvaluate, macroA, kwSupplied, popAll]
  simp only [hT, evalKws, hplain]
  have hC : phaseC macroEntry.cfg (macroA v) [] [] [("value", v)] = .ok { args := [], kwargs := [("value", v)] } := by
    simp [phaseC, macroA, markerNames, dropMarkers, kwSupplied, hreq, substArgs, popAll, Cfgable.requiredKwargs,
      Sig.kwargDefaults, macroEntry, AList.update, AList.keys, orderBySignature]
  simp only [hC]
  have hP : pyBind macroEntry.cfg.sig { args := [], kwargs := [("value", v)] } =
      .ok { params := [("value", v)], extra := [], kw := [] } := by
    simp [pyBind, bindKwargs, macroEntry, Sig.args, Sig.kwNames, Sig.kwonlyNames, AList.contains, AList.set, AList.lookup]
  simp only [hP]
  simp [AList.lookup]


/-- `%name` yields the value its macro's own section holds — the value of the most recent binding of the macro
    (`macro_section_after_bind` below) — whatever shorter scope-like macro names (`a` for `a/b`) hold, for every store and
    every ambient scope, and the configuration is the same afterwards. `honly`: nothing but `value` is ever bound for
    `gin.macro` (what `C11.bind_sound` guarantees for every binding path); `hplain`: the bound value itself holds no
    reference to evaluate (a macro bound to an evaluated reference re-evaluates it: `macro_reads_store_at_use` and
    `C04.evaluated_ref_fresh`). -/
theorem macro_most_recent (fuel : Nat) (st : State) (σ : Scope) (name : String) (v : Val)
    (hreg : st.registry.get? State.macroSel = some macroEntry) (hwf : st.config.WF)
    (hlast : lookup "value" (st.config.params (macroScope name) State.macroSel) = some v)
    (honly : ∀ k ∈ keys (getBindings st.config State.macroSel (macroScope name)), k = "value")
    (hreq : v.isRequired = false)
    (hplain : ∀ es τ, evalVal (fuel + 1) es τ v = .ok (es, v)) :
    ∃ st', evalVal (fuel + 4) st σ (.macro name) = .ok (st', v) ∧ st'.config = st.config := by
  apply macro_yields_applicable_binding fuel st σ name v hreg _ hreq hplain
  apply alist_single _ v (getBindings_nodup _ _ _) honly
  have := C01.overlay_longest st.config hwf State.macroSel (macroScope name) [] "value" v hlast
    (by
      intro t ht hne
      exact absurd (List.prefix_nil.1 ht) hne)
  simpa using this

/-- What a binding of the macro leaves in its section: the new value, whatever the store held before (an earlier
    binding of the same macro is overwritten, other macros and scopes are untouched), and the store stays well formed. -/
theorem macro_section_after_bind (cfg : Store) (hwf : cfg.WF) (name : String) (v : Val) :
    let cfg' := State.setParam cfg (macroScope name, State.macroSel) "value" v
    cfg'.WF ∧ lookup "value" (cfg'.params (macroScope name) State.macroSel) = some v := by
  refine ⟨?_, ?_⟩
  · unfold State.setParam
    exact C07.wf_set cfg hwf _ _ (nodup_keys_set _ _ _ (cfg.params_nodup hwf _ _))
  · have := getP_setParam cfg (macroScope name, State.macroSel) (macroScope name, State.macroSel) "value" "value" v
    rw [getP_eq_params] at this
    simpa using this

/-! Non-vacuity: the registry every process starts with holds exactly `macroEntry` for `gin.macro`, and an integer is a
    value with nothing to evaluate. -/
example : initState.registry.get? State.macroSel = some macroEntry := by rfl
example (fuel : Nat) (es : State) (τ : Scope) : evalVal (fuel + 1) es τ (.int 7) = .ok (es, .int 7) := by
  simp [evalVal]

end Gin.C05
