/-
C19 (continued) — the import manager of the config string: every import gets a bound name no other
import uses, and every selector it emits resolves, in a file that makes exactly those imports, to the
object the configurable came from.
-/
import Gin.ImportMgr
import Gin.Props.C19
import Gin.Lemmas.AList

namespace Gin.C19
open Gin Gin.AList Gin.DynReg

/-! ### unique names -/

theorem uniquifyFrom_spec (c : String) (taken : List String) (fuel i : Nat) (u : String)
    (h : uniquifyFrom c taken fuel i = some u) : u ∉ taken := by
  induction fuel generalizing i with
  | zero => simp [uniquifyFrom] at h
  | succ n ih =>
    simp only [uniquifyFrom] at h
    split at h
    · exact ih _ h
    · rename_i hc
      cases h
      simpa using hc

theorem uniquify_spec (c : String) (taken : List String) (u : String) (h : uniquify c taken = some u) :
    u ∉ taken := by
  unfold uniquify at h
  split at h
  · exact uniquifyFrom_spec _ _ _ _ _ h
  · rename_i hc; cases h; simpa using hc

/-- what `add_import` records for an import it keeps -/
def selEntry (st : Import) : List String × List String :=
  (st.module, if st.isFrom || st.alias.isSome then [st.boundName] else st.module)

structure IMInv (im : IM) : Prop where
  names : im.names = im.imports.map Import.boundName
  nodup : im.names.Nodup
  sels : im.selectors = im.imports.map selEntry
  modules : (im.imports.map (·.module)).Nodup
  noReserved : ∀ n ∈ im.names, n ∉ im.reserved

theorem inv_fresh (dyn : Bool) : IMInv (IM.fresh dyn) := ⟨rfl, by simp [IM.fresh], rfl, by simp [IM.fresh], by simp [IM.fresh]⟩

theorem boundName_alias (st : Import) (u : String) : ({ st with alias := some u } : Import).boundName = u := by
  simp [Import.boundName]

theorem inv_add (im im' : IM) (st : Import) (h : IMInv im) (ha : im.add st = some im') : IMInv im' := by
  unfold IM.add at ha
  split at ha
  · cases ha; exact h
  · rename_i hnone
    cases hu : uniquify st.boundName (im.reserved ++ im.names) with
    | none => simp [hu] at ha
    | some u =>
      simp only [hu, Option.some.injEq] at ha
      have hfresh0 := uniquify_spec _ _ _ hu
      have hfresh : u ∉ im.names := fun hmem => hfresh0 (List.mem_append_right _ hmem)
      have hres : u ∉ im.reserved := fun hmem => hfresh0 (List.mem_append_left _ hmem)
      have hkeys : st.module ∉ im.imports.map (·.module) := by
        intro hm
        have : (lookup st.module im.selectors).isSome := by
          rw [lookup_isSome_iff, h.sels]
          simp only [keys, List.map_map]
          simpa [selEntry, Function.comp] using hm
        exact hnone this
      by_cases hub : u = st.boundName
      · subst ha
        simp only [hub, if_true]
        refine ⟨by simp [h.names], ?_, by simp [h.sels, selEntry], ?_, ?_⟩
        · rw [List.nodup_append]
          refine ⟨h.nodup, by simp, ?_⟩
          intro a ha b hb e
          simp only [List.mem_singleton] at hb
          subst hb; subst e
          rw [← hub] at ha; exact hfresh ha
        · simp only [List.map_append, List.map_cons, List.map_nil]
          rw [List.nodup_append]
          refine ⟨h.modules, by simp, ?_⟩
          intro a ha b hb e
          simp only [List.mem_singleton] at hb
          subst hb; subst e
          exact hkeys ha
        · intro n hn
          simp only [List.mem_append, List.mem_singleton] at hn
          rcases hn with hn | rfl
          · exact h.noReserved n hn
          · rw [← hub]; exact hres
      · subst ha
        simp only [hub, if_false, boundName_alias]
        refine ⟨by simp [h.names, boundName_alias], ?_, ?_, ?_, ?_⟩
        · rw [List.nodup_append]
          refine ⟨h.nodup, by simp, ?_⟩
          intro a ha b hb e
          simp only [List.mem_singleton] at hb
          subst hb; subst e
          exact hfresh ha
        · simp [h.sels, selEntry, boundName_alias]
        · simp only [List.map_append, List.map_cons, List.map_nil]
          rw [List.nodup_append]
          refine ⟨h.modules, by simp, ?_⟩
          intro a ha b hb e
          simp only [List.mem_singleton] at hb
          subst hb; subst e
          exact hkeys ha
        · intro n hn
          simp only [List.mem_append, List.mem_singleton] at hn
          rcases hn with hn | rfl
          · exact h.noReserved n hn
          · exact hres

/-- **No two imports of the config string bind the same name**, whatever imports were recorded and in
    whatever order they are added. -/
theorem inv_addAll (im im' : IM) (l : List Import) (h : IMInv im) (ha : im.addAll l = some im') :
    IMInv im' := by
  induction l generalizing im with
  | nil => simp [IM.addAll] at ha; subst ha; exact h
  | cons st rest ih =>
    simp only [IM.addAll] at ha
    cases hadd : im.add st with
    | none => simp [hadd] at ha
    | some im1 =>
      simp only [hadd] at ha
      exact ih im1 (inv_add im im1 st h hadd) ha

theorem bound_names_distinct (l : List Import) (im : IM) (dyn : Bool) (ha : (IM.fresh dyn).addAll l = some im) :
    (im.imports.map Import.boundName).Nodup := by
  have h := inv_addAll (IM.fresh dyn) im l (inv_fresh dyn) ha
  rw [← h.names]; exact h.nodup

/-- **No import of the config string binds the reserved name `gin`** (a file that did would be refused): an
    import whose natural name is `gin` — a module called `gin` somewhere in a package — is printed under an alias
    (D34: the implementation used to print it as it was, and `config_str()` itself then failed). -/
theorem no_import_binds_reserved (l : List Import) (im : IM) (ha : (IM.fresh true).addAll l = some im) :
    ∀ st ∈ im.imports, st.boundName ≠ "gin" := by
  have h := inv_addAll (IM.fresh true) im l (inv_fresh true) ha
  have hres : im.reserved = reservedNames := by
    have : ∀ (l : List Import) (a b : IM), a.addAll l = some b → b.reserved = a.reserved := by
      intro l
      induction l with
      | nil => intro a b hab; simp [IM.addAll] at hab; subst hab; rfl
      | cons st rest ih =>
        intro a b hab
        simp only [IM.addAll] at hab
        cases hadd : a.add st with
        | none => simp [hadd] at hab
        | some a1 =>
          simp only [hadd] at hab
          rw [ih a1 b hab]
          unfold IM.add at hadd
          split at hadd
          · cases hadd; rfl
          · cases hu : uniquify st.boundName (a.reserved ++ a.names) with
            | none => simp [hu] at hadd
            | some u => simp only [hu, Option.some.injEq] at hadd; subst hadd; rfl
    rw [this l _ _ ha]; rfl
  intro st hst e
  have hmem : st.boundName ∈ im.names := by
    rw [h.names]; exact List.mem_map_of_mem hst
  exact h.noReserved _ hmem (by rw [hres]; simp [reservedNames, e])

/-- … so every one of them is accepted by a dynamic-registration file (it is no `__gin__` feature import, its module
    exists): the symbol table such a file ends up with is the one `emitted_selector_resolves` reads selectors in. -/
theorem printed_import_accepted (w : World) (l : List Import) (im : IM) (ha : (IM.fresh true).addAll l = some im)
    (c : Ctx) (hd : c.dyn = true) (st : Import) (hst : st ∈ im.imports) (hg : isGinFeature st = false)
    (m : Nat) (hm : w.importTarget st = some m) :
    ∃ c', processImport w c st = .ok c' := by
  have hne := no_import_binds_reserved l im ha st hst
  unfold processImport
  simp [hg, hd, hm, hne]

/-! ### the emitted selectors resolve -/

/-- the symbol table of a file that makes exactly these imports -/
def symtabOf (w : World) (l : List Import) : AList String Nat :=
  l.foldl (fun acc st => match w.importTarget st with
    | some m => AList.set st.boundName m acc
    | none => acc) []

theorem lookup_fold_other (w : World) (l : List Import) (acc : AList String Nat) (k : String)
    (hk : k ∉ l.map Import.boundName) :
    lookup k (l.foldl (fun acc st => match w.importTarget st with
      | some m => AList.set st.boundName m acc
      | none => acc) acc) = lookup k acc := by
  induction l generalizing acc with
  | nil => rfl
  | cons st rest ih =>
    simp only [List.map_cons, List.mem_cons, not_or] at hk
    simp only [List.foldl_cons]
    rw [ih _ hk.2]
    cases w.importTarget st with
    | none => rfl
    | some m =>
      simp only [lookup_set]
      have : ¬ k = st.boundName := hk.1
      simp [this]

theorem lookup_symtabOf (w : World) (l : List Import) (hn : (l.map Import.boundName).Nodup)
    (st : Import) (hst : st ∈ l) (m : Nat) (hm : w.importTarget st = some m) :
    lookup st.boundName (symtabOf w l) = some m := by
  unfold symtabOf
  generalize ([] : AList String Nat) = acc
  induction l generalizing acc with
  | nil => cases hst
  | cons x rest ih =>
    simp only [List.map_cons, List.nodup_cons] at hn
    simp only [List.foldl_cons]
    rcases List.mem_cons.1 hst with rfl | hin
    · rw [lookup_fold_other w rest _ _ hn.1, hm]
      simp [lookup_set]
    · exact ih hn.2 hin _

theorem lookup_selEntry (imps : List Import) (hmods : (imps.map (·.module)).Nodup) (st : Import)
    (hst : st ∈ imps) : lookup st.module (imps.map selEntry) = some (selEntry st).2 := by
  induction imps with
  | nil => cases hst
  | cons x rest ih =>
    simp only [List.map_cons, List.nodup_cons] at hmods
    rcases List.mem_cons.1 hst with rfl | hin'
    · simp [lookup, selEntry]
    · have hx : ¬ x.module = st.module := by
        intro e; exact hmods.1 (e ▸ List.mem_map_of_mem hin')
      simp only [List.map_cons, lookup]
      have : (selEntry x).1 = x.module := rfl
      rw [this, if_neg hx]
      exact ih hmods.2 hin'

/-- packages carry their submodules as attributes: following the components of a module path from its
    top-level package reaches that module -/
def WorldCoherent (w : World) : Prop :=
  ∀ M m, lookup M w.modules = some m →
    ∃ top, lookup [M.headD ""] w.modules = some top ∧ follow w top M.tail = .ok m

/-- **Every selector the import manager emits resolves to the object it was built for.**  In a file
    that makes exactly the manager's imports (in any order), the selector printed for a configurable
    found at attribute path `name` of module `st.module` resolves to the object reached from that
    module by `name` — also when the import was re-aliased because its bound name collided. -/
theorem emitted_selector_resolves (w : World) (hw : WorldCoherent w) (l : List Import) (im : IM)
    (dyn : Bool) (ha : (IM.fresh dyn).addAll l = some im) (order : List Import) (hperm : order.Perm im.imports)
    (st : Import) (hst : st ∈ im.imports) (hne : st.module ≠ []) (m : Nat)
    (hm : lookup st.module w.modules = some m) (name : List String) :
    ∃ sel, im.selectorOf st.module name = some sel ∧
      resolve w { dyn := true, symtab := symtabOf w order } sel = follow w m name := by
  have hinv := inv_addAll (IM.fresh dyn) im l (inv_fresh dyn) ha
  have hnd : (order.map Import.boundName).Nodup := by
    have := bound_names_distinct l im dyn ha
    exact (hperm.map _).nodup_iff.2 this
  have hin : st ∈ order := hperm.mem_iff.2 hst
  -- the recorded selector of this module
  have hsel : lookup st.module im.selectors = some (selEntry st).2 := by
    rw [hinv.sels]
    exact lookup_selEntry im.imports hinv.modules st hst
  refine ⟨(selEntry st).2 ++ name, by simp [IM.selectorOf, hsel], ?_⟩
  by_cases hfa : (st.isFrom || st.alias.isSome) = true
  · -- `from … import m` / `import … as m`: the bound name is the module itself
    have htarget : w.importTarget st = some m := by
      simp [World.importTarget, hm, hfa]
    simp only [selEntry, hfa, if_true, List.cons_append, List.nil_append]
    rw [resolve_follows_attrs w _ _ _ m (lookup_symtabOf w order hnd st hin m htarget)]
  · -- plain `import a.b.c`: the bound name is the top-level package, the selector the dotted path
    obtain ⟨top, htop, hfollow⟩ := hw st.module m hm
    have htarget : w.importTarget st = some top := by
      have : (st.isFrom || st.alias.isSome) = false := by simpa using hfa
      have htop' : lookup [st.module.head?.getD ""] w.modules = some top := by
        simpa [List.headD_eq_head?_getD] using htop
      simp [World.importTarget, hm, this, htop']
    have hbound : st.boundName = st.module.headD "" := by
      have h1 : st.alias = none := by
        cases ha' : st.alias with
        | none => rfl
        | some a => simp [ha'] at hfa
      have h2 : st.isFrom = false := by
        cases hf : st.isFrom with
        | false => rfl
        | true => simp [hf] at hfa
      simp [Import.boundName, h1, h2]
    simp only [selEntry, hfa, Bool.false_eq_true, if_false]
    obtain ⟨hd, tl, hmod⟩ : ∃ hd tl, st.module = hd :: tl := by
      cases hmd : st.module with
      | nil => exact absurd hmd hne
      | cons a b => exact ⟨a, b, rfl⟩
    have hlk := lookup_symtabOf w order hnd st hin top htarget
    rw [hbound, hmod] at hlk
    simp only [List.headD_cons] at hlk
    rw [hmod, List.cons_append, resolve_follows_attrs w _ hd (tl ++ name) top hlk, follow_append]
    rw [hmod] at hfollow
    simp only [List.tail_cons] at hfollow
    rw [hfollow]
    rfl

/-- non-vacuity: `from a import m` and `from b import m` collide; the second becomes `m2` -/
example :
    ({} : IM).addAll [{ module := ["a", "m"], isFrom := true }, { module := ["b", "m"], isFrom := true }] =
      some { imports := [{ module := ["a", "m"], isFrom := true },
                         { module := ["b", "m"], isFrom := true, alias := some "m2" }],
             selectors := [(["a", "m"], ["m"]), (["b", "m"], ["m2"])], names := ["m", "m2"] } := by
  rfl

/-- non-vacuity of `no_import_binds_reserved`: a module named `gin` inside a package is printed as `gin2` -/
example :
    ((IM.fresh true).addAll [{ module := ["p", "gin"], isFrom := true }]).map (·.imports) =
      some [{ module := ["p", "gin"], isFrom := true, alias := some "gin2" }] := by
  decide +kernel

end Gin.C19
