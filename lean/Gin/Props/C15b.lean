/-
C15 (continued) — `skip_unknown` under dynamic registration: "known" means resolvable through the file's own
imports, whatever was parsed (and registered) before; a known name is never skipped, an unknown covered one is
deleted, an unknown uncovered one is still an error, and a covered unknown reference is kept as a placeholder.
-/
import Gin.DynReg

namespace Gin.C15
open Gin Gin.AList Gin.DynReg

/-- The skip decision looks at the file's symbol table only: it has no access to the bindings made or to
    anything another file imported (the context of an included file starts empty). -/
theorem dyn_known_is_per_file (w : World) (sk : DSkip) (c : Ctx) (b b' : Bindings) (sel : List String) (arg : String)
    (v : Int) (hs : shouldSkip w c sk sel = true) :
    runStmt w sk c b (.bind sel arg v) = (b, c, none) ∧ runStmt w sk c b' (.bind sel arg v) = (b', c, none) := by
  simp [runStmt, hs]

/-- A name that resolves through the file's imports is never skipped: with any `skip_unknown` the statement does
    exactly what it does without. -/
theorem dyn_known_never_skipped (w : World) (sk : DSkip) (c : Ctx) (b : Bindings) (sel : List String) (arg : String)
    (v : Int) (hk : known w c sel = true) :
    runStmt w sk c b (.bind sel arg v) = runStmt w .no c b (.bind sel arg v) := by
  simp [runStmt, shouldSkip, hk]

theorem dyn_known_block_never_skipped (w : World) (sk : DSkip) (c : Ctx) (b : Bindings) (sel : List String)
    (hk : known w c sel = true) : runStmt w sk c b (.block sel) = runStmt w .no c b (.block sel) := by
  simp [runStmt, shouldSkip, hk]

/-- A binding or block whose target is unknown and covered is deleted: the rest of the file runs as if the
    statement were not there. -/
theorem dyn_unknown_covered_deleted (w : World) (sk : DSkip) (c : Ctx) (b : Bindings) (sel : List String)
    (arg : String) (v : Int) (rest : List DStmt) (hu : known w c sel = false) (hc : sk.covers sel = true) :
    runStmts w sk c b (.bind sel arg v :: rest) = runStmts w sk c b rest ∧
    runStmts w sk c b (.block sel :: rest) = runStmts w sk c b rest := by
  simp [runStmts, runStmt, shouldSkip, hu, hc]

/-- An unknown name that `skip_unknown` does not cover is an error, with the class the resolution gives
    (NameError for a symbol no import provides, AttributeError for a missing attribute). -/
theorem dyn_unknown_uncovered_errors (w : World) (sk : DSkip) (c : Ctx) (b : Bindings) (sel : List String)
    (arg : String) (v : Int) (e : DErr) (hd : c.dyn = true) (hr : resolve w c sel = .error e)
    (hc : sk.covers sel = false) :
    runStmt w sk c b (.bind sel arg v) = (b, c, some e) ∧ runStmt w sk c b (.block sel) = (b, c, some e) := by
  simp [runStmt, shouldSkip, hc, hd, hr]

/-- A reference to an unknown covered name inside an applied binding is kept as a placeholder (it is neither
    dropped nor resolved to something else); the binding itself is applied. -/
theorem dyn_reference_placeholder (w : World) (sk : DSkip) (c : Ctx) (b : Bindings) (sel ref : List String)
    (arg : String) (k o : Nat) (hd : c.dyn = true) (hu : known w c ref = false) (hc : sk.covers ref = true)
    (hs : resolve w c sel = .ok o) (hp : ((lookup o w.params).getD []).contains arg = true) :
    runStmt w sk c b (.bindRef sel arg ref k) = (bindObj b o arg placeholderValue, c, none) := by
  have hks : known w c sel = true := by simp [known, hd, hs]
  have hp' : arg ∈ (lookup o w.params).getD [] := by simpa using hp
  simp [runStmt, shouldSkip, hu, hc, hks, hd, hs, hp']

/-- The import of a missing module is dropped exactly when `skip_unknown` is switched on. -/
theorem dyn_missing_import (w : World) (sk : DSkip) (c : Ctx) (b : Bindings) (i : Import)
    (h : processImport w c i = .error .importError) :
    runStmt w sk c b (.imp i) = if sk.truthy then (b, c, none) else (b, c, some .importError) := by
  simp [runStmt, h]

/-! Non-vacuity: one package `p` with a function `f(x)`; `p.f` is known, `p.g` and `q.f` are not. -/
def demoW : World := { modules := [(["p"], 1)], attrs := [(1, [("f", 2)])], params := [(2, ["x"])] }
def demoC : Ctx := { dyn := true, symtab := [("p", 1)] }
example : known demoW demoC ["p", "f"] = true ∧ known demoW demoC ["p", "g"] = false ∧
    known demoW demoC ["q", "f"] = false := by decide
example : (runStmts demoW .all demoC [] [.bind ["p", "g"] "x" 1, .block ["q", "f"], .bind ["p", "f"] "x" 5]).1 =
    [(2, [("x", 5)])] := by decide
example : (runStmts demoW (.names [["p", "g"]]) demoC [] [.bind ["p", "g"] "x" 1, .bind ["q", "f"] "x" 2]).2 =
    some .nameError := by decide

end Gin.C15
