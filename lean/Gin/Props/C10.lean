/-
C10 — REQUIRED parameters are filled from the config or the call fails cleanly.
-/
import Gin.Lemmas.Call
import Gin.Machine

namespace Gin.C10
open Gin Gin.AList

/-- Passing the marker for an unnamed variadic positional argument is rejected (`ValueError`)
    before anything else happens. -/
theorem vararg_required_rejected (ev : Val → Val) (c : Cfgable) (cfg : Store) (σ : Scope)
    (args : List Val) (kwargs : AList String Val)
    (h : (args.drop (c.sig.args.take args.length).length).any Val.isRequired = true) :
    wrapperCall ev c cfg σ args kwargs = .error .varargRequired := by
  unfold wrapperCall phaseA
  simp only [h, ↓reduceIte]

theorem mem_reqNamesOf (names : List String) (args : List Val) (n : String)
    (h : n ∈ reqNamesOf names args) : n ∈ names := by
  induction names generalizing args with
  | nil => simp [reqNamesOf] at h
  | cons m ns ih =>
    cases args with
    | nil => simp [reqNamesOf] at h
    | cons a as =>
      simp only [reqNamesOf] at h
      split at h
      · rcases List.mem_cons.1 h with e | h'
        · simp [e]
        · exact List.mem_cons_of_mem _ (ih as h')
      · exact List.mem_cons_of_mem _ (ih as h)

theorem contains_evalKw (ev : Val → Val) (kw : AList String Val) (n : String) :
    contains n (evalKw ev kw) = contains n kw := by
  simp [contains, evalKw, lookup_map_val]

theorem contains_popAll (d : AList String Val) (hd : (keys d).Nodup) (names : List String)
    (n : String) : contains n (popAll d names) = (!names.contains n && contains n d) := by
  simp only [contains, lookup_popAll d hd]
  by_cases h : n ∈ names <;> simp [h]

theorem lookup_filter_nodup (e : AList String Val) (hn : (keys e).Nodup) (p : String × Val → Bool) (n : String) :
    lookup n (e.filter p) = (match lookup n e with
      | some v => if p (n, v) then some v else none
      | none => none) := by
  induction e with
  | nil => simp [lookup]
  | cons kv rest ih =>
    obtain ⟨k, v⟩ := kv
    simp only [keys, List.map_cons, List.nodup_cons] at hn
    have ih' := ih hn.2
    by_cases hk : k = n
    · subst hk
      have hnone : lookup k rest = none := by
        cases hl : lookup k rest with
        | none => rfl
        | some w => exact absurd ((lookup_isSome_iff k rest).1 (by simp [hl])) hn.1
      simp only [lookup, if_true]
      by_cases hp : p (k, v) = true
      · simp [List.filter, hp, lookup]
      · have hp' : p (k, v) = false := by simpa using hp
        simp only [List.filter, hp', lookup]
        rw [ih', hnone]
        simp
    · simp only [lookup, hk, if_false]
      by_cases hp : p (k, v) = true
      · simp only [List.filter, hp, lookup, hk, if_false]; exact ih'
      · have hp' : p (k, v) = false := by simpa using hp
        simp only [List.filter, hp']; exact ih'

theorem contains_dropMarkers (e : AList String Val) (hn : (keys e).Nodup) (n : String) :
    contains n (dropMarkers e) = (match lookup n e with | some v => !v.isRequired | none => false) := by
  simp only [contains, dropMarkers, lookup_filter_nodup e hn]
  cases lookup n e with
  | none => rfl
  | some v => cases hv : v.isRequired <;> simp [hv]

theorem contains_markerNames (e : AList String Val) (hn : (keys e).Nodup) (n : String) :
    (markerNames e).contains n = (match lookup n e with | some v => v.isRequired | none => false) := by
  have h1 : (markerNames e).contains n = contains n (e.filter (fun kv => kv.2.isRequired)) := by
    simp only [markerNames, contains]
    rw [Bool.eq_iff_iff, List.contains_iff_mem, lookup_isSome_iff]
    rfl
  rw [h1]
  simp only [contains, lookup_filter_nodup e hn]
  cases lookup n e with
  | none => rfl
  | some v => cases hv : v.isRequired <;> simp [hv]

theorem contains_filter_list (l : List String) (p : String → Bool) (n : String) :
    (l.filter p).contains n = (l.contains n && p n) := by
  rw [Bool.eq_iff_iff]
  simp only [List.contains_iff_mem, List.mem_filter, Bool.and_eq_true]

theorem contains_kwSupplied (kwargs : AList String Val) (hkn : (keys kwargs).Nodup) (n : String) :
    (kwSupplied kwargs).contains n = (match lookup n kwargs with | some v => !v.isRequired | none => false) := by
  have h1 : (kwSupplied kwargs).contains n = contains n (dropMarkers kwargs) := by
    simp only [kwSupplied, dropMarkers, contains]
    rw [Bool.eq_iff_iff, List.contains_iff_mem, lookup_isSome_iff]
    rfl
  rw [h1, contains_dropMarkers kwargs hkn]

theorem kwSupplied_subset_keys (kwargs : AList String Val) (n : String) (h : contains n kwargs = false) :
    (kwSupplied kwargs).contains n = false := by
  rw [Bool.eq_false_iff]
  intro hc
  have hm := List.contains_iff_mem.1 hc
  simp only [kwSupplied, List.mem_map, List.mem_filter] at hm
  obtain ⟨kv, ⟨hin, _⟩, rfl⟩ := hm
  have : contains kv.1 kwargs = true := (contains_iff kv.1 kwargs).2 (mem_keys_of_mem _ kv.1 kv.2 hin)
  rw [this] at h; exact absurd h (by decide)

/-- a name has no usable binding iff it is neither bound to a value nor bound to the marker -/
theorem unbound_iff (e : AList String Val) (hn : (keys e).Nodup) (n : String) :
    (!contains n (dropMarkers e) && !(markerNames e).contains n) = !contains n e := by
  rw [contains_dropMarkers e hn, contains_markerNames e hn]
  simp only [contains]
  cases lookup n e with
  | none => rfl
  | some v => cases hv : v.isRequired <;> simp [hv]

theorem nodup_keys_dropMarkers (e : AList String Val) (hn : (keys e).Nodup) : (keys (dropMarkers e)).Nodup := by
  unfold dropMarkers keys
  exact (List.Sublist.map _ (List.filter_sublist)).nodup hn

/-- The names the wrapper reports as missing, stated against the overlay of bindings: the
    positionally marked names, the signature-level REQUIRED names the caller did not supply, and the
    keyword-marked names — each only if no applicable binding exists. -/
def missingSpec (c : Cfgable) (cfg : Store) (σ : Scope) (args : List Val)
    (kwargs : AList String Val) : List String :=
  let bound := getBindings cfg c.selector σ
  let argNames := c.sig.args.take args.length
  (reqNamesOf argNames args).filter (fun n => !contains n bound)
  ++ c.requiredKwargs.filter (fun rk =>
      !argNames.contains rk && !contains rk kwargs && !contains rk bound)
  ++ ((kwargs.filter (fun kv => kv.2.isRequired)).map (·.1)).filter (fun n => !contains n bound)

/-- keyword names never repeat a positionally supplied name (otherwise Python itself raises) -/
def KwDisjoint (c : Cfgable) (args : List Val) (kwargs : AList String Val) : Prop :=
  ∀ k, k ∈ keys kwargs → k ∉ c.sig.args.take args.length

/-- the parameters whose binding is, or evaluates to, the marker itself (after the bindings of positionally supplied
    names were dropped): such a binding supplies nothing and is reported like a missing one -/
def markedSpec (ev : Val → Val) (c : Cfgable) (cfg : Store) (σ : Scope) (args : List Val)
    (kwargs : AList String Val) : List String :=
  let argNames := c.sig.args.take args.length
  (markerNames (evalKw ev (popAll (getBindings cfg c.selector σ)
    (argNames.filter (fun n => !(reqNamesOf argNames args).contains n))))).filter
    (fun n => !(kwSupplied kwargs).contains n)

theorem phaseC_missing_eq (ev : Val → Val) (c : Cfgable) (cfg : Store) (σ : Scope)
    (args : List Val) (kwargs : AList String Val) (hd : KwDisjoint c args kwargs) (hkn : (keys kwargs).Nodup) :
    let bound := getBindings cfg c.selector σ
    let argNames := c.sig.args.take args.length
    let reqNames := reqNamesOf argNames args
    let callerReq := (kwargs.filter (fun kv => kv.2.isRequired)).map (·.1)
    let evd0 := evalKw ev (popAll bound (argNames.filter (fun n => !reqNames.contains n)))
    let marked := (markerNames evd0).filter (fun n => !(kwSupplied kwargs).contains n)
    let evd := dropMarkers evd0
    let kw := popAll evd reqNames
    reqNames.filter (fun n => !contains n evd && !marked.contains n)
      ++ c.requiredKwargs.filter (fun rk =>
          !argNames.contains rk && !contains rk kwargs && !contains rk kw && !marked.contains rk)
      ++ callerReq.filter (fun rk => !contains rk kw && !marked.contains rk)
    = missingSpec c cfg σ args kwargs := by
  intro bound argNames reqNames callerReq evd0 marked evd kw
  have hb : (keys bound).Nodup := getBindings_nodup cfg c.selector σ
  have hevd0 : ∀ n, contains n evd0 =
      (!(argNames.filter (fun n => !reqNames.contains n)).contains n && contains n bound) := by
    intro n; simp only [evd0, contains_evalKw, contains_popAll bound hb]
  have hevd0n : (keys evd0).Nodup := by
    simp only [evd0, evalKw, keys_map_val]; exact nodup_keys_popAll bound hb _
  have hevdn : (keys evd).Nodup := nodup_keys_dropMarkers evd0 hevd0n
  have hun : ∀ n, (kwSupplied kwargs).contains n = false →
      (!contains n evd && !marked.contains n) = !contains n evd0 := by
    intro n hks
    have : marked.contains n = (markerNames evd0).contains n := by
      simp only [marked, contains_filter_list, hks, Bool.not_false, Bool.and_true]
    rw [this]; exact unbound_iff evd0 hevd0n n
  have hkw : ∀ n, contains n kw = (!reqNames.contains n && contains n evd) := by
    intro n; simp only [kw, contains_popAll evd hevdn]
  unfold missingSpec
  have happ : ∀ {a a' b b' c c' : List String}, a = a' → b = b' → c = c' →
      a ++ b ++ c = a' ++ b' ++ c' := by intro _ _ _ _ _ _ h1 h2 h3; rw [h1, h2, h3]
  have e1 : List.take args.length c.sig.args = argNames := rfl
  have e2 : getBindings cfg c.selector σ = bound := rfl
  rw [e1, e2]
  refine happ ?_ ?_ ?_
  · apply List.filter_congr
    intro n hn
    have hf : (argNames.filter (fun n => !reqNames.contains n)).contains n = false := by
      rw [Bool.eq_false_iff]; intro hc
      have h1 := (List.mem_filter.1 (List.contains_iff_mem.1 hc)).2
      rw [List.contains_iff_mem.2 hn] at h1
      exact absurd h1 (by decide)
    have hks : (kwSupplied kwargs).contains n = false := by
      apply kwSupplied_subset_keys
      cases hc : contains n kwargs with
      | false => rfl
      | true =>
        exact absurd (mem_reqNamesOf argNames args n hn) (hd n ((contains_iff n kwargs).1 hc))
    rw [hun n hks, hevd0 n, hf]
    simp only [Bool.not_false, Bool.true_and]
  · apply List.filter_congr
    intro rk _
    by_cases hrk : argNames.contains rk = true
    · simp only [hrk, Bool.not_true, Bool.false_and]
    · have h1 : reqNames.contains rk = false := by
        cases hc : reqNames.contains rk with
        | false => rfl
        | true =>
          have := mem_reqNamesOf argNames args rk (List.contains_iff_mem.1 hc)
          exact absurd (List.contains_iff_mem.2 this) hrk
      have h2 : (argNames.filter (fun n => !reqNames.contains n)).contains rk = false := by
        cases hc : (argNames.filter (fun n => !reqNames.contains n)).contains rk with
        | false => rfl
        | true =>
          have := (List.mem_filter.1 (List.contains_iff_mem.1 hc)).1
          exact absurd (List.contains_iff_mem.2 this) hrk
      cases hck : contains rk kwargs with
      | true => simp only [Bool.not_true, Bool.and_false, Bool.false_and]
      | false =>
        have hks := kwSupplied_subset_keys kwargs rk hck
        have hk : (!contains rk kw && !marked.contains rk) = !contains rk bound := by
          rw [hkw, h1]
          simp only [Bool.not_false, Bool.true_and]
          rw [hun rk hks, hevd0 rk, h2]
          simp only [Bool.not_false, Bool.true_and]
        rw [Bool.and_assoc, hk]
  · apply List.filter_congr
    intro rk hrk
    have hk : rk ∈ keys kwargs := by
      simp only [callerReq, List.mem_map, List.mem_filter] at hrk
      obtain ⟨kv, ⟨hm, _⟩, rfl⟩ := hrk
      exact List.mem_map_of_mem (f := (·.1)) hm
    have hna : rk ∉ argNames := hd rk hk
    have h1 : reqNames.contains rk = false := by
      cases hc : reqNames.contains rk with
      | false => rfl
      | true => exact absurd (mem_reqNamesOf argNames args rk (List.contains_iff_mem.1 hc)) hna
    have h2 : (argNames.filter (fun n => !reqNames.contains n)).contains rk = false := by
      cases hc : (argNames.filter (fun n => !reqNames.contains n)).contains rk with
      | false => rfl
      | true => exact absurd (List.mem_filter.1 (List.contains_iff_mem.1 hc)).1 hna
    have hks : (kwSupplied kwargs).contains rk = false := by
      rw [contains_kwSupplied kwargs hkn]
      have hcm : (markerNames kwargs).contains rk = true := List.contains_iff_mem.2 hrk
      rw [contains_markerNames kwargs hkn] at hcm
      cases hl : lookup rk kwargs with
      | none => rfl
      | some v => rw [hl] at hcm; simp only at hcm ⊢; simp [hcm]
    rw [hkw, h1]
    simp only [Bool.not_false, Bool.true_and]
    rw [hun rk hks, hevd0 rk, h2]
    simp only [Bool.not_false, Bool.true_and]

/-- If some marked parameter has no applicable binding — or a parameter's binding is the marker itself —, the call
    fails, before the wrapped function is reached, with an error listing exactly those parameters in signature order. -/
theorem missing_reported (ev : Val → Val) (c : Cfgable) (cfg : Store) (σ : Scope)
    (args : List Val) (kwargs : AList String Val)
    (hnv : (args.drop (c.sig.args.take args.length).length).any Val.isRequired = false)
    (hd : KwDisjoint c args kwargs) (hkn : (keys kwargs).Nodup)
    (hm : markedSpec ev c cfg σ args kwargs ++ missingSpec c cfg σ args kwargs ≠ []) :
    wrapperCall ev c cfg σ args kwargs =
      .error (.missingRequired (orderBySignature c.sig
        (markedSpec ev c cfg σ args kwargs ++ missingSpec c cfg σ args kwargs))) := by
  have heq := phaseC_missing_eq ev c cfg σ args kwargs hd hkn
  unfold wrapperCall phaseA
  simp only [hnv, Bool.false_eq_true, if_false, phaseC]
  simp only [] at heq
  simp only [List.append_assoc] at heq ⊢
  rw [heq]
  have : (markedSpec ev c cfg σ args kwargs ++ missingSpec c cfg σ args kwargs).isEmpty = false := by
    cases h : markedSpec ev c cfg σ args kwargs ++ missingSpec c cfg σ args kwargs with
    | nil => exact absurd h hm
    | cons _ _ => rfl
  unfold markedSpec at this ⊢
  simp only [this, Bool.not_false, if_true]

/-- Conversely, when every marked parameter has an applicable binding and no binding is the marker itself, the
    REQUIRED bookkeeping lets the call through. -/
theorem all_filled_passes (ev : Val → Val) (c : Cfgable) (cfg : Store) (σ : Scope)
    (args : List Val) (kwargs : AList String Val)
    (hnv : (args.drop (c.sig.args.take args.length).length).any Val.isRequired = false)
    (hd : KwDisjoint c args kwargs) (hkn : (keys kwargs).Nodup)
    (hmk : markedSpec ev c cfg σ args kwargs = [])
    (hm : missingSpec c cfg σ args kwargs = []) :
    ∃ d op, wrapperCall ev c cfg σ args kwargs = .ok (d, op) := by
  have heq := phaseC_missing_eq ev c cfg σ args kwargs hd hkn
  unfold wrapperCall phaseA
  simp only [hnv, Bool.false_eq_true, if_false, phaseC]
  simp only [] at heq
  simp only [List.append_assoc] at heq ⊢
  unfold markedSpec at hmk
  rw [heq, hm, hmk]
  exact ⟨_, _, rfl⟩

/-- A binding that is — or evaluates to — the marker itself (`f.x = %gin.REQUIRED`, never overridden) makes the call
    fail before the function runs, whatever the caller marks or the signature demands (D52). -/
theorem bound_marker_fails (ev : Val → Val) (c : Cfgable) (cfg : Store) (σ : Scope)
    (args : List Val) (kwargs : AList String Val)
    (hnv : (args.drop (c.sig.args.take args.length).length).any Val.isRequired = false)
    (hd : KwDisjoint c args kwargs) (hkn : (keys kwargs).Nodup) (hmk : markedSpec ev c cfg σ args kwargs ≠ []) :
    ∃ names, wrapperCall ev c cfg σ args kwargs = .error (.missingRequired names) :=
  ⟨_, missing_reported ev c cfg σ args kwargs hnv hd hkn (by
    intro h; exact hmk (List.append_eq_nil_iff.1 h).1)⟩

theorem substArgs_clean (names : List String) (args : List Val) (kw : AList String Val)
    (hfound : ∀ n ∈ reqNamesOf names args, contains n kw = true)
    (hkw : ∀ kv ∈ kw, kv.2.isRequired = false)
    (hrest : ∀ x ∈ args.drop names.length, x.isRequired = false) :
    ∀ x ∈ substArgs names args kw, x.isRequired = false := by
  induction names generalizing args with
  | nil => simpa [substArgs] using hrest
  | cons n ns ih =>
    cases args with
    | nil => simp [substArgs]
    | cons a as =>
      intro x hx
      simp only [substArgs, List.mem_cons] at hx
      rcases hx with hx | hx
      · by_cases ha : a.isRequired = true
        · simp only [ha, if_true] at hx
          have hn : n ∈ reqNamesOf (n :: ns) (a :: as) := by simp [reqNamesOf, ha]
          have hc := hfound n hn
          simp only [contains] at hc
          cases hl : lookup n kw with
          | none => simp [hl] at hc
          | some v =>
            simp only [hl, Option.getD_some] at hx
            subst hx
            have hm : (n, x) ∈ kw := mem_of_lookup kw n x hl
            exact hkw _ hm
        · simp only [ha, Bool.false_eq_true, if_false] at hx
          subst hx; simpa using ha
      · apply ih as ?_ ?_ x hx
        · intro m hm
          apply hfound
          simp only [reqNamesOf]
          split
          · exact List.mem_cons_of_mem _ hm
          · exact hm
        · simpa using hrest

/-- `phaseC` never lets the marker through: whatever the bindings evaluated to. -/
theorem phaseC_no_marker (c : Cfgable) (a : PhaseA) (args : List Val) (kwargs evd0 : AList String Val) (d : Delivered)
    (hkn : (keys kwargs).Nodup)
    (hreq : a.reqNames = reqNamesOf a.argNames args)
    (hcr : a.callerReq = (kwargs.filter (fun kv => kv.2.isRequired)).map (·.1))
    (hrest : ∀ x ∈ args.drop a.argNames.length, x.isRequired = false)
    (h : phaseC c a args kwargs evd0 = .ok d) :
    (∀ x ∈ d.args, x.isRequired = false) ∧ (∀ kv ∈ d.kwargs, kv.2.isRequired = false) := by
  unfold phaseC at h
  simp only [] at h
  split at h
  · cases h
  · rename_i hmiss
    simp only [Except.ok.injEq] at h
    subst h
    have hnil : (List.filter (fun n => !(kwSupplied kwargs).contains n) (markerNames evd0)) ++
        List.filter (fun n => !contains n (dropMarkers evd0) && !((List.filter (fun n => !(kwSupplied kwargs).contains n) (markerNames evd0))).contains n) a.reqNames ++
        List.filter (fun rk => !a.argNames.contains rk && !contains rk kwargs &&
          !contains rk (popAll (dropMarkers evd0) a.reqNames) && !((List.filter (fun n => !(kwSupplied kwargs).contains n) (markerNames evd0))).contains rk) c.requiredKwargs ++
        List.filter (fun rk => !contains rk (popAll (dropMarkers evd0) a.reqNames) && !((List.filter (fun n => !(kwSupplied kwargs).contains n) (markerNames evd0))).contains rk)
          a.callerReq = [] := by
      cases hl : ((List.filter (fun n => !(kwSupplied kwargs).contains n) (markerNames evd0)) ++
        List.filter (fun n => !contains n (dropMarkers evd0) && !((List.filter (fun n => !(kwSupplied kwargs).contains n) (markerNames evd0))).contains n) a.reqNames ++
        List.filter (fun rk => !a.argNames.contains rk && !contains rk kwargs &&
          !contains rk (popAll (dropMarkers evd0) a.reqNames) && !((List.filter (fun n => !(kwSupplied kwargs).contains n) (markerNames evd0))).contains rk) c.requiredKwargs ++
        List.filter (fun rk => !contains rk (popAll (dropMarkers evd0) a.reqNames) && !((List.filter (fun n => !(kwSupplied kwargs).contains n) (markerNames evd0))).contains rk)
          a.callerReq) with
      | nil => rfl
      | cons x xs => rw [hl] at hmiss; simp at hmiss
    simp only [List.append_eq_nil_iff] at hnil
    obtain ⟨⟨⟨hmk, hmPos⟩, _⟩, hmKw⟩ := hnil
    have hclean : ∀ kv ∈ dropMarkers evd0, kv.2.isRequired = false := by
      intro kv hkv
      have := (List.mem_filter.1 hkv).2
      simpa using this
    refine ⟨?_, ?_⟩
    · apply substArgs_clean a.argNames args (dropMarkers evd0) ?_ hclean hrest
      intro n hn
      rw [← hreq] at hn
      rw [List.filter_eq_nil_iff] at hmPos
      have := hmPos n hn
      rw [hmk] at this
      simpa using this
    · intro kv hkv
      rcases mem_of_mem_update _ _ kv hkv with hk | hk
      · exact hclean kv ((popAll_sublist _ _).subset hk)
      · have hin : kv ∈ kwargs := (popAll_sublist _ _).subset hk
        cases hrq : kv.2.isRequired with
        | false => rfl
        | true =>
          exfalso
          have hmem : kv.1 ∈ a.callerReq := by
            rw [hcr]
            exact List.mem_map_of_mem (f := (·.1))
              (List.mem_filter (p := fun kv : String × Val => kv.2.isRequired).2 ⟨hin, hrq⟩)
          rw [List.filter_eq_nil_iff] at hmKw
          have hfound := hmKw kv.1 hmem
          rw [hmk] at hfound
          have hc : contains kv.1 (popAll (dropMarkers evd0) a.reqNames) = true := by
            cases hcc : contains kv.1 (popAll (dropMarkers evd0) a.reqNames) with
            | true => rfl
            | false => rw [hcc] at hfound; simp at hfound
          have hpopped : lookup kv.1 (popAll kwargs
              (List.filter (fun rk => contains rk (popAll (dropMarkers evd0) a.reqNames)) a.callerReq)) = none := by
            rw [lookup_popAll _ hkn]
            rw [if_pos (List.mem_filter.2 ⟨hmem, hc⟩)]
          have hsome := (lookup_isSome_iff kv.1 _).2 (mem_keys_of_mem _ kv.1 kv.2 hk)
          rw [hpopped] at hsome
          simp at hsome

/-- **The REQUIRED marker itself never reaches the wrapped function**: on success no delivered positional or keyword
    argument is the marker — whatever the bindings hold or evaluate to (a binding that is the marker makes the call
    fail, `bound_marker_fails`; until D52 the model needed the hypothesis that no binding evaluates to the marker,
    and the code delivered it). -/
theorem marker_never_delivered (ev : Val → Val) (c : Cfgable) (cfg : Store) (σ : Scope)
    (args : List Val) (kwargs : AList String Val) (d : Delivered) (op : AList String Val)
    (hkn : (keys kwargs).Nodup)
    (h : wrapperCall ev c cfg σ args kwargs = .ok (d, op)) :
    (∀ x ∈ d.args, x.isRequired = false) ∧ (∀ kv ∈ d.kwargs, kv.2.isRequired = false) := by
  unfold wrapperCall phaseA at h
  by_cases hnv : (args.drop (c.sig.args.take args.length).length).any Val.isRequired = true
  · simp only [hnv, ↓reduceIte] at h; cases h
  · simp only [hnv, Bool.false_eq_true, if_false] at h
    split at h
    · cases h
    · rename_i d' hd'
      simp only [Except.ok.injEq, Prod.mk.injEq] at h
      obtain ⟨h1, _⟩ := h
      subst h1
      refine phaseC_no_marker c _ args kwargs _ d' hkn rfl rfl ?_ hd'
      intro x hx
      rw [Bool.not_eq_true, List.any_eq_false] at hnv
      have := hnv x hx
      simpa using this

/-- A signature-level REQUIRED on a parameter that is denylisted or not allowlisted is rejected at
    registration: a registration that succeeds has every REQUIRED default configurable. -/
theorem required_sig_validation (st st' : State) (r : State.RegReq) (h : st.register r = .ok st') :
    r.cfgable.requiredKwargsValid = true := by
  have hc := (State.register_ok h).1
  by_cases hv : r.cfgable.requiredKwargsValid = true
  · exact hv
  · exfalso
    have hv' : (!r.cfgable.requiredKwargsValid) = true := by simpa using hv
    unfold State.regCheck at hc
    simp only [hv', if_true] at hc
    repeat (first | (split at hc) | cases hc)

/-! Non-vacuity: a call with a positional marker, one bound and one unbound. -/
def demoC : Cfgable := { selector := ["f"], sig := { pos := [("x", none), ("y", some .required)] } }
def demoCfg : Store := [(([], ["f"]), [("x", .int 7)])]
example : wrapperCall id demoC demoCfg [] [.required] [] =
    .error (.missingRequired ["y"]) := by rfl
example : (wrapperCall id demoC demoCfg [] [.required] [("y", .int 1)]).toOption.map (·.1) =
    some { args := [.int 7], kwargs := [("y", .int 1)] } := by rfl

end Gin.C10
