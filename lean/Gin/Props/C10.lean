/-
C10 — REQUIRED parameters are filled from the config or the call fails cleanly.
-/
import Gin.Lemmas.Call
import Gin.Machine

namespace Gin.C10
open Gin Gin.AList

/-- Passing the marker for an unnamed variadic positional argument is rejected (`ValueError`)
    before anything else happens. -/
theorem vararg_required_rejected (ev : Val → Val) (c : Cfgable) (cfg : Store) (σ : Scope)
    (args : List Val) (kwargs : AList String Val)
    (h : (args.drop (c.sig.args.take args.length).length).any Val.isRequired = true) :
    wrapperCall ev c cfg σ args kwargs = .error .varargRequired := by
  unfold wrapperCall phaseA
  simp only [h, ↓reduceIte]

theorem mem_reqNamesOf (names : List String) (args : List Val) (n : String)
    (h : n ∈ reqNamesOf names args) : n ∈ names := by
  induction names generalizing args with
  | nil => simp [reqNamesOf] at h
  | cons m ns ih =>
    cases args with
    | nil => simp [reqNamesOf] at h
    | cons a as =>
      simp only [reqNamesOf] at h
      split at h
      · rcases List.mem_cons.1 h with e | h'
        · simp [e]
        · exact List.mem_cons_of_mem _ (ih as h')
      · exact List.mem_cons_of_mem _ (ih as h)

theorem contains_evalKw (ev : Val → Val) (kw : AList String Val) (n : String) :
    contains n (evalKw ev kw) = contains n kw := by
  simp [contains, evalKw, lookup_map_val]

theorem contains_popAll (d : AList String Val) (hd : (keys d).Nodup) (names : List String)
    (n : String) : contains n (popAll d names) = (!names.contains n && contains n d) := by
  simp only [contains, lookup_popAll d hd]
  by_cases h : n ∈ names <;> simp [h]

/-- The names the wrapper reports as missing, stated against the overlay of bindings: the
    positionally marked names, the signature-level REQUIRED names the caller did not supply, and the
    keyword-marked names — each only if no applicable binding exists. -/
def missingSpec (c : Cfgable) (cfg : Store) (σ : Scope) (args : List Val)
    (kwargs : AList String Val) : List String :=
  let bound := getBindings cfg c.selector σ
  let argNames := c.sig.args.take args.length
  (reqNamesOf argNames args).filter (fun n => !contains n bound)
  ++ c.requiredKwargs.filter (fun rk =>
      !argNames.contains rk && !contains rk kwargs && !contains rk bound)
  ++ ((kwargs.filter (fun kv => kv.2.isRequired)).map (·.1)).filter (fun n => !contains n bound)

/-- keyword names never repeat a positionally supplied name (otherwise Python itself raises) -/
def KwDisjoint (c : Cfgable) (args : List Val) (kwargs : AList String Val) : Prop :=
  ∀ k, k ∈ keys kwargs → k ∉ c.sig.args.take args.length

theorem phaseC_missing_eq (ev : Val → Val) (c : Cfgable) (cfg : Store) (σ : Scope)
    (args : List Val) (kwargs : AList String Val) (hd : KwDisjoint c args kwargs) :
    let bound := getBindings cfg c.selector σ
    let argNames := c.sig.args.take args.length
    let reqNames := reqNamesOf argNames args
    let callerReq := (kwargs.filter (fun kv => kv.2.isRequired)).map (·.1)
    let evd := evalKw ev (popAll bound (argNames.filter (fun n => !reqNames.contains n)))
    let kw := popAll evd reqNames
    reqNames.filter (fun n => !contains n evd)
      ++ c.requiredKwargs.filter (fun rk =>
          !argNames.contains rk && !contains rk kwargs && !contains rk kw)
      ++ callerReq.filter (fun rk => !contains rk kw)
    = missingSpec c cfg σ args kwargs := by
  intro bound argNames reqNames callerReq evd kw
  have hb : (keys bound).Nodup := getBindings_nodup cfg c.selector σ
  have hevd : ∀ n, contains n evd =
      (!(argNames.filter (fun n => !reqNames.contains n)).contains n && contains n bound) := by
    intro n; simp only [evd, contains_evalKw, contains_popAll bound hb]
  have hevdn : (keys evd).Nodup := by
    simp only [evd, evalKw, keys_map_val]; exact nodup_keys_popAll bound hb _
  have hkw : ∀ n, contains n kw = (!reqNames.contains n && contains n evd) := by
    intro n; simp only [kw, contains_popAll evd hevdn]
  unfold missingSpec
  have happ : ∀ {a a' b b' c c' : List String}, a = a' → b = b' → c = c' →
      a ++ b ++ c = a' ++ b' ++ c' := by intro _ _ _ _ _ _ h1 h2 h3; rw [h1, h2, h3]
  have e1 : List.take args.length c.sig.args = argNames := rfl
  have e2 : getBindings cfg c.selector σ = bound := rfl
  rw [e1, e2]
  refine happ ?_ ?_ ?_
  · apply List.filter_congr
    intro n hn
    have hf : (argNames.filter (fun n => !reqNames.contains n)).contains n = false := by
      rw [Bool.eq_false_iff]; intro hc
      have h1 := (List.mem_filter.1 (List.contains_iff_mem.1 hc)).2
      rw [List.contains_iff_mem.2 hn] at h1
      exact absurd h1 (by decide)
    rw [hevd n, hf]
    simp only [Bool.not_false, Bool.true_and]
  · apply List.filter_congr
    intro rk _
    by_cases hrk : argNames.contains rk = true
    · simp only [hrk, Bool.not_true, Bool.false_and]
    · have h1 : reqNames.contains rk = false := by
        cases hc : reqNames.contains rk with
        | false => rfl
        | true =>
          have := mem_reqNamesOf argNames args rk (List.contains_iff_mem.1 hc)
          exact absurd (List.contains_iff_mem.2 this) hrk
      have h2 : (argNames.filter (fun n => !reqNames.contains n)).contains rk = false := by
        cases hc : (argNames.filter (fun n => !reqNames.contains n)).contains rk with
        | false => rfl
        | true =>
          have := (List.mem_filter.1 (List.contains_iff_mem.1 hc)).1
          exact absurd (List.contains_iff_mem.2 this) hrk
      rw [hkw, hevd, h1, h2]
      simp only [Bool.not_false, Bool.true_and]
  · apply List.filter_congr
    intro rk hrk
    have hk : rk ∈ keys kwargs := by
      simp only [callerReq, List.mem_map, List.mem_filter] at hrk
      obtain ⟨kv, ⟨hm, _⟩, rfl⟩ := hrk
      exact List.mem_map_of_mem (f := (·.1)) hm
    have hna : rk ∉ argNames := hd rk hk
    have h1 : reqNames.contains rk = false := by
      cases hc : reqNames.contains rk with
      | false => rfl
      | true => exact absurd (mem_reqNamesOf argNames args rk (List.contains_iff_mem.1 hc)) hna
    have h2 : (argNames.filter (fun n => !reqNames.contains n)).contains rk = false := by
      cases hc : (argNames.filter (fun n => !reqNames.contains n)).contains rk with
      | false => rfl
      | true => exact absurd (List.mem_filter.1 (List.contains_iff_mem.1 hc)).1 hna
    rw [hkw, hevd, h1, h2]
    simp only [Bool.not_false, Bool.true_and]

/-- If some marked parameter has no applicable binding, the call fails — before the wrapped function
    is reached — with an error listing exactly the unfilled parameters in signature order. -/
theorem missing_reported (ev : Val → Val) (c : Cfgable) (cfg : Store) (σ : Scope)
    (args : List Val) (kwargs : AList String Val)
    (hnv : (args.drop (c.sig.args.take args.length).length).any Val.isRequired = false)
    (hd : KwDisjoint c args kwargs)
    (hm : missingSpec c cfg σ args kwargs ≠ []) :
    wrapperCall ev c cfg σ args kwargs =
      .error (.missingRequired (orderBySignature c.sig (missingSpec c cfg σ args kwargs))) := by
  have heq := phaseC_missing_eq ev c cfg σ args kwargs hd
  unfold wrapperCall phaseA
  simp only [hnv, Bool.false_eq_true, if_false, phaseC]
  simp only [] at heq
  rw [heq]
  have : (missingSpec c cfg σ args kwargs).isEmpty = false := by
    cases h : missingSpec c cfg σ args kwargs with
    | nil => exact absurd h hm
    | cons _ _ => rfl
  simp [this]

/-- Conversely, when every marked parameter has an applicable binding, the REQUIRED bookkeeping
    lets the call through. -/
theorem all_filled_passes (ev : Val → Val) (c : Cfgable) (cfg : Store) (σ : Scope)
    (args : List Val) (kwargs : AList String Val)
    (hnv : (args.drop (c.sig.args.take args.length).length).any Val.isRequired = false)
    (hd : KwDisjoint c args kwargs)
    (hm : missingSpec c cfg σ args kwargs = []) :
    ∃ d op, wrapperCall ev c cfg σ args kwargs = .ok (d, op) := by
  have heq := phaseC_missing_eq ev c cfg σ args kwargs hd
  unfold wrapperCall phaseA
  simp only [hnv, Bool.false_eq_true, if_false, phaseC]
  simp only [] at heq
  rw [heq, hm]
  exact ⟨_, _, rfl⟩

theorem substArgs_clean (names : List String) (args : List Val) (kw : AList String Val)
    (hfound : ∀ n ∈ reqNamesOf names args, contains n kw = true)
    (hkw : ∀ kv ∈ kw, kv.2.isRequired = false)
    (hrest : ∀ x ∈ args.drop names.length, x.isRequired = false) :
    ∀ x ∈ substArgs names args kw, x.isRequired = false := by
  induction names generalizing args with
  | nil => simpa [substArgs] using hrest
  | cons n ns ih =>
    cases args with
    | nil => simp [substArgs]
    | cons a as =>
      intro x hx
      simp only [substArgs, List.mem_cons] at hx
      rcases hx with hx | hx
      · by_cases ha : a.isRequired = true
        · simp only [ha, if_true] at hx
          have hn : n ∈ reqNamesOf (n :: ns) (a :: as) := by simp [reqNamesOf, ha]
          have hc := hfound n hn
          simp only [contains] at hc
          cases hl : lookup n kw with
          | none => simp [hl] at hc
          | some v =>
            simp only [hl, Option.getD_some] at hx
            subst hx
            have hm : (n, x) ∈ kw := mem_of_lookup kw n x hl
            exact hkw _ hm
        · simp only [ha, Bool.false_eq_true, if_false] at hx
          subst hx; simpa using ha
      · apply ih as ?_ ?_ x hx
        · intro m hm
          apply hfound
          simp only [reqNamesOf]
          split
          · exact List.mem_cons_of_mem _ hm
          · exact hm
        · simpa using hrest

/-- The REQUIRED marker itself never reaches the wrapped function: on success no delivered
    positional or keyword argument is the marker (bound values are assumed not to evaluate to the
    marker, which is what `%gin.REQUIRED` bindings and the finalize hook of C12 are about). -/
theorem marker_never_delivered (ev : Val → Val) (c : Cfgable) (cfg : Store) (σ : Scope)
    (args : List Val) (kwargs : AList String Val) (d : Delivered) (op : AList String Val)
    (hev : ∀ v, (ev v).isRequired = false) (hkn : (keys kwargs).Nodup)
    (h : wrapperCall ev c cfg σ args kwargs = .ok (d, op)) :
    (∀ x ∈ d.args, x.isRequired = false) ∧ (∀ kv ∈ d.kwargs, kv.2.isRequired = false) := by
  unfold wrapperCall phaseA at h
  by_cases hnv : (args.drop (c.sig.args.take args.length).length).any Val.isRequired = true
  · simp only [hnv, ↓reduceIte] at h; cases h
  · simp only [hnv, Bool.false_eq_true, if_false, phaseC] at h
    split at h
    · cases h
    · rename_i d' hd'
      split at hd'
      · cases hd'
      · rename_i hmiss
        simp only [Except.ok.injEq] at hd' h
        obtain ⟨h1, _⟩ := Prod.mk.inj h
        subst h1; subst hd'
        simp only [Bool.not_eq_true, Bool.not_eq_eq_eq_not, Bool.not_true, List.isEmpty_eq_false_iff,
          ne_eq, Decidable.not_not, List.append_eq_nil_iff] at hmiss
        obtain ⟨⟨hmPos, _⟩, hmKw⟩ := hmiss
        have hevd : ∀ kv ∈ evalKw ev (popAll (getBindings cfg c.selector σ)
            (List.filter (fun n => !(reqNamesOf (c.sig.args.take args.length) args).contains n)
              (c.sig.args.take args.length))), kv.2.isRequired = false := by
          intro kv hkv
          simp only [evalKw, List.mem_map] at hkv
          obtain ⟨kv0, _, rfl⟩ := hkv
          exact hev _
        refine ⟨?_, ?_⟩
        · apply substArgs_clean _ _ _ ?_ hevd ?_
          · intro n hn
            rw [List.filter_eq_nil_iff] at hmPos
            have := hmPos n hn
            simpa using this
          · intro x hx
            rw [Bool.not_eq_true, List.any_eq_false] at hnv
            have := hnv x hx
            simpa using this
        · intro kv hkv
          rcases mem_of_mem_update _ _ kv hkv with hk | hk
          · exact hevd kv ((popAll_sublist _ _).subset hk)
          · -- a caller keyword that survived: it cannot be a marker
            have hin : kv ∈ kwargs := (popAll_sublist _ _).subset hk
            cases hreq : kv.2.isRequired with
            | false => rfl
            | true =>
              exfalso
              have hcr : kv.1 ∈ (kwargs.filter (fun kv => kv.2.isRequired)).map (·.1) :=
                List.mem_map_of_mem (f := (·.1)) (List.mem_filter.2 ⟨hin, hreq⟩)
              rw [List.filter_eq_nil_iff] at hmKw
              have hfound := hmKw kv.1 hcr
              have hpopped : lookup kv.1 (popAll kwargs
                  (List.filter (fun rk => contains rk (popAll (evalKw ev (popAll (getBindings cfg c.selector σ)
                    (List.filter (fun n => !(reqNamesOf (c.sig.args.take args.length) args).contains n)
                      (c.sig.args.take args.length)))) (reqNamesOf (c.sig.args.take args.length) args)))
                    ((kwargs.filter (fun kv => kv.2.isRequired)).map (·.1)))) = none := by
                rw [lookup_popAll _ hkn]
                simp only [List.mem_filter, hcr, true_and]
                rw [if_pos (by
                  cases hc : contains kv.1 (popAll (evalKw ev (popAll (getBindings cfg c.selector σ)
                    (List.filter (fun n => !(reqNamesOf (c.sig.args.take args.length) args).contains n)
                      (c.sig.args.take args.length)))) (reqNamesOf (c.sig.args.take args.length) args)) with
                  | true => rfl
                  | false => rw [hc] at hfound; exact absurd rfl hfound)]
              have hsome := (lookup_isSome_iff kv.1 _).2 (mem_keys_of_mem _ kv.1 kv.2 hk)
              rw [hpopped] at hsome
              simp at hsome

/-- A signature-level REQUIRED on a parameter that is denylisted or not allowlisted is rejected at
    registration: a registration that succeeds has every REQUIRED default configurable. -/
theorem required_sig_validation (st st' : State) (r : State.RegReq) (h : st.register r = .ok st') :
    r.cfgable.requiredKwargsValid = true := by
  have hc := (State.register_ok h).1
  by_cases hv : r.cfgable.requiredKwargsValid = true
  · exact hv
  · exfalso
    have hv' : (!r.cfgable.requiredKwargsValid) = true := by simpa using hv
    unfold State.regCheck at hc
    simp only [hv', if_true] at hc
    repeat (first | (split at hc) | cases hc)

/-! Non-vacuity: a call with a positional marker, one bound and one unbound. -/
def demoC : Cfgable := { selector := ["f"], sig := { pos := [("x", none), ("y", some .required)] } }
def demoCfg : Store := [(([], ["f"]), [("x", .int 7)])]
example : wrapperCall id demoC demoCfg [] [.required] [] =
    .error (.missingRequired ["y"]) := by rfl
example : (wrapperCall id demoC demoCfg [] [.required] [("y", .int 1)]).toOption.map (·.1) =
    some { args := [.int 7], kwargs := [("y", .int 1)] } := by rfl

end Gin.C10
