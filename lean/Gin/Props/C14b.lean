/-
C14 (continued) — includes are in-place inclusion, to any nesting depth.
-/
import Gin.Lemmas.Flatten
import Gin.Props.C14

namespace Gin.C14
open Gin

/-- **Parsing a text with includes equals parsing the text obtained by pasting every included file in
    place of its `include` line**, however deeply includes nest: the two runs end in the same state up
    to the bookkeeping of *where* each binding came from (provenance and import records), and they
    fail, if at all, with the same class of error — at the same statement, since everything before it
    was applied in both.  `skip_unknown` is passed down unchanged in both. -/
theorem includes_are_inplace (st : State) (file file' : Option String) (skip : SkipSpec)
    (stmts : List Stmt) :
    (parseConfig st file skip stmts).st.core = (parseConfig st file' skip (flatten stmts)).st.core ∧
    (parseConfig st file skip stmts).failure.map (·.err) =
      (parseConfig st file' skip (flatten stmts)).failure.map (·.err) := by
  have h := flatten_stmts skip stmts st st file file' rfl
  simp only [parseConfig]
  exact ⟨by simpa using h.1, h.2⟩

/-- in particular the bindings, the lock and the registry agree -/
theorem includes_same_config (st : State) (file file' : Option String) (skip : SkipSpec)
    (stmts : List Stmt) :
    (parseConfig st file skip stmts).st.config = (parseConfig st file' skip (flatten stmts)).st.config ∧
    (parseConfig st file skip stmts).st.locked = (parseConfig st file' skip (flatten stmts)).st.locked := by
  have h := core_fields (includes_are_inplace st file file' skip stmts).1
  exact ⟨h.2.1, h.2.2.1⟩

/-- flattening removes every present include and keeps the order of everything else -/
example :
    flatten [.incl "a" (some [.binding [] ["f"] "x" (.lit (.int 1)) 1,
                              .incl "b" (some [.binding [] ["f"] "y" (.lit (.int 2)) 1]) 2,
                              .binding [] ["f"] "x" (.lit (.int 3)) 3]) 1,
             .binding ["s"] ["f"] "x" (.lit (.int 4)) 2] =
      [.binding [] ["f"] "x" (.lit (.int 1)) 1, .binding [] ["f"] "y" (.lit (.int 2)) 1,
       .binding [] ["f"] "x" (.lit (.int 3)) 3, .binding ["s"] ["f"] "x" (.lit (.int 4)) 2] := by
  simp [flatten]

end Gin.C14
