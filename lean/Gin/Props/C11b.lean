/-
C11 under dynamic registration — the parameters a binding may name are fixed by the registration (signature,
allow list, deny list: `World.params`), not by what the files configured before.
-/
import Gin.DynReg
import Gin.Lemmas.AList

namespace Gin.C11b
open Gin Gin.AList Gin.DynReg

/-- A binding that names a parameter outside the configurable's bindable set is refused and changes nothing —
    in every context and after every history (`b`, `c` arbitrary): in particular after a method of the class
    was configured, which registers the class again (D32: the implementation used to forget the lists then). -/
theorem dyn_excluded_param_rejected (w : World) (sk : DSkip) (c : Ctx) (b : Bindings) (sel : List String)
    (arg : String) (v : Int) (o : Nat) (hd : c.dyn = true) (hr : resolve w c sel = .ok o)
    (hx : ((lookup o w.params).getD []).contains arg = false) :
    runStmt w sk c b (.bind sel arg v) = (b, c, some .valueError) := by
  have hx' : ¬ arg ∈ (lookup o w.params).getD [] := by simpa using hx
  simp [runStmt, shouldSkip, known, hd, hr, hx']

/-- Soundness: a binding statement that was accepted and is not a no-op names a bindable parameter of the
    object its selector denotes. -/
theorem dyn_accepted_is_bindable (w : World) (sk : DSkip) (c : Ctx) (b b' : Bindings) (c' : Ctx)
    (sel : List String) (arg : String) (v : Int)
    (h : runStmt w sk c b (.bind sel arg v) = (b', c', none)) (hne : b' ≠ b) :
    ∃ o, resolve w c sel = .ok o ∧ ((lookup o w.params).getD []).contains arg = true ∧ b' = bindObj b o arg v := by
  simp only [runStmt] at h
  split at h
  · simp only [Prod.mk.injEq] at h; exact absurd h.1.symm hne
  · split at h
    · simp at h
    · split at h
      · simp at h
      · rename_i o ho
        split at h
        · rename_i hp
          simp only [Prod.mk.injEq] at h
          exact ⟨o, ho, hp, h.1.symm⟩
        · simp at h

/-- The same for a block header: naming a known configurable never opens its excluded parameters — members are
    ordinary bindings, judged one by one. -/
theorem dyn_block_member_is_binding (w : World) (sk : DSkip) (c : Ctx) (b : Bindings) (sel : List String)
    (arg : String) (v : Int) (o : Nat) (hd : c.dyn = true) (hr : resolve w c sel = .ok o)
    (hx : ((lookup o w.params).getD []).contains arg = false) :
    runStmts w sk c b [.block sel, .bind sel arg v] = (b, some .valueError) := by
  have hx' : ¬ arg ∈ (lookup o w.params).getD [] := by simpa using hx
  simp [runStmts, runStmt, shouldSkip, known, hd, hr, hx']

/-- non-vacuity: class 3 registered with `denylist=['secret']` (signature `secret, lr`) -/
example :
    let w : World := { modules := [(["p"], 1)], attrs := [(1, [("Model", 3)]), (3, [("fit", 4)])],
                       params := [(3, ["lr"]), (4, ["steps"])] }
    let c : Ctx := { dyn := true, symtab := [("p", 1)] }
    runStmts w .no c [] [.bind ["p", "Model", "fit"] "steps" 5, .bind ["p", "Model"] "secret" 9] =
      ([(4, [("steps", 5)])], some .valueError) ∧
    runStmts w .no c [] [.bind ["p", "Model", "fit"] "steps" 5, .bind ["p", "Model"] "lr" 2] =
      ([(4, [("steps", 5)]), (3, [("lr", 2)])], none) := by
  intro w c
  exact ⟨by decide, by decide⟩

end Gin.C11b
