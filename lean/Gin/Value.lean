/-
Python values as far as gin inspects them.

Floats and complex numbers never enter Lean as numbers (only their `repr`), opaque objects are a
harness-assigned id.  References carry what `ConfigurableReference` carries: the scope components,
the *complete* selector of the configurable they resolved to, and the evaluate flag.  `%name`
macros are references to `gin.macro` under scope `name` and are kept as their own constructor
because that is how they print and how they are validated.
-/
import Gin.Basic

namespace Gin

inductive Val where
  | none
  | bool (b : Bool)
  | int (i : Int)
  | float (repr : String) (finite : Bool)
  | complex (repr : String)
  | str (s : String)
  | bytes (hex : String)
  | list (xs : List Val)
  | tuple (xs : List Val)
  | dict (kvs : List (Val × Val))
  | set (xs : List Val)
  /-- `@scope/sel` or `@scope/sel()` resolved to a registered configurable -/
  | ref (scopes : List String) (sel : Sel) (evaluate : Bool)
  /-- `%name` that is not a constant: evaluated reference to `gin.macro` under scope `name` -/
  | macro (name : String)
  /-- `%name` that matched a constant: evaluated reference to `gin.constant` under the full name -/
  | const (name : Sel)
  /-- placeholder for a reference to an unknown configurable (`skip_unknown`) -/
  | unknownRef (sel : String) (evaluate : Bool)
  /-- opaque Python object -/
  | obj (id : Nat)
  /-- the `gin.REQUIRED` sentinel -/
  | required
  /-- what an unevaluated reference delivers: the configurable, run under `scopes` if non-empty -/
  | fn (sel : Sel) (scopes : List String)
  /-- what a probe configurable returns: the `n`-th call of `sel` -/
  | result (sel : Sel) (n : Nat)
deriving Repr, Inhabited, BEq

namespace Val

mutual
  /-- `_is_literally_representable` for the values of the model: `repr` parses back to an equal
      value.  (Assumption recorded in DESIGN §4: `repr`/`parse_value` of plain literals is a round
      trip; checked by the C06 correspondence on every generated value.) -/
  def representable : Val → Bool
    | .none | .bool _ | .int _ | .str _ | .bytes _ => true
    | .float _ fin => fin
    | .list xs | .tuple xs => representableL xs
    | .dict kvs => representableD kvs
    | .ref _ _ _ | .macro _ | .const _ => true
    | _ => false
  def representableL : List Val → Bool
    | [] => true
    | x :: xs => representable x && representableL xs
  def representableD : List (Val × Val) → Bool
    | [] => true
    | (k, v) :: rest => representable k && representable v && representableD rest
end

def isRequired : Val → Bool
  | .required => true
  | _ => false

end Val
end Gin
