/-
Mirror of `gin/config_parser.py` on Python's token stream.

The tokenizer (`tokenize.generate_tokens`) and `ast.literal_eval` of a *single* token are CPython's:
each token arrives with its kind, text, position, physical line and — for NAME / NUMBER / STRING —
the value `ast.literal_eval` gives its text (`atom`) and, for NUMBER, the value of `'-' + text`
(`neg`).  A tokenizer error is the pseudo token `tokerr` at the point where `next()` raises.
-/
import Gin.Value

namespace Gin.Parser

inductive TKind where
  | name | number | string | op | newline | nl | comment | indent | dedent | endmarker | errortoken
  | tokerr
deriving Repr, DecidableEq, Inhabited

structure Token where
  kind : TKind
  str : String := ""
  srow : Nat := 0
  scol : Nat := 0
  ecol : Nat := 0
  line : String := ""
  atom : Option Val := none
  neg : Option Val := none
deriving Repr, Inhabited

/-- what the parser produces for a value: literals plus the two delegate call-backs -/
inductive PVal where
  | lit (v : Val)
  | list (xs : List PVal)
  | tuple (xs : List PVal)
  | dict (kvs : List (PVal × PVal))
  | ref (name : String) (evaluate : Bool)
  | macroRef (name : String)
deriving Repr, Inhabited

inductive PErr where
  | syntax (msg : String)
  | tokenizer
deriving Repr, Inhabited

abbrev P (α : Type) := Except PErr α

def isOp (t : Token) (s : String) : Bool := t.kind == .op && t.str == s
def cur (ts : List Token) : Token := ts.headD { kind := .endmarker }

/-- `_advance_one_token`: next token, skipping the ERRORTOKENs made of blanks -/
def advOne : List Token → P (List Token)
  | [] => .ok []
  | _ :: rest =>
    let rec drop : List Token → P (List Token)
      | [] => .ok []
      | t :: more =>
        if t.kind == .tokerr then .error .tokenizer
        else if t.kind == .errortoken && (t.str == " " || t.str == "\t") then drop more
        else .ok (t :: more)
    drop rest

def skippable (blk : Bool) (t : Token) : Bool :=
  t.kind == .comment || t.kind == .nl || (!blk && (t.kind == .indent || t.kind == .dedent))

/-- `_skip(kinds)` -/
def skipWhile (p : Token → Bool) : Nat → List Token → P (List Token)
  | 0, ts => .ok ts
  | n + 1, ts =>
    match ts with
    | [] => .ok []
    | t :: _ => if p t then (match advOne ts with
        | .ok ts' => skipWhile p n ts'
        | .error e => .error e) else .ok ts

/-- `_skip_whitespace_and_comments` -/
def skipWs (blk : Bool) (ts : List Token) : P (List Token) := skipWhile (skippable blk) ts.length ts

/-- `_advance` -/
def adv (blk : Bool) (ts : List Token) : P (List Token) :=
  match advOne ts with
  | .ok ts' => skipWs blk ts'
  | .error e => .error e

def isBasic (t : Token) : Bool := t.kind == .name || t.kind == .number || t.kind == .string

/-- concatenation of two adjacent string literal values (`'a' 'b'`), an error when `str` and
    `bytes` are mixed (what `ast.literal_eval` of the pieces separated by a blank gives) -/
def concatAtoms : Val → Val → Option Val
  | .str a, .str b => some (.str (a ++ b))
  | .bytes a, .bytes b => some (.bytes (a ++ b))
  | _, _ => none

/-- the loop of `_maybe_parse_basic_type` over adjacent STRING tokens -/
def moreStrings (blk : Bool) : Nat → Val → List Token → P (Val × List Token)
  | 0, v, ts => .ok (v, ts)
  | n + 1, v, ts =>
    if (cur ts).kind == .string then
      match (cur ts).atom with
      | none => .error (.syntax "Failed to parse token")
      | some a => match concatAtoms v a with
        | none => .error (.syntax "Failed to parse token")
        | some v' => match adv blk ts with
          | .ok ts' => moreStrings blk n v' ts'
          | .error e => .error e
    else .ok (v, ts)

/-- `_maybe_parse_basic_type`; `none` = "not a basic type here" -/
def parseBasic (blk : Bool) (ts : List Token) : P (Option (Val × List Token)) :=
  if isOp (cur ts) "-" then
    match adv blk ts with
    | .error e => .error e
    | .ok ts1 =>
      if !isBasic (cur ts1) then .error (.syntax "Unable to parse value.")
      else match (cur ts1).neg with
        | none => .error (.syntax "Failed to parse token")
        | some v => match adv blk ts1 with
          | .error e => .error e
          | .ok ts2 => .ok (some (v, ts2))
  else if !isBasic (cur ts) then .ok none
  else match (cur ts).atom with
    | none => .error (.syntax "Failed to parse token")
    | some v =>
      let wasString := (cur ts).kind == .string
      match adv blk ts with
      | .error e => .error e
      | .ok ts1 =>
        if wasString then
          match moreStrings blk ts1.length v ts1 with
          | .ok (v', ts2) => .ok (some (v', ts2))
          | .error e => .error e
        else .ok (some (v, ts1))

/-- the characters of `line[begin:end]` -/
def sliceLine (line : String) (b e : Nat) : String :=
  String.ofList ((line.toList.drop b).take (e - b))

def isIdentStr (s : String) : Bool := isIdent s
def isModuleStr (s : String) : Bool := isSelector (splitChar s '.')

/-- the final check of `_parse_selector` (395-413): the consumed tokens must be contiguous in the
    physical line (`raw` is `line[begin:end]`), every scope an identifier (or dotted name when
    periods are allowed), the last part a dotted name, and scopes present only when allowed -/
def checkSelector (sel raw : String) (allowScopes periodsInScope : Bool) : Bool :=
  let scopeParts := splitChar sel '/'
  let scopesOk := (scopeParts.dropLast).all (fun s => if periodsInScope then isModuleStr s else isIdentStr s)
  let lastOk := isModuleStr (scopeParts.getLastD "")
  let shapeOk := allowScopes || scopeParts.length == 1
  raw == sel && scopesOk && lastOk && shapeOk

/-- `_parse_selector`: an alternating run of NAME and `/` `.` tokens that must be contiguous in the
    physical line and well formed -/
def parseSelector (blk : Bool) (allowScopes : Bool) (periodsInScope : Bool) (ts : List Token) :
    P (String × List Token) :=
  if (cur ts).kind != .name then .error (.syntax "Unexpected token.") else
  let first := cur ts
  let rec go : Nat → Bool → List String → Nat → List Token → P (List String × Nat × List Token)
    | 0, _, parts, e, ts => .ok (parts, e, ts)
    | n + 1, wantName, parts, e, ts =>
      let t := cur ts
      if (wantName && t.kind == .name) || (!wantName && t.kind == .op && (t.str == "/" || t.str == ".")) then
        match advOne ts with
        | .error err => .error err
        | .ok ts' => go n (!wantName) (parts ++ [t.str]) t.ecol ts'
      else .ok (parts, e, ts)
  match go ts.length true [] first.ecol ts with
  | .error e => .error e
  | .ok (parts, endCol, ts1) =>
    match skipWs blk ts1 with
    | .error e => .error e
    | .ok ts2 =>
      let sel := String.join parts
      let raw := sliceLine first.line first.scol endCol
      if !checkSelector sel raw allowScopes periodsInScope then .error (.syntax "Malformatted scope or selector.")
      else .ok (sel, ts2)

mutual
  /-- `parse_value` -/
  def parseValue (blk : Bool) : Nat → List Token → P (PVal × List Token)
    | 0, _ => .error (.syntax "fuel")
    | n + 1, ts =>
      let t := cur ts
      if isOp t "[" then
        match adv blk ts with
        | .error e => .error e
        | .ok ts1 => match parseItems blk n "]" ts1 with
          | .error e => .error e
          | .ok (xs, _, rest) => .ok (.list xs, rest)
      else if isOp t "(" then
        match adv blk ts with
        | .error e => .error e
        | .ok ts1 => match parseItems blk n ")" ts1 with
          | .error e => .error e
          | .ok ([x], false, rest) => .ok (x, rest)
          | .ok (xs, _, rest) => .ok (.tuple xs, rest)
      else if isOp t "{" then
        match adv blk ts with
        | .error e => .error e
        | .ok ts1 => match parseDictItems blk n ts1 with
          | .error e => .error e
          | .ok (kvs, rest) => .ok (.dict kvs, rest)
      else
        match parseBasic blk ts with
        | .error e => .error e
        | .ok (some (v, rest)) => .ok (.lit v, rest)
        | .ok none =>
          if isOp t "@" then
            match advOne ts with
            | .error e => .error e
            | .ok ts1 => match parseSelector blk true true ts1 with
              | .error e => .error e
              | .ok (name, ts2) =>
                if isOp (cur ts2) "(" then
                  match adv blk ts2 with
                  | .error e => .error e
                  | .ok ts3 =>
                    if !isOp (cur ts3) ")" then .error (.syntax "Expected ')'.")
                    else match advOne ts3 with
                      | .error e => .error e
                      | .ok ts4 => match skipWs blk ts4 with
                        | .error e => .error e
                        | .ok ts5 => .ok (.ref name true, ts5)
                else match skipWs blk ts2 with
                  | .error e => .error e
                  | .ok ts3 => .ok (.ref name false, ts3)
          else if isOp t "%" then
            match advOne ts with
            | .error e => .error e
            | .ok ts1 => match parseSelector blk true true ts1 with
              | .error e => .error e
              | .ok (name, ts2) => .ok (.macroRef name, ts2)
          else .error (.syntax "Unable to parse value.")
  /-- the item loop of `_maybe_parse_container` for `[` and `(`; returns the items, whether a comma
      was seen, and the tokens after the closing bracket (trivia skipped) -/
  def parseItems (blk : Bool) : Nat → String → List Token → P (List PVal × Bool × List Token)
    | 0, _, _ => .error (.syntax "fuel")
    | n + 1, close, ts =>
      if isOp (cur ts) close then
        match adv blk ts with
        | .error e => .error e
        | .ok rest => .ok ([], false, rest)
      else
        match parseValue blk n ts with
        | .error e => .error e
        | .ok (v, ts1) =>
          if isOp (cur ts1) "," then
            match adv blk ts1 with
            | .error e => .error e
            | .ok ts2 => match parseItems blk n close ts2 with
              | .error e => .error e
              | .ok (vs, _, rest) => .ok (v :: vs, true, rest)
          else if isOp (cur ts1) close then
            match adv blk ts1 with
            | .error e => .error e
            | .ok rest => .ok ([v], false, rest)
          else .error (.syntax "Expected ',' or closing bracket.")
  def parseDictItems (blk : Bool) : Nat → List Token → P (List (PVal × PVal) × List Token)
    | 0, _ => .error (.syntax "fuel")
    | n + 1, ts =>
      if isOp (cur ts) "}" then
        match adv blk ts with
        | .error e => .error e
        | .ok rest => .ok ([], rest)
      else
        match parseValue blk n ts with
        | .error e => .error e
        | .ok (k, ts1) =>
          if !isOp (cur ts1) ":" then .error (.syntax "Expected ':'.")
          else match adv blk ts1 with
            | .error e => .error e
            | .ok ts2 => match parseValue blk n ts2 with
              | .error e => .error e
              | .ok (v, ts3) =>
                if isOp (cur ts3) "," then
                  match adv blk ts3 with
                  | .error e => .error e
                  | .ok ts4 => match parseDictItems blk n ts4 with
                    | .error e => .error e
                    | .ok (kvs, rest) => .ok ((k, v) :: kvs, rest)
                else if isOp (cur ts3) "}" then
                  match adv blk ts3 with
                  | .error e => .error e
                  | .ok rest => .ok ([(k, v)], rest)
                else .error (.syntax "Expected ',' or '}'.")
end

/-! ### statements -/

/-- what `expect_end_of_input` skips after the value of `gin.config.parse_value` -/
def endSkippable (t : Token) : Bool :=
  t.kind == .newline || t.kind == .nl || t.kind == .comment || t.kind == .indent || t.kind == .dedent

/-- `gin.config.parse_value(text)`: one value, then nothing but blank lines and comments -/
def parseSingleValue (n : Nat) (ts : List Token) : P PVal :=
  match parseValue false n ts with
  | .error e => .error e
  | .ok (v, rest) =>
    match skipWhile endSkippable rest.length rest with
    | .error e => .error e
    | .ok rest' =>
      if (cur rest').kind == .endmarker then .ok v else .error (.syntax "Expected end of input.")

inductive PStmt where
  | binding (scope selector arg : String) (v : PVal) (line : Nat)
  | block (scope selector : String) (line : Nat)
  | imp (module : String) (isFrom : Bool) (alias : Option String) (line : Nat)
  | incl (file : String) (line : Nat)
deriving Repr, Inhabited

/-- `parse_scoped_selector` -/
def splitScoped (s : String) : String × String :=
  let parts := splitChar s '/'
  ("/".intercalate parts.dropLast, parts.getLastD "")

/-- `parse_binding_key` -/
def splitKey (s : String) : String × String × String :=
  let (scope, sel) := splitScoped s
  let parts := splitChar sel '.'
  if parts.length ≤ 1 then (scope, sel, "")
  else (scope, ".".intercalate parts.dropLast, parts.getLastD "")

def isEnd (t : Token) : Bool := t.kind == .newline || t.kind == .dedent || t.kind == .endmarker

/-- `_expect` for an operator string / a token kind -/
def expectOp (s : String) (ts : List Token) : P (List Token) :=
  if (cur ts).str == s then advOne ts else .error (.syntax ("Expected " ++ s))
def expectKind (k : TKind) (ts : List Token) : P (List Token) :=
  if (cur ts).kind == k then advOne ts else .error (.syntax "Expected token kind")

/-- `_parse_identifier` -/
def parseIdentifier (blk : Bool) (ts : List Token) : P (String × List Token) :=
  if !isIdentStr (cur ts).str then .error (.syntax "Invalid identifier name.")
  else match adv blk ts with
    | .ok ts' => .ok ((cur ts).str, ts')
    | .error e => .error e

/-- the member loop of `_parse_binding_block` -/
def blockMembers (scope sel : String) : Nat → List Token → List PStmt → P (List PStmt × List Token)
  | 0, ts, acc => .ok (acc, ts)
  | n + 1, ts, acc =>
    if (cur ts).kind == .dedent then .ok (acc, ts)
    else
      let line := (cur ts).srow
      match parseIdentifier true ts with
      | .error e => .error e
      | .ok (arg, ts1) => match expectOp "=" ts1 with
        | .error e => .error e
        | .ok ts2 => match parseValue true (3 * ts2.length + 3) ts2 with
          | .error e => .error e
          | .ok (v, ts3) => match expectKind .newline ts3 with
            | .error e => .error e
            | .ok ts4 => match skipWs true ts4 with
              | .error e => .error e
              | .ok ts5 => blockMembers scope sel n ts5 (acc ++ [.binding scope sel arg v line])

/-- the end-of-statement check of `parse_statement` (258-267): anything but NEWLINE / DEDENT /
    ENDMARKER after the statement is a syntax error -/
def finishStmt (stmts : List PStmt) (ts : List Token) : P (Option (List PStmt × List Token × Bool)) :=
  if !isEnd (cur ts) then .error (.syntax "Expected newline.")
  else .ok (some (stmts, ts, (cur ts).kind != .endmarker))

/-- one call of `parse_statement` after the queue is empty: the statements it produces (a block
    yields its declaration followed by its members) and the remaining tokens; `none` at EOF.
    `pending` = the deferred advance of the previous statement. -/
def parseStatement (pending : Bool) (ts : List Token) : P (Option (List PStmt × List Token × Bool)) :=
  match (if pending then advOne ts else .ok ts) with
  | .error e => .error e
  | .ok ts0 =>
  match skipWs false ts0 with
  | .error e => .error e
  | .ok ts1 =>
    if (cur ts1).kind == .endmarker || ts1.isEmpty then .ok none else
    let line := (cur ts1).srow
    match parseSelector false true false ts1 with
    | .error e => .error e
    | .ok (key, ts2) =>
      let finish := finishStmt
      if (cur ts2).str == "=" && (cur ts2).kind == .op then
        match advOne ts2 with
        | .error e => .error e
        | .ok ts3 => match parseValue false (3 * ts3.length + 3) ts3 with
          | .error e => .error e
          | .ok (v, ts4) =>
            let (scope, sel, arg) := splitKey key
            finish [.binding scope sel arg v line] ts4
      else if (cur ts2).str == ":" && (cur ts2).kind == .op then
        match advOne ts2 with
        | .error e => .error e
        | .ok ts3 => match skipWhile (fun t => t.kind == .comment) ts3.length ts3 with
          | .error e => .error e
          | .ok ts4 => match expectKind .newline ts4 with
            | .error e => .error e
            | .ok ts5 => match skipWhile (fun t => t.kind == .comment || t.kind == .nl) ts5.length ts5 with
              | .error e => .error e
              | .ok ts6 => match expectKind .indent ts6 with
                | .error e => .error e
                | .ok ts7 => match skipWhile (fun t => t.kind == .comment || t.kind == .nl) ts7.length ts7 with
                  | .error e => .error e
                  | .ok ts8 =>
                    let (scope, sel) := splitScoped key
                    match blockMembers scope sel ts8.length ts8 [] with
                    | .error e => .error e
                    | .ok (members, ts9) => finish (.block scope sel line :: members) ts9
      else if key == "import" || key == "from" then
        match parseSelector false false false ts2 with
        | .error e => .error e
        | .ok (mod, ts3) =>
          let afterFrom : P (String × List Token) :=
            if key == "from" then
              match expectOp "import" ts3 with
              | .error e => .error e
              | .ok ts4 => match parseIdentifier false ts4 with
                | .error e => .error e
                | .ok (sub, ts5) => .ok (mod ++ "." ++ sub, ts5)
            else .ok (mod, ts3)
          match afterFrom with
          | .error e => .error e
          | .ok (module, ts6) =>
            if (cur ts6).str == "as" then
              match advOne ts6 with
              | .error e => .error e
              | .ok ts7 => match parseIdentifier false ts7 with
                | .error e => .error e
                | .ok (alias, ts8) => finish [.imp module (key == "from") (some alias) line] ts8
            else finish [.imp module (key == "from") none line] ts6
      else if key == "include" then
        match parseBasic false ts2 with
        | .error e => .error e
        | .ok (some (.str f, ts3)) => finish [.incl f line] ts3
        | .ok _ => .error (.syntax "Expected file path as string.")
      else .error (.syntax "Couldn't parse statement, expected ':' or '='.")

/-- all statements of a text, in order, or the first error together with what was produced before -/
def parseAll : Nat → Bool → List Token → List PStmt → List PStmt × Option PErr
  | 0, _, _, acc => (acc, some (.syntax "fuel"))
  | n + 1, pending, ts, acc =>
    match parseStatement pending ts with
    | .error e => (acc, some e)
    | .ok none => (acc, none)
    | .ok (some (stmts, ts', pending')) => parseAll n pending' ts' (acc ++ stmts)

end Gin.Parser
