/-
The attribute-lookup protocol of the exception proxy (`gin/utils.py` 21-44).

An exception object is modelled by what Python's attribute lookup sees: the values of the data
descriptors of its type (`args`, and for some classes `errno`, `filename`, `value`, `name`, …) and
its instance `__dict__`.  `getattr` looks at data descriptors first, then the instance dict, then
falls back to `__getattr__`.
-/
import Gin.Value

namespace Gin.ExcProxy

structure Exc where
  slots : AList String Val   -- data-descriptor backed attributes of the class
  dict : AList String Val    -- instance dictionary
deriving Inhabited

/-- ordinary attribute read on the original exception -/
def getattr (e : Exc) (a : String) : Option Val :=
  (AList.lookup a e.slots).orElse (fun _ => AList.lookup a e.dict)

/-- The construction that only defines `__getattr__`: the proxy instance has its *own* (default)
    slot values — created by calling the class with no arguments — and `__getattr__` is consulted
    only when normal lookup fails. -/
def proxyFallback (orig : Exc) (ownDefaults : AList String Val) (a : String) : Option Val :=
  (AList.lookup a ownDefaults).orElse (fun _ => getattr orig a)

/-- The forwarding construction: every public attribute read is answered by the original. -/
def proxyForward (orig : Exc) (a : String) : Option Val := getattr orig a

end Gin.ExcProxy
