/- Lemmas about association lists (Python dicts). -/
import Gin.Basic

namespace Gin.AList
variable {κ α : Type} [DecidableEq κ]

theorem lookup_set (k x : κ) (v : α) (l : AList κ α) :
    lookup x (set k v l) = if x = k then some v else lookup x l := by
  induction l with
  | nil =>
    simp only [set, lookup]
    by_cases h : k = x
    · subst h; simp
    · have : ¬ x = k := fun e => h e.symm
      simp [h, this]
  | cons y rest ih =>
    obtain ⟨k', v'⟩ := y
    simp only [set]
    by_cases h : k' = k
    · subst h
      simp only [if_true, lookup]
      by_cases h2 : k' = x
      · subst h2; simp
      · have : ¬ x = k' := fun e => h2 e.symm
        simp [h2, this]
    · simp only [h, if_false, lookup]
      by_cases h2 : k' = x
      · subst h2; simp [h]
      · simp [h2, ih]

theorem keys_set (k : κ) (v : α) (l : AList κ α) :
    keys (set k v l) = if k ∈ keys l then keys l else keys l ++ [k] := by
  induction l with
  | nil => simp [set, keys]
  | cons y rest ih =>
    obtain ⟨k', v'⟩ := y
    simp only [set]
    by_cases h : k' = k
    · subst h; simp [keys]
    · have h' : ¬ k = k' := fun e => h e.symm
      simp only [h, if_false, keys, List.map_cons, List.mem_cons, h', false_or]
      have := ih
      simp only [keys] at this
      rw [this]
      by_cases hm : k ∈ List.map (fun x => x.fst) rest <;> simp [hm]

theorem mem_keys_set (k x : κ) (v : α) (l : AList κ α) :
    x ∈ keys (set k v l) ↔ x = k ∨ x ∈ keys l := by
  rw [keys_set]
  by_cases h : k ∈ keys l
  · simp only [h, if_true]
    constructor
    · intro hx; exact Or.inr hx
    · rintro (e | hx)
      · subst e; exact h
      · exact hx
  · simp only [h, if_false, List.mem_append, List.mem_singleton]
    constructor
    · rintro (hx | e); exact Or.inr hx; exact Or.inl e
    · rintro (e | hx); exact Or.inr e; exact Or.inl hx

theorem nodup_keys_set (k : κ) (v : α) (l : AList κ α) (h : (keys l).Nodup) :
    (keys (set k v l)).Nodup := by
  rw [keys_set]
  by_cases hm : k ∈ keys l
  · simpa [hm] using h
  · simp only [hm, if_false]
    rw [List.nodup_append]
    refine ⟨h, by simp, ?_⟩
    intro a ha b hb
    simp at hb; subst hb
    intro e; subst e; exact hm ha

theorem lookup_none_of_not_mem (k : κ) (l : AList κ α) (h : k ∉ keys l) : lookup k l = none := by
  induction l with
  | nil => rfl
  | cons y rest ih =>
    obtain ⟨k', v'⟩ := y
    simp only [keys, List.map_cons, List.mem_cons, not_or] at h
    have h1 : ¬ k' = k := fun e => h.1 e.symm
    simp only [lookup, h1, if_false]
    exact ih h.2

theorem lookup_isSome_iff (k : κ) (l : AList κ α) : (lookup k l).isSome ↔ k ∈ keys l := by
  induction l with
  | nil => simp [lookup, keys]
  | cons y rest ih =>
    obtain ⟨k', v'⟩ := y
    simp only [lookup, keys, List.map_cons, List.mem_cons]
    by_cases h : k' = k
    · subst h; simp
    · have h' : ¬ k = k' := fun e => h e.symm
      simp only [h, if_false, h', false_or]
      exact ih

theorem contains_iff (k : κ) (l : AList κ α) : contains k l = true ↔ k ∈ keys l := by
  simp [contains, lookup_isSome_iff]

theorem lookup_erase (k x : κ) (l : AList κ α) (hn : (keys l).Nodup) :
    lookup x (erase k l) = if x = k then none else lookup x l := by
  induction l with
  | nil => simp [erase, lookup]
  | cons y rest ih =>
    obtain ⟨k', v'⟩ := y
    simp only [keys, List.map_cons, List.nodup_cons] at hn
    simp only [erase]
    by_cases h : k' = k
    · subst h
      simp only [if_true, lookup]
      by_cases h2 : x = k'
      · subst h2; simp [lookup_none_of_not_mem x rest hn.1]
      · have : ¬ k' = x := fun e => h2 e.symm
        simp [h2, this]
    · simp only [h, if_false, lookup]
      by_cases h2 : k' = x
      · subst h2; simp [h]
      · simp [h2, ih hn.2]

theorem keys_erase_sublist (k : κ) (l : AList κ α) : (keys (erase k l)).Sublist (keys l) := by
  induction l with
  | nil => simp [erase, keys]
  | cons y rest ih =>
    obtain ⟨k', v'⟩ := y
    simp only [erase]
    by_cases h : k' = k
    · subst h; simp [keys]
    · simp only [h, if_false, keys, List.map_cons]
      exact List.Sublist.cons_cons _ ih

theorem nodup_keys_erase (k : κ) (l : AList κ α) (h : (keys l).Nodup) :
    (keys (erase k l)).Nodup := List.Sublist.nodup (keys_erase_sublist k l) h

theorem mem_keys_erase (k x : κ) (l : AList κ α) (hn : (keys l).Nodup) :
    x ∈ keys (erase k l) ↔ x ≠ k ∧ x ∈ keys l := by
  rw [← lookup_isSome_iff, ← lookup_isSome_iff, lookup_erase k x l hn]
  by_cases h : x = k <;> simp [h]

end Gin.AList
