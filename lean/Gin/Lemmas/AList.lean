/- Lemmas about association lists (Python dicts). -/
import Gin.Basic

namespace Gin.AList
variable {κ α : Type} [DecidableEq κ]

theorem lookup_set (k x : κ) (v : α) (l : AList κ α) :
    lookup x (set k v l) = if x = k then some v else lookup x l := by
  induction l with
  | nil =>
    simp only [set, lookup]
    by_cases h : k = x
    · subst h; simp
    · have : ¬ x = k := fun e => h e.symm
      simp [h, this]
  | cons y rest ih =>
    obtain ⟨k', v'⟩ := y
    simp only [set]
    by_cases h : k' = k
    · subst h
      simp only [if_true, lookup]
      by_cases h2 : k' = x
      · subst h2; simp
      · have : ¬ x = k' := fun e => h2 e.symm
        simp [h2, this]
    · simp only [h, if_false, lookup]
      by_cases h2 : k' = x
      · subst h2; simp [h]
      · simp [h2, ih]

theorem keys_set (k : κ) (v : α) (l : AList κ α) :
    keys (set k v l) = if k ∈ keys l then keys l else keys l ++ [k] := by
  induction l with
  | nil => simp [set, keys]
  | cons y rest ih =>
    obtain ⟨k', v'⟩ := y
    simp only [set]
    by_cases h : k' = k
    · subst h; simp [keys]
    · have h' : ¬ k = k' := fun e => h e.symm
      simp only [h, if_false, keys, List.map_cons, List.mem_cons, h', false_or]
      have := ih
      simp only [keys] at this
      rw [this]
      by_cases hm : k ∈ List.map (fun x => x.fst) rest <;> simp [hm]

theorem mem_keys_set (k x : κ) (v : α) (l : AList κ α) :
    x ∈ keys (set k v l) ↔ x = k ∨ x ∈ keys l := by
  rw [keys_set]
  by_cases h : k ∈ keys l
  · simp only [h, if_true]
    constructor
    · intro hx; exact Or.inr hx
    · rintro (e | hx)
      · subst e; exact h
      · exact hx
  · simp only [h, if_false, List.mem_append, List.mem_singleton]
    constructor
    · rintro (hx | e); exact Or.inr hx; exact Or.inl e
    · rintro (e | hx); exact Or.inr e; exact Or.inl hx

theorem nodup_keys_set (k : κ) (v : α) (l : AList κ α) (h : (keys l).Nodup) :
    (keys (set k v l)).Nodup := by
  rw [keys_set]
  by_cases hm : k ∈ keys l
  · simpa [hm] using h
  · simp only [hm, if_false]
    rw [List.nodup_append]
    refine ⟨h, by simp, ?_⟩
    intro a ha b hb
    simp at hb; subst hb
    intro e; subst e; exact hm ha

theorem lookup_none_of_not_mem (k : κ) (l : AList κ α) (h : k ∉ keys l) : lookup k l = none := by
  induction l with
  | nil => rfl
  | cons y rest ih =>
    obtain ⟨k', v'⟩ := y
    simp only [keys, List.map_cons, List.mem_cons, not_or] at h
    have h1 : ¬ k' = k := fun e => h.1 e.symm
    simp only [lookup, h1, if_false]
    exact ih h.2

theorem lookup_isSome_iff (k : κ) (l : AList κ α) : (lookup k l).isSome ↔ k ∈ keys l := by
  induction l with
  | nil => simp [lookup, keys]
  | cons y rest ih =>
    obtain ⟨k', v'⟩ := y
    simp only [lookup, keys, List.map_cons, List.mem_cons]
    by_cases h : k' = k
    · subst h; simp
    · have h' : ¬ k = k' := fun e => h e.symm
      simp only [h, if_false, h', false_or]
      exact ih

theorem contains_iff (k : κ) (l : AList κ α) : contains k l = true ↔ k ∈ keys l := by
  simp [contains, lookup_isSome_iff]

theorem lookup_erase (k x : κ) (l : AList κ α) (hn : (keys l).Nodup) :
    lookup x (erase k l) = if x = k then none else lookup x l := by
  induction l with
  | nil => simp [erase, lookup]
  | cons y rest ih =>
    obtain ⟨k', v'⟩ := y
    simp only [keys, List.map_cons, List.nodup_cons] at hn
    simp only [erase]
    by_cases h : k' = k
    · subst h
      simp only [if_true, lookup]
      by_cases h2 : x = k'
      · subst h2; simp [lookup_none_of_not_mem x rest hn.1]
      · have : ¬ k' = x := fun e => h2 e.symm
        simp [h2, this]
    · simp only [h, if_false, lookup]
      by_cases h2 : k' = x
      · subst h2; simp [h]
      · simp [h2, ih hn.2]

theorem keys_erase_sublist (k : κ) (l : AList κ α) : (keys (erase k l)).Sublist (keys l) := by
  induction l with
  | nil => simp [erase, keys]
  | cons y rest ih =>
    obtain ⟨k', v'⟩ := y
    simp only [erase]
    by_cases h : k' = k
    · subst h; simp [keys]
    · simp only [h, if_false, keys, List.map_cons]
      exact List.Sublist.cons_cons _ ih

theorem nodup_keys_erase (k : κ) (l : AList κ α) (h : (keys l).Nodup) :
    (keys (erase k l)).Nodup := List.Sublist.nodup (keys_erase_sublist k l) h

theorem mem_keys_erase (k x : κ) (l : AList κ α) (hn : (keys l).Nodup) :
    x ∈ keys (erase k l) ↔ x ≠ k ∧ x ∈ keys l := by
  rw [← lookup_isSome_iff, ← lookup_isSome_iff, lookup_erase k x l hn]
  by_cases h : x = k <;> simp [h]

end Gin.AList

namespace Gin.AList
variable {κ α : Type} [DecidableEq κ]

theorem lookup_update (d e : AList κ α) (x : κ) :
    lookup x (update d e) = (lookup x e.reverse).orElse (fun _ => lookup x d) := by
  unfold update
  induction e generalizing d with
  | nil => simp [lookup]
  | cons y rest ih =>
    obtain ⟨k, v⟩ := y
    simp only [List.foldl_cons, ih, lookup_set, List.reverse_cons]
    -- lookup in `rest.reverse ++ [(k, v)]`
    have happ : ∀ (l : AList κ α), lookup x (l ++ [(k, v)]) =
        (lookup x l).orElse (fun _ => if k = x then some v else none) := by
      intro l
      induction l with
      | nil => simp [lookup]
      | cons z l ihl =>
        obtain ⟨k', v'⟩ := z
        simp only [List.cons_append, lookup]
        by_cases h : k' = x
        · simp [h]
        · simp [h, ihl]
    rw [happ]
    cases lookup x rest.reverse with
    | some w => simp
    | none =>
      by_cases h : x = k
      · subst h; simp
      · have : ¬ k = x := fun e => h e.symm
        simp [h, this]

theorem nodup_keys_update (d e : AList κ α) (h : (keys d).Nodup) : (keys (update d e)).Nodup := by
  unfold update
  induction e generalizing d with
  | nil => simpa using h
  | cons y rest ih => exact ih _ (nodup_keys_set y.1 y.2 d h)

theorem mem_keys_update (d e : AList κ α) (x : κ) :
    x ∈ keys (update d e) ↔ x ∈ keys d ∨ x ∈ keys e := by
  unfold update
  induction e generalizing d with
  | nil => simp [keys]
  | cons y rest ih =>
    rw [List.foldl_cons, ih, mem_keys_set]
    have : x ∈ keys (y :: rest) ↔ x = y.1 ∨ x ∈ keys rest := by simp [keys]
    rw [this]
    constructor
    · rintro ((h | h) | h)
      · exact Or.inr (Or.inl h)
      · exact Or.inl h
      · exact Or.inr (Or.inr h)
    · rintro (h | h | h)
      · exact Or.inl (Or.inr h)
      · exact Or.inl (Or.inl h)
      · exact Or.inr h

theorem nodup_keys_update_nil (e : AList κ α) : (keys (update [] e)).Nodup :=
  nodup_keys_update [] e (by simp [keys])

end Gin.AList

namespace Gin.AList
variable {κ α : Type} [DecidableEq κ]

theorem lookup_append (l₁ l₂ : AList κ α) (x : κ) :
    lookup x (l₁ ++ l₂) = (lookup x l₁).orElse (fun _ => lookup x l₂) := by
  induction l₁ with
  | nil => simp [lookup]
  | cons z l ih =>
    obtain ⟨k', v'⟩ := z
    simp only [List.cons_append, lookup]
    by_cases h : k' = x
    · simp [h]
    · simp [h, ih]

theorem lookup_reverse (l : AList κ α) (h : (keys l).Nodup) (x : κ) :
    lookup x l.reverse = lookup x l := by
  induction l with
  | nil => rfl
  | cons y rest ih =>
    obtain ⟨k, v⟩ := y
    simp only [keys, List.map_cons, List.nodup_cons] at h
    rw [List.reverse_cons, lookup_append, ih h.2]
    simp only [lookup]
    by_cases hk : k = x
    · subst hk
      rw [lookup_none_of_not_mem k rest h.1]; simp
    · simp only [hk, if_false]
      cases lookup x rest <;> simp

theorem lookup_update' (d e : AList κ α) (h : (keys e).Nodup) (x : κ) :
    lookup x (update d e) = (lookup x e).orElse (fun _ => lookup x d) := by
  rw [lookup_update, lookup_reverse e h]

theorem lookup_map_val {β : Type} (f : α → β) (l : AList κ α) (x : κ) :
    lookup x (l.map (fun kv => (kv.1, f kv.2))) = (lookup x l).map f := by
  induction l with
  | nil => rfl
  | cons y rest ih =>
    obtain ⟨k, v⟩ := y
    simp only [List.map_cons, lookup]
    by_cases h : k = x <;> simp [h, ih]

theorem keys_map_val {β : Type} (f : α → β) (l : AList κ α) :
    keys (l.map (fun kv => (kv.1, f kv.2))) = keys l := by
  simp [keys, List.map_map, Function.comp_def]

end Gin.AList

namespace Gin.AList
variable {κ α : Type} [DecidableEq κ]

theorem mem_of_mem_set (k : κ) (v : α) (l : AList κ α) (x : κ × α) (h : x ∈ set k v l) :
    x = (k, v) ∨ x ∈ l := by
  induction l with
  | nil => simp [set] at h; exact Or.inl h
  | cons y rest ih =>
    obtain ⟨k', v'⟩ := y
    simp only [set] at h
    by_cases hk : k' = k
    · subst hk
      simp only [if_true, List.mem_cons] at h
      rcases h with h | h
      · exact Or.inl h
      · exact Or.inr (List.mem_cons_of_mem _ h)
    · simp only [hk, if_false, List.mem_cons] at h
      rcases h with h | h
      · exact Or.inr (by simp [h])
      · rcases ih h with h | h
        · exact Or.inl h
        · exact Or.inr (List.mem_cons_of_mem _ h)

theorem mem_of_mem_update (d e : AList κ α) (x : κ × α) (h : x ∈ update d e) : x ∈ d ∨ x ∈ e := by
  unfold update at h
  induction e generalizing d with
  | nil => exact Or.inl h
  | cons y rest ih =>
    rw [List.foldl_cons] at h
    rcases ih _ h with h | h
    · rcases mem_of_mem_set y.1 y.2 d x h with h | h
      · right; rw [h]; simp
      · exact Or.inl h
    · exact Or.inr (List.mem_cons_of_mem _ h)

theorem erase_sublist (k : κ) (l : AList κ α) : (erase k l).Sublist l := by
  induction l with
  | nil => simp [erase]
  | cons y rest ih =>
    obtain ⟨k', v'⟩ := y
    simp only [erase]
    by_cases h : k' = k
    · simp [h]
    · simp only [h, if_false]; exact List.Sublist.cons_cons _ ih

theorem mem_keys_of_mem (l : AList κ α) (k : κ) (v : α) (h : (k, v) ∈ l) : k ∈ keys l :=
  List.mem_map_of_mem (f := (·.1)) h

end Gin.AList

namespace Gin.AList
variable {κ α : Type} [DecidableEq κ]

theorem mem_of_lookup (l : AList κ α) (k : κ) (v : α) (h : lookup k l = some v) : (k, v) ∈ l := by
  induction l with
  | nil => simp [lookup] at h
  | cons y rest ih =>
    obtain ⟨k', v'⟩ := y
    simp only [lookup] at h
    by_cases hk : k' = k
    · simp only [hk, if_true, Option.some.injEq] at h; subst h; simp [hk]
    · simp only [hk, if_false] at h; exact List.mem_cons_of_mem _ (ih h)

end Gin.AList

namespace Gin.AList
variable {κ α : Type} [DecidableEq κ]

theorem keys_filter_sublist (f : κ × α → Bool) (l : AList κ α) :
    (keys (l.filter f)).Sublist (keys l) :=
  List.Sublist.map _ List.filter_sublist

theorem lookup_filter (f : κ × α → Bool) (l : AList κ α) (h : (keys l).Nodup) (x : κ) :
    lookup x (l.filter f) = (lookup x l).filter (fun v => f (x, v)) := by
  induction l with
  | nil => rfl
  | cons y rest ih =>
    obtain ⟨k, v⟩ := y
    simp only [keys, List.map_cons, List.nodup_cons] at h
    by_cases hk : k = x
    · subst hk
      by_cases hf : f (k, v) = true
      · simp [List.filter, hf, lookup, Option.filter]
      · have hf' : f (k, v) = false := by simpa using hf
        simp only [List.filter, hf', lookup, if_true, Option.filter_some, Bool.false_eq_true, if_false]
        have hnone := lookup_none_of_not_mem k rest h.1
        have := ih h.2
        simp only [hnone, Option.filter_none] at this
        exact this
    · by_cases hf : f (k, v) = true
      · simp [List.filter, hf, lookup, hk, ih h.2]
      · have hf' : f (k, v) = false := by simpa using hf
        simp [List.filter, hf', lookup, hk, ih h.2]

end Gin.AList
