/- Lemmas about `getBindings`, `popAll` and the no-REQUIRED path of the wrapper. -/
import Gin.Call
import Gin.Lemmas.AList

namespace Gin
open AList

/-- every parameter dict in the store has distinct keys (an invariant of `setParam`) -/
def Store.WF (cfg : Store) : Prop := ∀ key d, (key, d) ∈ cfg → (keys d).Nodup

theorem Store.params_nodup (cfg : Store) (h : cfg.WF) (π : Scope) (sel : Sel) :
    (keys (cfg.params π sel)).Nodup := by
  unfold Store.params
  cases hl : lookup (π, sel) cfg with
  | none => simp [keys]
  | some d =>
    simp only [Option.getD_some]
    have hm : ((π, sel), d) ∈ cfg := by
      clear h
      induction cfg with
      | nil => simp [lookup] at hl
      | cons y rest ih =>
        obtain ⟨k, v⟩ := y
        simp only [lookup] at hl
        by_cases hk : k = (π, sel)
        · simp only [hk, if_true, Option.some.injEq] at hl; subst hl; simp [hk]
        · simp only [hk, if_false] at hl; exact List.mem_cons_of_mem _ (ih hl)
    exact h _ _ hm

theorem foldl_update_lookup (l : List Scope) (f : Scope → AList String Val)
    (hf : ∀ π, (keys (f π)).Nodup) (acc : AList String Val) (p : String) :
    lookup p (l.foldl (fun acc π => update acc (f π)) acc) =
      (l.reverse.findSome? (fun π => lookup p (f π))).orElse (fun _ => lookup p acc) := by
  induction l generalizing acc with
  | nil => simp
  | cons a l ih =>
    rw [List.foldl_cons, ih, List.reverse_cons, List.findSome?_append, lookup_update' _ _ (hf a)]
    cases List.findSome? (fun π => lookup p (f π)) l.reverse with
    | some v => simp
    | none =>
      simp only [Option.none_or, List.findSome?_cons, List.findSome?_nil, Option.orElse_none]
      cases lookup p (f a) <;> simp

theorem mem_prefixes (σ π : Scope) : π ∈ prefixes σ ↔ π <+: σ := by
  unfold prefixes
  simp only [List.mem_map, List.mem_range]
  constructor
  · rintro ⟨i, _, rfl⟩; exact List.take_prefix i σ
  · intro h
    refine ⟨π.length, ?_, ?_⟩
    · have := h.length_le; omega
    · exact (List.prefix_iff_eq_take.1 h).symm

theorem foldl_congr_mem {β γ : Type} (l : List β) (f g : γ → β → γ) (acc : γ)
    (h : ∀ a x, x ∈ l → f a x = g a x) : l.foldl f acc = l.foldl g acc := by
  induction l generalizing acc with
  | nil => rfl
  | cons y rest ih =>
    simp only [List.foldl_cons]
    rw [h acc y (by simp)]
    exact ih _ (fun a x hx => h a x (by simp [hx]))

theorem nodup_keys_foldl_update (l : List Scope) (f : Scope → AList String Val)
    (acc : AList String Val) (h : (keys acc).Nodup) :
    (keys (l.foldl (fun acc π => update acc (f π)) acc)).Nodup := by
  induction l generalizing acc with
  | nil => exact h
  | cons a l ih => exact ih _ (nodup_keys_update _ _ h)

theorem getBindings_nodup (cfg : Store) (sel : Sel) (σ : Scope) :
    (keys (getBindings cfg sel σ)).Nodup :=
  nodup_keys_foldl_update _ _ _ (by simp [keys])

/-! ### popAll -/

theorem lookup_popAll (d : AList String Val) (hd : (keys d).Nodup) (names : List String) (p : String) :
    lookup p (popAll d names) = if p ∈ names then none else lookup p d := by
  unfold popAll
  induction names generalizing d with
  | nil => simp
  | cons n names ih =>
    rw [List.foldl_cons, ih _ (nodup_keys_erase n d hd), lookup_erase n p d hd]
    by_cases h1 : p ∈ names
    · simp [h1]
    · by_cases h2 : p = n
      · simp [h2]
      · simp [h1, h2]

theorem nodup_keys_popAll (d : AList String Val) (hd : (keys d).Nodup) (names : List String) :
    (keys (popAll d names)).Nodup := by
  unfold popAll
  induction names generalizing d with
  | nil => simpa using hd
  | cons n names ih => exact ih _ (nodup_keys_erase n d hd)

end Gin

namespace Gin

theorem prefixes_last (π : Scope) : prefixes π = (prefixes π).dropLast ++ [π] := by
  unfold prefixes
  rw [List.range_succ, List.map_append]
  simp

theorem prefixes_append (π τ : Scope) :
    prefixes (π ++ τ) = prefixes π ++ ((prefixes τ).tail.map (fun t => π ++ t)) := by
  unfold prefixes
  have hlen : (π ++ τ).length + 1 = (π.length + 1) + τ.length := by simp; omega
  rw [hlen, List.range_add, List.map_append]
  congr 1
  · apply List.map_congr_left
    intro i hi
    simp only [List.mem_range] at hi
    exact List.take_append_of_le_length (by omega)
  · rw [List.range_succ_eq_map]
    simp only [List.map_cons, List.tail_cons, List.map_map]
    apply List.map_congr_left
    intro j _
    simp only [Function.comp, List.take_append]
    have h1 : List.take (π.length + 1 + j) π = π := List.take_of_length_le (by omega)
    have h2 : π.length + 1 + j - π.length = j + 1 := by omega
    rw [h1, h2]

end Gin

namespace Gin
open AList

theorem popAll_sublist (d : AList String Val) (names : List String) : (popAll d names).Sublist d := by
  unfold popAll
  induction names generalizing d with
  | nil => simp
  | cons n names ih => exact (ih _).trans (erase_sublist n d)

end Gin
