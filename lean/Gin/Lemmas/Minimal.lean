/-
What the `minimal_selector` loop computes, in terms of the nodes on the reversed path.
-/
import Gin.Lemmas.Trie

namespace Gin.Tree

/-! ### `len` and the terminals below a node -/

theorem terms_of_len_one_child (tm : Option Sel) (ks : List (String × Tree)) (c : String) (sub : Tree)
    (hl : len (.node tm ks) = 1) (hc : child ks c = some sub) :
    terms (.node tm ks) = terms sub := by
  cases ks with
  | nil => simp [child] at hc
  | cons x rest =>
    obtain ⟨c', t'⟩ := x
    cases tm with
    | some s => simp [len] at hl
    | none =>
      have hr : rest = [] := by
        simp only [len, List.length_cons, Option.isSome_none, Bool.false_eq_true, if_false] at hl
        exact List.eq_nil_of_length_eq_zero (by omega)
      subst hr
      simp only [child] at hc
      split at hc
      · cases hc
        rw [terms_node]; simp
      · simp [child] at hc

theorem terms_of_len_le_one_term (s : Sel) (ks : List (String × Tree))
    (hl : len (.node (some s) ks) ≤ 1) : terms (.node (some s) ks) = [s] := by
  have : ks = [] := by
    simp only [len, Option.isSome_some, if_true] at hl
    exact List.eq_nil_of_length_eq_zero (by omega)
  subst this
  rw [terms_node]; simp

theorem two_le_terms_of_two_le_len (t : Tree) (h : WF t) (hl : 2 ≤ len t) : 2 ≤ (terms t).length := by
  cases t with
  | node tm ks =>
    rw [terms_node]
    cases ks with
    | nil => cases tm <;> simp [len] at hl
    | cons x rest =>
      obtain ⟨c, sub⟩ := x
      have h1 : terms sub ≠ [] := h.live (c := c) (sub := sub) (by simp)
      have h1' : 1 ≤ (terms sub).length := by
        cases hts : terms sub with
        | nil => exact absurd hts h1
        | cons _ _ => simp
      cases tm with
      | some s =>
        simp only [Option.toList_some, List.flatMap_cons, List.length_append, List.length_cons,
          List.length_nil]
        omega
      | none =>
        cases rest with
        | nil => simp [len] at hl
        | cons y rest' =>
          obtain ⟨c2, sub2⟩ := y
          have h2 : terms sub2 ≠ [] := h.live (c := c2) (sub := sub2) (by simp)
          have h2' : 1 ≤ (terms sub2).length := by
            cases hts : terms sub2 with
            | nil => exact absurd hts h2
            | cons _ _ => simp
          simp only [Option.toList_none, List.nil_append, List.flatMap_cons, List.length_append]
          omega

theorem terms_sub_of_child (tm : Option Sel) (ks : List (String × Tree)) (c : String) (sub : Tree)
    (hc : child ks c = some sub) (x : Sel) (hx : x ∈ terms sub) : x ∈ terms (.node tm ks) := by
  rw [terms_node, List.mem_append, List.mem_flatMap]
  exact Or.inr ⟨(c, sub), child_some_mem ks c sub hc, hx⟩

theorem terms_sub_of_get (t : Tree) (q : List String) (n : Tree) (hg : get t q = some n)
    (x : Sel) (hx : x ∈ terms n) : x ∈ terms t := by
  induction q generalizing t with
  | nil => simp [get] at hg; subst hg; exact hx
  | cons c q ih =>
    cases t with
    | node tm ks =>
      simp only [get] at hg
      cases hc : child ks c with
      | none => simp [hc] at hg
      | some sub =>
        simp only [hc] at hg
        exact terms_sub_of_child tm ks c sub hc x (ih sub hg)

theorem get_append (t : Tree) (q p : List String) :
    get t (q ++ p) = (get t q).bind (fun n => get n p) := by
  induction q generalizing t with
  | nil => simp [get]
  | cons c q ih =>
    cases t with
    | node tm ks =>
      simp only [List.cons_append, get]
      cases hc : child ks c with
      | none => simp
      | some sub => simp [ih]

/-! ### runs of single-entry nodes -/

/-- every node from `t` along `p`, the last one excluded, has exactly one entry -/
def AllOne : Tree → List String → Prop
  | _, [] => True
  | .node tm ks, c :: p => len (.node tm ks) = 1 ∧ ∃ sub, child ks c = some sub ∧ AllOne sub p

theorem terms_of_allOne (t : Tree) (p : List String) (last : Tree) (ha : AllOne t p)
    (hg : get t p = some last) : terms t = terms last := by
  induction p generalizing t with
  | nil => simp [get] at hg; subst hg; rfl
  | cons c p ih =>
    cases t with
    | node tm ks =>
      obtain ⟨hl, sub, hc, hs⟩ := ha
      simp only [get, hc] at hg
      rw [terms_of_len_one_child tm ks c sub hl hc]
      exact ih sub hs hg

/-- What the loop returns, for a counter that is already positive (the first step is separate). -/
theorem minLoop_spec (p : List String) : ∀ (t : Tree) (i : Nat) (start : Option Nat) (last : Tree)
    (st' : Option Nat), 1 ≤ i → minLoop t p i start = some (last, st') →
    get t p = some last ∧
    (match st' with
     | some a => (start = some a ∧ AllOne t p) ∨
         (∃ d, d < p.length ∧ a = i + d ∧ (∃ n, get t (p.take d) = some n ∧ AllOne n (p.drop d)) ∧
           (d = 0 → start = none) ∧ (0 < d → ∃ n', get t (p.take (d - 1)) = some n' ∧ len n' ≠ 1))
     | none => (p = [] ∧ start = none) ∨
         (p ≠ [] ∧ ∃ n', get t (p.take (p.length - 1)) = some n' ∧ len n' ≠ 1)) := by
  induction p with
  | nil =>
    intro t i start last st' _ h
    simp only [minLoop, Option.some.injEq, Prod.mk.injEq] at h
    obtain ⟨rfl, rfl⟩ := h
    refine ⟨rfl, ?_⟩
    cases start with
    | some a => exact Or.inl ⟨rfl, trivial⟩
    | none => exact Or.inl ⟨rfl, rfl⟩
  | cons c p ih =>
    intro t i start last st' hi h
    cases t with
    | node tm ks =>
      simp only [minLoop] at h
      cases hc : child ks c with
      | none => simp [hc] at h
      | some sub =>
        simp only [hc] at h
        have hi0 : i ≠ 0 := by omega
        obtain ⟨hget, hrest⟩ := ih sub (i + 1) _ last st' (by omega) h
        refine ⟨by simp [get, hc, hget], ?_⟩
        by_cases hl : len (.node tm ks) = 1
        · -- the node has a single entry: a run continues or starts here
          simp only [hi0, ne_eq, not_false_eq_true, hl, and_self, if_true] at hrest
          cases st' with
          | some a =>
            simp only at hrest ⊢
            rcases hrest with ⟨hs, hall⟩ | ⟨d, hd, ha, ⟨n, hn, hno⟩, hd0, hdp⟩
            · cases start with
              | some s0 =>
                simp only [Option.some.injEq] at hs
                subst hs
                exact Or.inl ⟨rfl, hl, sub, hc, hall⟩
              | none =>
                simp only [Option.some.injEq] at hs
                subst hs
                refine Or.inr ⟨0, by simp, by simp, ⟨.node tm ks, by simp [get], ?_⟩, fun _ => rfl, ?_⟩
                · exact ⟨hl, sub, hc, hall⟩
                · intro h0; exact absurd h0 (by omega)
            · refine Or.inr ⟨d + 1, by simp; omega, by omega, ⟨n, by simp [get, hc, hn], by simpa using hno⟩, ?_, ?_⟩
              · intro h0; exact absurd h0 (by omega)
              · intro _
                by_cases hd' : d = 0
                · subst hd'
                  have := hd0 rfl
                  cases start <;> simp at this
                · obtain ⟨n', hn', hln'⟩ := hdp (by omega)
                  refine ⟨n', ?_, hln'⟩
                  have : d + 1 - 1 = (d - 1) + 1 := by omega
                  rw [this]
                  simp [get, hc, hn']
          | none =>
            simp only at hrest ⊢
            rcases hrest with ⟨_, hs⟩ | ⟨hne, n', hn', hln'⟩
            · cases start <;> simp at hs
            · refine Or.inr ⟨by simp, n', ?_, hln'⟩
              have : (c :: p).length - 1 = (p.length - 1) + 1 := by
                have : p.length ≠ 0 := by
                  intro e; exact hne (List.eq_nil_of_length_eq_zero e)
                simp; omega
              rw [this]
              simp [get, hc, hn']
        · -- more (or fewer) than one entry: any run is broken here
          simp only [hl, and_false, if_false] at hrest
          cases st' with
          | some a =>
            simp only at hrest ⊢
            rcases hrest with ⟨hs, _⟩ | ⟨d, hd, ha, ⟨n, hn, hno⟩, hd0, hdp⟩
            · cases hs
            · refine Or.inr ⟨d + 1, by simp; omega, by omega, ⟨n, by simp [get, hc, hn], by simpa using hno⟩, ?_, ?_⟩
              · intro h0; exact absurd h0 (by omega)
              · intro _
                by_cases hd' : d = 0
                · subst hd'
                  exact ⟨.node tm ks, by simp [get], hl⟩
                · obtain ⟨n', hn', hln'⟩ := hdp (by omega)
                  refine ⟨n', ?_, hln'⟩
                  have : d + 1 - 1 = (d - 1) + 1 := by omega
                  rw [this]
                  simp [get, hc, hn']
          | none =>
            simp only at hrest ⊢
            rcases hrest with ⟨hp, _⟩ | ⟨hne, n', hn', hln'⟩
            · subst hp
              exact Or.inr ⟨by simp, .node tm ks, by simp [get], hl⟩
            · refine Or.inr ⟨by simp, n', ?_, hln'⟩
              have : (c :: p).length - 1 = (p.length - 1) + 1 := by
                have : p.length ≠ 0 := by
                  intro e; exact hne (List.eq_nil_of_length_eq_zero e)
                simp; omega
              rw [this]
              simp [get, hc, hn']

end Gin.Tree
