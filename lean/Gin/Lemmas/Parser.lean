/-
Completeness of the value parser on rendered literals (lists, tuples, parenthesised values, atoms,
with NL / COMMENT trivia anywhere inside brackets and optional trailing commas).
-/
import Gin.Parser

namespace Gin.Parser

variable (blk : Bool)

/-- tokens a well-formed rendering is made of -/
def good (t : Token) : Bool := t.kind != .tokerr && t.kind != .errortoken

def Clean (ts : List Token) : Prop := ∀ t ∈ ts, good t = true

theorem advOne_cons (t : Token) (ts : List Token) (h : Clean ts) : advOne (t :: ts) = .ok ts := by
  cases ts with
  | nil => simp [advOne, advOne.drop]
  | cons x rest =>
    have hx := h x (by simp)
    simp only [good, Bool.and_eq_true, bne_iff_ne, ne_eq] at hx
    have h1 : (x.kind == TKind.tokerr) = false := by simpa using hx.1
    have h2 : (x.kind == TKind.errortoken) = false := by simpa using hx.2
    simp [advOne, advOne.drop, h1, h2]

/-- trivia skipped outside blocks -/
def dropTriv (blk : Bool) (ts : List Token) : List Token := ts.dropWhile (skippable blk)

theorem Clean.tail {t : Token} {ts : List Token} (h : Clean (t :: ts)) : Clean ts :=
  fun x hx => h x (List.mem_cons_of_mem _ hx)

theorem skipWhile_clean (p : Token → Bool) (n : Nat) (ts : List Token) (hc : Clean ts)
    (hn : ts.length ≤ n) : skipWhile p n ts = .ok (ts.dropWhile p) := by
  induction n generalizing ts with
  | zero =>
    cases ts with
    | nil => simp [skipWhile]
    | cons t rest => simp at hn
  | succ n ih =>
    cases ts with
    | nil => simp [skipWhile]
    | cons t rest =>
      simp only [skipWhile]
      by_cases hp : p t = true
      · simp only [hp, if_true, advOne_cons t rest hc.tail, List.dropWhile_cons_of_pos]
        exact ih rest hc.tail (by simp at hn; omega)
      · simp [hp]

theorem skipWs_clean (ts : List Token) (hc : Clean ts) : skipWs blk ts = .ok (dropTriv blk ts) :=
  skipWhile_clean _ _ ts hc (Nat.le_refl _)

theorem clean_dropWhile (p : Token → Bool) (ts : List Token) (hc : Clean ts) : Clean (ts.dropWhile p) :=
  fun x hx => hc x ((List.dropWhile_sublist p).subset hx)

theorem adv_clean (t : Token) (ts : List Token) (hc : Clean ts) :
    adv blk (t :: ts) = .ok (dropTriv blk ts) := by
  simp [adv, advOne_cons t ts hc, skipWs_clean blk ts hc]

/-! ### the rendered grammar -/

def opTok (s : String) : Token := { kind := .op, str := s }
def nlTok : Token := { kind := .nl }
def commentTok : Token := { kind := .comment, str := "# c" }
/-- a basic-type token carrying the value `ast.literal_eval` gives it (NUMBER-like: never continued
    by an adjacent string) -/
def atomTok (v : Val) : Token := { kind := .number, str := "atom", atom := some v }

/-- a NUMBER token after a minus sign: `ast.literal_eval('-' + text)` is `v` -/
def negTok (v : Val) : Token := { kind := .number, str := "num", neg := some v }
/-- a STRING token whose literal value is `s` -/
def strTok (s : String) : Token := { kind := .string, str := "str", atom := some (.str s) }

/-- a run of trivia: `true` = comment, `false` = line break inside brackets -/
def triv : List Bool → List Token
  | [] => []
  | true :: r => commentTok :: triv r
  | false :: r => nlTok :: triv r

theorem triv_clean (l : List Bool) : Clean (triv l) := by
  induction l with
  | nil => intro t ht; simp [triv] at ht
  | cons b r ih =>
    intro t ht
    cases b <;> simp only [triv, List.mem_cons] at ht <;> rcases ht with rfl | ht
    · rfl
    · exact ih t ht
    · rfl
    · exact ih t ht

theorem dropTriv_triv (l : List Bool) (ts : List Token) : dropTriv blk (triv l ++ ts) = dropTriv blk ts := by
  induction l with
  | nil => simp [triv]
  | cons b r ih =>
    cases b <;> simp only [triv, List.cons_append, dropTriv] <;>
      rw [List.dropWhile_cons_of_pos (by rfl)] <;> exact ih

/-- a literal with every layout choice inside it -/
inductive L where
  | atom (v : Val) (after : List Bool)
  | list (open_ : List Bool) (items : List (L × List Bool)) (final : Option L) (after : List Bool)
  | tuple0 (open_ : List Bool) (after : List Bool)
  | tuple (open_ : List Bool) (first : L) (n1 : List Bool) (items : List (L × List Bool))
      (final : Option L) (after : List Bool)
  | paren (open_ : List Bool) (x : L) (after : List Bool)
  /-- `- 3`: a minus sign, then a number -/
  | natom (j1 : List Bool) (v : Val) (after : List Bool)
  /-- adjacent string literals `'a' 'b' …` (line breaks / comments between them inside brackets) -/
  | strs (s0 : String) (j0 : List Bool) (more : List (String × List Bool))
  /-- `{k: v, …}` with trivia after the opener, every colon, every comma and the closer -/
  | dict (open_ : List Bool) (entries : List (L × List Bool × L × List Bool))
      (final : Option (L × List Bool × L)) (after : List Bool)

def joinStrs : List (String × List Bool) → String
  | [] => ""
  | (s, _) :: rest => s ++ joinStrs rest

def renderStrs : List (String × List Bool) → List Token
  | [] => []
  | (s, j) :: rest => strTok s :: (triv j ++ renderStrs rest)

mutual
  def val : L → PVal
    | .atom v _ => .lit v
    | .list _ items final _ => .list (valItems items ++ valFinal final)
    | .tuple0 _ _ => .tuple []
    | .tuple _ f _ items final _ => .tuple (val f :: (valItems items ++ valFinal final))
    | .paren _ x _ => val x
    | .natom _ v _ => .lit v
    | .strs s0 _ more => .lit (.str (s0 ++ joinStrs more))
    | .dict _ entries final _ => .dict (valEntries entries ++ valDFinal final)
  def valEntries : List (L × List Bool × L × List Bool) → List (PVal × PVal)
    | [] => []
    | (k, _, v, _) :: rest => (val k, val v) :: valEntries rest
  def valDFinal : Option (L × List Bool × L) → List (PVal × PVal)
    | none => []
    | some (k, _, v) => [(val k, val v)]
  def valItems : List (L × List Bool) → List PVal
    | [] => []
    | (l, _) :: rest => val l :: valItems rest
  def valFinal : Option L → List PVal
    | none => []
    | some l => [val l]
end

mutual
  def render : L → List Token
    | .atom v j => atomTok v :: triv j
    | .list j0 items final j =>
        opTok "[" :: (triv j0 ++ (renderItems items ++ (renderFinal final ++ (opTok "]" :: triv j))))
    | .tuple0 j0 j => opTok "(" :: (triv j0 ++ (opTok ")" :: triv j))
    | .tuple j0 f n1 items final j =>
        opTok "(" :: (triv j0 ++ (render f ++ (opTok "," :: (triv n1 ++
          (renderItems items ++ (renderFinal final ++ (opTok ")" :: triv j)))))))
    | .paren j0 x j => opTok "(" :: (triv j0 ++ (render x ++ (opTok ")" :: triv j)))
    | .natom j1 v j => opTok "-" :: (triv j1 ++ (negTok v :: triv j))
    | .strs s0 j0 more => strTok s0 :: (triv j0 ++ renderStrs more)
    | .dict j0 entries final j =>
        opTok "{" :: (triv j0 ++ (renderEntries entries ++ (renderDFinal final ++ (opTok "}" :: triv j))))
  def renderEntries : List (L × List Bool × L × List Bool) → List Token
    | [] => []
    | (k, a, v, b) :: rest =>
        render k ++ (opTok ":" :: (triv a ++ (render v ++ (opTok "," :: (triv b ++ renderEntries rest)))))
  def renderDFinal : Option (L × List Bool × L) → List Token
    | none => []
    | some (k, a, v) => render k ++ (opTok ":" :: (triv a ++ render v))
  def renderItems : List (L × List Bool) → List Token
    | [] => []
    | (l, n) :: rest => render l ++ (opTok "," :: (triv n ++ renderItems rest))
  def renderFinal : Option L → List Token
    | none => []
    | some l => render l
end

mutual
  def size : L → Nat
    | .atom _ _ => 1
    | .list _ items final _ => 2 + sizeItems items + sizeFinal final
    | .tuple0 _ _ => 2
    | .tuple _ f _ items final _ => 3 + size f + sizeItems items + sizeFinal final
    | .paren _ x _ => 3 + size x
    | .natom _ _ _ => 1
    | .strs _ _ _ => 1
    | .dict _ entries final _ => 2 + sizeEntries entries + sizeDFinal final
  def sizeEntries : List (L × List Bool × L × List Bool) → Nat
    | [] => 0
    | (k, _, v, _) :: rest => 1 + size k + size v + sizeEntries rest
  def sizeDFinal : Option (L × List Bool × L) → Nat
    | none => 0
    | some (k, _, v) => 1 + size k + size v
  def sizeItems : List (L × List Bool) → Nat
    | [] => 0
    | (l, _) :: rest => 1 + size l + sizeItems rest
  def sizeFinal : Option L → Nat
    | none => 0
    | some l => 1 + size l
end

end Gin.Parser

namespace Gin.Parser

variable (blk : Bool)

theorem clean_append {a b : List Token} (ha : Clean a) (hb : Clean b) : Clean (a ++ b) := by
  intro t ht
  rcases List.mem_append.1 ht with h | h
  · exact ha t h
  · exact hb t h

theorem clean_cons {t : Token} {ts : List Token} (ht : good t = true) (h : Clean ts) : Clean (t :: ts) := by
  intro x hx
  rcases List.mem_cons.1 hx with rfl | hx
  · exact ht
  · exact h x hx

theorem renderStrs_clean (more : List (String × List Bool)) : Clean (renderStrs more) := by
  induction more with
  | nil => intro t ht; simp [renderStrs] at ht
  | cons x rest ih =>
    obtain ⟨s, j⟩ := x
    simp only [renderStrs]
    exact clean_cons rfl (clean_append (triv_clean j) ih)

mutual
  theorem render_clean (l : L) : Clean (render l) := by
    match l with
    | .atom v j => exact clean_cons rfl (triv_clean j)
    | .list j0 items final j =>
      simp only [render]
      exact clean_cons rfl (clean_append (triv_clean j0) (clean_append (renderItems_clean items)
        (clean_append (renderFinal_clean final) (clean_cons rfl (triv_clean j)))))
    | .tuple0 j0 j =>
      simp only [render]
      exact clean_cons rfl (clean_append (triv_clean j0) (clean_cons rfl (triv_clean j)))
    | .tuple j0 f n1 items final j =>
      simp only [render]
      exact clean_cons rfl (clean_append (triv_clean j0) (clean_append (render_clean f)
        (clean_cons rfl (clean_append (triv_clean n1) (clean_append (renderItems_clean items)
          (clean_append (renderFinal_clean final) (clean_cons rfl (triv_clean j))))))))
    | .paren j0 x j =>
      simp only [render]
      exact clean_cons rfl (clean_append (triv_clean j0) (clean_append (render_clean x)
        (clean_cons rfl (triv_clean j))))
    | .natom j1 v j =>
      simp only [render]
      exact clean_cons rfl (clean_append (triv_clean j1) (clean_cons rfl (triv_clean j)))
    | .strs s0 j0 more =>
      simp only [render]
      exact clean_cons rfl (clean_append (triv_clean j0) (renderStrs_clean more))
    | .dict j0 entries final j =>
      simp only [render]
      exact clean_cons rfl (clean_append (triv_clean j0) (clean_append (renderEntries_clean entries)
        (clean_append (renderDFinal_clean final) (clean_cons rfl (triv_clean j)))))
  theorem renderEntries_clean (entries : List (L × List Bool × L × List Bool)) : Clean (renderEntries entries) := by
    match entries with
    | [] => intro t ht; simp [renderEntries] at ht
    | (k, a, v, b) :: rest =>
      simp only [renderEntries]
      exact clean_append (render_clean k) (clean_cons rfl (clean_append (triv_clean a)
        (clean_append (render_clean v) (clean_cons rfl (clean_append (triv_clean b) (renderEntries_clean rest))))))
  theorem renderDFinal_clean (final : Option (L × List Bool × L)) : Clean (renderDFinal final) := by
    match final with
    | none => intro t ht; simp [renderDFinal] at ht
    | some (k, a, v) =>
      simp only [renderDFinal]
      exact clean_append (render_clean k) (clean_cons rfl (clean_append (triv_clean a) (render_clean v)))
  theorem renderItems_clean (items : List (L × List Bool)) : Clean (renderItems items) := by
    match items with
    | [] => intro t ht; simp [renderItems] at ht
    | (l, n) :: rest =>
      simp only [renderItems]
      exact clean_append (render_clean l) (clean_cons rfl (clean_append (triv_clean n) (renderItems_clean rest)))
  theorem renderFinal_clean (final : Option L) : Clean (renderFinal final) := by
    match final with
    | none => intro t ht; simp [renderFinal] at ht
    | some l => simp only [renderFinal]; exact render_clean l
end

/-- a rendering starts with an opener, a minus sign or an atom: never trivia, a closer, a comma or a colon -/
theorem render_head (l : L) : ∃ t ts, render l = t :: ts ∧ skippable blk t = false ∧
    isOp t "]" = false ∧ isOp t ")" = false ∧ isOp t "," = false ∧ isOp t "}" = false ∧
    isOp t ":" = false := by
  cases l <;> simp [render, opTok, atomTok, strTok, skippable, isOp] <;> decide

theorem dropTriv_cons_of_not (t : Token) (ts : List Token) (h : skippable blk t = false) :
    dropTriv blk (t :: ts) = t :: ts := by
  simp [dropTriv, List.dropWhile, h]

theorem dropTriv_render (l : L) (r : List Token) : dropTriv blk (render l ++ r) = render l ++ r := by
  obtain ⟨t, ts, h, hs, _⟩ := render_head blk l
  rw [h]; exact dropTriv_cons_of_not blk _ _ hs

/-- what follows the items of a container: maybe a last item, then the closer -/
def tailToks (final : Option L) (close : String) (j : List Bool) (rest : List Token) : List Token :=
  renderFinal final ++ (opTok close :: (triv j ++ rest))

theorem closer_not_skippable (close : String) : skippable blk (opTok close) = false := by
  simp [skippable, opTok]

theorem dropTriv_items_tail (items : List (L × List Bool)) (final : Option L) (close : String)
    (j : List Bool) (rest : List Token) :
    dropTriv blk (renderItems items ++ tailToks final close j rest) =
      renderItems items ++ tailToks final close j rest := by
  cases items with
  | nil =>
    cases final with
    | none =>
      simp only [renderItems, tailToks, renderFinal, List.nil_append]
      exact dropTriv_cons_of_not blk _ _ (closer_not_skippable blk close)
    | some l => simp only [renderItems, tailToks, renderFinal, List.nil_append]; exact dropTriv_render blk l _
  | cons it rest' =>
    obtain ⟨l, n⟩ := it
    simp only [renderItems, List.append_assoc]; exact dropTriv_render blk l _

theorem tailToks_clean (final : Option L) (close : String) (j : List Bool) (rest : List Token)
    (hr : Clean rest) : Clean (tailToks final close j rest) :=
  clean_append (renderFinal_clean final) (clean_cons rfl (clean_append (triv_clean j) hr))

theorem isOp_opTok (a b : String) : isOp (opTok a) b = (a == b) := by
  simp [isOp, opTok]

end Gin.Parser

namespace Gin.Parser

variable (blk : Bool)

theorem cur_cons (t : Token) (ts : List Token) : cur (t :: ts) = t := rfl

theorem parseValue_atom (n : Nat) (v : Val) (j : List Bool) (rest : List Token) (hr : Clean rest) :
    parseValue blk (n + 1) (atomTok v :: (triv j ++ rest)) = .ok (.lit v, dropTriv blk rest) := by
  have hc : Clean (triv j ++ rest) := clean_append (triv_clean j) hr
  simp only [parseValue, cur_cons]
  have h1 : isOp (atomTok v) "[" = false := by simp [isOp, atomTok]
  have h2 : isOp (atomTok v) "(" = false := by simp [isOp, atomTok]
  have h3 : isOp (atomTok v) "{" = false := by simp [isOp, atomTok]
  have h4 : isOp (atomTok v) "-" = false := by simp [isOp, atomTok]
  simp only [h1, h2, h3, Bool.false_eq_true, if_false, parseBasic, cur_cons, h4]
  have h5 : isBasic (atomTok v) = true := by simp [isBasic, atomTok]
  simp only [h5, Bool.not_true, Bool.false_eq_true, if_false]
  simp [atomTok, adv_clean blk _ _ hc, dropTriv_triv blk]


/-- what follows a value is not another string literal (it would be concatenated) -/
def NoStr (rest : List Token) : Prop := (cur (dropTriv blk rest)).kind ≠ .string

theorem noStr_op (s : String) (r : List Token) : NoStr blk (opTok s :: r) := by
  unfold NoStr
  rw [dropTriv_cons_of_not blk _ _ (closer_not_skippable blk s)]
  simp [cur_cons, opTok]

theorem parseValue_natom (n : Nat) (j1 : List Bool) (v : Val) (j : List Bool) (rest : List Token)
    (hr : Clean rest) :
    parseValue blk (n + 1) (opTok "-" :: (triv j1 ++ (negTok v :: (triv j ++ rest)))) =
      .ok (.lit v, dropTriv blk rest) := by
  have hc2 : Clean (triv j ++ rest) := clean_append (triv_clean j) hr
  have hc1 : Clean (triv j1 ++ (negTok v :: (triv j ++ rest))) :=
    clean_append (triv_clean j1) (clean_cons rfl hc2)
  have hneg : dropTriv blk (negTok v :: (triv j ++ rest)) = negTok v :: (triv j ++ rest) :=
    dropTriv_cons_of_not blk _ _ (by simp [skippable, negTok])
  simp only [parseValue, cur_cons]
  have h1 : isOp (opTok "-") "[" = false := by simp [isOp_opTok]
  have h2 : isOp (opTok "-") "(" = false := by simp [isOp_opTok]
  have h3 : isOp (opTok "-") "{" = false := by simp [isOp_opTok]
  have h4 : isOp (opTok "-") "-" = true := by simp [isOp_opTok]
  simp only [h1, h2, h3, Bool.false_eq_true, if_false, parseBasic, cur_cons, h4, if_true,
    adv_clean blk _ _ hc1, dropTriv_triv blk, hneg]
  have h5 : isBasic (negTok v) = true := by simp [isBasic, negTok]
  simp only [h5, Bool.not_true, Bool.false_eq_true, if_false]
  simp [negTok, adv_clean blk _ _ hc2, dropTriv_triv blk]

theorem length_renderStrs (more : List (String × List Bool)) : more.length ≤ (renderStrs more).length := by
  induction more with
  | nil => simp
  | cons x rest ih => obtain ⟨s, j⟩ := x; simp only [renderStrs, List.length_cons, List.length_append]; omega

theorem dropTriv_renderStrs (more : List (String × List Bool)) (rest : List Token) (hne : more ≠ []) :
    dropTriv blk (renderStrs more ++ rest) = renderStrs more ++ rest := by
  cases more with
  | nil => exact absurd rfl hne
  | cons x r =>
    obtain ⟨s, j⟩ := x
    simp only [renderStrs, List.cons_append]
    exact dropTriv_cons_of_not blk _ _ (by simp [skippable, strTok])

theorem moreStrings_render (more : List (String × List Bool)) (acc : String) (n : Nat)
    (rest : List Token) (hr : Clean rest) (hns : NoStr blk rest) (hn : more.length ≤ n) :
    moreStrings blk n (.str acc) (dropTriv blk (renderStrs more ++ rest)) =
      .ok (.str (acc ++ joinStrs more), dropTriv blk rest) := by
  induction more generalizing acc n with
  | nil =>
    simp only [renderStrs, List.nil_append, joinStrs, String.append_empty]
    cases n with
    | zero => simp [moreStrings]
    | succ n =>
      have : ((cur (dropTriv blk rest)).kind == TKind.string) = false := by
        unfold NoStr at hns; simpa using hns
      simp [moreStrings, this]
  | cons x more ih =>
    obtain ⟨s, j⟩ := x
    cases n with
    | zero => simp at hn
    | succ n =>
      have hcl : Clean (triv j ++ (renderStrs more ++ rest)) :=
        clean_append (triv_clean j) (clean_append (renderStrs_clean more) hr)
      have hd : dropTriv blk (renderStrs ((s, j) :: more) ++ rest) =
          strTok s :: (triv j ++ (renderStrs more ++ rest)) := by
        rw [dropTriv_renderStrs blk _ _ (by simp)]; simp [renderStrs]
      rw [hd]
      simp only [moreStrings, cur_cons]
      have hk : ((strTok s).kind == TKind.string) = true := by simp [strTok]
      simp only [hk, if_true]
      have ha : (strTok s).atom = some (.str s) := rfl
      simp only [ha, concatAtoms, adv_clean blk _ _ hcl, dropTriv_triv blk]
      rw [ih (acc ++ s) n (by simp at hn; omega)]
      simp [joinStrs, String.append_assoc]

theorem parseValue_strs (n : Nat) (s0 : String) (j0 : List Bool) (more : List (String × List Bool))
    (rest : List Token) (hr : Clean rest) (hns : NoStr blk rest) :
    parseValue blk (n + 1) (strTok s0 :: (triv j0 ++ (renderStrs more ++ rest))) =
      .ok (.lit (.str (s0 ++ joinStrs more)), dropTriv blk rest) := by
  have hc : Clean (triv j0 ++ (renderStrs more ++ rest)) :=
    clean_append (triv_clean j0) (clean_append (renderStrs_clean more) hr)
  simp only [parseValue, cur_cons]
  have h1 : isOp (strTok s0) "[" = false := by simp [isOp, strTok]
  have h2 : isOp (strTok s0) "(" = false := by simp [isOp, strTok]
  have h3 : isOp (strTok s0) "{" = false := by simp [isOp, strTok]
  have h4 : isOp (strTok s0) "-" = false := by simp [isOp, strTok]
  simp only [h1, h2, h3, Bool.false_eq_true, if_false, parseBasic, cur_cons, h4]
  have h5 : isBasic (strTok s0) = true := by simp [isBasic, strTok]
  simp only [h5, Bool.not_true, Bool.false_eq_true, if_false]
  have ha : (strTok s0).atom = some (.str s0) := rfl
  have hk : ((strTok s0).kind == TKind.string) = true := by simp [strTok]
  simp only [ha, hk, adv_clean blk _ _ hc, dropTriv_triv blk, if_true]
  have hlen : more.length ≤ (dropTriv blk (renderStrs more ++ rest)).length := by
    cases more with
    | nil => simp
    | cons x r =>
      rw [dropTriv_renderStrs blk _ _ (by simp)]
      have := length_renderStrs (x :: r)
      simp only [List.length_append]; omega
  rw [moreStrings_render blk more s0 _ rest hr hns hlen]

/-- what follows the entries of a dict: maybe a last entry, then the closer -/
def dtail (final : Option (L × List Bool × L)) (j : List Bool) (rest : List Token) : List Token :=
  renderDFinal final ++ (opTok "}" :: (triv j ++ rest))

theorem dtail_clean (final : Option (L × List Bool × L)) (j : List Bool) (rest : List Token)
    (hr : Clean rest) : Clean (dtail final j rest) :=
  clean_append (renderDFinal_clean final) (clean_cons rfl (clean_append (triv_clean j) hr))

theorem dropTriv_entries_tail (entries : List (L × List Bool × L × List Bool))
    (final : Option (L × List Bool × L)) (j : List Bool) (rest : List Token) :
    dropTriv blk (renderEntries entries ++ dtail final j rest) = renderEntries entries ++ dtail final j rest := by
  cases entries with
  | nil =>
    cases final with
    | none =>
      simp only [renderEntries, dtail, renderDFinal, List.nil_append]
      exact dropTriv_cons_of_not blk _ _ (closer_not_skippable blk "}")
    | some e =>
      obtain ⟨k, a, v⟩ := e
      simp only [renderEntries, dtail, renderDFinal, List.nil_append, List.append_assoc]
      exact dropTriv_render blk k _
  | cons e rest' =>
    obtain ⟨k, a, v, b⟩ := e
    simp only [renderEntries, List.append_assoc]; exact dropTriv_render blk k _

mutual
  theorem parse_render (l : L) (n : Nat) (rest : List Token) (hr : Clean rest) (hns : NoStr blk rest)
      (h : size l ≤ n) :
      parseValue blk n (render l ++ rest) = .ok (val l, dropTriv blk rest) := by
    match l, n with
    | .atom v j, n+1 =>
      simp only [render, List.cons_append, List.append_assoc, val]
      exact parseValue_atom blk n v j rest hr
    | .list j0 items final j, n+1 =>
      have hsz : sizeItems items + sizeFinal final + 1 ≤ n := by simp [size] at h; omega
      have hit := parseItems_render items final "]" (Or.inl rfl) n j rest hr hsz
      have hclean : Clean (triv j0 ++ (renderItems items ++ tailToks final "]" j rest)) :=
        clean_append (triv_clean j0) (clean_append (renderItems_clean items) (tailToks_clean final "]" j rest hr))
      simp only [render, List.cons_append, List.append_assoc, val, parseValue, cur_cons]
      have h1 : isOp (opTok "[") "[" = true := by simp [isOp_opTok]
      simp only [h1, if_true]
      rw [show triv j0 ++ (renderItems items ++ (renderFinal final ++ (opTok "]" :: (triv j ++ rest)))) =
            triv j0 ++ (renderItems items ++ tailToks final "]" j rest) from rfl,
          adv_clean blk _ _ hclean, dropTriv_triv blk, dropTriv_items_tail blk]
      simp only [hit]
    | .tuple0 j0 j, n+2 =>
      have hclean : Clean (triv j0 ++ (opTok ")" :: (triv j ++ rest))) :=
        clean_append (triv_clean j0) (clean_cons rfl (clean_append (triv_clean j) hr))
      have hclean2 : Clean (triv j ++ rest) := clean_append (triv_clean j) hr
      simp only [render, List.cons_append, List.append_assoc, val, parseValue, cur_cons]
      have h1 : isOp (opTok "(") "[" = false := by simp [isOp_opTok]
      have h2 : isOp (opTok "(") "(" = true := by simp [isOp_opTok]
      simp only [h1, h2, Bool.false_eq_true, if_false, if_true, adv_clean blk _ _ hclean, dropTriv_triv blk,
        dropTriv_cons_of_not blk _ _ (closer_not_skippable blk ")"), parseItems, cur_cons]
      have h3 : isOp (opTok ")") ")" = true := by simp [isOp_opTok]
      simp only [h3, if_true, adv_clean blk _ _ hclean2, dropTriv_triv blk]
    | .tuple j0 f n1 items final j, n+1 =>
      have hsz : sizeItems ((f, n1) :: items) + sizeFinal final + 1 ≤ n := by
        simp [size] at h; simp [sizeItems]; omega
      have hit := parseItems_render ((f, n1) :: items) final ")" (Or.inr rfl) n j rest hr hsz
      have hclean : Clean (triv j0 ++ (renderItems ((f, n1) :: items) ++ tailToks final ")" j rest)) :=
        clean_append (triv_clean j0) (clean_append (renderItems_clean _) (tailToks_clean final ")" j rest hr))
      simp only [render, List.cons_append, List.append_assoc, val, parseValue, cur_cons]
      have h1 : isOp (opTok "(") "[" = false := by simp [isOp_opTok]
      have h2 : isOp (opTok "(") "(" = true := by simp [isOp_opTok]
      simp only [h1, h2, Bool.false_eq_true, if_false, if_true]
      rw [show triv j0 ++ (render f ++ (opTok "," :: (triv n1 ++ (renderItems items ++
              (renderFinal final ++ (opTok ")" :: (triv j ++ rest))))))) =
            triv j0 ++ (renderItems ((f, n1) :: items) ++ tailToks final ")" j rest) by
              simp [renderItems, tailToks, List.append_assoc],
          adv_clean blk _ _ hclean, dropTriv_triv blk, dropTriv_items_tail blk]
      simp only [hit]
      simp [valItems]
    | .paren j0 x j, n+1 =>
      have hsz : sizeItems [] + sizeFinal (some x) + 1 ≤ n := by
        simp [size] at h; simp [sizeItems, sizeFinal]; omega
      have hit := parseItems_render [] (some x) ")" (Or.inr rfl) n j rest hr hsz
      have hclean : Clean (triv j0 ++ (renderItems [] ++ tailToks (some x) ")" j rest)) :=
        clean_append (triv_clean j0) (clean_append (renderItems_clean _) (tailToks_clean _ ")" j rest hr))
      simp only [render, List.cons_append, List.append_assoc, val, parseValue, cur_cons]
      have h1 : isOp (opTok "(") "[" = false := by simp [isOp_opTok]
      have h2 : isOp (opTok "(") "(" = true := by simp [isOp_opTok]
      simp only [h1, h2, Bool.false_eq_true, if_false, if_true]
      rw [show triv j0 ++ (render x ++ (opTok ")" :: (triv j ++ rest))) =
            triv j0 ++ (renderItems [] ++ tailToks (some x) ")" j rest) by
              simp [renderItems, tailToks, renderFinal],
          adv_clean blk _ _ hclean, dropTriv_triv blk, dropTriv_items_tail blk]
      simp only [hit]
      simp [valItems, valFinal]
    | .natom j1 v j, n+1 =>
      simp only [render, List.cons_append, List.append_assoc, val]
      exact parseValue_natom blk n j1 v j rest hr
    | .strs s0 j0 more, n+1 =>
      simp only [render, List.cons_append, List.append_assoc, val]
      exact parseValue_strs blk n s0 j0 more rest hr hns
    | .dict j0 entries final j, n+1 =>
      have hsz : sizeEntries entries + sizeDFinal final + 1 ≤ n := by simp [size] at h; omega
      have hit := parseDictItems_render entries final n j rest hr hsz
      have hclean : Clean (triv j0 ++ (renderEntries entries ++ dtail final j rest)) :=
        clean_append (triv_clean j0) (clean_append (renderEntries_clean entries) (dtail_clean final j rest hr))
      simp only [render, List.cons_append, List.append_assoc, val, parseValue, cur_cons]
      have h1 : isOp (opTok "{") "[" = false := by simp [isOp_opTok]
      have h2 : isOp (opTok "{") "(" = false := by simp [isOp_opTok]
      have h3 : isOp (opTok "{") "{" = true := by simp [isOp_opTok]
      simp only [h1, h2, h3, Bool.false_eq_true, if_false, if_true]
      rw [show triv j0 ++ (renderEntries entries ++ (renderDFinal final ++ (opTok "}" :: (triv j ++ rest)))) =
            triv j0 ++ (renderEntries entries ++ dtail final j rest) from rfl,
          adv_clean blk _ _ hclean, dropTriv_triv blk, dropTriv_entries_tail blk]
      simp only [hit]
    | .atom .., 0 | .list .., 0 | .tuple0 .., 0 | .tuple0 .., 1 | .tuple .., 0 | .paren .., 0
    | .natom .., 0 | .strs .., 0 | .dict .., 0 =>
      simp [size] at h
  theorem parseItems_render (items : List (L × List Bool)) (final : Option L) (close : String)
      (hc1 : close = "]" ∨ close = ")") (n : Nat) (j : List Bool) (rest : List Token)
      (hr : Clean rest) (h : sizeItems items + sizeFinal final + 1 ≤ n) :
      parseItems blk n close (renderItems items ++ tailToks final close j rest)
        = .ok (valItems items ++ valFinal final, !items.isEmpty, dropTriv blk rest) := by
    match items, final, n with
    | [], none, n+1 =>
      have hclean : Clean (triv j ++ rest) := clean_append (triv_clean j) hr
      simp only [renderItems, tailToks, renderFinal, List.nil_append, parseItems, cur_cons]
      have h1 : isOp (opTok close) close = true := by simp [isOp_opTok]
      simp [h1, adv_clean blk _ _ hclean, dropTriv_triv blk, valItems, valFinal]
    | [], some l, n+1 =>
      obtain ⟨t, ts, hrd, _, hrb, hrp, hcm, _, _⟩ := render_head blk l
      have hne : isOp t close = false := by rcases hc1 with rfl | rfl <;> assumption
      have hl : size l ≤ n := by simp [sizeItems, sizeFinal] at h; omega
      have hclean : Clean (triv j ++ rest) := clean_append (triv_clean j) hr
      have hclean2 : Clean (opTok close :: (triv j ++ rest)) := clean_cons rfl hclean
      have hp := parse_render l n (opTok close :: (triv j ++ rest)) hclean2 (noStr_op blk _ _) hl
      simp only [renderItems, tailToks, renderFinal, List.nil_append]
      rw [hrd] at hp ⊢
      simp only [List.cons_append] at hp ⊢
      simp only [parseItems, cur_cons, hne, Bool.false_eq_true, if_false, hp,
        dropTriv_cons_of_not blk _ _ (closer_not_skippable blk close)]
      have h1 : isOp (opTok close) close = true := by simp [isOp_opTok]
      have h2 : isOp (opTok close) "," = false := by
        rcases hc1 with rfl | rfl <;> simp [isOp_opTok]
      simp [h1, h2, adv_clean blk _ _ hclean, dropTriv_triv blk, valItems, valFinal]
    | (l, k) :: more, final, n+1 =>
      obtain ⟨t, ts, hrd, _, hrb, hrp, hcm, _, _⟩ := render_head blk l
      have hne : isOp t close = false := by rcases hc1 with rfl | rfl <;> assumption
      have hl : size l ≤ n := by simp [sizeItems] at h; omega
      have hm : sizeItems more + sizeFinal final + 1 ≤ n := by simp [sizeItems] at h; omega
      have hcl_tail : Clean (renderItems more ++ tailToks final close j rest) :=
        clean_append (renderItems_clean more) (tailToks_clean final close j rest hr)
      have hcl1 : Clean (triv k ++ (renderItems more ++ tailToks final close j rest)) :=
        clean_append (triv_clean k) hcl_tail
      have hcl2 : Clean (opTok "," :: (triv k ++ (renderItems more ++ tailToks final close j rest))) :=
        clean_cons rfl hcl1
      have hp := parse_render l n (opTok "," :: (triv k ++ (renderItems more ++ tailToks final close j rest))) hcl2 (noStr_op blk _ _) hl
      have hi := parseItems_render more final close hc1 n j rest hr hm
      simp only [renderItems, List.append_assoc]
      rw [hrd] at hp ⊢
      simp only [List.cons_append, List.append_assoc] at hp ⊢
      simp only [parseItems, cur_cons, hne, Bool.false_eq_true, if_false]
      rw [hp, dropTriv_cons_of_not blk _ _ (closer_not_skippable blk ",")]
      have h1 : isOp (opTok ",") "," = true := by simp [isOp_opTok]
      simp only [cur_cons, h1, if_true, adv_clean blk _ _ hcl1, dropTriv_triv blk, dropTriv_items_tail blk, hi]
      simp [valItems]
    | _, _, 0 => omega
  theorem parseDictItems_render (entries : List (L × List Bool × L × List Bool))
      (final : Option (L × List Bool × L)) (n : Nat) (j : List Bool) (rest : List Token)
      (hr : Clean rest) (h : sizeEntries entries + sizeDFinal final + 1 ≤ n) :
      parseDictItems blk n (renderEntries entries ++ dtail final j rest)
        = .ok (valEntries entries ++ valDFinal final, dropTriv blk rest) := by
    match entries, final, n with
    | [], none, n+1 =>
      have hclean : Clean (triv j ++ rest) := clean_append (triv_clean j) hr
      simp only [renderEntries, dtail, renderDFinal, List.nil_append, parseDictItems, cur_cons]
      have h1 : isOp (opTok "}") "}" = true := by simp [isOp_opTok]
      simp [h1, adv_clean blk _ _ hclean, dropTriv_triv blk, valEntries, valDFinal]
    | [], some (k, a, v), n+1 =>
      obtain ⟨t, ts, hrd, _, _, _, _, hcb, _⟩ := render_head blk k
      have hk : size k ≤ n := by simp [sizeEntries, sizeDFinal] at h; omega
      have hv : size v ≤ n := by simp [sizeEntries, sizeDFinal] at h; omega
      have hclean : Clean (triv j ++ rest) := clean_append (triv_clean j) hr
      have hcl3 : Clean (opTok "}" :: (triv j ++ rest)) := clean_cons rfl hclean
      have hcl2 : Clean (triv a ++ (render v ++ (opTok "}" :: (triv j ++ rest)))) :=
        clean_append (triv_clean a) (clean_append (render_clean v) hcl3)
      have hcl1 : Clean (opTok ":" :: (triv a ++ (render v ++ (opTok "}" :: (triv j ++ rest))))) :=
        clean_cons rfl hcl2
      have hpk := parse_render k n _ hcl1 (noStr_op blk _ _) hk
      have hpv := parse_render v n _ hcl3 (noStr_op blk _ _) hv
      simp only [renderEntries, dtail, renderDFinal, List.nil_append, List.append_assoc, List.cons_append]
      rw [hrd] at hpk ⊢
      simp only [List.cons_append] at hpk ⊢
      simp only [parseDictItems, cur_cons, hcb, Bool.false_eq_true, if_false, hpk,
        dropTriv_cons_of_not blk _ _ (closer_not_skippable blk ":")]
      have h1 : isOp (opTok ":") ":" = true := by simp [isOp_opTok]
      simp only [h1, Bool.not_true, Bool.false_eq_true, if_false, adv_clean blk _ _ hcl2, dropTriv_triv blk,
        dropTriv_render blk, hpv, dropTriv_cons_of_not blk _ _ (closer_not_skippable blk "}"), cur_cons]
      have h2 : isOp (opTok "}") "," = false := by simp [isOp_opTok]
      have h3 : isOp (opTok "}") "}" = true := by simp [isOp_opTok]
      simp [h2, h3, adv_clean blk _ _ hclean, dropTriv_triv blk, valEntries, valDFinal]
    | (k, a, v, b) :: more, final, n+1 =>
      obtain ⟨t, ts, hrd, _, _, _, _, hcb, _⟩ := render_head blk k
      have hk : size k ≤ n := by simp [sizeEntries] at h; omega
      have hv : size v ≤ n := by simp [sizeEntries] at h; omega
      have hm : sizeEntries more + sizeDFinal final + 1 ≤ n := by simp [sizeEntries] at h; omega
      have hcl_tail : Clean (renderEntries more ++ dtail final j rest) :=
        clean_append (renderEntries_clean more) (dtail_clean final j rest hr)
      have hcl4 : Clean (triv b ++ (renderEntries more ++ dtail final j rest)) :=
        clean_append (triv_clean b) hcl_tail
      have hcl3 : Clean (opTok "," :: (triv b ++ (renderEntries more ++ dtail final j rest))) :=
        clean_cons rfl hcl4
      have hcl2 : Clean (triv a ++ (render v ++ (opTok "," :: (triv b ++ (renderEntries more ++ dtail final j rest))))) :=
        clean_append (triv_clean a) (clean_append (render_clean v) hcl3)
      have hcl1 : Clean (opTok ":" :: (triv a ++ (render v ++ (opTok "," :: (triv b ++ (renderEntries more ++ dtail final j rest)))))) :=
        clean_cons rfl hcl2
      have hpk := parse_render k n _ hcl1 (noStr_op blk _ _) hk
      have hpv := parse_render v n _ hcl3 (noStr_op blk _ _) hv
      have hi := parseDictItems_render more final n j rest hr hm
      simp only [renderEntries, List.append_assoc, List.cons_append]
      rw [hrd] at hpk ⊢
      simp only [List.cons_append] at hpk ⊢
      simp only [parseDictItems, cur_cons, hcb, Bool.false_eq_true, if_false, hpk,
        dropTriv_cons_of_not blk _ _ (closer_not_skippable blk ":")]
      have h1 : isOp (opTok ":") ":" = true := by simp [isOp_opTok]
      simp only [h1, Bool.not_true, Bool.false_eq_true, if_false, adv_clean blk _ _ hcl2, dropTriv_triv blk,
        dropTriv_render blk, hpv, dropTriv_cons_of_not blk _ _ (closer_not_skippable blk ","), cur_cons]
      have h2 : isOp (opTok ",") "," = true := by simp [isOp_opTok]
      simp only [h2, if_true, adv_clean blk _ _ hcl4, dropTriv_triv blk, dropTriv_entries_tail blk, hi]
      simp [valEntries]
    | _, _, 0 => omega
end

end Gin.Parser
