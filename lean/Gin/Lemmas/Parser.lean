/-
Completeness of the value parser on rendered literals (lists, tuples, parenthesised values, atoms,
with NL / COMMENT trivia anywhere inside brackets and optional trailing commas).
-/
import Gin.Parser

namespace Gin.Parser

/-- tokens a well-formed rendering is made of -/
def good (t : Token) : Bool := t.kind != .tokerr && t.kind != .errortoken

def Clean (ts : List Token) : Prop := ∀ t ∈ ts, good t = true

theorem advOne_cons (t : Token) (ts : List Token) (h : Clean ts) : advOne (t :: ts) = .ok ts := by
  cases ts with
  | nil => simp [advOne, advOne.drop]
  | cons x rest =>
    have hx := h x (by simp)
    simp only [good, Bool.and_eq_true, bne_iff_ne, ne_eq] at hx
    have h1 : (x.kind == TKind.tokerr) = false := by simpa using hx.1
    have h2 : (x.kind == TKind.errortoken) = false := by simpa using hx.2
    simp [advOne, advOne.drop, h1, h2]

/-- trivia skipped outside blocks -/
def dropTriv (ts : List Token) : List Token := ts.dropWhile (skippable false)

theorem Clean.tail {t : Token} {ts : List Token} (h : Clean (t :: ts)) : Clean ts :=
  fun x hx => h x (List.mem_cons_of_mem _ hx)

theorem skipWhile_clean (p : Token → Bool) (n : Nat) (ts : List Token) (hc : Clean ts)
    (hn : ts.length ≤ n) : skipWhile p n ts = .ok (ts.dropWhile p) := by
  induction n generalizing ts with
  | zero =>
    cases ts with
    | nil => simp [skipWhile]
    | cons t rest => simp at hn
  | succ n ih =>
    cases ts with
    | nil => simp [skipWhile]
    | cons t rest =>
      simp only [skipWhile]
      by_cases hp : p t = true
      · simp only [hp, if_true, advOne_cons t rest hc.tail, List.dropWhile_cons_of_pos]
        exact ih rest hc.tail (by simp at hn; omega)
      · simp [hp]

theorem skipWs_clean (ts : List Token) (hc : Clean ts) : skipWs false ts = .ok (dropTriv ts) :=
  skipWhile_clean _ _ ts hc (Nat.le_refl _)

theorem clean_dropWhile (p : Token → Bool) (ts : List Token) (hc : Clean ts) : Clean (ts.dropWhile p) :=
  fun x hx => hc x ((List.dropWhile_sublist p).subset hx)

theorem adv_clean (t : Token) (ts : List Token) (hc : Clean ts) :
    adv false (t :: ts) = .ok (dropTriv ts) := by
  simp [adv, advOne_cons t ts hc, skipWs_clean ts hc]

/-! ### the rendered grammar -/

def opTok (s : String) : Token := { kind := .op, str := s }
def nlTok : Token := { kind := .nl }
def commentTok : Token := { kind := .comment, str := "# c" }
/-- a basic-type token carrying the value `ast.literal_eval` gives it (NUMBER-like: never continued
    by an adjacent string) -/
def atomTok (v : Val) : Token := { kind := .number, str := "atom", atom := some v }

/-- a run of trivia: `true` = comment, `false` = line break inside brackets -/
def triv : List Bool → List Token
  | [] => []
  | true :: r => commentTok :: triv r
  | false :: r => nlTok :: triv r

theorem triv_clean (l : List Bool) : Clean (triv l) := by
  induction l with
  | nil => intro t ht; simp [triv] at ht
  | cons b r ih =>
    intro t ht
    cases b <;> simp only [triv, List.mem_cons] at ht <;> rcases ht with rfl | ht
    · rfl
    · exact ih t ht
    · rfl
    · exact ih t ht

theorem dropTriv_triv (l : List Bool) (ts : List Token) : dropTriv (triv l ++ ts) = dropTriv ts := by
  induction l with
  | nil => simp [triv]
  | cons b r ih =>
    cases b <;> simp only [triv, List.cons_append, dropTriv] <;>
      rw [List.dropWhile_cons_of_pos (by rfl)] <;> exact ih

/-- a literal with every layout choice inside it -/
inductive L where
  | atom (v : Val) (after : List Bool)
  | list (open_ : List Bool) (items : List (L × List Bool)) (final : Option L) (after : List Bool)
  | tuple0 (open_ : List Bool) (after : List Bool)
  | tuple (open_ : List Bool) (first : L) (n1 : List Bool) (items : List (L × List Bool))
      (final : Option L) (after : List Bool)
  | paren (open_ : List Bool) (x : L) (after : List Bool)

mutual
  def val : L → PVal
    | .atom v _ => .lit v
    | .list _ items final _ => .list (valItems items ++ valFinal final)
    | .tuple0 _ _ => .tuple []
    | .tuple _ f _ items final _ => .tuple (val f :: (valItems items ++ valFinal final))
    | .paren _ x _ => val x
  def valItems : List (L × List Bool) → List PVal
    | [] => []
    | (l, _) :: rest => val l :: valItems rest
  def valFinal : Option L → List PVal
    | none => []
    | some l => [val l]
end

mutual
  def render : L → List Token
    | .atom v j => atomTok v :: triv j
    | .list j0 items final j =>
        opTok "[" :: (triv j0 ++ (renderItems items ++ (renderFinal final ++ (opTok "]" :: triv j))))
    | .tuple0 j0 j => opTok "(" :: (triv j0 ++ (opTok ")" :: triv j))
    | .tuple j0 f n1 items final j =>
        opTok "(" :: (triv j0 ++ (render f ++ (opTok "," :: (triv n1 ++
          (renderItems items ++ (renderFinal final ++ (opTok ")" :: triv j)))))))
    | .paren j0 x j => opTok "(" :: (triv j0 ++ (render x ++ (opTok ")" :: triv j)))
  def renderItems : List (L × List Bool) → List Token
    | [] => []
    | (l, n) :: rest => render l ++ (opTok "," :: (triv n ++ renderItems rest))
  def renderFinal : Option L → List Token
    | none => []
    | some l => render l
end

mutual
  def size : L → Nat
    | .atom _ _ => 1
    | .list _ items final _ => 2 + sizeItems items + sizeFinal final
    | .tuple0 _ _ => 2
    | .tuple _ f _ items final _ => 3 + size f + sizeItems items + sizeFinal final
    | .paren _ x _ => 3 + size x
  def sizeItems : List (L × List Bool) → Nat
    | [] => 0
    | (l, _) :: rest => 1 + size l + sizeItems rest
  def sizeFinal : Option L → Nat
    | none => 0
    | some l => 1 + size l
end

end Gin.Parser

namespace Gin.Parser

theorem clean_append {a b : List Token} (ha : Clean a) (hb : Clean b) : Clean (a ++ b) := by
  intro t ht
  rcases List.mem_append.1 ht with h | h
  · exact ha t h
  · exact hb t h

theorem clean_cons {t : Token} {ts : List Token} (ht : good t = true) (h : Clean ts) : Clean (t :: ts) := by
  intro x hx
  rcases List.mem_cons.1 hx with rfl | hx
  · exact ht
  · exact h x hx

mutual
  theorem render_clean (l : L) : Clean (render l) := by
    match l with
    | .atom v j => exact clean_cons rfl (triv_clean j)
    | .list j0 items final j =>
      simp only [render]
      exact clean_cons rfl (clean_append (triv_clean j0) (clean_append (renderItems_clean items)
        (clean_append (renderFinal_clean final) (clean_cons rfl (triv_clean j)))))
    | .tuple0 j0 j =>
      simp only [render]
      exact clean_cons rfl (clean_append (triv_clean j0) (clean_cons rfl (triv_clean j)))
    | .tuple j0 f n1 items final j =>
      simp only [render]
      exact clean_cons rfl (clean_append (triv_clean j0) (clean_append (render_clean f)
        (clean_cons rfl (clean_append (triv_clean n1) (clean_append (renderItems_clean items)
          (clean_append (renderFinal_clean final) (clean_cons rfl (triv_clean j))))))))
    | .paren j0 x j =>
      simp only [render]
      exact clean_cons rfl (clean_append (triv_clean j0) (clean_append (render_clean x)
        (clean_cons rfl (triv_clean j))))
  theorem renderItems_clean (items : List (L × List Bool)) : Clean (renderItems items) := by
    match items with
    | [] => intro t ht; simp [renderItems] at ht
    | (l, n) :: rest =>
      simp only [renderItems]
      exact clean_append (render_clean l) (clean_cons rfl (clean_append (triv_clean n) (renderItems_clean rest)))
  theorem renderFinal_clean (final : Option L) : Clean (renderFinal final) := by
    match final with
    | none => intro t ht; simp [renderFinal] at ht
    | some l => simp only [renderFinal]; exact render_clean l
end

/-- a rendering starts with `[`, `(` or an atom: never trivia, a closer or a comma -/
theorem render_head (l : L) : ∃ t ts, render l = t :: ts ∧ skippable false t = false ∧
    isOp t "]" = false ∧ isOp t ")" = false ∧ isOp t "," = false := by
  cases l <;> simp [render, opTok, atomTok, skippable, isOp] <;> decide

theorem dropTriv_cons_of_not (t : Token) (ts : List Token) (h : skippable false t = false) :
    dropTriv (t :: ts) = t :: ts := by
  simp [dropTriv, List.dropWhile, h]

theorem dropTriv_render (l : L) (r : List Token) : dropTriv (render l ++ r) = render l ++ r := by
  obtain ⟨t, ts, h, hs, _⟩ := render_head l
  rw [h]; exact dropTriv_cons_of_not _ _ hs

/-- what follows the items of a container: maybe a last item, then the closer -/
def tailToks (final : Option L) (close : String) (j : List Bool) (rest : List Token) : List Token :=
  renderFinal final ++ (opTok close :: (triv j ++ rest))

theorem closer_not_skippable (close : String) : skippable false (opTok close) = false := by
  simp [skippable, opTok]

theorem dropTriv_items_tail (items : List (L × List Bool)) (final : Option L) (close : String)
    (j : List Bool) (rest : List Token) :
    dropTriv (renderItems items ++ tailToks final close j rest) =
      renderItems items ++ tailToks final close j rest := by
  cases items with
  | nil =>
    cases final with
    | none =>
      simp only [renderItems, tailToks, renderFinal, List.nil_append]
      exact dropTriv_cons_of_not _ _ (closer_not_skippable close)
    | some l => simp only [renderItems, tailToks, renderFinal, List.nil_append]; exact dropTriv_render l _
  | cons it rest' =>
    obtain ⟨l, n⟩ := it
    simp only [renderItems, List.append_assoc]; exact dropTriv_render l _

theorem tailToks_clean (final : Option L) (close : String) (j : List Bool) (rest : List Token)
    (hr : Clean rest) : Clean (tailToks final close j rest) :=
  clean_append (renderFinal_clean final) (clean_cons rfl (clean_append (triv_clean j) hr))

theorem isOp_opTok (a b : String) : isOp (opTok a) b = (a == b) := by
  simp [isOp, opTok]

end Gin.Parser

namespace Gin.Parser

theorem cur_cons (t : Token) (ts : List Token) : cur (t :: ts) = t := rfl

theorem parseValue_atom (n : Nat) (v : Val) (j : List Bool) (rest : List Token) (hr : Clean rest) :
    parseValue false (n + 1) (atomTok v :: (triv j ++ rest)) = .ok (.lit v, dropTriv rest) := by
  have hc : Clean (triv j ++ rest) := clean_append (triv_clean j) hr
  simp only [parseValue, cur_cons]
  have h1 : isOp (atomTok v) "[" = false := by simp [isOp, atomTok]
  have h2 : isOp (atomTok v) "(" = false := by simp [isOp, atomTok]
  have h3 : isOp (atomTok v) "{" = false := by simp [isOp, atomTok]
  have h4 : isOp (atomTok v) "-" = false := by simp [isOp, atomTok]
  simp only [h1, h2, h3, Bool.false_eq_true, if_false, parseBasic, cur_cons, h4]
  have h5 : isBasic (atomTok v) = true := by simp [isBasic, atomTok]
  simp only [h5, Bool.not_true, Bool.false_eq_true, if_false]
  simp [atomTok, adv_clean _ _ hc, dropTriv_triv]

mutual
  theorem parse_render (l : L) (n : Nat) (rest : List Token) (hr : Clean rest) (h : size l ≤ n) :
      parseValue false n (render l ++ rest) = .ok (val l, dropTriv rest) := by
    match l, n with
    | .atom v j, n+1 =>
      simp only [render, List.cons_append, List.append_assoc, val]
      exact parseValue_atom n v j rest hr
    | .list j0 items final j, n+1 =>
      have hsz : sizeItems items + sizeFinal final + 1 ≤ n := by simp [size] at h; omega
      have hit := parseItems_render items final "]" (Or.inl rfl) n j rest hr hsz
      have hclean : Clean (triv j0 ++ (renderItems items ++ tailToks final "]" j rest)) :=
        clean_append (triv_clean j0) (clean_append (renderItems_clean items) (tailToks_clean final "]" j rest hr))
      simp only [render, List.cons_append, List.append_assoc, val, parseValue, cur_cons]
      have h1 : isOp (opTok "[") "[" = true := by simp [isOp_opTok]
      simp only [h1, if_true]
      rw [show triv j0 ++ (renderItems items ++ (renderFinal final ++ (opTok "]" :: (triv j ++ rest)))) =
            triv j0 ++ (renderItems items ++ tailToks final "]" j rest) from rfl,
          adv_clean _ _ hclean, dropTriv_triv, dropTriv_items_tail]
      simp only [hit]
    | .tuple0 j0 j, n+2 =>
      have hclean : Clean (triv j0 ++ (opTok ")" :: (triv j ++ rest))) :=
        clean_append (triv_clean j0) (clean_cons rfl (clean_append (triv_clean j) hr))
      have hclean2 : Clean (triv j ++ rest) := clean_append (triv_clean j) hr
      simp only [render, List.cons_append, List.append_assoc, val, parseValue, cur_cons]
      have h1 : isOp (opTok "(") "[" = false := by simp [isOp_opTok]
      have h2 : isOp (opTok "(") "(" = true := by simp [isOp_opTok]
      simp only [h1, h2, Bool.false_eq_true, if_false, if_true, adv_clean _ _ hclean, dropTriv_triv,
        dropTriv_cons_of_not _ _ (closer_not_skippable ")"), parseItems, cur_cons]
      have h3 : isOp (opTok ")") ")" = true := by simp [isOp_opTok]
      simp only [h3, if_true, adv_clean _ _ hclean2, dropTriv_triv]
    | .tuple j0 f n1 items final j, n+1 =>
      have hsz : sizeItems ((f, n1) :: items) + sizeFinal final + 1 ≤ n := by
        simp [size] at h; simp [sizeItems]; omega
      have hit := parseItems_render ((f, n1) :: items) final ")" (Or.inr rfl) n j rest hr hsz
      have hclean : Clean (triv j0 ++ (renderItems ((f, n1) :: items) ++ tailToks final ")" j rest)) :=
        clean_append (triv_clean j0) (clean_append (renderItems_clean _) (tailToks_clean final ")" j rest hr))
      simp only [render, List.cons_append, List.append_assoc, val, parseValue, cur_cons]
      have h1 : isOp (opTok "(") "[" = false := by simp [isOp_opTok]
      have h2 : isOp (opTok "(") "(" = true := by simp [isOp_opTok]
      simp only [h1, h2, Bool.false_eq_true, if_false, if_true]
      rw [show triv j0 ++ (render f ++ (opTok "," :: (triv n1 ++ (renderItems items ++
              (renderFinal final ++ (opTok ")" :: (triv j ++ rest))))))) =
            triv j0 ++ (renderItems ((f, n1) :: items) ++ tailToks final ")" j rest) by
              simp [renderItems, tailToks, List.append_assoc],
          adv_clean _ _ hclean, dropTriv_triv, dropTriv_items_tail]
      simp only [hit]
      simp [valItems]
    | .paren j0 x j, n+1 =>
      have hsz : sizeItems [] + sizeFinal (some x) + 1 ≤ n := by
        simp [size] at h; simp [sizeItems, sizeFinal]; omega
      have hit := parseItems_render [] (some x) ")" (Or.inr rfl) n j rest hr hsz
      have hclean : Clean (triv j0 ++ (renderItems [] ++ tailToks (some x) ")" j rest)) :=
        clean_append (triv_clean j0) (clean_append (renderItems_clean _) (tailToks_clean _ ")" j rest hr))
      simp only [render, List.cons_append, List.append_assoc, val, parseValue, cur_cons]
      have h1 : isOp (opTok "(") "[" = false := by simp [isOp_opTok]
      have h2 : isOp (opTok "(") "(" = true := by simp [isOp_opTok]
      simp only [h1, h2, Bool.false_eq_true, if_false, if_true]
      rw [show triv j0 ++ (render x ++ (opTok ")" :: (triv j ++ rest))) =
            triv j0 ++ (renderItems [] ++ tailToks (some x) ")" j rest) by
              simp [renderItems, tailToks, renderFinal],
          adv_clean _ _ hclean, dropTriv_triv, dropTriv_items_tail]
      simp only [hit]
      simp [valItems, valFinal]
    | .atom .., 0 | .list .., 0 | .tuple0 .., 0 | .tuple0 .., 1 | .tuple .., 0 | .paren .., 0 =>
      simp [size] at h
  theorem parseItems_render (items : List (L × List Bool)) (final : Option L) (close : String)
      (hc1 : close = "]" ∨ close = ")") (n : Nat) (j : List Bool) (rest : List Token)
      (hr : Clean rest) (h : sizeItems items + sizeFinal final + 1 ≤ n) :
      parseItems false n close (renderItems items ++ tailToks final close j rest)
        = .ok (valItems items ++ valFinal final, !items.isEmpty, dropTriv rest) := by
    match items, final, n with
    | [], none, n+1 =>
      have hclean : Clean (triv j ++ rest) := clean_append (triv_clean j) hr
      simp only [renderItems, tailToks, renderFinal, List.nil_append, parseItems, cur_cons]
      have h1 : isOp (opTok close) close = true := by simp [isOp_opTok]
      simp [h1, adv_clean _ _ hclean, dropTriv_triv, valItems, valFinal]
    | [], some l, n+1 =>
      obtain ⟨t, ts, hrd, _, hrb, hrp, hcm⟩ := render_head l
      have hne : isOp t close = false := by rcases hc1 with rfl | rfl <;> assumption
      have hl : size l ≤ n := by simp [sizeItems, sizeFinal] at h; omega
      have hclean : Clean (triv j ++ rest) := clean_append (triv_clean j) hr
      have hclean2 : Clean (opTok close :: (triv j ++ rest)) := clean_cons rfl hclean
      have hp := parse_render l n (opTok close :: (triv j ++ rest)) hclean2 hl
      simp only [renderItems, tailToks, renderFinal, List.nil_append]
      rw [hrd] at hp ⊢
      simp only [List.cons_append] at hp ⊢
      simp only [parseItems, cur_cons, hne, Bool.false_eq_true, if_false, hp,
        dropTriv_cons_of_not _ _ (closer_not_skippable close)]
      have h1 : isOp (opTok close) close = true := by simp [isOp_opTok]
      have h2 : isOp (opTok close) "," = false := by
        rcases hc1 with rfl | rfl <;> simp [isOp_opTok]
      simp [h1, h2, adv_clean _ _ hclean, dropTriv_triv, valItems, valFinal]
    | (l, k) :: more, final, n+1 =>
      obtain ⟨t, ts, hrd, _, hrb, hrp, hcm⟩ := render_head l
      have hne : isOp t close = false := by rcases hc1 with rfl | rfl <;> assumption
      have hl : size l ≤ n := by simp [sizeItems] at h; omega
      have hm : sizeItems more + sizeFinal final + 1 ≤ n := by simp [sizeItems] at h; omega
      have hcl_tail : Clean (renderItems more ++ tailToks final close j rest) :=
        clean_append (renderItems_clean more) (tailToks_clean final close j rest hr)
      have hcl1 : Clean (triv k ++ (renderItems more ++ tailToks final close j rest)) :=
        clean_append (triv_clean k) hcl_tail
      have hcl2 : Clean (opTok "," :: (triv k ++ (renderItems more ++ tailToks final close j rest))) :=
        clean_cons rfl hcl1
      have hp := parse_render l n (opTok "," :: (triv k ++ (renderItems more ++ tailToks final close j rest))) hcl2 hl
      have hi := parseItems_render more final close hc1 n j rest hr hm
      simp only [renderItems, List.append_assoc]
      rw [hrd] at hp ⊢
      simp only [List.cons_append, List.append_assoc] at hp ⊢
      simp only [parseItems, cur_cons, hne, Bool.false_eq_true, if_false]
      rw [hp, dropTriv_cons_of_not _ _ (closer_not_skippable ",")]
      have h1 : isOp (opTok ",") "," = true := by simp [isOp_opTok]
      simp only [cur_cons, h1, if_true, adv_clean _ _ hcl1, dropTriv_triv, dropTriv_items_tail, hi]
      simp [valItems]
    | _, _, 0 => omega
end

end Gin.Parser
