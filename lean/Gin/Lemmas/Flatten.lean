/-
Includes are in-place inclusion, to any nesting depth: applying a statement list equals applying its
flattening, up to what only records *where* a binding came from (provenance, import bookkeeping).
-/
import Gin.Lemmas.Statements

namespace Gin

/-- the state without the fields that only record where things came from -/
def State.core (s : State) : State := { s with prov := [], imports := [] }

theorem core_fields {s t : State} (h : s.core = t.core) :
    s.registry = t.registry ∧ s.config = t.config ∧ s.locked = t.locked ∧ s.constants = t.constants := by
  have h1 : s.core.registry = t.core.registry := by rw [h]
  have h2 : s.core.config = t.core.config := by rw [h]
  have h3 : s.core.locked = t.core.locked := by rw [h]
  have h4 : s.core.constants = t.core.constants := by rw [h]
  exact ⟨h1, h2, h3, h4⟩

@[simp] theorem core_imports (s : State) (i : List String) : ({ s with imports := i } : State).core = s.core := rfl

theorem shouldSkip_congr {s t : State} (h : s.registry = t.registry) (sel : Sel) (skip : SkipSpec) :
    shouldSkip s sel skip = shouldSkip t sel skip := by
  simp [shouldSkip, h]

mutual
  theorem resolveRaw_congr {s t : State} (hr : s.registry = t.registry) (hc : s.constants = t.constants)
      (skip : SkipSpec) (v : RawVal) : resolveRaw s skip v = resolveRaw t skip v := by
    cases v with
    | lit v => simp [resolveRaw]
    | list xs => simp only [resolveRaw, resolveRaws_congr hr hc skip xs]
    | tuple xs => simp only [resolveRaw, resolveRaws_congr hr hc skip xs]
    | dict kvs => simp only [resolveRaw, resolveRawD_congr hr hc skip kvs]
    | ref scopes spelled ev => simp only [resolveRaw, shouldSkip_congr hr, hr]
    | «macro» name => simp only [resolveRaw, State.resolveMacro, hc]
  theorem resolveRaws_congr {s t : State} (hr : s.registry = t.registry) (hc : s.constants = t.constants)
      (skip : SkipSpec) (xs : List RawVal) : resolveRaws s skip xs = resolveRaws t skip xs := by
    cases xs with
    | nil => simp [resolveRaws]
    | cons x rest => simp only [resolveRaws, resolveRaw_congr hr hc skip x, resolveRaws_congr hr hc skip rest]
  theorem resolveRawD_congr {s t : State} (hr : s.registry = t.registry) (hc : s.constants = t.constants)
      (skip : SkipSpec) (kvs : List (RawVal × RawVal)) : resolveRawD s skip kvs = resolveRawD t skip kvs := by
    cases kvs with
    | nil => simp [resolveRawD]
    | cons kv rest =>
      obtain ⟨k, v⟩ := kv
      simp only [resolveRawD, resolveRaw_congr hr hc skip k, resolveRaw_congr hr hc skip v,
        resolveRawD_congr hr hc skip rest]
end

/-- `bind` on two states with the same core: same verdict, same resulting core — whatever location
    is recorded -/
theorem bind_core {s t : State} (h : s.core = t.core) (k : Key) (v : Val) (l1 l2 : Option Loc) :
    (match s.bind k v l1, t.bind k v l2 with
     | .ok s', .ok t' => s'.core = t'.core
     | .error e1, .error e2 => e1 = e2
     | _, _ => False) := by
  obtain ⟨hr, hcfg, hl, _⟩ := core_fields h
  unfold State.bind
  rw [hl]
  by_cases hlk : t.locked = true
  · simp [hlk]
  · simp only [hlk, Bool.false_eq_true, if_false]
    have hpk : s.parseKey k = t.parseKey k := by simp [State.parseKey, hr]
    rw [hpk]
    cases t.parseKey k with
    | error e => simp
    | ok r =>
      obtain ⟨scope, full, arg⟩ := r
      simp only
      cases s; cases t
      simp only [State.core, State.mk.injEq] at h ⊢
      simp only [State.mk.injEq] at hcfg
      obtain ⟨h1, h2, -, h4, h5, h6, h7, h8, -, h10, h11, h12, h13⟩ := h
      subst h1 h2 h4 h5 h6 h7 h8 h10 h11 h12 h13
      simp

theorem core_interactive {s t : State} (h : s.core = t.core) : s.interactive = t.interactive := by
  have : s.core.interactive = t.core.interactive := by rw [h]
  exact this

/-- a registration on two states with the same core: same verdict, same resulting core -/
theorem register_core {s t : State} (h : s.core = t.core) (r : State.RegReq) :
    (match s.register r, t.register r with
     | .ok s', .ok t' => s'.core = t'.core
     | .error e1, .error e2 => e1 = e2
     | _, _ => False) := by
  obtain ⟨hr, _, hl, _⟩ := core_fields h
  have hi := core_interactive h
  have hchk : s.regCheck r = t.regCheck r := by
    unfold State.regCheck State.clashes
    rw [hr, hl, hi]
  unfold State.register
  rw [hchk, hr]
  cases t.regCheck r with
  | some e => simp
  | none =>
    simp only
    cases s; cases t
    simp only [State.core, State.mk.injEq] at h ⊢
    obtain ⟨h1, h2, -, h4, h5, h6, h7, h8, -, h10, h11, h12, h13⟩ := h
    subst h1 h2 h4 h5 h6 h7 h8 h10 h11 h12 h13
    simp

theorem registerAll_core {s t : State} (h : s.core = t.core) (regs : List State.RegReq) :
    (registerAll s regs).1.core = (registerAll t regs).1.core ∧
    (registerAll s regs).2 = (registerAll t regs).2 := by
  induction regs generalizing s t with
  | nil => exact ⟨h, rfl⟩
  | cons r rest ih =>
    simp only [registerAll]
    have hc := register_core h r
    revert hc
    cases s.register r <;> cases t.register r <;> simp only
    · intro he; subst he; exact ⟨h, rfl⟩
    · intro hf; exact hf.elim
    · intro hf; exact hf.elim
    · intro hc; exact ih hc

end Gin

namespace Gin

theorem withLoc_err (file : Option String) (line : Nat) (f : Failure) : (withLoc file line f).err = f.err := by
  unfold withLoc; split <;> rfl

theorem flatten_cons (s : Stmt) (rest : List Stmt) : flatten (s :: rest) = flatten [s] ++ flatten rest := by
  cases s with
  | incl name file line =>
    cases file with
    | none => simp [flatten]
    | some body => simp [flatten]
  | _ => simp [flatten]

/-- applying a concatenation: the second part runs from the state the first part leaves, unless the
    first part failed -/
theorem applyStmts_append (st : State) (f : Option String) (skip : SkipSpec) (a b : List Stmt) :
    (applyStmts st f skip (a ++ b)).st =
      (match (applyStmts st f skip a).failure with
       | some _ => (applyStmts st f skip a).st
       | none => (applyStmts (applyStmts st f skip a).st f skip b).st) ∧
    (applyStmts st f skip (a ++ b)).failure =
      (match (applyStmts st f skip a).failure with
       | some e => some e
       | none => (applyStmts (applyStmts st f skip a).st f skip b).failure) := by
  induction a generalizing st with
  | nil => simp [applyStmts]
  | cons s rest ih =>
    simp only [List.cons_append, applyStmts]
    rcases hs : applyStmt st f skip s with ⟨st1, imps, incs, fl⟩
    cases fl with
    | some e => simp
    | none =>
      simp only
      have := ih st1
      exact this

/-- the part of an outcome that the property speaks about: the state up to provenance, and the class
    of the error, if any -/
def sameOutcome (s1 : State) (f1 : Option Failure) (s2 : State) (f2 : Option Failure) : Prop :=
  s1.core = s2.core ∧ f1.map (·.err) = f2.map (·.err)

theorem applyStmts_single (st : State) (f : Option String) (skip : SkipSpec) (s : Stmt) :
    (applyStmts st f skip [s]).st = (applyStmt st f skip s).1 ∧
    (applyStmts st f skip [s]).failure = (applyStmt st f skip s).2.2.2 := by
  simp only [applyStmts]
  rcases hs : applyStmt st f skip s with ⟨st1, imps, incs, fl⟩
  cases fl <;> simp [applyStmts]

/-- a statement that is not a present include: same verdict and same resulting core from two states
    with the same core, whatever file they are attributed to -/
theorem applyStmt_congr (s1 s2 : State) (h : s1.core = s2.core) (f1 f2 : Option String) (skip : SkipSpec)
    (s : Stmt) (hs : ∀ name body line, s ≠ .incl name (some body) line) :
    sameOutcome (applyStmt s1 f1 skip s).1 (applyStmt s1 f1 skip s).2.2.2
                (applyStmt s2 f2 skip s).1 (applyStmt s2 f2 skip s).2.2.2 := by
  obtain ⟨hr, _, _, hc⟩ := core_fields h
  cases s with
  | syntaxErr l => simp [applyStmt, sameOutcome, h]
  | binding scope sel arg v line =>
    simp only [applyStmt, resolveRaw_congr hr hc skip v, shouldSkip_congr hr]
    cases hv : resolveRaw s2 skip v with
    | error e => simp [sameOutcome, h, withLoc_err]
    | ok val =>
      simp only
      by_cases harg : arg.isEmpty = true
      · simp only [harg, if_true]
        have hb := bind_core h { scope := scope ++ [".".intercalate sel], sel := State.macroSel, arg := "value" } val
          (some { file := f1, line }) (some { file := f2, line })
        revert hb
        cases s1.bind _ val _ <;> cases s2.bind _ val _ <;> simp [sameOutcome, h, withLoc_err]
      · simp only [harg, Bool.false_eq_true, if_false]
        by_cases hsk : shouldSkip s2 sel skip = true
        · simp [hsk, sameOutcome, h]
        · simp only [hsk, Bool.false_eq_true, if_false]
          have hb := bind_core h { scope, sel, arg } val (some { file := f1, line }) (some { file := f2, line })
          revert hb
          cases s1.bind _ val _ <;> cases s2.bind _ val _ <;> simp [sameOutcome, h, withLoc_err]
  | block scope sel line =>
    simp only [applyStmt, shouldSkip_congr hr, hr]
    by_cases hsk : shouldSkip s2 sel skip = true
    · simp [hsk, sameOutcome, h]
    · simp only [hsk, Bool.false_eq_true, if_false]
      cases s2.registry.getMatch sel <;> simp [sameOutcome, h, withLoc_err]
  | imp m found line regs =>
    simp only [applyStmt]
    by_cases hf : found = true
    · simp only [hf, if_true]
      obtain ⟨hcore, herr⟩ := registerAll_core h regs
      rcases h1 : registerAll s1 regs with ⟨a1, e1⟩
      rcases h2 : registerAll s2 regs with ⟨a2, e2⟩
      rw [h1, h2] at hcore herr
      simp only at hcore herr
      subst herr
      cases e1 <;> simp [sameOutcome, hcore, withLoc_err]
    · simp only [hf, Bool.false_eq_true, if_false]
      by_cases ht : skip.truthy = true <;> simp [ht, sameOutcome, h, withLoc_err]
  | incl name file line =>
    cases file with
    | none => simp [applyStmt, sameOutcome, h, withLoc_err]
    | some body => exact absurd rfl (hs name body line)

mutual
  theorem flatten_stmt (skip : SkipSpec) (s : Stmt) : ∀ (s1 s2 : State) (f1 f2 : Option String),
      s1.core = s2.core →
      sameOutcome (applyStmt s1 f1 skip s).1 (applyStmt s1 f1 skip s).2.2.2
                  (applyStmts s2 f2 skip (flatten [s])).st (applyStmts s2 f2 skip (flatten [s])).failure := by
    intro s1 s2 f1 f2 h
    cases s with
    | incl name file line =>
      cases file with
      | none =>
        have hfl : flatten [Stmt.incl name none line] = [Stmt.incl name none line] := by simp [flatten]
        rw [hfl, (applyStmts_single _ _ _ _).1, (applyStmts_single _ _ _ _).2]
        exact applyStmt_congr s1 s2 h f1 f2 skip _ (by intro n b l e; cases e)
      | some body =>
        have hfl : flatten [Stmt.incl name (some body) line] = flatten body := by simp [flatten]
        rw [hfl]
        have ih := flatten_stmts skip body s1 s2 (some name) f2 h
        simp only [applyStmt]
        cases hfail : (applyStmts s1 (some name) skip body).failure with
        | none =>
          simp only [hfail] at ih ⊢
          exact ⟨by simpa using ih.1, by simpa using ih.2⟩
        | some e =>
          simp only [hfail] at ih ⊢
          exact ⟨by simpa using ih.1, by simpa [withLoc_err] using ih.2⟩
    | binding scope sel arg v line =>
      have hfl : flatten [Stmt.binding scope sel arg v line] = [Stmt.binding scope sel arg v line] := by simp [flatten]
      rw [hfl, (applyStmts_single _ _ _ _).1, (applyStmts_single _ _ _ _).2]
      exact applyStmt_congr s1 s2 h f1 f2 skip _ (by intro n b l e; cases e)
    | block scope sel line =>
      have hfl : flatten [Stmt.block scope sel line] = [Stmt.block scope sel line] := by simp [flatten]
      rw [hfl, (applyStmts_single _ _ _ _).1, (applyStmts_single _ _ _ _).2]
      exact applyStmt_congr s1 s2 h f1 f2 skip _ (by intro n b l e; cases e)
    | imp m found line regs =>
      have hfl : flatten [Stmt.imp m found line regs] = [Stmt.imp m found line regs] := by simp [flatten]
      rw [hfl, (applyStmts_single _ _ _ _).1, (applyStmts_single _ _ _ _).2]
      exact applyStmt_congr s1 s2 h f1 f2 skip _ (by intro n b l e; cases e)
    | syntaxErr l =>
      have hfl : flatten [Stmt.syntaxErr l] = [Stmt.syntaxErr l] := by simp [flatten]
      rw [hfl, (applyStmts_single _ _ _ _).1, (applyStmts_single _ _ _ _).2]
      exact applyStmt_congr s1 s2 h f1 f2 skip _ (by intro n b l' e; cases e)
  theorem flatten_stmts (skip : SkipSpec) (ss : List Stmt) : ∀ (s1 s2 : State) (f1 f2 : Option String),
      s1.core = s2.core →
      sameOutcome (applyStmts s1 f1 skip ss).st (applyStmts s1 f1 skip ss).failure
                  (applyStmts s2 f2 skip (flatten ss)).st (applyStmts s2 f2 skip (flatten ss)).failure := by
    intro s1 s2 f1 f2 h
    cases ss with
    | nil => simp [flatten, applyStmts, sameOutcome, h]
    | cons s rest =>
      have hs := flatten_stmt skip s s1 s2 f1 f2 h
      rw [flatten_cons, (applyStmts_append _ _ _ _ _).1, (applyStmts_append _ _ _ _ _).2]
      simp only [applyStmts]
      rcases ha : applyStmt s1 f1 skip s with ⟨st1, imps, incs, fl⟩
      rw [ha] at hs
      simp only at hs
      cases fl with
      | some e =>
        obtain ⟨hc, hf⟩ := hs
        cases hb : (applyStmts s2 f2 skip (flatten [s])).failure with
        | none => rw [hb] at hf; simp at hf
        | some e2 => rw [hb] at hf; simp only [hb]; exact ⟨hc, hf⟩
      | none =>
        obtain ⟨hc, hf⟩ := hs
        cases hb : (applyStmts s2 f2 skip (flatten [s])).failure with
        | some e2 => rw [hb] at hf; simp at hf
        | none =>
          simp only [hb]
          exact flatten_stmts skip rest st1 _ f1 f2 hc
end

end Gin
