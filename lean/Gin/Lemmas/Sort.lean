/-
Insertion sort (`Gin.insertBy`, `Gin.sortBy`): the result is a sorted permutation, and a sorted
permutation is unique when the order is antisymmetric on the elements.  Used for the permutation
invariance of the serialiser (C06).
-/
import Gin.Serialize

namespace Gin.Sort
open Gin

variable {α : Type}

def Sorted (le : α → α → Bool) (l : List α) : Prop := l.Pairwise (fun a b => le a b = true)

theorem perm_insertBy (le : α → α → Bool) (x : α) (l : List α) : (insertBy le x l).Perm (x :: l) := by
  induction l with
  | nil => simp [insertBy]
  | cons y ys ih =>
    simp only [insertBy]
    split
    · exact List.Perm.refl _
    · exact (List.Perm.cons y ih).trans (List.Perm.swap x y ys)

theorem perm_sortBy (le : α → α → Bool) (l : List α) : (sortBy le l).Perm l := by
  induction l with
  | nil => simp [sortBy]
  | cons x xs ih =>
    simp only [sortBy, List.foldr_cons] at ih ⊢
    exact (perm_insertBy le x _).trans (List.Perm.cons x ih)

theorem sorted_insertBy (le : α → α → Bool) (htot : ∀ a b, le a b = true ∨ le b a = true)
    (htr : ∀ a b c, le a b = true → le b c = true → le a c = true)
    (x : α) (l : List α) (h : Sorted le l) : Sorted le (insertBy le x l) := by
  induction l with
  | nil => simp [insertBy, Sorted]
  | cons y ys ih =>
    simp only [insertBy]
    have hy := List.pairwise_cons.1 h
    split
    · rename_i hxy
      refine List.pairwise_cons.2 ⟨?_, h⟩
      intro z hz
      rcases List.mem_cons.1 hz with rfl | hz
      · exact hxy
      · exact htr _ _ _ hxy (hy.1 z hz)
    · rename_i hxy
      have hyx : le y x = true := by
        rcases htot x y with h1 | h1
        · exact absurd h1 hxy
        · exact h1
      refine List.pairwise_cons.2 ⟨?_, ih hy.2⟩
      intro z hz
      have := (perm_insertBy le x ys).mem_iff.1 hz
      rcases List.mem_cons.1 this with rfl | hz'
      · exact hyx
      · exact hy.1 z hz'

theorem sorted_sortBy (le : α → α → Bool) (htot : ∀ a b, le a b = true ∨ le b a = true)
    (htr : ∀ a b c, le a b = true → le b c = true → le a c = true) (l : List α) :
    Sorted le (sortBy le l) := by
  induction l with
  | nil => simp [sortBy, Sorted]
  | cons x xs ih =>
    simp only [sortBy, List.foldr_cons] at ih ⊢
    exact sorted_insertBy le htot htr x _ ih

/-- two sorted lists with the same elements are equal, if `le` is antisymmetric on those elements -/
theorem sorted_perm_eq (le : α → α → Bool) (htot : ∀ a b, le a b = true ∨ le b a = true)
    (l1 l2 : List α) (hp : l1.Perm l2) (h1 : Sorted le l1) (h2 : Sorted le l2)
    (hanti : ∀ a ∈ l1, ∀ b ∈ l1, le a b = true → le b a = true → a = b) : l1 = l2 := by
  induction l1 generalizing l2 with
  | nil => exact (List.Perm.nil_eq hp)
  | cons a t1 ih =>
    cases l2 with
    | nil => exact absurd hp.symm (by intro h; exact List.cons_ne_nil _ _ (List.Perm.nil_eq h).symm)
    | cons b t2 =>
      have ha := List.pairwise_cons.1 h1
      have hb := List.pairwise_cons.1 h2
      have hrefl : ∀ x, le x x = true := fun x => by rcases htot x x with h | h <;> exact h
      have hbin : b ∈ a :: t1 := hp.mem_iff.2 (List.mem_cons_self)
      have hain : a ∈ b :: t2 := hp.mem_iff.1 (List.mem_cons_self)
      have hab : le a b = true := by
        rcases List.mem_cons.1 hbin with rfl | h
        · exact hrefl _
        · exact ha.1 b h
      have hba : le b a = true := by
        rcases List.mem_cons.1 hain with rfl | h
        · exact hrefl _
        · exact hb.1 a h
      have heq : a = b := hanti a List.mem_cons_self b hbin hab hba
      subst heq
      have hp' : t1.Perm t2 := List.Perm.cons_inv hp
      have := ih t2 hp' ha.2 hb.2 (fun x hx y hy => hanti x (List.mem_cons_of_mem _ hx) y (List.mem_cons_of_mem _ hy))
      rw [this]

/-- Sorting forgets the order of its input. -/
theorem sortBy_eq_of_perm (le : α → α → Bool) (htot : ∀ a b, le a b = true ∨ le b a = true)
    (htr : ∀ a b c, le a b = true → le b c = true → le a c = true)
    (l1 l2 : List α) (hp : l1.Perm l2)
    (hanti : ∀ a ∈ l1, ∀ b ∈ l1, le a b = true → le b a = true → a = b) :
    sortBy le l1 = sortBy le l2 := by
  apply sorted_perm_eq le htot _ _ ((perm_sortBy le l1).trans (hp.trans (perm_sortBy le l2).symm))
    (sorted_sortBy le htot htr l1) (sorted_sortBy le htot htr l2)
  intro a ha b hb
  exact hanti a ((perm_sortBy le l1).mem_iff.1 ha) b ((perm_sortBy le l1).mem_iff.1 hb)

end Gin.Sort

namespace Gin.Sort
open Gin

theorem lexLe_total : ∀ a b : List String, lexLe a b = true ∨ lexLe b a = true
  | [], _ => Or.inl (by simp [lexLe])
  | _ :: _, [] => Or.inr (by simp [lexLe])
  | a :: as, b :: bs => by
    simp only [lexLe]
    rcases Std.lt_trichotomy a b with h | h | h
    · left; simp [h]
    · subst h
      simp only [String.lt_irrefl, if_false]
      exact lexLe_total as bs
    · right; simp [h]

theorem lexLe_antisymm : ∀ a b : List String, lexLe a b = true → lexLe b a = true → a = b
  | [], [], _, _ => rfl
  | [], _ :: _, _, h => by simp [lexLe] at h
  | _ :: _, [], h, _ => by simp [lexLe] at h
  | a :: as, b :: bs, h1, h2 => by
    simp only [lexLe] at h1 h2
    rcases Std.lt_trichotomy a b with h | h | h
    · have := String.lt_asymm h
      simp [h, this] at h2
    · subst h
      simp only [String.lt_irrefl, if_false] at h1 h2
      rw [lexLe_antisymm as bs h1 h2]
    · have := String.lt_asymm h
      simp [h, this] at h1

theorem lexLe_trans : ∀ a b c : List String, lexLe a b = true → lexLe b c = true → lexLe a c = true
  | [], _, _, _, _ => by simp [lexLe]
  | _ :: _, [], _, h, _ => by simp [lexLe] at h
  | _ :: _, _ :: _, [], _, h => by simp [lexLe] at h
  | a :: as, b :: bs, c :: cs, h1, h2 => by
    simp only [lexLe] at h1 h2 ⊢
    rcases Std.lt_trichotomy a b with hab | hab | hab
    · rcases Std.lt_trichotomy b c with hbc | hbc | hbc
      · simp [String.lt_trans hab hbc]
      · subst hbc; simp [hab]
      · have := String.lt_asymm hbc
        simp [hbc, this] at h2
    · subst hab
      simp only [String.lt_irrefl, if_false] at h1
      rcases Std.lt_trichotomy a c with hbc | hbc | hbc
      · simp [hbc]
      · subst hbc
        simp only [String.lt_irrefl, if_false] at h2 ⊢
        exact lexLe_trans as bs cs h1 h2
      · have := String.lt_asymm hbc
        simp [hbc, this] at h2
    · have := String.lt_asymm hab
      simp [hab, this] at h1

theorem lexLe_refl (a : List String) : lexLe a a = true := by
  rcases lexLe_total a a with h | h <;> exact h

end Gin.Sort
