/- A relation between the state before and after an evaluation: any reflexive, transitive relation
   that the two writes of the call path respect (the operative record, and the probe's own
   counter / log entry) holds across every evaluation. Used for "the counters never go down". -/
import Gin.Lemmas.Eval
import Gin.Lemmas.AList

namespace Gin

/-- The five mutually recursive evaluators all respect such a relation (induction on the fuel). -/
theorem eval_rel (R : State → State → Prop) (refl : ∀ s, R s s)
    (trans : ∀ a b c, R a b → R b c → R a c)
    (hop : ∀ (s : State) (op : Store), R s { s with operative := op })
    (hcall : ∀ (s : State) (full : Sel) (ev : CallEvent),
      R s { s with calls := AList.set full ((AList.lookup full s.calls).getD 0 + 1) s.calls,
                   log := s.log ++ [ev] })
    (fuel : Nat) :
    (∀ s σ v s' v', evalVal fuel s σ v = .ok (s', v') → R s s') ∧
    (∀ s σ xs s' ys, evalVals fuel s σ xs = .ok (s', ys) → R s s') ∧
    (∀ s σ kvs s' kvs', evalDict fuel s σ kvs = .ok (s', kvs') → R s s') ∧
    (∀ s σ kw s' kw', evalKws fuel s σ kw = .ok (s', kw') → R s s') ∧
    (∀ s full σ args kwargs s' v, callCfg fuel s full σ args kwargs = .ok (s', v) → R s s') := by
  induction fuel with
  | zero =>
    refine ⟨?_, ?_, ?_, ?_, ?_⟩ <;> intros <;> simp_all [evalVal, evalVals, evalDict, evalKws, callCfg]
  | succ n ih =>
    obtain ⟨ihV, ihL, ihD, ihK, ihC⟩ := ih
    refine ⟨?_, ?_, ?_, ?_, ?_⟩
    · intro s σ v s' v' h
      cases v <;> simp only [evalVal] at h
      case list xs =>
        split at h
        · rename_i es' ys hh; simp only [Except.ok.injEq, Prod.mk.injEq] at h; rw [← h.1]; exact ihL _ _ _ _ _ hh
        · cases h
      case tuple xs =>
        split at h
        · rename_i es' ys hh; simp only [Except.ok.injEq, Prod.mk.injEq] at h; rw [← h.1]; exact ihL _ _ _ _ _ hh
        · cases h
      case set xs =>
        split at h
        · rename_i es' ys hh; simp only [Except.ok.injEq, Prod.mk.injEq] at h; rw [← h.1]; exact ihL _ _ _ _ _ hh
        · cases h
      case dict kvs =>
        split at h
        · rename_i es' ys hh; simp only [Except.ok.injEq, Prod.mk.injEq] at h; rw [← h.1]; exact ihD _ _ _ _ _ hh
        · cases h
      case ref scopes sel ev =>
        split at h
        · exact ihC _ _ _ _ _ _ _ h
        · simp only [Except.ok.injEq, Prod.mk.injEq] at h; rw [← h.1]; exact refl s
      case «macro» name => exact ihC _ _ _ _ _ _ _ h
      case const name =>
        split at h
        · simp only [Except.ok.injEq, Prod.mk.injEq] at h; rw [← h.1]; exact refl s
        · cases h
      case unknownRef a b => cases h
      all_goals (simp only [Except.ok.injEq, Prod.mk.injEq] at h; rw [← h.1]; exact refl s)
    · intro s σ xs s' ys h
      cases xs with
      | nil => simp only [evalVals, Except.ok.injEq, Prod.mk.injEq] at h; rw [← h.1]; exact refl s
      | cons x xs =>
        simp only [evalVals] at h
        split at h
        · cases h
        · rename_i es1 y h1
          split at h
          · cases h
          · rename_i es2 ys2 h2
            simp only [Except.ok.injEq, Prod.mk.injEq] at h; rw [← h.1]
            exact trans _ _ _ (ihV _ _ _ _ _ h1) (ihL _ _ _ _ _ h2)
    · intro s σ kvs s' kvs' h
      cases kvs with
      | nil => simp only [evalDict, Except.ok.injEq, Prod.mk.injEq] at h; rw [← h.1]; exact refl s
      | cons kv rest =>
        obtain ⟨k, v⟩ := kv
        simp only [evalDict] at h
        split at h
        · cases h
        · rename_i es1 v' h1
          split at h
          · cases h
          · rename_i es2 k' h2
            split at h
            · cases h
            · rename_i es3 rest' h3
              simp only [Except.ok.injEq, Prod.mk.injEq] at h; rw [← h.1]
              exact trans _ _ _ (trans _ _ _ (ihV _ _ _ _ _ h1) (ihV _ _ _ _ _ h2)) (ihD _ _ _ _ _ h3)
    · intro s σ kw s' kw' h
      cases kw with
      | nil => simp only [evalKws, Except.ok.injEq, Prod.mk.injEq] at h; rw [← h.1]; exact refl s
      | cons kv rest =>
        obtain ⟨k, v⟩ := kv
        simp only [evalKws] at h
        split at h
        · cases h
        · rename_i es1 v' h1
          split at h
          · cases h
          · rename_i es2 rest' h2
            simp only [Except.ok.injEq, Prod.mk.injEq] at h; rw [← h.1]
            exact trans _ _ _ (ihV _ _ _ _ _ h1) (ihK _ _ _ _ _ h2)
    · intro s full σ args kwargs s' v h
      simp only [callCfg] at h
      split at h
      · cases h
      · rename_i e he
        split at h
        · cases h
        · rename_i a hA
          split at h
          · cases h
          · rename_i es1 evaluated hK
            have f1 : R s es1 := trans _ _ _ (hop s _) (ihK _ _ _ _ _ hK)
            split at h
            · cases h
            · split at h
              · cases h
              · split at h
                · split at h
                  · simp only [Except.ok.injEq, Prod.mk.injEq] at h; rw [← h.1]; exact f1
                  · cases h
                · split at h
                  · split at h
                    · simp only [Except.ok.injEq, Prod.mk.injEq] at h; rw [← h.1]; exact f1
                    · split at h
                      · simp only [Except.ok.injEq, Prod.mk.injEq] at h; rw [← h.1]; exact f1
                      · cases h
                  · simp only [Except.ok.injEq, Prod.mk.injEq] at h; rw [← h.1]
                    exact trans _ _ _ f1 (hcall es1 full _)

/-- how often the probe `sel` has run -/
def State.count (s : State) (sel : Sel) : Nat := (AList.lookup sel s.calls).getD 0

/-- no probe's counter is lower in `s'` than in `s` -/
def CallsMono (s s' : State) : Prop := ∀ sel, s.count sel ≤ s'.count sel

theorem CallsMono.refl (s : State) : CallsMono s s := fun _ => Nat.le_refl _
theorem CallsMono.trans (a b c : State) (h1 : CallsMono a b) (h2 : CallsMono b c) : CallsMono a c :=
  fun sel => Nat.le_trans (h1 sel) (h2 sel)

theorem eval_callsMono (fuel : Nat) :
    (∀ s σ v s' v', evalVal fuel s σ v = .ok (s', v') → CallsMono s s') ∧
    (∀ s σ xs s' ys, evalVals fuel s σ xs = .ok (s', ys) → CallsMono s s') ∧
    (∀ s σ kvs s' kvs', evalDict fuel s σ kvs = .ok (s', kvs') → CallsMono s s') ∧
    (∀ s σ kw s' kw', evalKws fuel s σ kw = .ok (s', kw') → CallsMono s s') ∧
    (∀ s full σ args kwargs s' v, callCfg fuel s full σ args kwargs = .ok (s', v) → CallsMono s s') := by
  apply eval_rel CallsMono CallsMono.refl CallsMono.trans
  · intro s op sel; exact Nat.le_refl _
  · intro s full ev sel
    simp only [State.count, AList.lookup_set]
    by_cases h : sel = full
    · subst h; simp only [if_true, Option.getD_some]; omega
    · simp only [h, if_false]; exact Nat.le_refl _

/-- A successful call of a probe (anything but `gin.macro` / `gin.constant`) returns the result
    numbered by the probe's counter at the moment its body ran, which is at least the counter before
    the call, and leaves the counter one higher. -/
theorem callCfg_probe (fuel : Nat) (s : State) (full : Sel) (σ : Scope) (args : List Val)
    (kwargs : AList String Val) (s' : State) (v : Val)
    (hm : (full == State.macroSel) = false) (hc : (full == State.constSel) = false)
    (h : callCfg fuel s full σ args kwargs = .ok (s', v)) :
    ∃ n, v = .result full n ∧ s.count full ≤ n ∧ s'.count full = n + 1 := by
  cases fuel with
  | zero => simp [callCfg] at h
  | succ f =>
    simp only [callCfg] at h
    split at h
    · cases h
    · split at h
      · cases h
      · split at h
        · cases h
        · rename_i es1 evaluated hK
          have mono := (eval_callsMono f).2.2.2.1 _ _ _ _ _ hK full
          split at h
          · cases h
          · split at h
            · cases h
            · simp only [hm, hc, Bool.false_eq_true, if_false, Except.ok.injEq, Prod.mk.injEq] at h
              refine ⟨(AList.lookup full es1.calls).getD 0, h.2.symm, ?_, ?_⟩
              · simpa [State.count] using mono
              · rw [← h.1]; simp [State.count, AList.lookup_set]

end Gin
