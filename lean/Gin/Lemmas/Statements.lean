/- Lemmas about the statement consumer. -/
import Gin.Statements

namespace Gin

theorem bind_locked_eq (st st' : State) (k : Key) (v : Val) (loc : Option Loc)
    (h : st.bind k v loc = .ok st') : st'.locked = st.locked := by
  unfold State.bind at h
  repeat (first | (split at h) | cases h)
  rfl

theorem bind_registry_eq (st st' : State) (k : Key) (v : Val) (loc : Option Loc)
    (h : st.bind k v loc = .ok st') : st'.registry = st.registry ∧ st'.constants = st.constants := by
  unfold State.bind at h
  repeat (first | (split at h) | cases h)
  exact ⟨rfl, rfl⟩

/-- all registrations performed by the import statements of a text, at any include depth -/
def stmtsRegs : List Stmt → List State.RegReq
  | [] => []
  | .imp _ _ _ regs :: rest => regs ++ stmtsRegs rest
  | .incl _ (some stmts) _ :: rest => stmtsRegs stmts ++ stmtsRegs rest
  | _ :: rest => stmtsRegs rest

/-- what a parse leaves untouched: lock flag and constants (the registry too, unless an imported
    module registers something: `applyStmts_registry`) -/
structure ParseFrame (s s' : State) : Prop where
  locked : s'.locked = s.locked
  constants : s'.constants = s.constants

theorem ParseFrame.refl (s : State) : ParseFrame s s := ⟨rfl, rfl⟩
theorem ParseFrame.trans {a b c : State} (h1 : ParseFrame a b) (h2 : ParseFrame b c) : ParseFrame a c :=
  ⟨h2.locked.trans h1.locked, h2.constants.trans h1.constants⟩

theorem parseFrame_of_bind (st st' : State) (k : Key) (v : Val) (loc : Option Loc)
    (h : st.bind k v loc = .ok st') : ParseFrame st st' :=
  ⟨bind_locked_eq st st' k v loc h, (bind_registry_eq st st' k v loc h).2⟩

theorem register_frame (st st' : State) (r : State.RegReq) (h : st.register r = .ok st') :
    st'.locked = st.locked ∧ st'.constants = st.constants := by
  rw [(State.register_ok h).2]
  exact ⟨rfl, rfl⟩

theorem registerAll_frame (st : State) (regs : List State.RegReq) :
    (registerAll st regs).1.locked = st.locked ∧ (registerAll st regs).1.constants = st.constants := by
  induction regs generalizing st with
  | nil => exact ⟨rfl, rfl⟩
  | cons r rest ih =>
    simp only [registerAll]
    cases h : st.register r with
    | error e => exact ⟨rfl, rfl⟩
    | ok st' =>
      have h1 := register_frame st st' r h
      have h2 := ih st'
      exact ⟨h2.1.trans h1.1, h2.2.trans h1.2⟩

mutual
  theorem applyStmts_frame (st : State) (file : Option String) (skip : SkipSpec) (ss : List Stmt) :
      ParseFrame st (applyStmts st file skip ss).st := by
    cases ss with
    | nil => simp only [applyStmts]; exact ParseFrame.refl st
    | cons s rest =>
      simp only [applyStmts]
      have h1 := applyStmt_frame st file skip s
      split
      · rename_i st1 imps incs f heq
        rw [heq] at h1; exact h1
      · rename_i st1 imps incs heq
        rw [heq] at h1
        exact h1.trans (applyStmts_frame st1 file skip rest)
  theorem applyStmt_frame (st : State) (file : Option String) (skip : SkipSpec) (s : Stmt) :
      ParseFrame st (applyStmt st file skip s).1 := by
    cases s with
    | syntaxErr l => simp only [applyStmt]; exact ParseFrame.refl st
    | binding scope sel arg v line =>
      simp only [applyStmt]
      split
      · exact ParseFrame.refl st
      · split
        · split
          · rename_i h; exact parseFrame_of_bind _ _ _ _ _ h
          · exact ParseFrame.refl st
        · split
          · exact ParseFrame.refl st
          · split
            · rename_i h; exact parseFrame_of_bind _ _ _ _ _ h
            · exact ParseFrame.refl st
    | block scope sel line =>
      simp only [applyStmt]
      split
      · exact ParseFrame.refl st
      · split <;> exact ParseFrame.refl st
    | imp m found line regs =>
      simp only [applyStmt]
      have hr := registerAll_frame st regs
      split
      · split
        · rename_i heq; rw [heq] at hr; exact ⟨hr.1, hr.2⟩
        · rename_i heq; rw [heq] at hr; exact ⟨hr.1, hr.2⟩
      · split <;> exact ParseFrame.refl st
    | incl name fileStmts line =>
      cases fileStmts with
      | none => simp only [applyStmt]; exact ParseFrame.refl st
      | some stmts =>
        simp only [applyStmt]
        have h := applyStmts_frame st (some name) skip stmts
        split <;> exact ⟨h.locked, h.constants⟩
end

theorem parseConfig_frame (st : State) (file : Option String) (skip : SkipSpec) (ss : List Stmt) :
    ParseFrame st (parseConfig st file skip ss).st := by
  have h := applyStmts_frame st file skip ss
  exact ⟨h.locked, h.constants⟩

/-! ### the registry changes only through registering imports -/

theorem stmtsRegs_cons_nil (s : Stmt) (rest : List Stmt) (h : stmtsRegs (s :: rest) = []) :
    stmtsRegs [s] = [] ∧ stmtsRegs rest = [] := by
  cases s with
  | imp m f l regs => simp only [stmtsRegs, List.append_eq_nil_iff] at h ⊢; exact ⟨⟨h.1, trivial⟩, h.2⟩
  | incl name fs l =>
    cases fs with
    | none => simp only [stmtsRegs] at h ⊢; exact ⟨trivial, h⟩
    | some body => simp only [stmtsRegs, List.append_eq_nil_iff] at h ⊢; exact ⟨⟨h.1, trivial⟩, h.2⟩
  | binding _ _ _ _ _ => simp only [stmtsRegs] at h ⊢; exact ⟨trivial, h⟩
  | block _ _ _ => simp only [stmtsRegs] at h ⊢; exact ⟨trivial, h⟩
  | syntaxErr _ => simp only [stmtsRegs] at h ⊢; exact ⟨trivial, h⟩

mutual
  theorem applyStmts_registry (st : State) (file : Option String) (skip : SkipSpec) (ss : List Stmt)
      (h : stmtsRegs ss = []) : (applyStmts st file skip ss).st.registry = st.registry := by
    cases ss with
    | nil => simp only [applyStmts]
    | cons s rest =>
      obtain ⟨hs, hrest⟩ := stmtsRegs_cons_nil s rest h
      simp only [applyStmts]
      have h1 := applyStmt_registry st file skip s hs
      split
      · rename_i st1 imps incs f heq
        rw [heq] at h1; exact h1
      · rename_i st1 imps incs heq
        rw [heq] at h1
        exact (applyStmts_registry st1 file skip rest hrest).trans h1
  theorem applyStmt_registry (st : State) (file : Option String) (skip : SkipSpec) (s : Stmt)
      (h : stmtsRegs [s] = []) : (applyStmt st file skip s).1.registry = st.registry := by
    cases s with
    | syntaxErr l => simp only [applyStmt]
    | binding scope sel arg v line =>
      simp only [applyStmt]
      split
      · rfl
      · split
        · split
          · rename_i hb; exact (bind_registry_eq _ _ _ _ _ hb).1
          · rfl
        · split
          · rfl
          · split
            · rename_i hb; exact (bind_registry_eq _ _ _ _ _ hb).1
            · rfl
    | block scope sel line =>
      simp only [applyStmt]
      split
      · rfl
      · split <;> rfl
    | imp m found line regs =>
      have hregs : regs = [] := by simpa [stmtsRegs] using h
      subst hregs
      simp only [applyStmt, registerAll]
      split
      · rfl
      · split <;> rfl
    | incl name fileStmts line =>
      cases fileStmts with
      | none => simp only [applyStmt]
      | some stmts =>
        have hb : stmtsRegs stmts = [] := by simpa [stmtsRegs] using h
        simp only [applyStmt]
        have hh := applyStmts_registry st (some name) skip stmts hb
        split <;> exact hh
end

theorem parseConfig_registry (st : State) (file : Option String) (skip : SkipSpec) (ss : List Stmt)
    (h : stmtsRegs ss = []) : (parseConfig st file skip ss).st.registry = st.registry :=
  applyStmts_registry st file skip ss h

end Gin
