/- Lemmas about the statement consumer. -/
import Gin.Statements

namespace Gin

theorem bind_locked_eq (st st' : State) (k : Key) (v : Val) (loc : Option Loc)
    (h : st.bind k v loc = .ok st') : st'.locked = st.locked := by
  unfold State.bind at h
  repeat (first | (split at h) | cases h)
  rfl

theorem bind_registry_eq (st st' : State) (k : Key) (v : Val) (loc : Option Loc)
    (h : st.bind k v loc = .ok st') : st'.registry = st.registry ∧ st'.constants = st.constants := by
  unfold State.bind at h
  repeat (first | (split at h) | cases h)
  exact ⟨rfl, rfl⟩

/-- what a parse leaves untouched: lock flag, registry, constants (so "known" is static) -/
structure ParseFrame (s s' : State) : Prop where
  locked : s'.locked = s.locked
  registry : s'.registry = s.registry
  constants : s'.constants = s.constants

theorem ParseFrame.refl (s : State) : ParseFrame s s := ⟨rfl, rfl, rfl⟩
theorem ParseFrame.trans {a b c : State} (h1 : ParseFrame a b) (h2 : ParseFrame b c) : ParseFrame a c :=
  ⟨h2.locked.trans h1.locked, h2.registry.trans h1.registry, h2.constants.trans h1.constants⟩

theorem parseFrame_of_bind (st st' : State) (k : Key) (v : Val) (loc : Option Loc)
    (h : st.bind k v loc = .ok st') : ParseFrame st st' :=
  ⟨bind_locked_eq st st' k v loc h, (bind_registry_eq st st' k v loc h).1,
   (bind_registry_eq st st' k v loc h).2⟩

mutual
  theorem applyStmts_frame (st : State) (file : Option String) (skip : SkipSpec) (ss : List Stmt) :
      ParseFrame st (applyStmts st file skip ss).st := by
    cases ss with
    | nil => simp only [applyStmts]; exact ParseFrame.refl st
    | cons s rest =>
      simp only [applyStmts]
      have h1 := applyStmt_frame st file skip s
      split
      · rename_i st1 imps incs f heq
        rw [heq] at h1; exact h1
      · rename_i st1 imps incs heq
        rw [heq] at h1
        exact h1.trans (applyStmts_frame st1 file skip rest)
  theorem applyStmt_frame (st : State) (file : Option String) (skip : SkipSpec) (s : Stmt) :
      ParseFrame st (applyStmt st file skip s).1 := by
    cases s with
    | syntaxErr l => simp only [applyStmt]; exact ParseFrame.refl st
    | binding scope sel arg v line =>
      simp only [applyStmt]
      split
      · exact ParseFrame.refl st
      · split
        · split
          · rename_i h; exact parseFrame_of_bind _ _ _ _ _ h
          · exact ParseFrame.refl st
        · split
          · exact ParseFrame.refl st
          · split
            · rename_i h; exact parseFrame_of_bind _ _ _ _ _ h
            · exact ParseFrame.refl st
    | block scope sel line =>
      simp only [applyStmt]
      split
      · exact ParseFrame.refl st
      · split <;> exact ParseFrame.refl st
    | imp m found line =>
      simp only [applyStmt]
      split
      · exact ParseFrame.refl st
      · split <;> exact ParseFrame.refl st
    | incl name fileStmts line =>
      cases fileStmts with
      | none => simp only [applyStmt]; exact ParseFrame.refl st
      | some stmts =>
        simp only [applyStmt]
        have h := applyStmts_frame st (some name) skip stmts
        split <;> exact ⟨h.locked, h.registry, h.constants⟩
end

theorem parseConfig_frame (st : State) (file : Option String) (skip : SkipSpec) (ss : List Stmt) :
    ParseFrame st (parseConfig st file skip ss).st := by
  have h := applyStmts_frame st file skip ss
  exact ⟨h.locked, h.registry, h.constants⟩

end Gin
