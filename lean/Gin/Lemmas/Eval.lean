/- Frame lemma for the evaluation layer: evaluating and calling never writes the configuration. -/
import Gin.Eval

namespace Gin

/-- what evaluation leaves untouched -/
structure Frame (s s' : State) : Prop where
  config : s'.config = s.config
  prov : s'.prov = s.prov
  locked : s'.locked = s.locked
  registry : s'.registry = s.registry
  constants : s'.constants = s.constants
  hooks : s'.hooks = s.hooks
  interactive : s'.interactive = s.interactive
  singletons : s'.singletons = s.singletons
  imports : s'.imports = s.imports

theorem Frame.refl (s : State) : Frame s s := ⟨rfl, rfl, rfl, rfl, rfl, rfl, rfl, rfl, rfl⟩

theorem Frame.trans {a b c : State} (h1 : Frame a b) (h2 : Frame b c) : Frame a c :=
  ⟨h2.config.trans h1.config, h2.prov.trans h1.prov, h2.locked.trans h1.locked,
   h2.registry.trans h1.registry, h2.constants.trans h1.constants, h2.hooks.trans h1.hooks,
   h2.interactive.trans h1.interactive, h2.singletons.trans h1.singletons,
   h2.imports.trans h1.imports⟩

/-- the five mutually recursive evaluators all respect the frame (induction on the fuel) -/
theorem eval_frame (fuel : Nat) :
    (∀ s σ v s' v', evalVal fuel s σ v = .ok (s', v') → Frame s s') ∧
    (∀ s σ xs s' ys, evalVals fuel s σ xs = .ok (s', ys) → Frame s s') ∧
    (∀ s σ kvs s' kvs', evalDict fuel s σ kvs = .ok (s', kvs') → Frame s s') ∧
    (∀ s σ kw s' kw', evalKws fuel s σ kw = .ok (s', kw') → Frame s s') ∧
    (∀ s full σ args kwargs s' v, callCfg fuel s full σ args kwargs = .ok (s', v) → Frame s s') := by
  induction fuel with
  | zero =>
    refine ⟨?_, ?_, ?_, ?_, ?_⟩ <;> intros <;> simp_all [evalVal, evalVals, evalDict, evalKws, callCfg]
  | succ n ih =>
    obtain ⟨ihV, ihL, ihD, ihK, ihC⟩ := ih
    refine ⟨?_, ?_, ?_, ?_, ?_⟩
    · intro s σ v s' v' h
      cases v <;> simp only [evalVal] at h
      case list xs =>
        split at h
        · rename_i es' ys hh; simp only [Except.ok.injEq, Prod.mk.injEq] at h; rw [← h.1]; exact ihL _ _ _ _ _ hh
        · cases h
      case tuple xs =>
        split at h
        · rename_i es' ys hh; simp only [Except.ok.injEq, Prod.mk.injEq] at h; rw [← h.1]; exact ihL _ _ _ _ _ hh
        · cases h
      case set xs =>
        split at h
        · rename_i es' ys hh; simp only [Except.ok.injEq, Prod.mk.injEq] at h; rw [← h.1]; exact ihL _ _ _ _ _ hh
        · cases h
      case dict kvs =>
        split at h
        · rename_i es' ys hh; simp only [Except.ok.injEq, Prod.mk.injEq] at h; rw [← h.1]; exact ihD _ _ _ _ _ hh
        · cases h
      case ref scopes sel ev =>
        split at h
        · exact ihC _ _ _ _ _ _ _ h
        · simp only [Except.ok.injEq, Prod.mk.injEq] at h; rw [← h.1]; exact Frame.refl s
      case «macro» name => exact ihC _ _ _ _ _ _ _ h
      case const name =>
        split at h
        · simp only [Except.ok.injEq, Prod.mk.injEq] at h; rw [← h.1]; exact Frame.refl s
        · cases h
      case unknownRef a b => cases h
      all_goals (simp only [Except.ok.injEq, Prod.mk.injEq] at h; rw [← h.1]; exact Frame.refl s)
    · intro s σ xs s' ys h
      cases xs with
      | nil => simp only [evalVals, Except.ok.injEq, Prod.mk.injEq] at h; rw [← h.1]; exact Frame.refl s
      | cons x xs =>
        simp only [evalVals] at h
        split at h
        · cases h
        · rename_i es1 y h1
          split at h
          · cases h
          · rename_i es2 ys2 h2
            simp only [Except.ok.injEq, Prod.mk.injEq] at h; rw [← h.1]
            exact (ihV _ _ _ _ _ h1).trans (ihL _ _ _ _ _ h2)
    · intro s σ kvs s' kvs' h
      cases kvs with
      | nil => simp only [evalDict, Except.ok.injEq, Prod.mk.injEq] at h; rw [← h.1]; exact Frame.refl s
      | cons kv rest =>
        obtain ⟨k, v⟩ := kv
        simp only [evalDict] at h
        split at h
        · cases h
        · rename_i es1 v' h1
          split at h
          · cases h
          · rename_i es2 k' h2
            split at h
            · cases h
            · rename_i es3 rest' h3
              simp only [Except.ok.injEq, Prod.mk.injEq] at h; rw [← h.1]
              exact ((ihV _ _ _ _ _ h1).trans (ihV _ _ _ _ _ h2)).trans (ihD _ _ _ _ _ h3)
    · intro s σ kw s' kw' h
      cases kw with
      | nil => simp only [evalKws, Except.ok.injEq, Prod.mk.injEq] at h; rw [← h.1]; exact Frame.refl s
      | cons kv rest =>
        obtain ⟨k, v⟩ := kv
        simp only [evalKws] at h
        split at h
        · cases h
        · rename_i es1 v' h1
          split at h
          · cases h
          · rename_i es2 rest' h2
            simp only [Except.ok.injEq, Prod.mk.injEq] at h; rw [← h.1]
            exact (ihV _ _ _ _ _ h1).trans (ihK _ _ _ _ _ h2)
    · intro s full σ args kwargs s' v h
      simp only [callCfg] at h
      split at h
      · cases h
      · rename_i e he
        split at h
        · cases h
        · rename_i a hA
          split at h
          · cases h
          · rename_i es1 evaluated hK
            have f1 : Frame s es1 := by
              have := ihK _ _ _ _ _ hK
              exact ⟨this.config, this.prov, this.locked, this.registry, this.constants, this.hooks,
                this.interactive, this.singletons, this.imports⟩
            split at h
            · cases h
            · split at h
              · cases h
              · split at h
                · split at h
                  · simp only [Except.ok.injEq, Prod.mk.injEq] at h; rw [← h.1]; exact f1
                  · cases h
                · split at h
                  · split at h
                    · simp only [Except.ok.injEq, Prod.mk.injEq] at h; rw [← h.1]; exact f1
                    · split at h
                      · simp only [Except.ok.injEq, Prod.mk.injEq] at h; rw [← h.1]; exact f1
                      · cases h
                  · simp only [Except.ok.injEq, Prod.mk.injEq] at h; rw [← h.1]
                    exact ⟨f1.config, f1.prov, f1.locked, f1.registry, f1.constants, f1.hooks,
                      f1.interactive, f1.singletons, f1.imports⟩

theorem callCfg_frame (fuel : Nat) (s : State) (full : Sel) (σ : Scope) (args : List Val)
    (kwargs : AList String Val) (s' : State) (v : Val)
    (h : callCfg fuel s full σ args kwargs = .ok (s', v)) : Frame s s' :=
  (eval_frame fuel).2.2.2.2 s full σ args kwargs s' v h

end Gin
