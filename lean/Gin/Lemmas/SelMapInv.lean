/- The representation invariant of `SelectorMap` and its preservation. -/
import Gin.Lemmas.Trie
import Gin.Lemmas.AList

namespace Gin.SelMap
open Gin.Tree
variable {α : Type}

/-- Representation invariant tying the suffix tree to the flat dict. -/
structure Inv (m : SelMap α) : Prop where
  wf : WF m.tree
  nodup : m.keys.Nodup
  /-- the terminals of the tree are exactly the stored names, each at its own reversed path -/
  sem : ∀ p s, find m.tree p = some s ↔ (s ∈ m.keys ∧ p = s.reverse)

theorem inv_empty : Inv (empty : SelMap α) where
  wf := wf_empty
  nodup := by simp [empty, keys, AList.keys]
  sem := by
    intro p s
    have := find_empty p
    simp [empty, keys, AList.keys, this]

theorem inv_set (m : SelMap α) (h : Inv m) (s : Sel) (v : α) : Inv (m.set s v) where
  wf := wf_insert _ h.wf _ _
  nodup := AList.nodup_keys_set s v m.map h.nodup
  sem := by
    intro p s'
    simp only [set, keys, find_insert, AList.mem_keys_set]
    have hs := h.sem p s'
    simp only [keys] at hs
    by_cases hp : p = s.reverse
    · subst hp
      simp only [if_true, Option.some.injEq]
      constructor
      · intro e; subst e; exact ⟨Or.inl rfl, rfl⟩
      · rintro ⟨_, e⟩
        have := congrArg List.reverse e
        simpa using this
    · simp only [hp, if_false, hs]
      constructor
      · rintro ⟨a, b⟩; exact ⟨Or.inr a, b⟩
      · rintro ⟨a | a, b⟩
        · subst a; exact absurd b hp
        · exact ⟨a, b⟩

theorem inv_pop (m : SelMap α) (h : Inv m) (s : Sel) (v : α) (m' : SelMap α)
    (hp : m.pop s = some (v, m')) : Inv m' := by
  simp only [pop] at hp
  cases hl : AList.lookup s m.map with
  | none => simp [hl] at hp
  | some v0 =>
    simp only [hl, Option.some.injEq, Prod.mk.injEq] at hp
    obtain ⟨_, hm⟩ := hp
    subst hm
    refine ⟨wf_erase _ h.wf _, AList.nodup_keys_erase s m.map h.nodup, ?_⟩
    intro p s'
    simp only [keys, find_erase _ h.wf, AList.mem_keys_erase s s' m.map h.nodup]
    have hs := h.sem p s'
    simp only [keys] at hs
    by_cases hpp : p = s.reverse
    · subst hpp
      simp only [if_true]
      constructor
      · intro e; cases e
      · rintro ⟨⟨hne, _⟩, e⟩
        have := congrArg List.reverse e
        simp at this; exact absurd this.symm hne
    · simp only [hpp, if_false, hs]
      constructor
      · rintro ⟨a, b⟩
        refine ⟨⟨?_, a⟩, b⟩
        intro e; subst e; exact hpp b
      · rintro ⟨⟨_, a⟩, b⟩; exact ⟨a, b⟩

end Gin.SelMap
