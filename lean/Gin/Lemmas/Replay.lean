/-
Re-binding a list of (key, value) pairs into a configuration: what the resulting store holds.
Used by the round-trip theorem of C06 (`Props/C06d.lean`).
-/
import Gin.Lemmas.Statements
import Gin.Lemmas.AList

namespace Gin
open Gin.AList

/-- the value bound for parameter `p` of `(scope, selector)` -/
def getP (cfg : Store) (key : Scope × Sel) (p : String) : Option Val :=
  (lookup key cfg).bind (lookup p)

theorem getP_eq_params (cfg : Store) (key : Scope × Sel) (p : String) :
    getP cfg key p = lookup p (cfg.params key.1 key.2) := by
  unfold getP Store.params
  cases h : lookup (key.1, key.2) cfg with
  | none => simp [show lookup key cfg = none from h, lookup]
  | some d => simp [show lookup key cfg = some d from h]

theorem getP_setParam (cfg : Store) (key key' : Scope × Sel) (arg p : String) (v : Val) :
    getP (State.setParam cfg key arg v) key' p =
      if key' = key ∧ p = arg then some v else getP cfg key' p := by
  unfold State.setParam
  simp only [getP, lookup_set]
  by_cases hk : key' = key
  · subst hk
    simp only [if_true, Option.bind_some, lookup_set, true_and]
    by_cases hp : p = arg
    · simp [hp]
    · simp only [hp, if_false]
      rw [← getP_eq_params]; rfl
  · simp [hk]

/-- binding a list of pairs in order; the first failure stops -/
def bindAll (st : State) : List (Key × Val) → Except Err State
  | [] => .ok st
  | (k, v) :: rest => match st.bind k v with
    | .error e => .error e
    | .ok st' => bindAll st' rest

theorem parseKey_congr {s t : State} (h : s.registry = t.registry) (k : Key) : s.parseKey k = t.parseKey k := by
  simp [State.parseKey, h]

theorem bind_ok_of_parse (st : State) (k : Key) (v : Val) (scope : Scope) (full : Sel) (arg : String)
    (hl : st.locked = false) (hk : st.parseKey k = .ok (scope, full, arg)) :
    ∃ stb, st.bind k v = .ok stb ∧ stb.config = State.setParam st.config (scope, full) arg v ∧
      stb.registry = st.registry ∧ stb.locked = false := by
  cases hb : st.bind k v with
  | error e => simp [State.bind, hl, hk] at hb
  | ok stb =>
    simp only [State.bind, hl, hk, Bool.false_eq_true, if_false, Except.ok.injEq] at hb
    subst hb
    exact ⟨_, rfl, rfl, rfl, rfl⟩

/-- what the last matching pair decides -/
def lastFor (nf : Key → Scope × Sel × String) (t : Scope × Sel × String) (init : Option Val) :
    List (Key × Val) → Option Val
  | [] => init
  | (k, v) :: rest => lastFor nf t (if nf k = t then some v else init) rest

/-- If every key of the list has a normal form under the (fixed) registry, all binds succeed, the registry and
    the lock stay, and each parameter holds the value of the last pair that addresses it. -/
theorem bindAll_spec (nf : Key → Scope × Sel × String) (L : List (Key × Val)) :
    ∀ (st : State), st.locked = false →
      (∀ kv ∈ L, st.parseKey kv.1 = .ok (nf kv.1)) →
      ∃ st', bindAll st L = .ok st' ∧ st'.registry = st.registry ∧ st'.locked = false ∧
        ∀ key p, getP st'.config key p = lastFor nf (key.1, key.2, p) (getP st.config key p) L := by
  induction L with
  | nil => intro st hl _; exact ⟨st, rfl, rfl, hl, fun _ _ => rfl⟩
  | cons kv rest ih =>
    intro st hl hp
    obtain ⟨k, v⟩ := kv
    have hk := hp (k, v) List.mem_cons_self
    simp only at hk
    rcases hnf : nf k with ⟨scope, full, arg⟩
    rw [hnf] at hk
    obtain ⟨stb, hb, hcfg, hreg, hlb⟩ := bind_ok_of_parse st k v scope full arg hl hk
    obtain ⟨st', h1, h2, h3, h4⟩ := ih stb hlb
      (fun kv' hkv' => by
        rw [parseKey_congr hreg]
        exact hp kv' (List.mem_cons_of_mem _ hkv'))
    refine ⟨st', by simp [bindAll, hb, h1], h2.trans hreg, h3, ?_⟩
    intro key p
    rw [h4 key p]
    simp only [lastFor, hcfg, getP_setParam, hnf]
    congr 1
    by_cases hc : key = (scope, full) ∧ p = arg
    · obtain ⟨rfl, rfl⟩ := hc; simp
    · have : ¬ ((scope, full, arg) = (key.1, key.2, p)) := by
        intro he
        apply hc
        simp only [Prod.mk.injEq] at he
        exact ⟨Prod.ext he.1.symm he.2.1.symm, he.2.2.symm⟩
      simp [hc, this]

/-- If all pairs addressing `t` carry the value `v` and there is at least one, the last one does. -/
theorem lastFor_consistent (nf : Key → Scope × Sel × String) (t : Scope × Sel × String) (v : Val)
    (L : List (Key × Val)) (hall : ∀ kv ∈ L, nf kv.1 = t → kv.2 = v) :
    ∀ init, ((∃ kv ∈ L, nf kv.1 = t) ∨ init = some v) → lastFor nf t init L = some v := by
  induction L with
  | nil =>
    intro init h
    rcases h with ⟨kv, hkv, _⟩ | h
    · cases hkv
    · exact h
  | cons kv rest ih =>
    intro init h
    obtain ⟨k, w⟩ := kv
    simp only [lastFor]
    apply ih (fun kv' hkv' => hall kv' (List.mem_cons_of_mem _ hkv'))
    by_cases hk : nf k = t
    · right
      have := hall (k, w) List.mem_cons_self hk
      simp only at this
      simp [hk, this]
    · rcases h with ⟨kv', hkv', hnf'⟩ | h
      · rcases List.mem_cons.1 hkv' with rfl | hr
        · exact absurd hnf' hk
        · left; exact ⟨kv', hr, hnf'⟩
      · right; simp [hk, h]

/-- If no pair addresses `t`, the initial value stays. -/
theorem lastFor_none (nf : Key → Scope × Sel × String) (t : Scope × Sel × String) (L : List (Key × Val))
    (hnone : ∀ kv ∈ L, nf kv.1 ≠ t) : ∀ init, lastFor nf t init L = init := by
  induction L with
  | nil => intro init; rfl
  | cons kv rest ih =>
    intro init
    obtain ⟨k, w⟩ := kv
    simp only [lastFor]
    have hk := hnone (k, w) List.mem_cons_self
    simp only at hk
    simp only [hk, if_false]
    exact ih (fun kv' hkv' => hnone kv' (List.mem_cons_of_mem _ hkv')) init

end Gin
