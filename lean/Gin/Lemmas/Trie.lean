/-
Helper lemmas about the trie mirror (`Gin/SelectorMap.lean`).
-/
import Gin.SelectorMap

namespace Gin.Tree

/-! ### child / upsert / alter -/

theorem child_upsert (ks : List (String × Tree)) (c d : String) (f : Option Tree → Tree) :
    child (upsert ks c f) d = if d = c then some (f (child ks c)) else child ks d := by
  induction ks with
  | nil =>
    simp only [upsert, child]
    by_cases h : c = d
    · subst h; simp
    · have : ¬ d = c := fun h' => h h'.symm
      simp [h, this]
  | cons x rest ih =>
    obtain ⟨c', t⟩ := x
    simp only [upsert]
    by_cases h : c' = c
    · subst h
      simp only [if_true, child]
      by_cases h2 : c' = d
      · subst h2; simp
      · have : ¬ d = c' := fun h' => h2 h'.symm
        simp [h2, this]
    · simp only [h, if_false, child]
      by_cases h2 : c' = d
      · subst h2
        have : ¬ c' = c := h
        simp [this]
      · simp [h2, ih]

def keysOf (ks : List (String × Tree)) : List String := ks.map (·.1)

theorem child_none_of_not_mem (ks : List (String × Tree)) (c : String) (h : c ∉ keysOf ks) :
    child ks c = none := by
  induction ks with
  | nil => rfl
  | cons x rest ih =>
    obtain ⟨c', t⟩ := x
    simp only [keysOf, List.map_cons, List.mem_cons, not_or] at h
    have h1 : ¬ c' = c := fun e => h.1 e.symm
    simp only [child, h1, if_false]
    exact ih h.2

theorem child_some_mem (ks : List (String × Tree)) (c : String) (t : Tree)
    (h : child ks c = some t) : (c, t) ∈ ks := by
  induction ks with
  | nil => simp [child] at h
  | cons x rest ih =>
    obtain ⟨c', t'⟩ := x
    simp only [child] at h
    by_cases h1 : c' = c
    · subst h1; simp at h; subst h; simp
    · simp only [h1, if_false] at h
      exact List.mem_cons_of_mem _ (ih h)

theorem child_of_mem (ks : List (String × Tree)) (hn : (keysOf ks).Nodup) (c : String) (t : Tree)
    (h : (c, t) ∈ ks) : child ks c = some t := by
  induction ks with
  | nil => simp at h
  | cons x rest ih =>
    obtain ⟨c', t'⟩ := x
    simp only [keysOf, List.map_cons, List.nodup_cons] at hn
    simp only [List.mem_cons, Prod.mk.injEq] at h
    rcases h with ⟨h1, h2⟩ | h
    · subst h1; subst h2; simp [child]
    · have : c' ≠ c := by
        intro e; subst e
        exact hn.1 (List.mem_map_of_mem (f := (·.1)) h)
      simp only [child, this, if_false]
      exact ih hn.2 h

theorem child_alter (ks : List (String × Tree)) (hn : (keysOf ks).Nodup) (c d : String)
    (f : Tree → Option Tree) :
    child (alter ks c f) d = if d = c then (child ks c).bind f else child ks d := by
  induction ks with
  | nil => simp [alter, child]
  | cons x rest ih =>
    obtain ⟨c', t⟩ := x
    simp only [keysOf, List.map_cons, List.nodup_cons] at hn
    simp only [alter]
    by_cases h : c' = c
    · subst h
      simp only [if_true, child]
      cases hf : f t with
      | none =>
        simp only
        by_cases h2 : d = c'
        · subst h2
          simp [hf, child_none_of_not_mem rest d hn.1]
        · have : ¬ c' = d := fun e => h2 e.symm
          simp [h2, this]
      | some t' =>
        simp only [child]
        by_cases h2 : d = c'
        · subst h2; simp [hf]
        · have : ¬ c' = d := fun e => h2 e.symm
          simp [h2, this]
    · simp only [h, if_false, child]
      by_cases h2 : c' = d
      · subst h2
        have : ¬ c' = c := h
        simp [this]
      · simp [h2, ih hn.2]

theorem keysOf_upsert (ks : List (String × Tree)) (c : String) (f : Option Tree → Tree) :
    keysOf (upsert ks c f) = if c ∈ keysOf ks then keysOf ks else keysOf ks ++ [c] := by
  induction ks with
  | nil => simp [upsert, keysOf]
  | cons x rest ih =>
    obtain ⟨c', t⟩ := x
    simp only [upsert]
    by_cases h : c' = c
    · subst h; simp [keysOf]
    · have h' : ¬ c = c' := fun e => h e.symm
      simp only [h, if_false, keysOf, List.map_cons, List.mem_cons, h', false_or]
      have := ih
      simp only [keysOf] at this
      rw [this]
      by_cases hm : c ∈ List.map (fun x => x.fst) rest <;> simp [hm]

theorem keysOf_alter_sublist (ks : List (String × Tree)) (c : String) (f : Tree → Option Tree) :
    (keysOf (alter ks c f)).Sublist (keysOf ks) := by
  induction ks with
  | nil => simp [alter, keysOf]
  | cons x rest ih =>
    obtain ⟨c', t⟩ := x
    simp only [alter]
    by_cases h : c' = c
    · subst h
      simp only [if_true]
      cases f t with
      | none => simp [keysOf]
      | some t' => simp [keysOf]
    · simp only [h, if_false, keysOf, List.map_cons]
      exact List.Sublist.cons_cons _ ih

theorem nodup_upsert (ks : List (String × Tree)) (c : String) (f : Option Tree → Tree)
    (hn : (keysOf ks).Nodup) : (keysOf (upsert ks c f)).Nodup := by
  rw [keysOf_upsert]
  split
  · exact hn
  · rename_i h
    rw [List.nodup_append]
    refine ⟨hn, by simp, ?_⟩
    intro a ha b hb
    simp at hb; subst hb
    intro e; subst e; exact h ha

theorem nodup_alter (ks : List (String × Tree)) (c : String) (f : Tree → Option Tree)
    (hn : (keysOf ks).Nodup) : (keysOf (alter ks c f)).Nodup :=
  List.Sublist.nodup (keysOf_alter_sublist ks c f) hn

theorem mem_upsert (ks : List (String × Tree)) (hn : (keysOf ks).Nodup) (c : String)
    (f : Option Tree → Tree) (d : String) (t : Tree) (h : (d, t) ∈ upsert ks c f) :
    (d ≠ c ∧ (d, t) ∈ ks) ∨ (d = c ∧ t = f (child ks c)) := by
  induction ks with
  | nil => simp [upsert] at h; right; simpa [child] using h
  | cons x rest ih =>
    obtain ⟨c', t'⟩ := x
    simp only [keysOf, List.map_cons, List.nodup_cons] at hn
    simp only [upsert] at h
    by_cases h1 : c' = c
    · subst h1
      simp only [if_true, List.mem_cons, Prod.mk.injEq] at h
      rcases h with ⟨e1, e2⟩ | h
      · right; subst e1; simp [child, e2]
      · have h2 : d ≠ c' := by
          intro e; subst e
          exact hn.1 (List.mem_map_of_mem (f := (·.1)) h)
        left; exact ⟨h2, by simp [h]⟩
    · simp only [h1, if_false, List.mem_cons, Prod.mk.injEq] at h
      rcases h with ⟨e1, e2⟩ | h
      · left; subst e1; subst e2
        exact ⟨fun e => h1 e, by simp⟩
      · rcases ih hn.2 h with ⟨a, b⟩ | ⟨a, b⟩
        · left; exact ⟨a, by simp [b]⟩
        · right; refine ⟨a, ?_⟩
          simp only [child, h1, if_false]; exact b

theorem mem_alter (ks : List (String × Tree)) (c : String) (f : Tree → Option Tree)
    (d : String) (t : Tree) (h : (d, t) ∈ alter ks c f) :
    (d, t) ∈ ks ∨ (d = c ∧ ∃ t₀, (c, t₀) ∈ ks ∧ f t₀ = some t) := by
  induction ks with
  | nil => simp [alter] at h
  | cons x rest ih =>
    obtain ⟨c', t'⟩ := x
    simp only [alter] at h
    by_cases h1 : c' = c
    · subst h1
      simp only [if_true] at h
      cases hf : f t' with
      | none => simp only [hf] at h; left; simp [h]
      | some t'' =>
        simp only [hf, List.mem_cons, Prod.mk.injEq] at h
        rcases h with ⟨e1, e2⟩ | h
        · right; subst e1; subst e2; exact ⟨rfl, t', by simp, hf⟩
        · left; simp [h]
    · simp only [h1, if_false, List.mem_cons, Prod.mk.injEq] at h
      rcases h with ⟨e1, e2⟩ | h
      · left; subst e1; subst e2; simp
      · rcases ih h with a | ⟨a, t₀, b, c2⟩
        · left; simp [a]
        · right; exact ⟨a, t₀, by simp [b], c2⟩

/-! ### find -/

@[simp] theorem find_nil (t : Tree) : find t [] = term t := by simp [find, get]

theorem find_cons (tm : Option Sel) (ks : List (String × Tree)) (c : String) (p : List String) :
    find (.node tm ks) (c :: p) = (child ks c).bind (fun t' => find t' p) := by
  simp only [find, get]
  cases child ks c <;> simp

@[simp] theorem find_empty (p : List String) : find empty p = none := by
  cases p with
  | nil => rfl
  | cons c p => simp [empty, find_cons, child]

theorem find_of_isEmpty (t : Tree) (h : t.isEmpty = true) (p : List String) : find t p = none := by
  cases t with
  | node tm ks =>
    simp only [isEmpty, Bool.and_eq_true, Option.isNone_iff_eq_none, List.isEmpty_iff] at h
    obtain ⟨h1, h2⟩ := h
    subst h1; subst h2
    exact find_empty p

/-- `__setitem__` changes exactly the terminal at the inserted path. -/
theorem find_insert (t : Tree) (p : List String) (s : Sel) (q : List String) :
    find (insert t p s) q = if q = p then some s else find t q := by
  induction p generalizing t q with
  | nil =>
    cases t with
    | node tm ks =>
      cases q with
      | nil => simp [insert, term]
      | cons d q => simp [insert, find_cons]
  | cons c p ih =>
    cases t with
    | node tm ks =>
      cases q with
      | nil => simp [insert, term]
      | cons d q =>
        simp only [insert, find_cons, child_upsert]
        by_cases h : d = c
        · subst h
          simp only [if_true, Option.bind_some, ih]
          cases hc : child ks d with
          | none => simp
          | some t' => simp
        · simp [h]

end Gin.Tree

namespace Gin.Tree

/-! ### terms -/

theorem termsL_eq (ks : List (String × Tree)) : termsL ks = ks.flatMap (fun x => terms x.2) := by
  induction ks with
  | nil => simp [termsL]
  | cons x rest ih => obtain ⟨c, t⟩ := x; simp [termsL, ih]

theorem terms_node (tm : Option Sel) (ks : List (String × Tree)) :
    terms (.node tm ks) = tm.toList ++ ks.flatMap (fun x => terms x.2) := by
  conv => lhs; rw [terms.eq_def]
  simp only; rw [termsL_eq]; cases tm <;> simp

theorem mem_terms_of_find (t : Tree) (p : List String) (s : Sel) (h : find t p = some s) :
    s ∈ terms t := by
  induction p generalizing t with
  | nil =>
    cases t with
    | node tm ks => simp [term] at h; subst h; simp [terms_node]
  | cons c p ih =>
    cases t with
    | node tm ks =>
      rw [find_cons] at h
      cases hc : child ks c with
      | none => simp [hc] at h
      | some sub =>
        simp only [hc, Option.bind_some] at h
        rw [terms_node]
        apply List.mem_append_right
        rw [List.mem_flatMap]
        exact ⟨(c, sub), child_some_mem ks c sub hc, ih sub h⟩

/-- well-formedness of the dict-of-dicts: distinct keys in every dict and no dead branch
    (every sub-dict still holds at least one terminal – what `pop`'s pruning maintains). -/
inductive WF : Tree → Prop
  | mk (tm : Option Sel) (ks : List (String × Tree)) :
      (keysOf ks).Nodup →
      (∀ c sub, (c, sub) ∈ ks → WF sub) →
      (∀ c sub, (c, sub) ∈ ks → terms sub ≠ []) →
      WF (.node tm ks)

theorem WF.nodup {tm ks} (h : WF (.node tm ks)) : (keysOf ks).Nodup := by cases h; assumption
theorem WF.sub {tm ks} (h : WF (.node tm ks)) {c sub} (hm : (c, sub) ∈ ks) : WF sub := by
  cases h with | mk _ _ _ h2 _ => exact h2 c sub hm
theorem WF.live {tm ks} (h : WF (.node tm ks)) {c sub} (hm : (c, sub) ∈ ks) : terms sub ≠ [] := by
  cases h with | mk _ _ _ _ h3 => exact h3 c sub hm

theorem wf_empty : WF empty := WF.mk none [] (by simp [keysOf]) (by simp) (by simp)

theorem mem_terms_iff (t : Tree) (h : WF t) (s : Sel) :
    s ∈ terms t ↔ ∃ p, find t p = some s := by
  constructor
  · intro hs
    induction h with
    | mk tm ks hn _ _ ih =>
      rw [terms_node, List.mem_append, List.mem_flatMap] at hs
      rcases hs with hs | ⟨⟨c, sub⟩, hm, hs⟩
      · refine ⟨[], ?_⟩
        cases tm <;> simp_all [term]
      · obtain ⟨p, hp⟩ := ih c sub hm hs
        refine ⟨c :: p, ?_⟩
        rw [find_cons, child_of_mem ks hn c sub hm]; simpa using hp
  · rintro ⟨p, hp⟩; exact mem_terms_of_find t p s hp

theorem terms_ne_nil_of_not_isEmpty (t : Tree) (h : WF t) (hne : t.isEmpty = false) :
    terms t ≠ [] := by
  cases t with
  | node tm ks =>
    rw [terms_node]
    cases tm with
    | some s => simp
    | none =>
      cases ks with
      | nil => simp [isEmpty] at hne
      | cons x rest =>
        obtain ⟨c, sub⟩ := x
        have := h.live (c := c) (sub := sub) (by simp)
        simp only [Option.toList_none, List.nil_append, List.flatMap_cons, ne_eq,
          List.append_eq_nil_iff, not_and]
        intro e; exact absurd e this

/-! ### erase -/

theorem find_erase (t : Tree) (h : WF t) (p q : List String) :
    find (erase t p) q = if q = p then none else find t q := by
  induction p generalizing t q with
  | nil =>
    cases t with
    | node tm ks =>
      cases q with
      | nil => simp [erase, term]
      | cons d q => simp [erase, find_cons]
  | cons c p ih =>
    cases t with
    | node tm ks =>
      cases q with
      | nil => simp [erase, term]
      | cons d q =>
        simp only [erase, find_cons, child_alter ks h.nodup]
        by_cases hd : d = c
        · subst hd
          simp only [if_true, List.cons.injEq, true_and]
          cases hc : child ks d with
          | none => simp
          | some sub =>
            have hsub : WF sub := h.sub (child_some_mem ks d sub hc)
            simp only [Option.bind_some]
            by_cases he : (erase sub p).isEmpty = true
            · simp only [he, if_true, Option.bind_none]
              have := ih sub hsub q
              rw [find_of_isEmpty _ he] at this
              exact this
            · simp only [he, Bool.false_eq_true, if_false, Option.bind_some]
              exact ih sub hsub q
        · simp [hd]

theorem wf_insert (t : Tree) (h : WF t) (p : List String) (s : Sel) : WF (insert t p s) := by
  induction p generalizing t with
  | nil =>
    cases t with
    | node tm ks => cases h with | mk _ _ h1 h2 h3 => exact WF.mk _ _ h1 h2 h3
  | cons c p ih =>
    cases t with
    | node tm ks =>
      simp only [insert]
      have hsubwf : WF ((child ks c).getD empty) := by
        cases hc : child ks c with
        | none => exact wf_empty
        | some sub => exact h.sub (child_some_mem ks c sub hc)
      refine WF.mk _ _ (nodup_upsert ks c _ h.nodup) ?_ ?_
      · intro d sub' hm
        rcases mem_upsert ks h.nodup c _ d sub' hm with ⟨_, hold⟩ | ⟨_, hnew⟩
        · exact h.sub hold
        · subst hnew; exact ih _ hsubwf
      · intro d sub' hm
        rcases mem_upsert ks h.nodup c _ d sub' hm with ⟨_, hold⟩ | ⟨_, hnew⟩
        · exact h.live hold
        · subst hnew
          intro e
          have : s ∈ terms (insert ((child ks c).getD empty) p s) :=
            mem_terms_of_find _ p s (by simp [find_insert])
          rw [e] at this; simp at this

theorem wf_erase (t : Tree) (h : WF t) (p : List String) : WF (erase t p) := by
  induction p generalizing t with
  | nil =>
    cases t with
    | node tm ks => cases h with | mk _ _ h1 h2 h3 => exact WF.mk _ _ h1 h2 h3
  | cons c p ih =>
    cases t with
    | node tm ks =>
      simp only [erase]
      refine WF.mk _ _ (nodup_alter ks c _ h.nodup) ?_ ?_
      · intro d sub' hm
        rcases mem_alter ks c _ d sub' hm with hold | ⟨_, t₀, hm0, hf⟩
        · exact h.sub hold
        · by_cases he : (erase t₀ p).isEmpty = true
          · simp [he] at hf
          · simp only [he, Bool.false_eq_true, if_false, Option.some.injEq] at hf
            subst hf; exact ih t₀ (h.sub hm0)
      · intro d sub' hm
        rcases mem_alter ks c _ d sub' hm with hold | ⟨_, t₀, hm0, hf⟩
        · exact h.live hold
        · by_cases he : (erase t₀ p).isEmpty = true
          · simp [he] at hf
          · simp only [he, Bool.false_eq_true, if_false, Option.some.injEq] at hf
            subst hf
            exact terms_ne_nil_of_not_isEmpty _ (ih t₀ (h.sub hm0)) (by simpa using he)

/-! ### subtrees -/

theorem wf_get (t : Tree) (h : WF t) (q : List String) (n : Tree) (hg : get t q = some n) :
    WF n := by
  induction q generalizing t with
  | nil => simp [get] at hg; subst hg; exact h
  | cons c q ih =>
    cases t with
    | node tm ks =>
      simp only [get] at hg
      cases hc : child ks c with
      | none => simp [hc] at hg
      | some sub =>
        simp only [hc] at hg
        exact ih sub (h.sub (child_some_mem ks c sub hc)) hg

theorem find_append (t : Tree) (q p : List String) :
    find t (q ++ p) = (get t q).bind (fun n => find n p) := by
  induction q generalizing t with
  | nil => simp [get]
  | cons c q ih =>
    cases t with
    | node tm ks =>
      simp only [List.cons_append, find_cons, get]
      cases hc : child ks c with
      | none => simp
      | some sub => simp [ih]

/-- what the DFS below the node reached by `q` collects: the terminals whose path extends `q`. -/
theorem mem_terms_get (t : Tree) (h : WF t) (q : List String) (n : Tree)
    (hg : get t q = some n) (s : Sel) :
    s ∈ terms n ↔ ∃ p, find t (q ++ p) = some s := by
  rw [mem_terms_iff n (wf_get t h q n hg)]
  simp [find_append, hg]

end Gin.Tree

namespace Gin.Tree

theorem nodup_flatMap_of {β γ : Type} (l : List β) (f : β → List γ)
    (h1 : ∀ x ∈ l, (f x).Nodup)
    (h2 : l.Pairwise (fun x y => ∀ a ∈ f x, a ∉ f y)) : (l.flatMap f).Nodup := by
  induction l with
  | nil => simp
  | cons x rest ih =>
    rw [List.pairwise_cons] at h2
    rw [List.flatMap_cons, List.nodup_append]
    refine ⟨h1 x (by simp), ih (fun y hy => h1 y (by simp [hy])) h2.2, ?_⟩
    intro a ha b hb e
    subst e
    rw [List.mem_flatMap] at hb
    obtain ⟨y, hy, hay⟩ := hb
    exact h2.1 y hy a ha hay

/-- If every terminal sits at the path spelled by its own name, the DFS never reports a name twice. -/
theorem terms_nodup (t : Tree) (h : WF t) (pre : List String)
    (hp : ∀ p s, find t p = some s → pre ++ p = s.reverse) : (terms t).Nodup := by
  induction h generalizing pre with
  | mk tm ks hn hsub _ ih =>
    have hfind : ∀ c sub, (c, sub) ∈ ks → ∀ p s, find sub p = some s →
        find (.node tm ks) (c :: p) = some s := by
      intro c sub hm p s hf
      rw [find_cons, child_of_mem ks hn c sub hm]; simpa using hf
    rw [terms_node, List.nodup_append]
    refine ⟨by cases tm <;> simp, ?_, ?_⟩
    · apply nodup_flatMap_of
      · rintro ⟨c, sub⟩ hm
        apply ih c sub hm (pre ++ [c])
        intro p s hf
        have := hp (c :: p) s (hfind c sub hm p s hf)
        simpa using this
      · have hpw : ks.Pairwise (fun x y => x.1 ≠ y.1) := by
          have := hn
          simp only [keysOf, List.Nodup, List.pairwise_map] at this
          exact this
        refine List.Pairwise.imp_of_mem ?_ hpw
        rintro ⟨c1, s1⟩ ⟨c2, s2⟩ hm1 hm2 hne a ha1 ha2
        simp only at ha1 ha2 hne
        obtain ⟨p1, hp1⟩ := (mem_terms_iff s1 (hsub c1 s1 hm1) a).1 ha1
        obtain ⟨p2, hp2⟩ := (mem_terms_iff s2 (hsub c2 s2 hm2) a).1 ha2
        have e1 := hp _ _ (hfind c1 s1 hm1 p1 a hp1)
        have e2 := hp _ _ (hfind c2 s2 hm2 p2 a hp2)
        have := e1.trans e2.symm
        simp only [List.append_cancel_left_eq, List.cons.injEq] at this
        exact hne this.1
    · intro a ha b hb e
      subst e
      rw [List.mem_flatMap] at hb
      obtain ⟨⟨c, sub⟩, hm, hb⟩ := hb
      obtain ⟨p, hpf⟩ := (mem_terms_iff sub (hsub c sub hm) a).1 hb
      have e1 := hp _ _ (hfind c sub hm p a hpf)
      have e2 : pre ++ [] = a.reverse := by
        apply hp [] a
        cases tm <;> simp_all [term]
      have := e1.trans e2.symm
      simp at this

end Gin.Tree
