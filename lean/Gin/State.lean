/-
The global state of gin (`gin/config.py` module globals) and its API operations as a state machine.
-/
import Gin.SelectorMap
import Gin.Call

namespace Gin

inductive Err where
  | valueError | keyError | runtimeError | typeError | syntaxError | ioError | nameError
  | attributeError | importError | other (s : String)
deriving Repr, BEq, Inhabited, DecidableEq

def Err.name : Err → String
  | .valueError => "ValueError" | .keyError => "KeyError" | .runtimeError => "RuntimeError"
  | .typeError => "TypeError" | .syntaxError => "SyntaxError" | .ioError => "OSError"
  | .nameError => "NameError" | .attributeError => "AttributeError"
  | .importError => "ImportError" | .other s => s

/-- registry entry: the call-path data plus the identity of the registered Python object -/
structure Entry where
  cfg : Cfgable
  objId : Nat
  /-- a class: calling it supplies the instance (`self` / `cls`) as first positional argument -/
  isClass : Bool := false
deriving Repr, Inhabited

/-- a binding key as accepted by `bind_parameter` after splitting: scope, given selector, parameter -/
structure Key where
  scope : Scope
  sel : Sel
  arg : String
deriving Repr, Inhabited, BEq, DecidableEq

/-- location of the statement that set a binding: file (none = "bindings string") and line -/
structure Loc where
  file : Option String
  line : Nat
deriving Repr, Inhabited, BEq, DecidableEq

/-- one call of a probe configurable, as the probe saw it -/
structure CallEvent where
  sel : Sel
  scope : Scope
  received : Received
deriving Inhabited

/-- a user finalize hook as data: the bindings it returns (`none` = returns `None`), or raising -/
structure Hook where
  ret : Option (List (Key × Val)) := none
  raises : Bool := false
deriving Repr, Inhabited

structure State where
  registry : SelMap Entry := SelMap.empty
  config : Store := []
  prov : AList (Scope × Sel) (AList String (Option Loc)) := []
  operative : Store := []
  locked : Bool := false
  interactive : Bool := false
  constants : SelMap Val := SelMap.empty
  singletons : AList String Val := []
  imports : List String := []
  /-- user finalize hooks, in registration order (data-driven: what each returns / whether it raises) -/
  hooks : List Hook := []
  /-- per-target call counters of the probe configurables -/
  calls : AList Sel Nat := []
  /-- number of singleton constructors run so far (names the constructed objects) -/
  constructed : Nat := 0
  /-- probe calls made while evaluating references (Layer 2, `Gin/Eval.lean`) -/
  log : List CallEvent := []
deriving Inhabited

namespace State

/-! ### `ParsedBindingKey.parse` (config.py 889-948) -/

/-- the normal form of a key: scope, *complete* selector, parameter -/
def parseKey (st : State) (k : Key) : Except Err (Scope × Sel × String) :=
  match st.registry.getMatch k.sel with
  | .ambiguous _ => .error .keyError
  | .none => .error .valueError            -- No configurable matching …
  | .one full e =>
    if e.cfg.isMethod && k.sel.length < 2 then .error .valueError  -- method without class name
    else if !e.cfg.byKeyword k.arg then .error .valueError
    else if !e.cfg.listed k.arg then .error .valueError
    else .ok (k.scope, full, k.arg)

/-! ### `bind_parameter` (1032-1078) -/

def setParam (cfg : Store) (key : Scope × Sel) (arg : String) (v : Val) : Store :=
  AList.set key (AList.set arg v (cfg.params key.1 key.2)) cfg

def bind (st : State) (k : Key) (v : Val) (loc : Option Loc := none) : Except Err State :=
  if st.locked then .error .runtimeError else
  match st.parseKey k with
  | .error e => .error e
  | .ok (scope, full, arg) =>
    let provd := (AList.lookup (scope, full) st.prov).getD []
    .ok { st with config := setParam st.config (scope, full) arg v,
                  prov := AList.set (scope, full) (AList.set arg loc provd) st.prov }

/-! ### `query_parameter` (1081-1115), constants aside -/

def query (st : State) (k : Key) : Except Err Val :=
  match st.parseKey k with
  | .error e => .error e
  | .ok (scope, full, arg) =>
    match AList.lookup (scope, full) st.config with
    | none => .error .valueError
    | some d => match AList.lookup arg d with
      | none => .error .valueError
      | some v => .ok v

/-! ### registration (`_make_configurable`, 1635-1732), function-shaped configurables -/

structure RegReq where
  name : Sel               -- `name` split on '.', as given (may carry module components)
  nameValid : Bool := true -- MODULE_RE.match(name)
  module : Option Sel      -- explicit `module=` or the object's `__module__`; none = no module
  moduleValid : Bool := true
  sig : Sig
  innerSig : Option Sig := none   -- see `Cfgable.innerSig`
  allow : List String := []
  deny : List String := []
  listTypesOk : Bool := true
  objId : Nat
  isMethod : Bool := false
  isClass : Bool := false
  /-- selectors of already registered functions that are methods of the class being registered
      (`_find_registered_methods`, only for `register` / `external_configurable`) -/
  methods : List Sel := []
deriving Inhabited

/-- the `Configurable` record a successful registration stores -/
def RegReq.cfgable (r : RegReq) : Cfgable :=
  { selector := (r.module.getD []) ++ r.name, sig := r.sig, innerSig := r.innerSig, allow := r.allow, deny := r.deny,
    isMethod := r.isMethod }

/-- a different object is already registered under the same complete name (waived in
    interactive mode) -/
def clashes (st : State) (r : RegReq) : Bool :=
  match st.registry.get? r.cfgable.selector with
  | some e => !st.interactive && e.objId != r.objId
  | none => false

/-- registered methods move under the class: `m.meth` ↦ `m.Cls.meth`, addressable only with the class -/
def renameMethods (reg : SelMap Entry) (selector : Sel) (methods : List Sel) : SelMap Entry :=
  methods.foldl (fun (reg : SelMap Entry) old =>
    match reg.pop old with
    | none => reg
    | some (e, reg') =>
      let new := selector ++ [old.getLastD ""]
      reg'.set new { e with cfg := { e.cfg with selector := new, isMethod := true } }) reg

/-- the checks of a registration, in the order the code makes them; `none` = accepted.  They look at the
    lock, the interactive flag and the registry only. -/
def regCheck (st : State) (r : RegReq) : Option Err :=
  if st.locked then some .runtimeError else
  if !r.nameValid then some .valueError else
  -- a dotted name ignores the default module but not an explicit one: the harness passes the
  -- effective module (explicit, or `__module__` when the name is a plain identifier)
  if !r.moduleValid then some .valueError else
  if st.clashes r then some .valueError else
  if !r.allow.isEmpty && !r.deny.isEmpty then some .valueError else
  if !r.listTypesOk then some .typeError else
  if !(r.allow.all r.cfgable.mightHave) || !(r.deny.all r.cfgable.mightHave) then some .valueError else
  if !r.cfgable.requiredKwargsValid then some .valueError else
  none

def register (st : State) (r : RegReq) : Except Err State :=
  match st.regCheck r with
  | some e => .error e
  | none =>
    .ok { st with registry := (renameMethods st.registry r.cfgable.selector r.methods).set
                    r.cfgable.selector { cfg := r.cfgable, objId := r.objId, isClass := r.isClass } }

theorem register_ok {st st' : State} {r : RegReq} (h : st.register r = .ok st') :
    st.regCheck r = none ∧
    st' = { st with registry := ((renameMethods st.registry r.cfgable.selector r.methods).set
              r.cfgable.selector { cfg := r.cfgable, objId := r.objId, isClass := r.isClass }) } := by
  unfold register at h
  split at h
  · cases h
  · rename_i hc; cases h; exact ⟨hc, rfl⟩

theorem register_error {st : State} {r : RegReq} {e : Err} (h : st.register r = .error e) :
    st.regCheck r = some e := by
  unfold register at h
  split at h
  · rename_i e' hc; cases h; exact hc
  · cases h

/-! ### calling a configurable under an active scope -/

inductive CallOut where
  | received (r : Received) (ret : Val)
  | failed (e : CallErr)
deriving Repr, Inhabited

/-- Layer-1 call: values are delivered by `ev` (identity for reference-free stores). -/
def call (ev : Val → Val) (st : State) (full : Sel) (σ : Scope) (args : List Val)
    (kwargs : AList String Val) : State × CallOut :=
  match st.registry.get? full with
  | none => (st, .failed .typeError)
  | some e =>
    match phaseA e.cfg st.config σ args kwargs with
    | .error err => (st, .failed err)
    | .ok a =>
      -- the operative record is updated before evaluation and before the REQUIRED check
      let op := AList.update (st.operative.params σ full) a.operative
      let st := { st with operative := AList.set (σ, full) op st.operative }
      match phaseC e.cfg a args kwargs (evalKw ev a.newKw) with
      | .error err => (st, .failed err)
      | .ok d =>
        match pyBind e.cfg.sig d with
        | .error err => (st, .failed err)
        | .ok r =>
          let n := (AList.lookup full st.calls).getD 0
          ({ st with calls := AList.set full (n + 1) st.calls }, .received r (.result full n))


/-! ### finalize (2643-2675) and the built-in hooks (2847-2883) -/

end State

mutual
  /-- `_iterate_flattened_values`: strings are leaves, mappings contribute their keys and their values,
      other iterables their elements; the value itself comes last. -/
  def flattenVal : Val → List Val
    | .list xs => flattenVals xs ++ [.list xs]
    | .tuple xs => flattenVals xs ++ [.tuple xs]
    | .set xs => flattenVals xs ++ [.set xs]
    | .dict kvs => flattenDictVals kvs ++ [.dict kvs]
    | v => [v]
  def flattenVals : List Val → List Val
    | [] => []
    | x :: xs => flattenVal x ++ flattenVals xs
  def flattenDictVals : List (Val × Val) → List Val
    | [] => []
    | (k, v) :: rest => flattenVal k ++ flattenVal v ++ flattenDictVals rest
end

namespace State

def macroSel : Sel := ["gin", "macro"]
def constSel : Sel := ["gin", "constant"]

def allValues (cfg : Store) : List Val :=
  cfg.flatMap (fun kv => kv.2.flatMap (fun pv => flattenVal pv.2))

/-- `validate_macros_hook`: every reference to the macro configurable must have a bound value in its
    own scope and must be evaluated. -/
def macroRefOk (cfg : Store) : Val → Bool
  | .macro name => AList.contains ((if name.isEmpty then [] else splitChar name '/'), macroSel) cfg
  | .ref scopes sel ev => if sel == macroSel then ev && AList.contains (scopes, macroSel) cfg else true
  | _ => true

/-- `find_unknown_references_hook` -/
def isUnknownRef : Val → Bool
  | .unknownRef _ _ => true
  | _ => false

/-- `find_missing_overrides_hook`: a parameter bound (at top level) to a constant whose value is the
    REQUIRED marker. -/
def isRequiredConst (st : State) : Val → Bool
  | .const name => match st.constants.get? name with
      | some v => v.isRequired
      | none => false
  | _ => false

def builtinHooksOk (st : State) : Bool :=
  (allValues st.config).all (macroRefOk st.config)
  && !(allValues st.config).any isUnknownRef
  && !(st.config.any (fun kv => kv.2.any (fun pv => isRequiredConst st pv.2)))

/-- collects the updates of the user hooks: each key is normalised; two updates of one parameter
    (however spelled) conflict -/
def collectHooks (st : State) : List Hook → List ((Scope × Sel × String) × Val) →
    Except Err (List ((Scope × Sel × String) × Val))
  | [], acc => .ok acc
  | h :: rest, acc =>
    if h.raises then .error (.other "HookError") else
    match h.ret with
    | none => collectHooks st rest acc
    | some kvs =>
      let rec go : List (Key × Val) → List ((Scope × Sel × String) × Val) →
          Except Err (List ((Scope × Sel × String) × Val))
        | [], acc => .ok acc
        | (k, v) :: more, acc =>
          match st.parseKey k with
          | .error e => .error e
          | .ok nk => if acc.any (fun x => x.1 == nk) then .error .valueError
                      else go more (acc ++ [(nk, v)])
      match go kvs acc with
      | .error e => .error e
      | .ok acc' => collectHooks st rest acc'

def applyNormal (st : State) (upd : List ((Scope × Sel × String) × Val)) : State :=
  upd.foldl (fun st x =>
    let (scope, full, arg) := x.1
    let provd := (AList.lookup (scope, full) st.prov).getD []
    { st with config := setParam st.config (scope, full) arg x.2,
              prov := AList.set (scope, full) (AList.set arg none provd) st.prov }) st

def finalize (st : State) : Except Err State :=
  if st.locked then .error .runtimeError else
  if !st.builtinHooksOk then .error .valueError else
  match collectHooks st st.hooks [] with
  | .error e => .error e
  | .ok upd => .ok { (applyNormal st upd) with locked := true }

/-! ### constants (2769-2810) and `clear_config` (1004-1029) -/

def defConstant (st : State) (name : Sel) (nameValid : Bool) (v : Val) : Except Err State :=
  if !nameValid then .error .valueError else
  if !st.interactive && !(st.constants.matching name).isEmpty then .error .valueError else
  .ok { st with constants := st.constants.set name v }

/-- `ParserDelegate.macro` (861-869): what `%name` becomes at parse time -/
def resolveMacro (st : State) (name : String) : Except Err Val :=
  match st.constants.matching (splitChar name '.') with
  | [] => .ok (.macro name)
  | [full] => .ok (.const full)
  | _ => .error .valueError

mutual
  /-- what the parser does to the `%name` leaves of a written value: a name matching one constant
      (by dotted suffix) becomes that constant's complete name; several matches are an error -/
  def resolveAbbrev (st : State) : Val → Except Err Val
    | .const name => match st.constants.matching name with
        | [full] => .ok (.const full)
        | [] => .ok (.const name)
        | _ => .error .valueError
    | .list xs => match resolveAbbrevL st xs with
        | .ok ys => .ok (.list ys) | .error e => .error e
    | .tuple xs => match resolveAbbrevL st xs with
        | .ok ys => .ok (.tuple ys) | .error e => .error e
    | .dict kvs => match resolveAbbrevD st kvs with
        | .ok ys => .ok (.dict ys) | .error e => .error e
    | v => .ok v
  def resolveAbbrevL (st : State) : List Val → Except Err (List Val)
    | [] => .ok []
    | x :: xs => match resolveAbbrev st x with
        | .error e => .error e
        | .ok y => match resolveAbbrevL st xs with
          | .error e => .error e
          | .ok ys => .ok (y :: ys)
  def resolveAbbrevD (st : State) : List (Val × Val) → Except Err (List (Val × Val))
    | [] => .ok []
    | (k, v) :: rest => match resolveAbbrev st k with
        | .error e => .error e
        | .ok k' => match resolveAbbrev st v with
          | .error e => .error e
          | .ok v' => match resolveAbbrevD st rest with
            | .error e => .error e
            | .ok rest' => .ok ((k', v') :: rest')
end

def initConstants : SelMap Val := (SelMap.empty : SelMap Val).set ["gin", "REQUIRED"] .required

def clear (st : State) (clearConstants : Bool) : State :=
  { st with locked := false, config := [], prov := [], singletons := [], imports := [],
            operative := [],
            constants := if clearConstants then initConstants else st.constants }

/-- what `_config_str` prints of a store: per key the literally representable parameters
    (constant look-ups have no section; macro sections are C05's) -/
def printable (s : Store) : Store :=
  (s.filter (fun kv => kv.1.2 != constSel)).map (fun kv => (kv.1, kv.2.filter (fun pv => pv.2.representable)))

/-- the `# Set in file:line:` attributions `_config_str` prints for a store (2138-2140, 2180-2182,
    2204-2205): for every printed parameter, the recorded location of the statement that last set
    it, if any -/
def provenanceOf (st : State) (s : Store) : List ((Scope × Sel) × String × Loc) :=
  (printable s).flatMap (fun kv => kv.2.filterMap (fun pv =>
    match AList.lookup pv.1 ((AList.lookup kv.1 st.prov).getD []) with
    | some (some loc) => some (kv.1, pv.1, loc)
    | _ => none))

/-- `singleton_value(key, constructor)` (2757-2766): look up or construct-and-cache. -/
def singletonUse (st : State) (key : String) (hasCtor : Bool) (retNone : Bool := false) :
    Except Err (State × Val) :=
  match AList.lookup key st.singletons with
  | some v => .ok (st, v)
  | none =>
    if !hasCtor then .error .valueError else
    -- a constructor may well return `None`: that value is the singleton and is cached like any other
    let v := if retNone then Val.none else Val.obj (7000 + st.constructed)
    .ok ({ st with singletons := AList.set key v st.singletons, constructed := st.constructed + 1 }, v)

end State

end Gin
