/-
The global state of gin (`gin/config.py` module globals) and its API operations as a state machine.
-/
import Gin.SelectorMap
import Gin.Call

namespace Gin

inductive Err where
  | valueError | keyError | runtimeError | typeError | syntaxError | ioError | nameError
  | attributeError | importError | other (s : String)
deriving Repr, BEq, Inhabited, DecidableEq

def Err.name : Err → String
  | .valueError => "ValueError" | .keyError => "KeyError" | .runtimeError => "RuntimeError"
  | .typeError => "TypeError" | .syntaxError => "SyntaxError" | .ioError => "OSError"
  | .nameError => "NameError" | .attributeError => "AttributeError"
  | .importError => "ImportError" | .other s => s

/-- registry entry: the call-path data plus the identity of the registered Python object -/
structure Entry where
  cfg : Cfgable
  objId : Nat
deriving Repr, Inhabited

/-- a binding key as accepted by `bind_parameter` after splitting: scope, given selector, parameter -/
structure Key where
  scope : Scope
  sel : Sel
  arg : String
deriving Repr, Inhabited, BEq, DecidableEq

/-- location of the statement that set a binding: file (none = "bindings string") and line -/
structure Loc where
  file : Option String
  line : Nat
deriving Repr, Inhabited, BEq, DecidableEq

structure State where
  registry : SelMap Entry := SelMap.empty
  config : Store := []
  prov : AList (Scope × Sel) (AList String (Option Loc)) := []
  operative : Store := []
  locked : Bool := false
  interactive : Bool := false
  constants : SelMap Val := SelMap.empty
  singletons : AList String Val := []
  imports : List String := []
  /-- per-target call counters of the probe configurables -/
  calls : AList Sel Nat := []
deriving Inhabited

namespace State

/-! ### `ParsedBindingKey.parse` (config.py 889-948) -/

/-- the normal form of a key: scope, *complete* selector, parameter -/
def parseKey (st : State) (k : Key) : Except Err (Scope × Sel × String) :=
  match st.registry.getMatch k.sel with
  | .ambiguous _ => .error .keyError
  | .none => .error .valueError            -- No configurable matching …
  | .one full e =>
    if e.cfg.isMethod && k.sel.length < 2 then .error .valueError  -- method without class name
    else if !e.cfg.sig.mightHave k.arg then .error .valueError
    else if !e.cfg.listed k.arg then .error .valueError
    else .ok (k.scope, full, k.arg)

/-! ### `bind_parameter` (1032-1078) -/

def setParam (cfg : Store) (key : Scope × Sel) (arg : String) (v : Val) : Store :=
  AList.set key (AList.set arg v (cfg.params key.1 key.2)) cfg

def bind (st : State) (k : Key) (v : Val) (loc : Option Loc := none) : Except Err State :=
  if st.locked then .error .runtimeError else
  match st.parseKey k with
  | .error e => .error e
  | .ok (scope, full, arg) =>
    let provd := (AList.lookup (scope, full) st.prov).getD []
    .ok { st with config := setParam st.config (scope, full) arg v,
                  prov := AList.set (scope, full) (AList.set arg loc provd) st.prov }

/-! ### `query_parameter` (1081-1115), constants aside -/

def query (st : State) (k : Key) : Except Err Val :=
  match st.parseKey k with
  | .error e => .error e
  | .ok (scope, full, arg) =>
    match AList.lookup (scope, full) st.config with
    | none => .error .valueError
    | some d => match AList.lookup arg d with
      | none => .error .valueError
      | some v => .ok v

/-! ### registration (`_make_configurable`, 1635-1732), function-shaped configurables -/

structure RegReq where
  name : Sel               -- `name` split on '.', as given (may carry module components)
  nameValid : Bool := true -- MODULE_RE.match(name)
  module : Option Sel      -- explicit `module=` or the object's `__module__`; none = no module
  moduleValid : Bool := true
  sig : Sig
  allow : List String := []
  deny : List String := []
  listTypesOk : Bool := true
  objId : Nat
  isMethod : Bool := false
deriving Inhabited

/-- the `Configurable` record a successful registration stores -/
def RegReq.cfgable (r : RegReq) : Cfgable :=
  { selector := (r.module.getD []) ++ r.name, sig := r.sig, allow := r.allow, deny := r.deny,
    isMethod := r.isMethod }

def register (st : State) (r : RegReq) : Except Err State :=
  if st.locked then .error .runtimeError else
  if !r.nameValid then .error .valueError else
  -- a dotted name ignores the default module but not an explicit one: the harness passes the
  -- effective module (explicit, or `__module__` when the name is a plain identifier)
  if !r.moduleValid then .error .valueError else
  let c := r.cfgable
  let selector : Sel := c.selector
  let clash := match st.registry.get? selector with
    | some e => !st.interactive && e.objId != r.objId
    | none => false
  if clash then .error .valueError else
  if !r.allow.isEmpty && !r.deny.isEmpty then .error .valueError else
  if !r.listTypesOk then .error .typeError else
  if !(r.allow.all r.sig.mightHave) || !(r.deny.all r.sig.mightHave) then .error .valueError else
  if !c.requiredKwargsValid then .error .valueError else
  .ok { st with registry := st.registry.set selector { cfg := c, objId := r.objId } }

/-! ### calling a configurable under an active scope -/

inductive CallOut where
  | received (r : Received) (ret : Val)
  | failed (e : CallErr)
deriving Repr, Inhabited

/-- Layer-1 call: values are delivered by `ev` (identity for reference-free stores). -/
def call (ev : Val → Val) (st : State) (full : Sel) (σ : Scope) (args : List Val)
    (kwargs : AList String Val) : State × CallOut :=
  match st.registry.get? full with
  | none => (st, .failed .typeError)
  | some e =>
    match phaseA e.cfg st.config σ args kwargs with
    | .error err => (st, .failed err)
    | .ok a =>
      -- the operative record is updated before evaluation and before the REQUIRED check
      let op := AList.update (st.operative.params σ full) a.operative
      let st := { st with operative := AList.set (σ, full) op st.operative }
      match phaseC e.cfg a args kwargs (evalKw ev a.newKw) with
      | .error err => (st, .failed err)
      | .ok d =>
        match pyBind e.cfg.sig d with
        | .error err => (st, .failed err)
        | .ok r =>
          let n := (AList.lookup full st.calls).getD 0
          ({ st with calls := AList.set full (n + 1) st.calls }, .received r (.result full n))

end State
end Gin
