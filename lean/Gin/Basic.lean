/-
Shared vocabulary of the gin-config model.  No imports outside Lean core:
everything in `Gin/*.lean` (outside `Props/` and `Lemmas/`) is linked into the
compiled driver `gindrv`.
-/
namespace Gin

/-- `str.split(c)` for a one-character separator, by structural recursion on the characters (so that
    closed instances reduce in the kernel, unlike `String.splitOn`) -/
def splitAux (c : Char) : List Char → List Char → List (List Char)
  | [], acc => [acc.reverse]
  | x :: xs, acc => if x = c then acc.reverse :: splitAux c xs [] else splitAux c xs (x :: acc)
def splitChar (s : String) (c : Char) : List String := (splitAux c s.toList []).map String.ofList

/-- A dotted name split into components, outermost first (`'a.b.c'` ↦ `["a","b","c"]`). -/
abbrev Sel := List String

/-- A scope split into components, outermost first (`'a/b'` ↦ `["a","b"]`, `''` ↦ `[]`). -/
abbrev Scope := List String

/-- ASCII mirror of the regular expression `[a-zA-Z_]\w*` (`IDENTIFIER_RE`). Generators keep
    identifiers ASCII; Python's `\w` beyond ASCII is outside the model (DESIGN §4). -/
def isIdentStart (c : Char) : Bool := c.isAlpha || c == '_'
def isIdentChar (c : Char) : Bool := c.isAlphanum || c == '_'
def isIdent (s : String) : Bool :=
  match s.toList with
  | [] => false
  | c :: cs => isIdentStart c && cs.all isIdentChar

/-- `SELECTOR_RE` / `MODULE_RE` on the component list. -/
def isSelector (cs : Sel) : Bool := !cs.isEmpty && cs.all isIdent

/-- Association list = Python dict (insertion ordered). -/
abbrev AList (κ α : Type) := List (κ × α)

namespace AList
variable {κ α : Type} [DecidableEq κ]

def lookup (k : κ) : AList κ α → Option α
  | [] => none
  | (k', v) :: rest => if k' = k then some v else lookup k rest

/-- `d[k] = v`: overwrite in place when present, append otherwise. -/
def set (k : κ) (v : α) : AList κ α → AList κ α
  | [] => [(k, v)]
  | (k', v') :: rest => if k' = k then (k', v) :: rest else (k', v') :: set k v rest

def erase (k : κ) : AList κ α → AList κ α
  | [] => []
  | (k', v') :: rest => if k' = k then rest else (k', v') :: erase k rest

def contains (k : κ) (l : AList κ α) : Bool := (lookup k l).isSome

def keys (l : AList κ α) : List κ := l.map (·.1)

/-- `d.update(e)` -/
def update (d e : AList κ α) : AList κ α := e.foldl (fun acc kv => set kv.1 kv.2 acc) d

end AList
end Gin
