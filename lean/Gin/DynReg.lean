/-
Dynamic registration (gin/config.py:152-334): the symbol table of one parse context, attribute-chain
resolution of dotted names, and bindings keyed by the resolved object.

The package tree is an abstract object graph (`World`): importable module paths, and the attributes
of each object.  Packages import their submodules eagerly, so a submodule is an attribute of its
package.  What `__import__` and `getattr` do on the real tree is tied by the correspondence.
-/
import Gin.Basic

namespace Gin.DynReg
open Gin Gin.AList

inductive DErr where
  | syntaxError | valueError | nameError | attributeError | importError
deriving DecidableEq, Repr, Inhabited

structure Import where
  module : List String
  isFrom : Bool := false
  alias : Option String := none
deriving DecidableEq, Repr, Inhabited

/-- `ImportStatement.bound_name` -/
def Import.boundName (i : Import) : String :=
  match i.alias with
  | some a => a
  | none => if i.isFrom then i.module.getLastD "" else i.module.headD ""

structure World where
  modules : AList (List String) Nat          -- importable dotted path ↦ module object
  attrs : AList Nat (AList String Nat)       -- object ↦ its attributes
  params : AList Nat (List String)           -- configurable object ↦ its parameter names
deriving Repr, Inhabited

def World.getattr (w : World) (o : Nat) (name : String) : Option Nat :=
  (lookup o w.attrs).bind (lookup name)

/-- what the import statement binds: the named module for `from` / `as`, the top-level package
    otherwise (`__import__(module, fromlist=…)`) -/
def World.importTarget (w : World) (i : Import) : Option Nat :=
  if (lookup i.module w.modules).isNone then none
  else if i.isFrom || i.alias.isSome then lookup i.module w.modules
  else lookup [i.module.headD ""] w.modules

/-- one parse context: one per parse call and per included file -/
structure Ctx where
  dyn : Bool := false
  symtab : AList String Nat := []
  imports : List Import := []
deriving Repr, Inhabited

def isGinFeature (i : Import) : Bool := i.isFrom && i.module.head? = some "__gin__" && i.module.length ≥ 2

def processImport (w : World) (c : Ctx) (i : Import) : Except DErr Ctx :=
  if isGinFeature i then
    if i.alias.isSome then .error .syntaxError
    else if i.module.tail = ["dynamic_registration"] then
      if !c.imports.isEmpty then .error .syntaxError
      else .ok { c with dyn := true, imports := c.imports ++ [i] }
    else .error .syntaxError
  else
    match w.importTarget i with
    | none => .error .importError
    | some m =>
      if c.dyn then
        if i.boundName = "gin" then .error .valueError
        else .ok { c with symtab := AList.set i.boundName m c.symtab, imports := c.imports ++ [i] }
      else .ok { c with imports := c.imports ++ [i] }

/-- follow attributes from `o` -/
def follow (w : World) (o : Nat) : List String → Except DErr Nat
  | [] => .ok o
  | a :: rest => match w.getattr o a with
    | none => .error .attributeError
    | some o' => follow w o' rest

/-- `_resolve_selector`: first component through this context's symbol table, the rest by attributes -/
def resolve (w : World) (c : Ctx) (sel : List String) : Except DErr Nat :=
  match sel with
  | [] => .error .nameError
  | s :: rest => match lookup s c.symtab with
    | none => .error .nameError
    | some m => follow w m rest

/-- bindings are keyed by the resolved object -/
abbrev Bindings := AList Nat (AList String Int)

/-- `skip_unknown`: off, everything unknown, or the unknown names listed (as written) -/
inductive DSkip where
  | no
  | all
  | names (l : List (List String))
deriving Repr, Inhabited

def DSkip.covers : DSkip → List String → Bool
  | .no, _ => false
  | .all, _ => true
  | .names l, sel => l.contains sel

def DSkip.truthy : DSkip → Bool
  | .no => false
  | .all => true
  | .names l => !l.isEmpty

inductive DStmt where
  | imp (i : Import)
  | bind (sel : List String) (arg : String) (v : Int)
  /-- `sel.arg = @ref()`: the reference is resolved (and its target registered) while the value is
      parsed, before the binding itself is looked at; the stored value names the target object and the
      scope the reference is written under (`@scope/ref()`, `scope` indexing a fixed table of scope names) -/
  | bindRef (sel : List String) (arg : String) (ref : List String) (scope : Nat := 0)
  /-- the header `sel:` of a block (its members follow as `bind` statements) -/
  | block (sel : List String)
  | unit (body : List DStmt)      -- an included file: its own parse context
deriving Repr, Inhabited

/-- how a reference to object `r` shows up among the (integer) values of the model -/
def refValue (r : Nat) (scope : Nat := 0) : Int := -(1000 + 1000 * (scope : Int) + (r : Int))

/-- the placeholder kept for a reference to an unknown name under `skip_unknown` -/
def placeholderValue : Int := -9000

def bindObj (b : Bindings) (o : Nat) (arg : String) (v : Int) : Bindings :=
  AList.set o (AList.set arg v ((lookup o b).getD [])) b

/-- "known" under dynamic registration: the name resolves through this file's own imports (what was parsed
    before, in other files, plays no part) -/
def known (w : World) (c : Ctx) (sel : List String) : Bool :=
  c.dyn && (match resolve w c sel with | .ok _ => true | .error _ => false)

/-- `_should_skip`: never a known name; an unknown one when `skip_unknown` covers it -/
def shouldSkip (w : World) (c : Ctx) (sk : DSkip) (sel : List String) : Bool :=
  !known w c sel && sk.covers sel

mutual
  /-- runs the statements of one file in context `c`; the bindings made before a failure stay -/
  def runStmts (w : World) (sk : DSkip) (c : Ctx) (b : Bindings) : List DStmt → Bindings × Option DErr
    | [] => (b, none)
    | s :: rest =>
      match runStmt w sk c b s with
      | (b', c', none) => runStmts w sk c' b' rest
      | (b', _, some e) => (b', some e)
  def runStmt (w : World) (sk : DSkip) (c : Ctx) (b : Bindings) : DStmt → Bindings × Ctx × Option DErr
    | .imp i => match processImport w c i with
      | .ok c' => (b, c', none)
      | .error .importError => if sk.truthy then (b, c, none) else (b, c, some .importError)
      | .error e => (b, c, some e)
    | .bind sel arg v =>
      if shouldSkip w c sk sel then (b, c, none) else
      if !c.dyn then (b, c, some .valueError) else
      match resolve w c sel with
      | .error e => (b, c, some e)
      | .ok o =>
        if ((lookup o w.params).getD []).contains arg then (bindObj b o arg v, c, none)
        else (b, c, some .valueError)
    | .bindRef sel arg ref k =>
      -- the value first: a reference to an unknown name is a placeholder when covered, an error otherwise
      let val : Except DErr Int :=
        if shouldSkip w c sk ref then .ok placeholderValue
        else if !c.dyn then .error .valueError
        else match resolve w c ref with
          | .error e => .error e
          | .ok r => .ok (refValue r k)
      match val with
      | .error e => (b, c, some e)
      | .ok v =>
        if shouldSkip w c sk sel then (b, c, none) else
        if !c.dyn then (b, c, some .valueError) else
        match resolve w c sel with
        | .error e => (b, c, some e)
        | .ok o =>
          if ((lookup o w.params).getD []).contains arg then (bindObj b o arg v, c, none)
          else (b, c, some .valueError)
    | .block sel =>
      if shouldSkip w c sk sel then (b, c, none) else
      if !c.dyn then (b, c, some .valueError) else
      match resolve w c sel with
      | .error e => (b, c, some e)
      | .ok _ => (b, c, none)
    | .unit body =>
      let (b', e) := runStmts w sk {} b body
      (b', c, e)
end

/-- a sequence of parse calls, each with a fresh context; a failing call ends the run -/
def runUnits (w : World) (sk : DSkip) (b : Bindings) : List (List DStmt) → Bindings × Option DErr
  | [] => (b, none)
  | u :: rest => match runStmts w sk {} b u with
    | (b', none) => runUnits w sk b' rest
    | (b', some e) => (b', some e)

end Gin.DynReg
