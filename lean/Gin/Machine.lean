/-
The API operations of gin as one state machine (`step`), and histories of them (`runOps`).
-/
import Gin.State
import Gin.Eval
import Gin.Statements
import Gin.Serialize

namespace Gin

/-! ### histories of operations -/

inductive Op where
  | register (r : State.RegReq)
  | bind (k : Key) (v : Val)
  /-- a binding written as a one-member block: the block header is resolved first (2380-2384) -/
  | bindBlock (k : Key) (v : Val)
  /-- bindings made by a statement of a config text: the statement's location is recorded -/
  | bindAt (k : Key) (v : Val) (loc : Loc)
  | bindBlockAt (k : Key) (v : Val) (loc : Loc)
  | query (k : Key)
  | call (sel : Sel) (enter : List ScopeArg) (args : List Val) (kwargs : AList String Val)
  /-- the same call with real evaluation of references, macros and constants (Layer 2) -/
  | ecall (sel : Sel) (enter : List ScopeArg) (args : List Val) (kwargs : AList String Val)
  | getb (sel : Sel) (σ : Scope) (inherit : Bool)
  /-- `get_bindings('scope/spelling')`: the spelling is resolved like every other name -/
  | getbq (q : Sel) (σ : Scope) (inherit : Bool)
  | addHook (h : Hook)
  | finalize
  | clear (constants : Bool)
  | constant (name : Sel) (nameValid : Bool) (v : Val)
  | interactive (on : Bool)
  | macroLookup (name : String)
  | singleton (key : String) (hasCtor : Bool) (retNone : Bool := false)
  | observe (what : String)
  | enter (cur : Scope) (arg : ScopeArg)
  | unlock (body : List Op) (raises : Bool)
  /-- which (location, reader) serves a file name; `present` lists the pairs that can read it -/
  | resolve (prefixes readers : List String) (isAbs : Bool) (present : List (String × String))
  /-- `parse_config` of a text spelling `stmts` (`file = none`: a bindings string) -/
  | parse (file : Option String) (skip : SkipSpec) (stmts : List Stmt)
  /-- `parse_config_files_and_bindings` -/
  | parseFiles (skip : SkipSpec) (files : List (String × Option (List Stmt))) (bindings : List Stmt)
      (finalizeConfig : Bool)
deriving Inhabited

inductive Out where
  | ok
  | err (e : Err)
  | callErr (e : CallErr)
  | value (v : Val)
  | received (r : Received) (σ : Scope)
  | kvs (l : AList String Val)
  | store (s : Store)
  | flag (b : Bool)
  | scope (s : Scope)
  | names (l : List String)
  | pair (a b : String)
  | body (outs : List Out)
  | events (l : List CallEvent)
  | locs (l : List ((Scope × Sel) × String × Loc))
  | parsed (includes : List Parsed) (imports : List String)
  | doc (d : Doc)
  | failed (f : Failure)
deriving Inhabited

/-- gin's own configurables: `gin.macro(value)`, `gin.constant()`, `gin.singleton(constructor)` -/
def initRegistry : SelMap Entry :=
  ((SelMap.empty : SelMap Entry).set State.macroSel
      { cfg := { selector := State.macroSel, sig := { pos := [("value", none)] } }, objId := 900001 }
    |>.set State.constSel { cfg := { selector := State.constSel, sig := {} }, objId := 900002 }
    |>.set ["gin", "singleton"]
      { cfg := { selector := ["gin", "singleton"], sig := { pos := [("constructor", none)] } }, objId := 900003 })

def initState : State := { constants := State.initConstants, registry := initRegistry }

def foldEnter (enter : List ScopeArg) : Option Scope :=
  enter.foldl (fun acc a => acc.bind (fun cur => enterScope cur a)) (some [])

mutual
  def step (st : State) : Op → State × Out
    | .register r => match st.register r with
        | .ok st' => (st', .ok) | .error e => (st, .err e)
    | .bind k v => match st.bind k v with
        | .ok st' => (st', .ok) | .error e => (st, .err e)
    | .bindBlock k v =>
        match st.registry.getMatch k.sel with
        | .ambiguous _ => (st, .err .keyError)
        | .none => (st, .err .valueError)
        | .one _ _ => match st.bind k v with
          | .ok st' => (st', .ok) | .error e => (st, .err e)
    -- a binding written in config text: the value is parsed first (`%name` abbreviations of
    -- constants are resolved), then the statement is applied
    | .bindAt k v loc => match st.resolveAbbrev v with
        | .error e => (st, .err e)
        | .ok v' => match st.bind k v' (some loc) with
          | .ok st' => (st', .ok) | .error e => (st, .err e)
    | .bindBlockAt k v loc => match st.resolveAbbrev v with
        | .error e => (st, .err e)
        | .ok v' =>
          match st.registry.getMatch k.sel with
          | .ambiguous _ => (st, .err .keyError)
          | .none => (st, .err .valueError)
          | .one _ _ => match st.bind k v' (some loc) with
            | .ok st' => (st', .ok) | .error e => (st, .err e)
    | .query k => match st.query k with
        | .ok v => (st, .value v) | .error e => (st, .err e)
    | .call sel enter args kwargs =>
        match foldEnter enter with
        | none => (st, .err .valueError)
        | some σ =>
          match st.call id sel σ args kwargs with
          | (st', .failed e) => (st', .callErr e)
          | (st', .received r _) => (st', .received r σ)
    | .ecall sel enter args kwargs =>
        match foldEnter enter with
        | none => (st, .err .valueError)
        | some σ =>
          match callCfg defaultFuel st sel σ args kwargs with
          | .ok (st', v) => (st', .value v)
          | .error (e, se) =>
            -- a failing call keeps what already happened: probes that ran, the operative record
            ({ st with calls := se.calls, log := se.log, operative := se.operative }, .err e)
    | .getb sel σ inherit =>
        (st, .kvs (if inherit then getBindings st.config sel σ else getBindingsStrict st.config sel σ))
    | .getbq q σ inherit =>
        match st.registry.getMatch q with
        | .ambiguous _ => (st, .err .keyError)
        | .none => (st, .err .valueError)
        | .one sel _ =>
          (st, .kvs (if inherit then getBindings st.config sel σ else getBindingsStrict st.config sel σ))
    | .addHook h => ({ st with hooks := st.hooks ++ [h] }, .ok)
    | .finalize => match st.finalize with
        | .ok st' => (st', .ok) | .error e => (st, .err e)
    | .clear c => (st.clear c, .ok)
    | .constant name valid v => match st.defConstant name valid v with
        | .ok st' => (st', .ok) | .error e => (st, .err e)
    | .interactive on => ({ st with interactive := on }, .ok)
    | .macroLookup name => match st.resolveMacro name with
        | .ok v => (st, .value v) | .error e => (st, .err e)
    | .singleton key hasCtor retNone => match st.singletonUse key hasCtor retNone with
        | .ok (st', v) => (st', .value v) | .error e => (st, .err e)
    | .observe what =>
        (st, match what with
          | "locked" => .flag st.locked
          | "operative" => .store st.operative
          | "opstr" => .store (State.printable st.operative)
          | "config" => .store st.config
          | "log" => .events st.log
          | "cfgdoc" => .doc (emitDoc st st.config)
          | "opdoc" => .doc (emitDoc st st.operative)
          | "imports" => .names st.imports.eraseDups
          | "curscope" => .scope []   -- operations run outside any `config_scope` block
          | "prov" => .locs (State.provenanceOf st st.config)
          | "opprov" => .locs (State.provenanceOf st st.operative)
          | "registry" => .names (st.registry.keys.map (fun s => ".".intercalate s))
          | "constants" => .names (st.constants.keys.map (fun s => ".".intercalate s))
          | "constructed" => .value (.int st.constructed)   -- how many singleton constructors ran
          | _ => .err (.other "bad-observe"))
    | .enter cur arg => match enterScope cur arg with
        | some s => (st, .scope s) | none => (st, .err .valueError)
    | .parse file skip stmts =>
        let r := parseConfig st file skip stmts
        (r.st, match r.failure with
          | some f => .failed f
          | none => .parsed r.includes r.imports)
    | .parseFiles skip files bindings fin =>
        let r := parseFilesAndBindings st skip files bindings fin
        (r.st, match r.failure with
          | some f => .failed f
          | none => .parsed r.includes [])
    | .resolve prefixes readers isAbs present =>
        (st, match resolveFile prefixes readers isAbs (fun p r => present.contains (p, r)) with
          | some (p, r) => .pair p r
          | none => .failed { err := .ioError, chain := (searchedLocations prefixes isAbs).map (fun l => (some l, 0)) })
    | .unlock body _ =>
        let (st', outs) := runOps { st with locked := false } body
        ({ st' with locked := st.locked }, .body outs)
  def runOps (st : State) : List Op → State × List Out
    | [] => (st, [])
    | op :: rest =>
        let (st1, o) := step st op
        let (st2, os) := runOps st1 rest
        (st2, o :: os)
end


end Gin
