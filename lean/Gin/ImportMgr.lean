/-
The import manager of `config_str()` under dynamic registration (config.py 1992-2099): every module is
imported once, under a bound name no other import uses, and a configurable is printed as
`<selector of its module>.<attribute path>`.
-/
import Gin.DynReg
import Gin.Serialize

namespace Gin.DynReg
open Gin Gin.AList

/-- `_uniquify_name`: `name`, `name2`, `name3`, … — the first that is free; `none` only if the fuel
    (one more than the number of taken names) runs out -/
def uniquifyFrom (candidate : String) (taken : List String) : Nat → Nat → Option String
  | 0, _ => none
  | fuel + 1, i =>
    let n := candidate ++ toString i
    if taken.contains n then uniquifyFrom candidate taken fuel (i + 1) else some n

def uniquify (candidate : String) (taken : List String) : Option String :=
  if taken.contains candidate then uniquifyFrom candidate taken (taken.length + 1) 2 else some candidate

structure IM where
  imports : List Import := []
  /-- module ↦ the name (for `from` / `as`) or dotted path (plain import) configurables are printed under -/
  selectors : AList (List String) (List String) := []
  names : List String := []
  /-- names treated as taken from the start: `gin` when the manager works for dynamic registration -/
  reserved : List String := []
deriving Inhabited

/-- names no import of a dynamic-registration file may bind (`process_import` refuses them): the manager treats
    them as taken from the start -/
def reservedNames : List String := ["gin"]

/-- `ImportManager.add_import` -/
def IM.add (im : IM) (st : Import) : Option IM :=
  if (lookup st.module im.selectors).isSome then some im else
  match uniquify st.boundName (im.reserved ++ im.names) with
  | none => none
  | some u =>
    let st' := if u = st.boundName then st else { st with alias := some u }
    let sel := if st'.isFrom || st'.alias.isSome then [st'.boundName] else st'.module
    some { imports := im.imports ++ [st'], selectors := im.selectors ++ [(st.module, sel)],
           names := im.names ++ [st'.boundName], reserved := im.reserved }

def IM.addAll (im : IM) : List Import → Option IM
  | [] => some im
  | st :: rest => match im.add st with
    | none => none
    | some im' => im'.addAll rest

/-- the constructor's sort key `(module, not is_from, alias or '')`: `from` imports of a module first, then
    the alias (none before any) — a total order on statements, so the result cannot depend on the
    iteration order of the recorded set -/
def Import.key (i : Import) : List String × List String :=
  (i.module, (if i.isFrom then "0" else "1") :: (match i.alias with | none => [] | some a => [a]))

def importLe (a b : Import) : Bool :=
  if a.key.1 == b.key.1 then lexLe a.key.2 b.key.2 else lexLe a.key.1 b.key.1

/-- the statement that switches dynamic registration on -/
def isEnabling (i : Import) : Bool := i.isFrom && i.module == ["__gin__", "dynamic_registration"]

/-- a manager without imports: for dynamic registration the reserved names count as taken -/
def IM.fresh (dyn : Bool) : IM := { reserved := if dyn then reservedNames else [] }

/-- `ImportManager(imports)`: dynamic registration is on iff the enabling statement is among the recorded ones;
    the recorded statements are added in sorted order -/
def IM.ofRecorded (l : List Import) : Option IM := (IM.fresh (l.any isEnabling)).addAll (sortBy importLe l)

/-- what `config_str()` asks the manager for: the import statement a configurable needs (its recorded import
    source, or one made from its module), together with the configurable's complete selector -/
structure Req where
  sel : List String
  imp : Import
deriving Repr, Inhabited

/-- requirements are served in the order of the configurables' selectors (ties — not reachable, a selector
    names one configurable — by the statement's key) -/
def reqLe (a b : Req) : Bool :=
  if a.sel == b.sel then importLe a.imp b.imp else lexLe a.sel b.sel

/-- the manager `config_str()` prints from: the recorded statements in sorted order, then the statements the
    printed configurables need, in the order of their selectors -/
def IM.ofConfig (recorded : List Import) (reqs : List Req) : Option IM :=
  match IM.ofRecorded recorded with
  | none => none
  | some im => im.addAll ((sortBy reqLe reqs).map (·.imp))

/-- `ImportManager.minimal_selector` for a configurable that came from `module` at attribute path `name` -/
def IM.selectorOf (im : IM) (module name : List String) : Option (List String) :=
  (lookup module im.selectors).map (· ++ name)

end Gin.DynReg
