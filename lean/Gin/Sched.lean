/-
Shared records under threads (config.py 1560-1562, 2247-2250, 2752-2766).

* `runUses`: singleton lookup-or-construct as an *atomic* step per use (what the lock around
  `singleton_value` provides), over any history of uses from any threads.
* `Race`: the unlocked check-then-act at the granularity of its three accesses (contains / construct
  + store / get), to exhibit the schedule on which two threads both construct.
-/
import Gin.Machine

namespace Gin.Sched

/-- a history of singleton uses `(thread, key)`; every use supplies a constructor -/
def runUses (st : State) : List (Nat × String) → State × List (Nat × String × Val)
  | [] => (st, [])
  | (t, k) :: rest =>
    match st.singletonUse k true with
    | .ok (st', v) =>
      let (st'', out) := runUses st' rest
      (st'', (t, k, v) :: out)
    | .error _ => runUses st rest

/-- number of constructor runs caused by a history -/
def constructions (st : State) (h : List (Nat × String)) : Nat :=
  (runUses st h).1.constructed - st.constructed

/-! ### the unlocked race -/

/-- program counter of a thread executing the unlocked `singleton_value(k, ctor)` -/
inductive Pc where
  | start | checkedAbsent | checkedPresent | stored | done
deriving DecidableEq, Repr, Inhabited

structure RaceSt where
  present : Bool := false      -- key in _SINGLETONS
  built : Nat := 0             -- constructor runs
  pcs : List Pc := [.start, .start]
deriving Repr, Inhabited

def raceStep (s : RaceSt) (t : Nat) : RaceSt :=
  match s.pcs[t]? with
  | some .start =>
      { s with pcs := s.pcs.set t (if s.present then .checkedPresent else .checkedAbsent) }
  | some .checkedAbsent =>   -- constructs and stores without re-checking
      { s with present := true, built := s.built + 1, pcs := s.pcs.set t .stored }
  | some .checkedPresent => { s with pcs := s.pcs.set t .done }
  | some .stored => { s with pcs := s.pcs.set t .done }
  | _ => s

def raceRun (w : List Nat) : RaceSt := w.foldl raceStep {}

end Gin.Sched
