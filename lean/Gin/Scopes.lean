/-
Mirror of scope management: `_ScopeManager` (config.py 107-141) and the `config_scope` context
manager (1262-1342).

Two semantics are given and connected:
* a *tree* semantics of nested `with gin.config_scope(..)` blocks with exceptions (`runItems`);
* a *step* semantics in which each thread's program is compiled to groups of primitive stack
  actions (one group = what runs between two scheduling points) and a schedule interleaves the
  groups of several threads, each thread owning its own stack (`threading.local`).
-/
import Gin.Call

namespace Gin.Scopes

/-- the list pushed by `config_scope(arg)` *before* validation, and whether validation passes -/
def pushed (cur : Scope) : ScopeArg → Scope × Bool
  | .name s => let new := cur ++ splitChar s '/'; (new, new.all isModuleName)
  | .listArg l => (l, l.all isModuleName)
  | .clear => ([], true)
  | .invalid => ([], false)

/-- `current_scope()`: top of the stack (`[[]]` initially, so never empty in reachable states) -/
def current (stk : List Scope) : Scope := stk.getLastD []

inductive Item where
  | obs                                   -- observe `current_scope()` (and call a probe)
  | raise                                 -- the body raises here
  | block (arg : ScopeArg) (body : List Item)
  | catch (body : List Item)              -- `try: body except BaseException: pass`
deriving Inhabited

inductive Outcome where
  | normal | raised
deriving Repr, BEq, DecidableEq, Inhabited

mutual
  /-- tree semantics: final stack, observations, outcome -/
  def runItem (stk : List Scope) : Item → List Scope × List Scope × Outcome
    | .obs => (stk, [current stk], .normal)
    | .raise => (stk, [], .raised)
    | .block arg body =>
        let (new, valid) := pushed (current stk) arg
        let stk1 := stk ++ [new]                       -- `_SCOPE_MANAGER.enter_scope(new_scope)`
        if !valid then (stk1.dropLast, [], .raised)    -- ValueError; the `finally` pops
        else
          let (stk2, obs, out) := runItems stk1 body
          (stk2.dropLast, obs, out)                    -- `finally: exit_scope()` on both paths
    | .catch body =>
        let (stk1, obs, _) := runItems stk body
        (stk1, obs, .normal)
  def runItems (stk : List Scope) : List Item → List Scope × List Scope × Outcome
    | [] => (stk, [], .normal)
    | i :: rest =>
        let (s1, o1, out) := runItem stk i
        match out with
        | .raised => (s1, o1, .raised)
        | .normal =>
          let (s2, o2, out2) := runItems s1 rest
          (s2, o1 ++ o2, out2)
end

/-! ### step semantics -/

inductive Prim where
  | push (arg : ScopeArg)
  | pop
  | obs
deriving Inhabited

/-- validity of a `config_scope` argument given that the enclosing scope is valid -/
def staticValid : ScopeArg → Bool
  | .name s => (splitChar s '/').all isModuleName
  | .listArg l => l.all isModuleName
  | .clear => true
  | .invalid => false

mutual
  /-- groups of primitive actions of a program nested `depth` blocks deep, the nearest enclosing
      `catch` sitting at depth `base`; `true` = it raised (the unwinding pops of the blocks between
      here and that `catch` are part of the raising group) -/
  def compileItem (depth base : Nat) : Item → List (List Prim) × Bool
    | .obs => ([[.obs]], false)
    | .raise => ([List.replicate (depth - base) .pop], true)
    | .block arg body =>
        if !staticValid arg then
          -- push, validation fails, the `finally` pops, the exception unwinds the enclosing blocks
          ([[.push arg, .pop] ++ List.replicate (depth - base) .pop], true)
        else
          let (gs, r) := compileItems (depth + 1) base body
          if r then ([.push arg] :: gs, true) else ([.push arg] :: gs ++ [[.pop]], false)
    | .catch body => ((compileItems depth depth body).1, false)
  def compileItems (depth base : Nat) : List Item → List (List Prim) × Bool
    | [] => ([], false)
    | i :: rest =>
        let (g1, r1) := compileItem depth base i
        if r1 then (g1, true)
        else
          let (g2, r2) := compileItems depth base rest
          (g1 ++ g2, r2)
end

/-- one thread: its private stack, the groups still to run, the observations made so far -/
structure Th where
  stack : List Scope := [[]]
  todo : List (List Prim) := []
  obs : List Scope := []
deriving Inhabited

def runPrim (th : Th) : Prim → Th
  | .push arg => { th with stack := th.stack ++ [(pushed (current th.stack) arg).1] }
  | .pop => { th with stack := th.stack.dropLast }
  | .obs => { th with obs := th.obs ++ [current th.stack] }

/-- a scheduling turn: the thread runs its next group (nothing if it has finished) -/
def runGroup (th : Th) : Th :=
  match th.todo with
  | [] => th
  | g :: rest => g.foldl runPrim { th with todo := rest }

abbrev Threads := AList Nat Th

def turn (ths : Threads) (t : Nat) : Threads :=
  match AList.lookup t ths with
  | some th => AList.set t (runGroup th) ths
  | none => ths

/-- a schedule is the sequence of thread ids that are given a turn -/
def runSched (ths : Threads) (w : List Nat) : Threads := w.foldl turn ths

def iter (f : Th → Th) : Nat → Th → Th
  | 0, th => th
  | n + 1, th => iter f n (f th)

end Gin.Scopes
