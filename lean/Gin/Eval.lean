/-
Layer 2 of the call path: evaluation of references, macros and constants.

`copy.deepcopy(new_kwargs)` (config.py 1570) walks the bound values; a `ConfigurableReference`
answers `__deepcopy__` by calling its configurable (when written with `()`) under its own scope if
it has one, else under the scope active at the consuming call (config.py 666-697, 773-794).
`%name` is an evaluated reference to `gin.macro` under scope `name` (861-869, 2740-2743), a
constant an evaluated reference to `gin.constant` under the constant's full name (2746-2749).

Everything is indexed by a fuel that bounds the evaluation depth; running out of fuel is Python's
`RecursionError` on cyclic configurations.
-/
import Gin.State

namespace Gin

def callErrToErr : CallErr → Err
  | .varargRequired => .valueError
  | .missingRequired _ => .runtimeError
  | .typeError => .typeError

mutual
  def evalVal : Nat → State → Scope → Val → Except (Err × State) (State × Val)
    | 0, es, _, _ => .error (.other "RecursionError", es)
    | fuel + 1, es, σ, v =>
      match v with
      | .list xs => match evalVals fuel es σ xs with
          | .ok (es', ys) => .ok (es', .list ys) | .error e => .error e
      | .tuple xs => match evalVals fuel es σ xs with
          | .ok (es', ys) => .ok (es', .tuple ys) | .error e => .error e
      | .set xs => match evalVals fuel es σ xs with
          | .ok (es', ys) => .ok (es', .set ys) | .error e => .error e
      | .dict kvs => match evalDict fuel es σ kvs with
          | .ok (es', ys) => .ok (es', .dict ys) | .error e => .error e
      | .ref scopes sel ev =>
          if ev then
            -- constructing a class supplies the instance itself as first positional argument
            let selfArg : List Val := match es.registry.get? sel with
              | some e => if e.isClass then [.obj (5000 + e.objId)] else []
              | none => []
            callCfg fuel es sel (if scopes.isEmpty then σ else scopes) selfArg []
          else .ok (es, .fn sel scopes)
      | .macro name => callCfg fuel es State.macroSel (if name.isEmpty then [] else splitChar name '/') [] []
      | .const name => match es.constants.get? name with
          | some c => .ok (es, c)
          | none => .error (.keyError, es)
      | .unknownRef _ _ => .error (.valueError, es)
      | v => .ok (es, v)
  def evalVals : Nat → State → Scope → List Val → Except (Err × State) (State × List Val)
    | 0, es, _, _ => .error (.other "RecursionError", es)
    | _ + 1, es, _, [] => .ok (es, [])
    | fuel + 1, es, σ, x :: xs =>
      match evalVal fuel es σ x with
      | .error e => .error e
      | .ok (es1, y) => match evalVals fuel es1 σ xs with
        | .error e => .error e
        | .ok (es2, ys) => .ok (es2, y :: ys)
  def evalDict : Nat → State → Scope → List (Val × Val) → Except (Err × State) (State × List (Val × Val))
    | 0, es, _, _ => .error (.other "RecursionError", es)
    | _ + 1, es, _, [] => .ok (es, [])
    | fuel + 1, es, σ, (k, v) :: rest =>
      -- `y[deepcopy(key)] = deepcopy(value)`: Python evaluates the right-hand side first
      match evalVal fuel es σ v with
      | .error e => .error e
      | .ok (es1, v') => match evalVal fuel es1 σ k with
        | .error e => .error e
        | .ok (es2, k') => match evalDict fuel es2 σ rest with
          | .error e => .error e
          | .ok (es3, rest') => .ok (es3, (k', v') :: rest')
  def evalKws : Nat → State → Scope → AList String Val → Except (Err × State) (State × AList String Val)
    | 0, es, _, _ => .error (.other "RecursionError", es)
    | _ + 1, es, _, [] => .ok (es, [])
    | fuel + 1, es, σ, (k, v) :: rest =>
      match evalVal fuel es σ v with
      | .error e => .error e
      | .ok (es1, v') => match evalKws fuel es1 σ rest with
        | .error e => .error e
        | .ok (es2, rest') => .ok (es2, (k, v') :: rest')
  /-- `gin_wrapper` with real evaluation; the wrapped function is a probe (returns `result sel n`),
      `gin.macro` (returns its evaluated value) or `gin.constant`. -/
  def callCfg : Nat → State → Sel → Scope → List Val → AList String Val → Except (Err × State) (State × Val)
    | 0, es, _, _, _, _ => .error (.other "RecursionError", es)
    | fuel + 1, es, full, σ, args, kwargs =>
      match es.registry.get? full with
      | none => .error (.valueError, es)
      | some e =>
        match phaseA e.cfg es.config σ args kwargs with
        | .error err => .error (callErrToErr err, es)
        | .ok a =>
          let op := AList.update (es.operative.params σ full) a.operative
          let es := { es with operative := AList.set (σ, full) op es.operative }
          match evalKws fuel es σ (toEvaluate a kwargs) with
          | .error err => .error err
          | .ok (es1, evaluated) =>
            match phaseC e.cfg a args kwargs evaluated with
            | .error err => .error (callErrToErr err, es1)
            | .ok d =>
              match pyBind e.cfg.sig d with
              | .error err => .error (callErrToErr err, es1)
              | .ok r =>
                if full == State.macroSel then
                  match AList.lookup "value" r.params with
                  | some v => .ok (es1, v)
                  | none => .error (.typeError, es1)
                else if full == State.constSel then
                  match es1.constants.get? [".".intercalate σ] with
                  | some c => .ok (es1, c)
                  | none => match es1.constants.get? σ with
                    | some c => .ok (es1, c)
                    | none => .error (.keyError, es1)
                else
                  let n := (AList.lookup full es1.calls).getD 0
                  .ok ({ es1 with calls := AList.set full (n + 1) es1.calls,
                                  log := es1.log ++ [{ sel := full, scope := σ, received := r }] },
                       .result full n)
end

/-- evaluation depth granted to a top-level call (Python's recursion limit is far higher than any
    acyclic configuration the harness generates) -/
def defaultFuel : Nat := 400

end Gin
