/-
Mirror of the statement consumer of `parse_config` (config.py 2359-2404), of `skip_unknown`
(833-859), of includes and file resolution (`parse_config_file`, 2467-2505) and of the multi-file
entry point (2508-2558).

The model starts from *statements* (what `config_parser.ConfigParser` yields); the correspondence
generates a text together with the statements it spells.  Values inside statements may contain
references that are still to be resolved against the registry at parse time (`rawRef`,
`rawMacro`).
-/
import Gin.State

namespace Gin

/-- values as written in a statement: literals plus unresolved `@…` / `%…` -/
inductive RawVal where
  | lit (v : Val)
  | list (xs : List RawVal)
  | tuple (xs : List RawVal)
  | dict (kvs : List (RawVal × RawVal))
  | ref (scopes : List String) (spelled : Sel) (evaluate : Bool)
  | macro (name : String)
deriving Inhabited

inductive SkipSpec where
  | no                       -- False (default)
  | all                      -- True
  | names (l : List String)  -- list / tuple / set of selectors
deriving Inhabited

def SkipSpec.truthy : SkipSpec → Bool
  | .no => false
  | .all => true
  | .names l => !l.isEmpty

/-- `_should_skip`: a known name is never skipped -/
def shouldSkip (st : State) (sel : Sel) (skip : SkipSpec) : Bool :=
  if !(st.registry.matching sel).isEmpty then false
  else match skip with
    | .no => false
    | .all => true
    | .names l => l.contains (".".intercalate sel)

mutual
  /-- resolution of a written value at parse time (`ParserDelegate`, 849-869) -/
  def resolveRaw (st : State) (skip : SkipSpec) : RawVal → Except Err Val
    | .lit v => .ok v
    | .list xs => match resolveRaws st skip xs with
        | .ok ys => .ok (.list ys) | .error e => .error e
    | .tuple xs => match resolveRaws st skip xs with
        | .ok ys => .ok (.tuple ys) | .error e => .error e
    | .dict kvs => match resolveRawD st skip kvs with
        | .ok ys => .ok (.dict ys) | .error e => .error e
    | .ref scopes spelled ev =>
        if shouldSkip st spelled skip then .ok (.unknownRef (".".intercalate spelled) ev)
        else match st.registry.getMatch spelled with
          | .one full _ => .ok (.ref scopes full ev)
          | .ambiguous _ => .error .keyError
          | .none => .error .valueError          -- No configurable matching reference …
    | .macro name => st.resolveMacro name
  def resolveRaws (st : State) (skip : SkipSpec) : List RawVal → Except Err (List Val)
    | [] => .ok []
    | x :: xs => match resolveRaw st skip x with
        | .error e => .error e
        | .ok y => match resolveRaws st skip xs with
          | .error e => .error e
          | .ok ys => .ok (y :: ys)
  def resolveRawD (st : State) (skip : SkipSpec) : List (RawVal × RawVal) → Except Err (List (Val × Val))
    | [] => .ok []
    | (k, v) :: rest => match resolveRaw st skip k with
        | .error e => .error e
        | .ok k' => match resolveRaw st skip v with
          | .error e => .error e
          | .ok v' => match resolveRawD st skip rest with
            | .error e => .error e
            | .ok rest' => .ok ((k', v') :: rest')
end

inductive Stmt where
  /-- `scope/sel.arg = value`; `arg = ""` is a macro definition `scope/sel = value` -/
  | binding (scope : Scope) (sel : Sel) (arg : String) (v : RawVal) (line : Nat)
  /-- header of a block `scope/sel:` -/
  | block (scope : Scope) (sel : Sel) (line : Nat)
  /-- `import m` / `from m import n [as a]`; `found` = the module can be imported; `regs` = the
      registrations the module performs when this statement imports it for the first time (its
      module-level `@gin.configurable` / `gin.external_configurable` calls), in order -/
  | imp (module : String) (found : Bool) (line : Nat) (regs : List State.RegReq := [])
  /-- `include 'file'`: the statements of the included file, or `none` if nobody can read it -/
  | incl (name : String) (file : Option (List Stmt)) (line : Nat)
  /-- a statement that does not parse -/
  | syntaxErr (line : Nat)
deriving Inhabited

/-- a failure: the exception class, and for semantic errors one (file, line) per include level,
    innermost first -/
structure Failure where
  err : Err
  chain : List (Option String × Nat) := []
deriving Inhabited

/-- the include/import tree `parse_config_file` returns -/
inductive Parsed where
  | node (name : String) (imports : List String) (includes : List Parsed)
deriving Inhabited

structure ApplyOut where
  st : State
  imports : List String := []
  includes : List Parsed := []
  failure : Option Failure := none
deriving Inhabited

def Stmt.line : Stmt → Nat
  | .binding _ _ _ _ l | .block _ _ l | .imp _ _ l _ | .incl _ _ l | .syntaxErr l => l

/-- running a module's registrations: the ones before a failing one stay (the module body ran that far) -/
def registerAll (st : State) : List State.RegReq → State × Option Err
  | [] => (st, none)
  | r :: rest => match st.register r with
    | .error e => (st, some e)
    | .ok st' => registerAll st' rest

def withLoc (file : Option String) (line : Nat) (f : Failure) : Failure :=
  if f.err = .syntaxError then f else { f with chain := f.chain ++ [(file, line)] }

mutual
  /-- the statement loop of `parse_config` for one file (or bindings string) -/
  def applyStmts (st : State) (file : Option String) (skip : SkipSpec) :
      List Stmt → ApplyOut
    | [] => { st }
    | s :: rest =>
      match applyStmt st file skip s with
      | (st1, imps, incs, some f) => { st := st1, imports := imps, includes := incs, failure := some f }
      | (st1, imps, incs, none) =>
        let r := applyStmts st1 file skip rest
        { r with imports := imps ++ r.imports, includes := incs ++ r.includes }
  def applyStmt (st : State) (file : Option String) (skip : SkipSpec) :
      Stmt → State × List String × List Parsed × Option Failure
    | .syntaxErr _ => (st, [], [], some { err := .syntaxError })
    | .binding scope sel arg v line =>
      -- the value is parsed (references resolved) before the statement exists
      match resolveRaw st skip v with
      | .error e => (st, [], [], some (withLoc file line { err := e }))
      | .ok val =>
        if arg.isEmpty then
          let name := scope ++ [".".intercalate sel]
          match st.bind { scope := name, sel := State.macroSel, arg := "value" } val (some { file, line }) with
          | .ok st' => (st', [], [], none)
          | .error e => (st, [], [], some (withLoc file line { err := e }))
        else if shouldSkip st sel skip then (st, [], [], none)
        else match st.bind { scope, sel, arg } val (some { file, line }) with
          | .ok st' => (st', [], [], none)
          | .error e => (st, [], [], some (withLoc file line { err := e }))
    | .block _ sel line =>
      if shouldSkip st sel skip then (st, [], [], none)
      else match st.registry.getMatch sel with
        | .one _ _ => (st, [], [], none)
        | .ambiguous _ => (st, [], [], some (withLoc file line { err := .keyError }))
        | .none => (st, [], [], some (withLoc file line { err := .valueError }))
    | .imp module found line regs =>
      if found then
        -- importing runs the module: what it registers is known from here on, in this very parse
        match registerAll st regs with
        | (st', none) => (st', [module], [], none)
        | (st', some e) => (st', [], [], some (withLoc file line { err := e }))
      else if skip.truthy then (st, [], [], none)
      else (st, [], [], some (withLoc file line { err := .importError }))
    | .incl name fileStmts line =>
      match fileStmts with
      | none => (st, [], [], some (withLoc file line { err := .ioError }))
      | some stmts =>
        let r := applyStmts st (some name) skip stmts
        -- the nested `parse_config` records its own imports (also when it fails, D25)
        let st' := { r.st with imports := r.st.imports ++ r.imports }
        match r.failure with
        | some f => (st', [], [], some (withLoc file line f))
        | none => (st', [], [.node name r.imports r.includes], none)
end

/-- `parse_config`: imports seen are recorded (also when a later statement fails, D25). -/
def parseConfig (st : State) (file : Option String) (skip : SkipSpec) (stmts : List Stmt) : ApplyOut :=
  let r := applyStmts st file skip stmts
  { r with st := { r.st with imports := r.st.imports ++ r.imports } }

/-- flattening of include statements: the text one would get by pasting each included file in
    place of its `include` line -/
def flatten : List Stmt → List Stmt
  | [] => []
  | .incl _ (some stmts) _ :: rest => flatten stmts ++ flatten rest
  | s :: rest => s :: flatten rest

/-- `parse_config_file` (2492-2505): locations outer, readers inner; an absolute name bypasses the
    search locations.  `present p r` says whether reader `r` can read `p`-joined-with-the-name. -/
def resolveFile (prefixes readers : List String) (isAbs : Bool) (present : String → String → Bool) :
    Option (String × String) :=
  (if isAbs then [""] else prefixes).findSome? (fun p =>
    readers.findSome? (fun r => if present p r then some (p, r) else none))

/-- the locations named in the `IOError` when nobody can read the file -/
def searchedLocations (prefixes : List String) (isAbs : Bool) : List String :=
  if isAbs then [""] else prefixes

/-- `parse_config_files_and_bindings` (2539-2549): the files in the order given, then the extra
    bindings, then `finalize` unless told not to -/
def parseFilesAndBindings (st : State) (skip : SkipSpec)
    (files : List (String × Option (List Stmt))) (bindings : List Stmt) (finalizeConfig : Bool) :
    ApplyOut :=
  let rec go (st : State) (acc : List Parsed) :
      List (String × Option (List Stmt)) → State × List Parsed × Option Failure
    | [] => (st, acc, none)
    | (name, none) :: _ => (st, acc, some { err := .ioError })
    | (name, some stmts) :: rest =>
      let r := parseConfig st (some name) skip stmts
      match r.failure with
      | some f => (r.st, acc, some f)
      | none => go r.st (acc ++ [.node name r.imports r.includes]) rest
  match go st [] files with
  | (st1, acc, some f) => { st := st1, includes := acc, failure := some f }
  | (st1, acc, none) =>
    let r := parseConfig st1 none skip bindings
    match r.failure with
    | some f => { st := r.st, includes := acc, failure := some f }
    | none =>
      if finalizeConfig then
        match r.st.finalize with
        | .ok st2 => { st := st2, includes := acc }
        | .error e => { st := r.st, includes := acc, failure := some { err := e } }
      else { st := r.st, includes := acc }

end Gin
