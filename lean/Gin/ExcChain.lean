/-
How an exception travels up through nested configurable calls (`gin/config.py` wrapper, lines
1667-1689, and `gin/utils.py` `augment_exception_message_and_reraise`).

Every configurable on the call path catches `Exception`, builds a *proxy* whose class derives from the
class of what it caught, answers attribute reads from the caught object, prints the caught object's
text followed by its own message, and re-raises it with the caught object's traceback.  A class whose
`__new__` refuses both `cls.__new__(Proxy, *args)` and `BaseException.__new__(Proxy)` cannot be
proxied: the caught object itself is re-raised.  What is not an `Exception` is never caught.

The facts about the raised class (`ClassInfo`) are facts about Python, not about Gin; the harness
measures them on the class at hand.
-/
import Gin.ExcProxy
import Gin.Serialize

namespace Gin.ExcChain
open Gin Gin.ExcProxy

structure ClassInfo where
  name : String
  module : String
  /-- names of the classes in the mro of the raised class, itself first: what an `except` clause written
      for the original may name -/
  bases : List String
  isException : Bool
  newAcceptsArgs : Bool     -- `cls.__new__(Proxy, *exc.args)` succeeds
  bareNewWorks : Bool       -- `BaseException.__new__(Proxy)` succeeds
deriving Repr, Inhabited

def ClassInfo.isTypeError (c : ClassInfo) : Bool := c.bases.contains "TypeError"
def ClassInfo.buildable (c : ClassInfo) : Bool := c.newAcceptsArgs || c.bareNewWorks

structure Original where
  cls : ClassInfo
  data : Exc
  str : String             -- `str(exc)` of the original
  tb : List String         -- frames of its traceback when first caught, outermost first
deriving Inhabited

/-- one configurable on the call path -/
structure Level where
  name : String            -- the configurable's registered name
  repr : String            -- `repr` of the wrapped callable (opaque text)
  scope : String           -- active scope string, `""` for none
  posNames : List String   -- positional parameter names of the callable
  nArgs : Nat              -- positional arguments the call ended up with
  kwNames : List String    -- keyword arguments the call ended up with
  ginBound : List String
  callerSupplied : List String
  frames : List String     -- frames this level adds in front of the traceback as the exception unwinds
deriving Repr, Inhabited

def sortNames (l : List String) : List String := sortBy (fun a b => decide (a ≤ b)) l

/-- `str(list_of_str)` in Python, for names (no quotes or escapes inside identifiers) -/
def pyStrList (l : List String) : String :=
  "[" ++ ", ".intercalate (l.map (fun s => "'" ++ s ++ "'")) ++ "]"

def Level.unbound (lv : Level) : List String :=
  (lv.posNames.drop lv.nArgs).filter (fun n => !lv.kwNames.contains n)

/-- the hint added for a `TypeError` when positional parameters were left to nobody -/
def Level.hint (lv : Level) (isTypeError : Bool) : String :=
  if isTypeError && decide (lv.nArgs < lv.posNames.length) && !lv.unbound.isEmpty then
    "\n  No values supplied by Gin or caller for arguments: " ++ pyStrList (sortNames lv.unbound) ++
    "\n  Gin had values bound for: " ++ pyStrList (sortNames lv.ginBound) ++
    "\n  Caller supplied values for: " ++ pyStrList (sortNames lv.callerSupplied)
  else ""

def Level.scopeInfo (lv : Level) : String := if lv.scope = "" then "" else " in scope '" ++ lv.scope ++ "'"

/-- what this level appends to the text of the exception -/
def Level.message (lv : Level) (isTypeError : Bool) : String :=
  lv.hint isTypeError ++ "\n  In call to configurable '" ++ lv.name ++ "' (" ++ lv.repr ++ ")" ++ lv.scopeInfo

/-- concatenation of the pieces, in order -/
def joinAll (l : List String) : String := l.foldr (· ++ ·) ""

/-- what is in flight: the original object, or a proxy over what was caught one level below -/
inductive Flying where
  | orig
  | proxy (inner : Flying) (msg : String)
deriving Repr, Inhabited

/-- names the proxy answers itself: dunder names and `with_traceback` (the machinery needed to raise it) -/
def isMachinery (a : String) : Bool := a.startsWith "__" || a == "with_traceback"

/-- an attribute read; machinery names on a proxy are outside the model (`none` stands for "not modelled") -/
def Flying.getattr (o : Original) : Flying → String → Option Val
  | .orig, a => ExcProxy.getattr o.data a
  | .proxy inner _, a => if isMachinery a then none else inner.getattr o a

def Flying.str (o : Original) : Flying → String
  | .orig => o.str
  | .proxy inner m => inner.str o ++ m

/-- class names along the mro of what is in flight: every proxy class derives from the class below it and
    carries the original's name -/
def Flying.mro (o : Original) : Flying → List String
  | .orig => o.cls.bases
  | .proxy inner _ => o.cls.name :: inner.mro o

def Flying.isInstance (o : Original) (f : Flying) (c : String) : Bool := (f.mro o).contains c

def Flying.sameObject : Flying → Bool
  | .orig => true
  | .proxy _ _ => false

def Flying.depth : Flying → Nat
  | .orig => 0
  | .proxy inner _ => inner.depth + 1

def Flying.messages : Flying → List String
  | .orig => []
  | .proxy inner m => inner.messages ++ [m]

/-- `augment_exception_message_and_reraise` -/
def augment (o : Original) (f : Flying) (msg : String) : Flying :=
  if o.cls.buildable then .proxy f msg else f

/-- the wrapper's `except Exception` -/
def catchAt (o : Original) (f : Flying) (lv : Level) : Flying :=
  if o.cls.isException then augment o f (lv.message o.cls.isTypeError) else f

/-- the exception passes the levels of the call path, innermost first -/
def propagate (o : Original) (levels : List Level) : Flying := levels.foldl (catchAt o) .orig

/-- the traceback seen by the caller: each level puts its frames in front of what it re-raises -/
def tracebackAfter (o : Original) (levels : List Level) : List String :=
  levels.foldl (fun tb lv => lv.frames ++ tb) o.tb

end Gin.ExcChain
