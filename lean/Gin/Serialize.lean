/-
Mirror of the structure of `_config_str` (config.py 2102-2213): which sections and bindings are
printed, under which (minimal) selector, and in which order.  Value formatting (`repr`,
`pprint.pformat`, line wrapping) is CPython's and is compared at text level on the real code.
-/
import Gin.State

namespace Gin

def lowerAscii (s : String) : String := s.map Char.toLower

/-- lexicographic order on lists of strings (Python list comparison) -/
def lexLe : List String → List String → Bool
  | [], _ => true
  | _ :: _, [] => false
  | a :: as, b :: bs => if a < b then true else if b < a then false else lexLe as bs

/-- `sort_key` (2142-2149) with the tie-break on the key itself: case-folded reversed selector
    components, then reversed scope components (a method sorts under its class) -/
def sortKey (st : State) (key : Scope × Sel) : List String × List String :=
  let sel := (key.2.map lowerAscii).reverse
  let scope := (if key.1.isEmpty then [""] else key.1.map lowerAscii).reverse
  let parts := sel ++ scope
  let isMethod := match st.registry.get? key.2 with | some e => e.cfg.isMethod | none => false
  let parts := match isMethod, parts with
    | true, m :: c :: rest => (c ++ "." ++ m) :: rest
    | _, p => p
  (parts, ["/".intercalate key.1, ".".intercalate key.2])

def keyLe (st : State) (a b : Scope × Sel) : Bool :=
  let ka := sortKey st a
  let kb := sortKey st b
  if ka.1 == kb.1 then lexLe ka.2 kb.2 else lexLe ka.1 kb.1

/-- stable insertion sort -/
def insertBy {α : Type} (le : α → α → Bool) (x : α) : List α → List α
  | [] => [x]
  | y :: ys => if le x y then x :: y :: ys else y :: insertBy le x ys

def sortBy {α : Type} (le : α → α → Bool) (l : List α) : List α := l.foldr (insertBy le) []

/-- the selector a section is printed under (static registration): the minimal selector, except
    that a method always carries its class name (2094-2099) -/
def printedSelector (st : State) (full : Sel) : Sel :=
  match st.registry.minimal full with
  | none => full
  | some m =>
    let isMethod := match st.registry.get? full with | some e => e.cfg.isMethod | none => false
    if isMethod && m.length < 2 then full.drop (full.length - 2) else m

structure Section where
  scope : Scope
  printed : Sel
  params : List (String × Val)
deriving Inhabited

structure Doc where
  macros : List (String × Val)
  sections : List Section
deriving Inhabited

/-- `_config_str` of a store: the macro section (representable values only), then one section per
    (scope, configurable) that is neither a macro nor a constant, sorted, with its representable
    parameters sorted by name -/
def emitDoc (st : State) (s : Store) : Doc :=
  let sorted := sortBy (fun a b => keyLe st a.1 b.1) s
  let macros := sorted.filterMap (fun kv =>
    if kv.1.2 == State.macroSel then
      match AList.lookup "value" kv.2 with
      | some v => if v.representable then some ("/".intercalate kv.1.1, v) else none
      | none => none
    else none)
  let sections := sorted.filterMap (fun kv =>
    if kv.1.2 == State.macroSel || kv.1.2 == State.constSel then none
    else some { scope := kv.1.1, printed := printedSelector st kv.1.2,
                params := sortBy (fun a b => a.1 ≤ b.1) (kv.2.filter (fun pv => pv.2.representable)) })
  { macros, sections }

end Gin
