/-
Mirror of `gin/selector_map.py` (class `SelectorMap`), on component lists.

Python keeps two structures: `_selector_tree`, a dict-of-dicts keyed by selector components
*innermost first* whose `'$'` entries hold the complete selector, and `_selector_map`, a flat
dict from complete selector to value.  Here a node is `node term kids`: `term` is the `'$'`
entry, `kids` the remaining entries in dict (insertion) order.  The string ↔ component-list
boundary (`str.split('.')`, `'.'.join`, `SELECTOR_RE`) is glue in `Main.lean`.
-/
import Gin.Basic

namespace Gin

inductive Tree where
  | node (term : Option Sel) (kids : List (String × Tree))
deriving Repr, Inhabited

namespace Tree

def empty : Tree := .node none []
def term : Tree → Option Sel | .node t _ => t
def kids : Tree → List (String × Tree) | .node _ k => k

/-- Python's `len(node)`: the `'$'` entry counts. -/
def len : Tree → Nat | .node t ks => ks.length + (if t.isSome then 1 else 0)

/-- `not node` -/
def isEmpty : Tree → Bool | .node t ks => t.isNone && ks.isEmpty

def child : List (String × Tree) → String → Option Tree
  | [], _ => none
  | (c', t) :: rest, c => if c' = c then some t else child rest c

/-- `node.setdefault(c, {})` followed by an update of that entry: the entry keeps its position
    in the dict, a new entry goes to the end. -/
def upsert : List (String × Tree) → String → (Option Tree → Tree) → List (String × Tree)
  | [], c, f => [(c, f none)]
  | (c', t) :: rest, c, f =>
      if c' = c then (c', f (some t)) :: rest else (c', t) :: upsert rest c f

/-- update-or-delete of the entry `c` (used by the pruning loop of `pop`). -/
def alter : List (String × Tree) → String → (Tree → Option Tree) → List (String × Tree)
  | [], _, _ => []
  | (c', t) :: rest, c, f =>
      if c' = c then (match f t with | some t' => (c', t') :: rest | none => rest)
      else (c', t) :: alter rest c f

/-- `__setitem__` on the tree: walk the reversed path `p`, creating missing dicts
    (`setdefault`), and set `'$'` to `s` at its end. -/
def insert : Tree → List String → Sel → Tree
  | .node _ ks, [], s => .node (some s) ks
  | .node t ks, c :: p, s => .node t (upsert ks c (fun sub => insert (sub.getD empty) p s))

/-- `pop` on the tree: clear `'$'` at the end of the path, then drop every node on the path
    that became empty (the `zip(reversed(...))` loop runs leaf to root). -/
def erase : Tree → List String → Tree
  | .node _ ks, [] => .node none ks
  | .node t ks, c :: p => .node t (alter ks c (fun sub =>
      let sub' := erase sub p
      if sub'.isEmpty then none else some sub'))

/-- subtree reached by a reversed path (`for component in reversed(...): node = node[component]`) -/
def get : Tree → List String → Option Tree
  | t, [] => some t
  | .node _ ks, c :: p => match child ks c with
      | none => none
      | some t' => get t' p

/-- the `'$'` value at the end of a reversed path -/
def find (t : Tree) (p : List String) : Option Sel := (get t p).bind term

mutual
  /-- all `'$'` values below a node – what the DFS of `matching_selectors` collects
      (the DFS order is not an observable: results are compared as sets). -/
  def terms : Tree → List Sel
    | .node t ks => (match t with | some s => [s] | none => []) ++ termsL ks
  def termsL : List (String × Tree) → List Sel
    | [] => []
    | (_, t) :: rest => terms t ++ termsL rest
end

/-- the `minimal_selector` loop.  Walks the nodes n₀ … n_{k-1} on the reversed path; `i` counts
    the components consumed so far; `start = some i₀` when the current run of `len = 1` nodes
    began at index `i₀`.  (`start = -i` in Python; the repaired code never starts a run at
    `i = 0`, where `-0` would mean "keep everything".) -/
def minLoop : Tree → List String → Nat → Option Nat → Option (Tree × Option Nat)
  | t, [], _, start => some (t, start)
  | t, c :: p, i, start =>
      let start' := if i ≠ 0 ∧ len t = 1 then
          (match start with | some s => some s | none => some i) else none
      match t with
      | .node _ ks => match child ks c with
          | none => none
          | some t' => minLoop t' p (i+1) start'

/-- number of trailing components `minimal_selector` keeps (path is innermost-first). -/
def minimalLen (t : Tree) (rpath : List String) : Option Nat :=
  match minLoop t rpath 0 none with
  | none => none
  | some (last, start) =>
      if len last > 1 then some rpath.length
      else match start with
        | some i => some i
        | none => some rpath.length

end Tree

/-- `SelectorMap`: the suffix tree plus the flat dict. -/
structure SelMap (α : Type) where
  tree : Tree := Tree.empty
  map : AList Sel α := []
deriving Inhabited

namespace SelMap
variable {α : Type}

def empty : SelMap α := {}

/-- `__setitem__` (validation of the selector string happens at the boundary). -/
def set (m : SelMap α) (s : Sel) (v : α) : SelMap α :=
  { tree := m.tree.insert s.reverse s, map := AList.set s v m.map }

def contains (m : SelMap α) (s : Sel) : Bool := AList.contains s m.map
def get? (m : SelMap α) (s : Sel) : Option α := AList.lookup s m.map
def keys (m : SelMap α) : List Sel := AList.keys m.map

/-- `pop`: `none` = `KeyError` (nothing changes). -/
def pop (m : SelMap α) (s : Sel) : Option (α × SelMap α) :=
  match AList.lookup s m.map with
  | none => none
  | some v => some (v, { tree := m.tree.erase s.reverse, map := AList.erase s m.map })

/-- `matching_selectors` -/
def matching (m : SelMap α) (q : Sel) : List Sel :=
  if m.contains q then [q]
  else match m.tree.get q.reverse with
    | none => []
    | some n => n.terms

inductive Match (α : Type) where
  | none | ambiguous (ms : List Sel) | one (s : Sel) (v : α)

/-- `get_match` -/
def getMatch (m : SelMap α) (q : Sel) : Match α :=
  match m.matching q with
  | [] => .none
  | [s] => (match m.get? s with | some v => .one s v | none => .none)
  | ms => .ambiguous ms

/-- `get_all_matches` -/
def getAll (m : SelMap α) (q : Sel) : List α := (m.matching q).filterMap m.get?

/-- `minimal_selector`: `none` = `KeyError`. -/
def minimal (m : SelMap α) (s : Sel) : Option Sel :=
  if m.contains s then
    match m.tree.minimalLen s.reverse with
    | some n => some (s.drop (s.length - n))
    | none => none
  else none

end SelMap
end Gin
