inductive Tree where
  | node (term : Option String) (kids : List (String × Tree))
deriving Repr

namespace Tree
def empty : Tree := .node none []
def term : Tree → Option String | .node t _ => t
def kids : Tree → List (String × Tree) | .node _ k => k

def chain : List String → String → Tree
  | [], s => .node (some s) []
  | c :: p, s => .node none [(c, chain p s)]

mutual
  def insert : Tree → List String → String → Tree
    | .node _ ks, [], s => .node (some s) ks
    | .node t ks, c :: p, s => .node t (insertL ks c p s)
  def insertL : List (String × Tree) → String → List String → String → List (String × Tree)
    | [], c, p, s => [(c, chain p s)]
    | (c', t) :: rest, c, p, s =>
        if c' = c then (c', insert t p s) :: rest else (c', t) :: insertL rest c p s
end

mutual
  def find : Tree → List String → Option String
    | .node t _, [] => t
    | .node _ ks, c :: p => findL ks c p
  def findL : List (String × Tree) → String → List String → Option String
    | [], _, _ => none
    | (c', t) :: rest, c, p => if c' = c then find t p else findL rest c p
end

theorem find_chain (p : List String) (s : String) (q : List String) :
    find (chain p s) q = if q = p then some s else none := by
  induction p generalizing q with
  | nil => cases q <;> simp [chain, find, findL]
  | cons c p ih =>
    cases q with
    | nil => simp [chain, find]
    | cons d q =>
      simp only [chain, find, findL]
      by_cases h : c = d
      · subst h; simp [ih]
      · simp [h]; intro h'; exact absurd h'.symm h

mutual
  theorem find_insert (t : Tree) (p : List String) (s : String) (q : List String) :
      find (insert t p s) q = if q = p then some s else find t q := by
    match t, p, q with
    | .node _ ks, [], [] => simp [insert, find]
    | .node _ ks, [], d :: q => simp [insert, find]
    | .node t ks, c :: p, [] => simp [insert, find]
    | .node t ks, c :: p, d :: q =>
      simp only [insert, find]
      rw [findL_insertL ks c p s d q]
      simp
  theorem findL_insertL (ks : List (String × Tree)) (c : String) (p : List String) (s : String)
      (d : String) (q : List String) :
      findL (insertL ks c p s) d q = if d = c ∧ q = p then some s else findL ks d q := by
    match ks with
    | [] =>
      simp only [insertL, findL]
      by_cases h : c = d
      · subst h; simp [find_chain]
      · have : ¬ d = c := fun h' => h h'.symm
        simp [h, this]
    | (c', t) :: rest =>
      simp only [insertL]
      by_cases h : c' = c
      · subst h
        simp only [if_true, findL]
        by_cases h2 : c' = d
        · subst h2; simp [find_insert t p s q]
        · have : ¬ d = c' := fun h' => h2 h'.symm
          simp [h2, this]
      · simp only [h, if_false, findL]
        by_cases h2 : c' = d
        · subst h2
          have : ¬ c' = c := h
          simp [this]
        · simp [h2, findL_insertL rest c p s d q]
end
end Tree
