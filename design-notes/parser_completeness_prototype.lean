inductive Tok where
  | lb | rb | lp | rp | comma | atom (n : Nat) | nl | newline
deriving DecidableEq, Repr

inductive V where
  | atom (n : Nat) | list (xs : List V) | tuple (xs : List V)
deriving Repr

def skipNl : List Tok → List Tok
  | .nl :: ts => skipNl ts
  | ts => ts

mutual
  def parseValue : Nat → List Tok → Except String (V × List Tok)
    | 0, _ => .error "fuel"
    | n+1, .lb :: ts =>
        match parseItems n .rb (skipNl ts) with
        | .error e => .error e
        | .ok (xs, _, rest) => .ok (.list xs, rest)
    | n+1, .lp :: ts =>
        match parseItems n .rp (skipNl ts) with
        | .error e => .error e
        | .ok ([x], false, rest) => .ok (x, rest)
        | .ok (xs, _, rest) => .ok (.tuple xs, rest)
    | _+1, .atom k :: ts => .ok (.atom k, skipNl ts)
    | _+1, _ => .error "Unable to parse value."
  def parseItems : Nat → Tok → List Tok → Except String (List V × Bool × List Tok)
    | 0, _, _ => .error "fuel"
    | _+1, _, [] => .error "eof"
    | n+1, close, t :: ts' =>
        if t = close then .ok ([], false, skipNl ts')
        else
          match parseValue n (t :: ts') with
          | .error e => .error e
          | .ok (v, .comma :: r2) =>
              match parseItems n close (skipNl r2) with
              | .error e => .error e
              | .ok (vs, _, r3) => .ok (v :: vs, true, r3)
          | .ok (v, t2 :: r2) =>
              if t2 = close then .ok ([v], false, skipNl r2) else .error "Expected ',' or close"
          | .ok (_, []) => .error "eof"
end

#eval parseValue 20 [.lb, .nl, .atom 1, .nl, .comma, .nl, .lp, .atom 2, .comma, .rp, .comma, .rb, .newline]
#eval parseValue 20 [.lp, .atom 1, .rp, .newline]
#eval parseValue 20 [.lp, .rp, .newline]
#eval parseValue 20 [.lb, .atom 1, .atom 2, .rb, .newline]


def nls (k : Nat) : List Tok := List.replicate k .nl

theorem skipNl_nls (k : Nat) (ts : List Tok) : skipNl (nls k ++ ts) = skipNl ts := by
  induction k with
  | zero => simp [nls]
  | succ k ih => simpa [nls, List.replicate_succ, skipNl] using ih

theorem skipNl_idem (ts : List Tok) : skipNl (skipNl ts) = skipNl ts := by
  induction ts with
  | nil => simp [skipNl]
  | cons t ts ih => cases t <;> simp [skipNl, ih]


/-- A literal together with every layout choice a renderer can make. -/
inductive L where
  | atom (k : Nat) (j : Nat)
  /-- `[` j0 trivia, items each followed by `,` and trivia, optional last item without comma, `]` j trivia -/
  | list (j0 : Nat) (items : List (L × Nat)) (final : Option L) (j : Nat)
  /-- `(` … `)` with at least one comma, or empty -/
  | tuple0 (j0 : Nat) (j : Nat)
  | tuple (j0 : Nat) (first : L) (n1 : Nat) (items : List (L × Nat)) (final : Option L) (j : Nat)
  /-- `(x)` -/
  | paren (j0 : Nat) (x : L) (j : Nat)

mutual
  def val : L → V
    | .atom k _ => .atom k
    | .list _ items final _ => .list (valItems items ++ valFinal final)
    | .tuple0 _ _ => .tuple []
    | .tuple _ f _ items final _ => .tuple (val f :: (valItems items ++ valFinal final))
    | .paren _ x _ => val x
  def valItems : List (L × Nat) → List V
    | [] => []
    | (l, _) :: rest => val l :: valItems rest
  def valFinal : Option L → List V
    | none => []
    | some l => [val l]
end

mutual
  def render : L → List Tok
    | .atom k j => .atom k :: nls j
    | .list j0 items final j => .lb :: (nls j0 ++ (renderItems items ++ (renderFinal final ++ (.rb :: nls j))))
    | .tuple0 j0 j => .lp :: (nls j0 ++ (.rp :: nls j))
    | .tuple j0 f n1 items final j =>
        .lp :: (nls j0 ++ (render f ++ (.comma :: (nls n1 ++ (renderItems items ++ (renderFinal final ++ (.rp :: nls j)))))))
    | .paren j0 x j => .lp :: (nls j0 ++ (render x ++ (.rp :: nls j)))
  def renderItems : List (L × Nat) → List Tok
    | [] => []
    | (l, n) :: rest => render l ++ (.comma :: (nls n ++ renderItems rest))
  def renderFinal : Option L → List Tok
    | none => []
    | some l => render l
end

mutual
  def size : L → Nat
    | .atom _ _ => 1
    | .list _ items final _ => 2 + sizeItems items + sizeFinal final
    | .tuple0 _ _ => 2
    | .tuple _ f _ items final _ => 3 + size f + sizeItems items + sizeFinal final
    | .paren _ x _ => 3 + size x
  def sizeItems : List (L × Nat) → Nat
    | [] => 0
    | (l, _) :: rest => 1 + size l + sizeItems rest
  def sizeFinal : Option L → Nat
    | none => 0
    | some l => 1 + size l
end

#eval render (.list 1 [(.atom 1 1, 1), (.tuple 0 (.atom 2 0) 0 [] none 0, 0)] none 0)
#eval parseValue 50 (render (.list 1 [(.atom 1 1, 1), (.tuple 0 (.atom 2 0) 0 [] none 0, 0)] (some (.paren 2 (.atom 7 3) 1)) 0) ++ [.newline])

/-! ### completeness: every layout of every literal parses to that literal -/

theorem skipNl_cons_of_ne (t : Tok) (ts : List Tok) (h : t ≠ .nl) : skipNl (t :: ts) = t :: ts := by
  cases t <;> simp_all [skipNl]

/-- a rendering starts with `[`, `(` or an atom -/
theorem render_head (l : L) : ∃ t ts, render l = t :: ts ∧ t ≠ .nl ∧ t ≠ .rb ∧ t ≠ .rp ∧ t ≠ .comma := by
  cases l <;> simp [render]

theorem skipNl_render (l : L) (r : List Tok) : skipNl (render l ++ r) = render l ++ r := by
  obtain ⟨t, ts, h, hnl, _⟩ := render_head l
  rw [h]; exact skipNl_cons_of_ne _ _ hnl

/-- what follows the items of a container: maybe a last item, then the closer -/
def tailToks (final : Option L) (close : Tok) (j : Nat) (rest : List Tok) : List Tok :=
  renderFinal final ++ (close :: (nls j ++ rest))

theorem skipNl_items_tail (items : List (L × Nat)) (final : Option L) (close : Tok) (hc : close ≠ .nl)
    (j : Nat) (rest : List Tok) :
    skipNl (renderItems items ++ tailToks final close j rest) = renderItems items ++ tailToks final close j rest := by
  cases items with
  | nil =>
    cases final with
    | none => simp [renderItems, tailToks, renderFinal, skipNl_cons_of_ne _ _ hc]
    | some l => simp only [renderItems, tailToks, renderFinal, List.nil_append]; exact skipNl_render l _
  | cons it rest' =>
    obtain ⟨l, n⟩ := it
    simp only [renderItems, List.append_assoc]; exact skipNl_render l _

mutual
  theorem parse_render (l : L) (n : Nat) (rest : List Tok) (h : size l ≤ n) :
      parseValue n (render l ++ rest) = .ok (val l, skipNl rest) := by
    match l, n with
    | .atom k j, n+1 =>
      simp [render, parseValue, val, skipNl_nls]
    | .list j0 items final j, n+1 =>
      have hsz : sizeItems items + sizeFinal final + 1 ≤ n := by simp [size] at h; omega
      have := parseItems_render items final .rb (by decide) (by decide) n j rest hsz
      simp only [render, parseValue, val, List.cons_append, List.append_assoc, skipNl_nls]
      rw [show renderItems items ++ (renderFinal final ++ (Tok.rb :: (nls j ++ rest))) =
            renderItems items ++ tailToks final .rb j rest from rfl,
          skipNl_items_tail items final .rb (by decide), this]
    | .tuple0 j0 j, n+2 =>
      simp [render, parseValue, parseItems, val, skipNl_nls, skipNl]
    | .tuple j0 f n1 items final j, n+1 =>
      have hsz : sizeItems ((f, n1) :: items) + sizeFinal final + 1 ≤ n := by
        simp [size] at h; simp [sizeItems]; omega
      have := parseItems_render ((f, n1) :: items) final .rp (by decide) (by decide) n j rest hsz
      simp only [render, parseValue, val, List.cons_append, List.append_assoc, skipNl_nls]
      rw [show render f ++ (Tok.comma :: (nls n1 ++ (renderItems items ++ (renderFinal final ++ (Tok.rp :: (nls j ++ rest)))))) =
            renderItems ((f, n1) :: items) ++ tailToks final .rp j rest by
              simp [renderItems, tailToks, List.append_assoc],
          skipNl_items_tail _ final .rp (by decide), this]
      simp [valItems]
    | .paren j0 x j, n+1 =>
      have hsz : sizeItems [] + sizeFinal (some x) + 1 ≤ n := by
        simp [size] at h; simp [sizeItems, sizeFinal]; omega
      have := parseItems_render [] (some x) .rp (by decide) (by decide) n j rest hsz
      simp only [render, parseValue, val, List.cons_append, List.append_assoc, skipNl_nls]
      rw [show render x ++ (Tok.rp :: (nls j ++ rest)) = renderItems [] ++ tailToks (some x) .rp j rest by
              simp [renderItems, tailToks, renderFinal],
          skipNl_items_tail _ _ .rp (by decide), this]
      simp [valItems, valFinal]
    | .atom .., 0 | .list .., 0 | .tuple0 .., 0 | .tuple0 .., 1 | .tuple .., 0 | .paren .., 0 =>
      simp [size] at h
  theorem parseItems_render (items : List (L × Nat)) (final : Option L) (close : Tok)
      (hc1 : close = .rb ∨ close = .rp) (hc : close ≠ .nl) (n j : Nat) (rest : List Tok)
      (h : sizeItems items + sizeFinal final + 1 ≤ n) :
      parseItems n close (renderItems items ++ tailToks final close j rest)
        = .ok (valItems items ++ valFinal final, !items.isEmpty, skipNl rest) := by
    match items, final, n with
    | [], none, n+1 =>
      simp [renderItems, tailToks, renderFinal, parseItems, valItems, valFinal, skipNl_nls]
    | [], some l, n+1 =>
      obtain ⟨t, ts, hr, _, hrb, hrp, _⟩ := render_head l
      have hne : t ≠ close := by rcases hc1 with rfl | rfl <;> assumption
      have hl : size l ≤ n := by simp [sizeItems, sizeFinal] at h; omega
      have hp := parse_render l n (close :: (nls j ++ rest)) hl
      simp only [renderItems, tailToks, renderFinal, List.nil_append]
      rw [hr] at hp ⊢
      simp only [List.cons_append] at hp ⊢
      simp only [parseItems, if_neg hne, hp, skipNl_cons_of_ne _ _ hc]
      rcases hc1 with rfl | rfl <;> simp [valItems, valFinal, skipNl_nls]
    | (l, k) :: more, final, n+1 =>
      obtain ⟨t, ts, hr, _, hrb, hrp, _⟩ := render_head l
      have hne : t ≠ close := by rcases hc1 with rfl | rfl <;> assumption
      have hl : size l ≤ n := by simp [sizeItems] at h; omega
      have hm : sizeItems more + sizeFinal final + 1 ≤ n := by simp [sizeItems] at h; omega
      have hp := parse_render l n (.comma :: (nls k ++ (renderItems more ++ tailToks final close j rest))) hl
      have hi := parseItems_render more final close hc1 hc n j rest hm
      simp only [renderItems, List.append_assoc]
      rw [hr] at hp ⊢
      simp only [List.cons_append, List.append_assoc] at hp ⊢
      simp only [parseItems, if_neg hne]
      rw [hp, skipNl_cons_of_ne _ _ (by decide : Tok.comma ≠ Tok.nl)]
      simp only [skipNl_nls, skipNl_items_tail more final close hc, hi]
      simp [valItems]
    | _, _, 0 => omega
end
#print axioms parse_render
