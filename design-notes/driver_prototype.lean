import Lean.Data.Json
import Proto.Basic
open Lean

partial def loop (h : IO.FS.Stream) (t : Tree) : IO Unit := do
  let line ← h.getLine
  if line.isEmpty then return ()
  match Json.parse line with
  | .error e => IO.println s!"bad-json {e}"; loop h t
  | .ok j =>
    let op := (j.getObjValAs? String "op").toOption.getD ""
    let path := (j.getObjValAs? (Array String) "path").toOption.getD #[]
    match op with
    | "set" =>
      let s := ".".intercalate path.toList
      let t' := Tree.insert t path.toList.reverse s
      IO.println (Json.mkObj [("ok", true)]).compress
      loop h t'
    | "find" =>
      IO.println (Json.mkObj [("r", toJson (Tree.find t path.toList.reverse))]).compress
      loop h t
    | _ => IO.println "bad-op"; loop h t

def main : IO Unit := do loop (← IO.getStdin) Tree.empty
