import sys, traceback, builtins
sys.path.insert(0,'/repo')
import gin
from gin import config

@gin.configurable
def raiser(exc): raise exc

class Custom(Exception):
  def __init__(self, a, b):
    super().__init__(a, b); self.a=a; self.b=b
class NewCustom(Exception):
  def __new__(cls, a):
    o = super().__new__(cls, a); o.a = a; return o
class Slotted(Exception):
  __slots__=('q',)
  def __init__(self, q): super().__init__(q); self.q=q
class StrCustom(Exception):
  def __str__(self): return 'custom!'

def mk():
  out = []
  out.append(ValueError('v', 2))
  out.append(OSError(2, 'nofile', 'fn'))
  out.append(KeyError('k'))
  out.append(StopIteration(5))
  out.append(UnicodeDecodeError('utf8', b'ab', 0, 1, 'bad'))
  out.append(SyntaxError('msg', ('f', 1, 2, 'text')))
  out.append(ImportError('m', name='nm', path='p'))
  out.append(AttributeError('m', name='nm', obj=3))
  out.append(SystemExit(3))
  out.append(ExceptionGroup('g', [ValueError(1)]))
  out.append(Custom(1,2)); out.append(NewCustom(7)); out.append(Slotted(9)); out.append(StrCustom('z'))
  return out

for e in mk():
  try:
    raiser(e)
  except BaseException as got:
    same_type = isinstance(got, type(e))
    pub = []
    for a in dir(e):
      if a.startswith('_'): continue
      try: v = getattr(e,a)
      except Exception: continue
      if not callable(v): pub.append(a)
    diffs = []
    for a in pub:
      try: gv = getattr(got, a)
      except Exception as ex: gv = ('ERR', type(ex).__name__)
      ov = getattr(e, a)
      if not (gv is ov or gv == ov): diffs.append((a, ov, gv))
    print(type(e).__name__, '-> got', type(got).__name__, 'isinstance', same_type, 'is_same_obj', got is e, 'tb', got.__traceback__ is not None, 'diffs', diffs, '| str:', str(got).split('\n')[0][:40])
