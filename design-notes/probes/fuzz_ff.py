import sys, random, collections, ast, tokenize
sys.path.insert(0,'/repo')
import gin
from gin import config
seed = int(sys.argv[1]) if len(sys.argv)>1 else 0
rng = random.Random(seed)
found = collections.Counter(); stats = collections.Counter()
@gin.configurable
def alpha(a=1): return a
def ws(inb):
  # whitespace/trivia: inside brackets newlines and comments are allowed
  r = rng.random()
  if not inb: return rng.choice(['', ' ', '  ', '\t', ' \\\n  '])
  if r < 0.5: return rng.choice(['', ' ', '  '])
  if r < 0.7: return '\n' + ' ' * rng.randint(0,4)
  if r < 0.85: return ' # c,]})\n' + ' ' * rng.randint(0,3)
  return '\n\n  # x\n'
def strlit():
  body = ''.join(rng.choice(['a','b',' ','\\n','\\t','\\\\',"\\'",'\\"','\\x41','\\u00e9','é','#','{','%','@', '\\N{BULLET}', '\\0', '']) for _ in range(rng.randint(0,5)))
  q = rng.choice(["'", '"', "'''", '"""'])
  if q in body or (len(q)==3 and body.endswith(q[0])): q = '"' if "'" in body else "'"
  if q[0] in body.replace('\\'+q[0], ''): return "'x'"
  pre = rng.choice(['', '', '', 'r', 'u', 'b', 'rb', 'Rb', 'B', 'bR'])
  if 'b' in pre.lower(): body = ''.join(c for c in body if ord(c) < 128).replace('\\N{BULLET}','').replace('\\u00e9','')
  if 'r' in pre.lower() and body.endswith('\\'): body += 'z'
  return pre + q + body + q
def atom():
  k = rng.randint(0,11)
  if k == 0: return str(rng.randint(0, 10**rng.randint(0,25)))
  if k == 1: return rng.choice(['0x1F', '0o17', '0b101', '1_000', '0xdead_beef', '0', '00', '0_0'])
  if k == 2: return rng.choice(['1.5', '1e5', '1E-5', '.5', '5.', '1_0.0_1', '1e400', '1.5e+3', '0.0'])
  if k == 3: return rng.choice(['1j', '2.5J', '0j'])
  if k == 4: return rng.choice(['True', 'False', 'None'])
  if k == 5: return '-' + ws(False).replace('\\\n','') + rng.choice(['1', '2.5', '0x10', '1e400', '0', '0.0', '3j'])
  if k in (6,7,8):
    n = rng.choice([1,1,1,2,3])
    parts = [strlit() for _ in range(n)]
    isb = ['b' in p.split(p.lstrip('rRbBuU')[0])[0].lower() for p in parts]
    if any(isb) != all(isb): parts = [parts[0]]
    return '###SEP###'.join(parts)
  return str(rng.randint(-5, 5)).replace('-', '-')
def lit(d, inb):
  r = rng.random()
  if d >= 4 or r < 0.4:
    a = atom()
    return a.replace('###SEP###', ws(inb) or ' ') if '###SEP###' in a else a
  k = rng.randint(0,3)
  n = rng.choice([0,1,1,2,3])
  def items(mk):
    out = ws(True)
    parts = [mk() for _ in range(n)]
    for i,p in enumerate(parts):
      out += p + ws(True)
      if i < len(parts)-1 or rng.random() < 0.3: out += ',' + ws(True)
    return out
  if k == 0: return '[' + items(lambda: lit(d+1, True)) + ']'
  if k == 1:
    if n == 1 and rng.random() < 0.5: return '(' + ws(True) + lit(d+1, True) + ws(True) + ',' + ws(True) + ')'
    return '(' + items(lambda: lit(d+1, True)) + ')'
  if k == 2:
    def kv(): return rng.choice([atom().replace('###SEP###',' '), '(1, 2)', '()']) + ws(True) + ':' + ws(True) + lit(d+1, True)
    return '{' + items(kv) + '}'
  return '(' + ws(True) + lit(d+1, True) + ws(True) + ')'
def mutate(t):
  k = rng.randint(0,9)
  if k == 0 and len(t) > 1: i = rng.randrange(len(t)); return t[:i] + t[i+1:]
  if k == 1: i = rng.randrange(len(t)+1); return t[:i] + rng.choice(['[', ']', '(', ')', '{', '}', ',', ':', '+', '-', '*', ' 1', ' x', '.', '=', ';', '$', '?', '!', '`', '@', '%']) + t[i:]
  if k == 2: return t + rng.choice([' 1', ' x', ' + 1', ')', ']', ' if 1 else 2', ' for x in y', ', 2', ' or 1', ' and 1', '[0]', '.real', '()', ' is None'])
  if k == 3: return rng.choice(['+', '~', 'not ', '--', '- -', '*']) + t
  if k == 4: return rng.choice(['x', 'nan', 'inf', 'int(1)', '[x for x in [1]]', '{1, 2}', '{*[]}', 'lambda: 1', '...', 'f"a"', "f'{1}'", '1 2', "'a' 1", '1 if True else 2', 'a.b', '[1][0]', '1 < 2', '-True', "-'a'", '-[1]', '-(1)', '1,2', '1,', '__import__("os")', 'b"a" "b"', "'a' b'b'", '0777', '1__0', '0x', '1e', "'abc", '"""abc', '{1: 2, 3}', '{1 2}', '[1 2]', '(1 2)', '[,]', '[1,,2]', '{:}', '{1:}', '{:1}', '-@alpha', '- %m', '-\n1', '(-\n1)', "'' 'a'", '"a" "" "b"', "b'' b'x'", '{[1]: 2}', '{{}: 1}'])
  if k == 5: return t.replace(',', ' ', 1)
  if k == 6: return t.replace(':', ',', 1)
  if k == 7: return t.replace('[', '(', 1)
  if k == 8: return t.replace("'", '"', 1)
  return t + '\n  ' + t
def pyeval(t):
  try: v = ast.literal_eval('(\n' + t + '\n)') if False else ast.literal_eval(t); return ('ok', v)
  except (SyntaxError, ValueError, TypeError, MemoryError, RecursionError) as e: return ('err', type(e).__name__)
def same(a, b):
  if type(a) is not type(b): return False
  if isinstance(a, float): return (a != a and b != b) or (a == b and str(a) == str(b))
  if isinstance(a, complex): return repr(a) == repr(b)
  if isinstance(a, (list, tuple)): return len(a)==len(b) and all(same(x,y) for x,y in zip(a,b))
  if isinstance(a, dict): return list(map(repr,a.keys())) == list(map(repr,b.keys())) and all(same(a[k], b[k]) for k in a)
  return a == b
for it in range(4000):
  t = lit(0, False)
  mutated = rng.random() < 0.4
  if mutated: t = mutate(t)
  py = pyeval(t)
  gin.clear_config()
  try:
    gin.parse_config('alpha.a = ' + t + rng.choice(['', '\n', '  # end\n']))
    g = ('ok', gin.query_parameter('alpha.a'))
  except (SyntaxError, tokenize.TokenError) as e: g = ('err', 'syntax')
  except Exception as e: g = ('err', 'OTHER:' + type(e).__name__)
  # classify
  if py[0] == 'ok' and g[0] == 'ok':
    if isinstance(g[1], (config.ConfigurableReference,)): found['ref-accepted-where-python-literal?!'] += 1
    elif same(py[1], g[1]): stats['agree-value'] += 1
    else:
      found['VALUE-MISMATCH'] += 1
      if found['VALUE-MISMATCH'] < 5: print('VALUE', repr(t), py, g)
  elif py[0] == 'err' and g[0] == 'err':
    stats['agree-reject' + ('' if g[1]=='syntax' else ':'+g[1])] += 1
    if g[1] != 'syntax' and stats['agree-reject:'+g[1]] < 3: print('REJECT-CLASS', repr(t), g)
  elif py[0] == 'ok' and g[0] == 'err':
    # python accepts, gin rejects: allowed only if outside gin's literal grammar (+x, sets, ..., -(..), top-level tuple w/o parens, newline at top-level)
    why = 'emptypiece' if ("''" in t or '""' in t) else ('outside-grammar' if any(s in t for s in ['+', '...', '{1, 2}', '{*']) or t.lstrip().startswith(('-(', '-[', '- (', '-\n')) or ',' in t and not t.lstrip().startswith(('[','(','{')) else 'OTHER')
    found['py-ok-gin-rejects:' + why] += 1
    if why == 'OTHER' and found['py-ok-gin-rejects:OTHER'] < 8: print('PYOK-GINREJ', repr(t), py, g)
  else:
    isref = isinstance(g[1], config.ConfigurableReference)
    found['py-rejects-gin-accepts' + (':ref' if isref else ':VALUE')] += 1
    if found['py-rejects-gin-accepts:VALUE'] < 8 and not isref: print('PYREJ-GINOK', repr(t), py, g)
    if isref and found['py-rejects-gin-accepts:ref'] < 4: print('REFACCEPT', repr(t), g)
print(dict(found)); print(dict(stats))
