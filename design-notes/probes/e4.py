import sys
sys.path.insert(0,'/repo')
import gin
from gin import config
calls = []
@gin.configurable
def leaf(v=0):
  calls.append(('leaf', gin.current_scope_str(), v)); return ['leafres', v]
@gin.configurable
def cons(x=None, y=None, *, k=None):
  calls.append(('cons', gin.current_scope_str())); return (x, y, k)
@gin.configurable(module='m.n')
def g(a=1): return a

print('--- C04')
gin.parse_config("""
leaf.v = 1
s/leaf.v = 2
cons.x = [@leaf(), {'k': (@s/leaf(), @leaf)}]
cons.y = @leaf()
""")
r = cons(); print(r, calls); calls.clear()
r = cons(y=5); print('caller y:', [c for c in calls]); calls.clear()
r = cons(None, 7); print('caller pos y:', [c for c in calls]); calls.clear()
with gin.config_scope('s'):
  r = cons(); print('ambient s:', calls); calls.clear()
# mutation
r = cons(); r[0].append('MUT'); r[0][1]['k2']=1
print('query after mutation:', gin.query_parameter('cons.x'))
print(gin.config_str())
gin.clear_config()

print('--- C04 mutation of plain containers')
gin.parse_config("cons.x = [1, [2, 3], {'a': [4]}]")
r = cons(); r[0][1].append(99); r[0][2]['a'].append(5); r[0].append(7)
print(cons()[0], gin.query_parameter('cons.x'))
b = gin.get_bindings('cons'); b['x'].append(1); print(gin.query_parameter('cons.x'))
b = gin.get_bindings('cons', resolve_references=False); b['x'].append('ALIAS'); print('no-resolve alias:', gin.query_parameter('cons.x'))
q = gin.query_parameter('cons.x'); q.append('QALIAS'); print('query alias:', gin.query_parameter('cons.x'))
gin.clear_config()

print('--- C05 macros')
gin.parse_config("cons.x = %m\n")
gin.parse_config("m = 3\n")
print(cons())
gin.parse_config("m = 4\n"); print(cons())
gin.parse_config("m = @leaf()\nleaf.v=9"); calls.clear(); print(cons(), cons(), calls)
gin.clear_config()
gin.parse_config("cons.x = %unbound")
try: gin.finalize(); print('finalize OK?!')
except Exception as e: print('finalize err', type(e).__name__, str(e)[:60])
print('locked', gin.config_is_locked())
gin.clear_config()
gin.constant('pk.mod.PI', 3.14); gin.constant('other.E', object())
E = config._CONSTANTS['other.E']
gin.parse_config("cons.x = %PI\ncons.y = %mod.PI\ncons.k = %E")
r = cons(); print(r[0], r[1], r[2] is E)
print(gin.config_str())
for bad in ['PI', 'mod.PI', 'x.pk.mod.PI', 'pk.mod.PI', '1bad', 'a..b']:
  try: gin.constant(bad, 1); print('constant', bad, 'accepted')
  except Exception as e: print('constant', bad, type(e).__name__)
gin.constant('zz.PI2', 1); gin.constant('yy.PI2', 2)
try: gin.parse_config("cons.x = %PI2")
except Exception as e: print('ambig', type(e).__name__, str(e)[:80])
gin.clear_config(clear_constants=True)
