import sys, random, collections, os, tempfile, shutil, re
sys.path.insert(0,'/repo')
import gin
from gin import config
seed = int(sys.argv[1]) if len(sys.argv)>1 else 0
rng = random.Random(seed)
found = collections.Counter(); stats = collections.Counter()
@gin.configurable
def alpha(a=1, b=2, c=3): return (a,b,c)
@gin.configurable(denylist=['d'])
def beta(a=1, d=2): return (a,d)
@gin.configurable(module='pk.m')
def gam(x=1, y=2): return (x,y)
def canon():
  def cv(v):
    if isinstance(v, config._UnknownConfigurableReference): return ('UNK', v.selector, v.evaluate)
    if isinstance(v, list): return [cv(x) for x in v]
    return repr(v)
  return sorted((k, sorted((p, cv(v)) for p,v in ps.items())) for k,ps in config._CONFIG.items())
def prov():
  return sorted((k, sorted((p, (l.filename, l.line_num) if l else None) for p,l in ps.items())) for k,ps in config._CONFIG_PROVENANCE.items())
VALS = ['1', "'s'", '[1, 2]', '{1: (2,)}', '@alpha', '@s/gam()', '%mm', '-3.5', 'None', '(1,\n  2)']
def good_stmt():
  k = rng.randint(0,9)
  sc = rng.choice(['', 's/', 's/t/'])
  if k <= 4:
    sel, arg = rng.choice([('alpha','a'),('alpha','b'),('alpha','c'),('beta','a'),('gam','x'),('m.gam','y')])
    return ['%s%s.%s = %s' % (sc, sel, arg, rng.choice(VALS))]
  if k == 5: return ['mm = %s' % rng.choice(VALS[:4])]
  if k == 6: return ['%salpha:' % sc, '  a = %s' % rng.choice(VALS[:4]), '  # comment', '  b = %s' % rng.choice(VALS[:4])]
  if k == 7: return ['import os.path', 'from os import path as pp'][rng.randint(0,1):][:1]
  if k == 8: return ['# just a comment', '']
  return ['%sgam.x = \\' % sc, '    %s' % rng.choice(VALS)]
FAULTS = {
 'bad value': ['alpha.a = 1 +'], 'missing value': ['alpha.a ='], 'unbalanced': ['alpha.a = [1, 2'], 'bad selector': ['al pha.a = 1'], 'bad selector2': ['s//alpha.a = 1'],
 'unknown param': ['alpha.zz = 1'], 'unknown cfg': ['nope.a = 1'], 'unknown ref': ['alpha.a = @nope()'], 'deny': ['beta.d = 1'],
 'bad include': ["include 'no_such_file.gin'"], 'bad import': ['import no_such_module_zzz'], 'bad block member': ['alpha:', '  a = 1', '  zz = 2', '  b = 3'],
 'trailing': ['alpha.a = 1 2'], 'block unknown': ['nope:', '  a = 1'], 'ambiguous': [],
}
tmp = tempfile.mkdtemp()
for it in range(600):
  n = rng.randint(1,7)
  stmts = [good_stmt() for _ in range(n)]
  pos = rng.randint(0, n)
  fk = rng.choice([k for k in FAULTS if FAULTS[k]])
  fault = FAULTS[fk]
  depth = rng.randint(0,2)
  # build include chain: fault sits in the innermost file at position pos; outer files have a prefix + include + suffix
  inner_lines = [l for s in stmts[:pos] for l in s] + fault + [l for s in stmts[pos:] for l in s]
  prefix_lines_flat = [l for s in stmts[:pos] for l in s]
  files = []
  cur = os.path.join(tmp, 'f%d_0.gin' % it); open(cur,'w').write('\n'.join(inner_lines) + '\n'); files.append(cur)
  pre_all = []
  for d in range(1, depth+1):
    pre = [good_stmt() for _ in range(rng.randint(0,2))]; post = [good_stmt() for _ in range(rng.randint(0,2))]
    nxt = os.path.join(tmp, 'f%d_%d.gin' % (it,d))
    open(nxt,'w').write('\n'.join([l for s in pre for l in s] + ["include '%s'" % cur] + [l for s in post for l in s]) + '\n')
    pre_all = [l for s in pre for l in s] + pre_all  # outer prefix comes first
    cur = nxt; files.append(cur)
  # expected: fresh state + (outer prefixes in order outermost first) + inner prefix
  gin.clear_config()
  # outer prefixes: need ordering outermost→innermost
  # rebuild properly
  chain_pre = []
  for f in reversed(files[1:]):
    lines = open(f).read().split('\n')
    idx = [i for i,l in enumerate(lines) if l.startswith('include ')][0]
    chain_pre += lines[:idx]
  exp_text = '\n'.join(chain_pre + prefix_lines_flat) + '\n'
  try: gin.parse_config(exp_text)
  except Exception as e:
    stats['prefix itself fails'] += 1; continue
  exp = canon(); exp_imports = sorted(s.format() for s in config._IMPORTS)
  if fk == 'bad block member':
    # members before the bad one are "preceding statements"
    gin.parse_config('alpha.a = 1'); exp = canon()
  gin.clear_config()
  with gin.config_scope('keep/me'):
    try:
      gin.parse_config_file(cur); stats['no error?! ' + fk] += 1; continue
    except Exception as e:
      err = e
    after_scope = gin.current_scope()
  got = canon(); got_imports = sorted(s.format() for s in config._IMPORTS)
  stats[fk] += 1
  if got != exp:
    found['prefix-state:' + fk] += 1
    if found['prefix-state:' + fk] < 2: print('PREFIX STATE', fk, depth, '\n got', got, '\n exp', exp, '\n file:', open(files[0]).read())
  if after_scope != ['keep','me'] or gin.config_is_locked() or len(config._PARSE_CONTEXTS) != 1: found['ctx'] += 1
  # location chain
  msg = str(err)
  chain = re.findall(r'In file "([^"]+)", line (\d+)', msg)
  if not isinstance(err, SyntaxError):
    expfiles = files  # innermost first
    if [c[0] for c in chain] != expfiles:
      found['chain:' + fk] += 1
      if found['chain:' + fk] < 2: print('CHAIN', fk, type(err).__name__, chain, expfiles, msg[:300])
    else:
      # line of innermost
      first_line_of_fault = len(prefix_lines_flat) + 1 + (2 if fk == 'bad block member' else 0)
      if int(chain[0][1]) != first_line_of_fault:
        found['line:' + fk] += 1
        if found['line:' + fk] < 2: print('LINE', fk, chain[0], first_line_of_fault, '\n' + open(files[0]).read())
  else:
    stats['syntaxerr'] += 1
    if err.filename != files[0]: found['syntax-filename'] += 1
  # imports recorded?  (imports of a failed parse are not recorded at all: _IMPORTS.update after loop)
  if got_imports != exp_imports: found['imports-after-failure'] += 1
shutil.rmtree(tmp)
print(dict(found)); print(dict(stats))
