import sys, random, collections, string
sys.path.insert(0,'/repo')
import gin
from gin import config
seed = int(sys.argv[1]) if len(sys.argv)>1 else 0
rng = random.Random(seed)
found = collections.Counter(); stats = collections.Counter()
@gin.configurable
def alpha(a=1, b=2, c=3): return (a,b,c)
@gin.configurable(module='pkg.mod')
def beta(a=1, b=2): return (a,b)
@gin.configurable('beta', module='other.mod')
def beta2(a=1, b=2): return (a,b)
@gin.configurable
def Gamma(x=1, **kw): return x
@gin.register
class Cls:
  def __init__(self, p=1): pass
  @gin.register
  def meth(self, q=1): pass
class Obj:
  def __eq__(self, o): return isinstance(o, Obj)
  __hash__ = None
KEYS = [('alpha','a'),('alpha','b'),('alpha','c'),('pkg.mod.beta','a'),('pkg.mod.beta','b'),('other.mod.beta','a'),('other.mod.beta','b'),('Gamma','x'),('Gamma','zz'),('Gamma','Yy'),('Cls','p'),('Cls.meth','q')]
SCOPES = ['', 's', 's/t', 'u', 'S', 'long_scope_name/inner']
CH = string.ascii_letters + string.digits + " _-./'\"\\\n\t#%@{}[]()=:,é \x00\x7f"
def rstr(maxlen=12):
  n = rng.choice([0,1,2,5,maxlen, 90, 200]) if rng.random()<0.3 else rng.randint(0,maxlen)
  return ''.join(rng.choice(CH) for _ in range(n))
def val(d=0):
  r = rng.random()
  if d > 3 or r < 0.45:
    k = rng.randint(0,12)
    if k==0: return rng.randint(-10**6, 10**6)
    if k==1: return rng.choice([0, -1, 10**40, -10**25, True, False, None])
    if k==2: return rng.choice([0.0, -0.0, 1.5, 1e100, 1e-100, -2.5e-7, 1/3, float('inf'), float('nan'), 1e22, 123456789.123456789])
    if k==3: return rstr()
    if k==4: return rstr().encode('utf8', 'ignore')
    if k==5: return config.ConfigurableReference(rng.choice(['alpha','s/alpha','x.y/pkg.mod.beta','Cls','a/b/Gamma']), rng.random()<0.5)
    if k==6: return config.ParserDelegate().macro(rng.choice(['mac1','mac2','sc/mac3']))
    if k==7: return rng.choice([Obj(), 1+2j, {1,2}, frozenset(), range(2), ...])
    if k==8: return rstr(150)
    if k==9: return 'word ' * rng.randint(10,40)
    return rng.randint(0,9)
  k = rng.randint(0,2); n = rng.choice([0,1,2,3,6,25])
  if k==0: return [val(d+1) for _ in range(n)]
  if k==1: return tuple(val(d+1) for _ in range(n))
  out = {}
  for _ in range(n):
    kk = rng.choice([rng.randint(0,50), rstr(6), (1,'a'), rstr(6).encode('utf8','ignore'), None, 2.5])
    out[kk] = val(d+1)
  return out
def canon():
  return {k: dict(v) for k,v in config._CONFIG.items()}
def has_nan(v):
  if isinstance(v, float): return v != v
  if isinstance(v, (list,tuple)): return any(has_nan(x) for x in v)
  if isinstance(v, dict): return any(has_nan(x) for x in v.values()) or any(has_nan(x) for x in v)
  return False
for it in range(400):
  binds = []
  for _ in range(rng.randint(1,7)):
    (sel,arg) = rng.choice(KEYS); sc = rng.choice(SCOPES)
    binds.append(((sc, sel, arg), val()))
  for _ in range(rng.randint(0,2)):
    binds.append(((rng.choice(['mac1','mac2','sc/mac3','Mac1']), 'gin.macro', 'value'), val()))
  def build(order):
    gin.clear_config()
    for k,v in order: gin.bind_parameter(k, v)
  build(binds)
  w, ci = rng.choice([(80,4),(40,4),(20,2),(5,4),(10,0),(7,6),(120,8)])
  try: s1 = gin.config_str(w, ci)
  except Exception as e:
    found['config_str-raises:'+type(e).__name__] += 1
    if found['config_str-raises:'+type(e).__name__] < 3: print('CONFIG_STR RAISES', type(e).__name__, e, binds)
    continue
  saved = canon()
  # permutation
  last = {}
  for k,v in binds: last[k] = v
  perm = list(last.items()); rng.shuffle(perm)
  build(perm); s1p = gin.config_str(w, ci)
  caseties = len({(k[0].lower(), config._REGISTRY.get_match(k[1]).selector.lower()) for k in last}) < len({(k[0], config._REGISTRY.get_match(k[1]).selector) for k in last})
  if s1p != s1:
    found['perm' + (':casetie' if caseties else ':OTHER')] += 1
    if not caseties and found['perm:OTHER'] < 3: print('PERM DIFF', binds, '\n', s1, '\n-----\n', s1p)
  # reparse
  gin.clear_config()
  try: gin.parse_config(s1)
  except Exception as e:
    macro_nonrep = any(k[1]=='gin.macro' and not config._is_literally_representable(v) for k,v in last.items())
    found['reparse-fail' + (':macro-nonrep' if macro_nonrep else ':OTHER')] += 1
    if not macro_nonrep and found['reparse-fail:OTHER'] < 4: print('REPARSE FAIL', type(e).__name__, str(e)[:300], '\n', s1[:1500])
    continue
  back = canon()
  for key, params in saved.items():
    for p, v in params.items():
      rep = config._is_literally_representable(v)
      stats['rep' if rep else 'nonrep'] += 1
      bv = back.get(key, {}).get(p, 'MISSING')
      if rep:
        if bv == 'MISSING' or not (bv == v) or type(bv) is not type(v):
          found['roundtrip-value'] += 1
          if found['roundtrip-value'] < 5: print('ROUNDTRIP', key, p, repr(v)[:200], '->', repr(bv)[:200])
      elif bv != 'MISSING':
        found['nonrep-emitted'] += 1
  extra = {(k,p) for k,ps in back.items() for p in ps} - {(k,p) for k,ps in saved.items() for p in ps}
  if extra: found['extra-bindings'] += 1; print('EXTRA', extra)
  s2 = gin.config_str(w, ci)
  import re
  def strip_none(t): return re.sub(r'# Parameters for [^\n]*:\n# =*\n# None\.\n\n?', '', t + '\n')
  if s2 != s1 and strip_none(s1) == strip_none(s2): found['idempotent:only-None-sections'] += 1
  elif s2 != s1:
    nonrep_present = any(not config._is_literally_representable(v) for ps in saved.values() for v in ps.values())
    found['idempotent' + (':had-nonrep' if nonrep_present else ':OTHER')] += 1
    if found['idempotent:OTHER'] + found['idempotent:had-nonrep'] < 4: print('IDEMP DIFF\n', s1[:1200], '\n------\n', s2[:1200])
  # markdown
  md = config.markdown(s1)
  b1 = [l for l in s1.splitlines() if not l.startswith('#')]
  b2 = [l[4:] for l in md.splitlines() if l.startswith('    ') and not l.startswith('    # None.')]
  b1n = [l for l in b1 if l != '']
  b2n = [l for l in b2 if l != '']
  if b1n != b2n:
    found['markdown'] += 1
    if found['markdown'] < 3: print('MARKDOWN', b1n[:5], b2n[:5])
print(dict(found), dict(stats))
