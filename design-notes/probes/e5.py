import sys
sys.path.insert(0,'/repo')
import gin
from gin import config
@gin.configurable
def f(a=1, b=2): return (a,b)
@gin.configurable
def Foo(a=1): return a
@gin.configurable
def foo(a=1): return a
@gin.configurable(module='m.n')
def g(a=1, **kw): return a
class Obj: pass

print('--- C06 order dependence (case ties)')
def cs(binds):
  gin.clear_config()
  for k,v in binds: gin.bind_parameter(k,v)
  return gin.config_str()
b1 = [('A/f.a',1),('a/f.a',2)]
print(cs(b1) == cs(b1[::-1]))
b2 = [('Foo.a',1),('foo.a',2)]
print(cs(b2) == cs(b2[::-1]))
b3 = [('M',1),('m',2)]
def csm(binds):
  gin.clear_config()
  for k,v in binds: gin.bind_parameter((k,'gin.macro','value'),v)
  return gin.config_str()
print(csm(b3) == csm(b3[::-1]))
print('--- C06 nonrepresentable macro')
gin.clear_config()
gin.bind_parameter(('mm','gin.macro','value'), Obj())
gin.bind_parameter('f.a', Obj())
s = gin.config_str(); print(s)
gin.clear_config()
try: gin.parse_config(s); print('reparsed ok')
except Exception as e: print('REPARSE FAIL', type(e).__name__, str(e)[:80])
gin.clear_config()
print('--- C06 widths')
gin.bind_parameter('f.a', {'k'*10: list(range(30)), 'z': 'word '*40})
gin.bind_parameter('f.b', 'x'*100)
for w,ci in [(80,4),(20,4),(5,4),(6,5),(10,0),(4,4),(3,4)]:
  try:
    s = gin.config_str(max_line_length=w, continuation_indent=ci)
    saved = dict(config._CONFIG[('', '__main__.f')])
    gin.clear_config(); gin.parse_config(s)
    ok = config._CONFIG[('', '__main__.f')] == saved and gin.config_str(max_line_length=w, continuation_indent=ci) == s
    print(w, ci, 'roundtrip', ok)
  except Exception as e: print(w, ci, 'ERR', type(e).__name__, str(e)[:70])
gin.clear_config()
print('--- floats & specials')
for v in [float('inf'), float('nan'), -0.0, 1e22, 1e-7, 1+2j, b'\x00\xff', 'a\nb', "it's \"q\"", (), (1,), [()], {(): []}, {1: {2: {3: [4, (5,)]}}}, True, None, -5, 10**30, frozenset([1]), {1,2}, range(3), 'é', ' ', '#notcomment', "\\", 'a' * 200, ['a b c '*30]]:
  gin.clear_config(); gin.bind_parameter('f.a', v)
  s = gin.config_str()
  has = 'f.a =' in s
  gin.clear_config()
  try:
    gin.parse_config(s)
    if has:
      q = gin.query_parameter('f.a'); print(repr(v)[:30], 'emitted; back equal', q == v, type(q) is type(v))
    else: print(repr(v)[:30], 'omitted')
  except Exception as e: print(repr(v)[:30], 'REPARSE FAIL', type(e).__name__, str(e)[:60])
print('--- markdown')
gin.clear_config(); gin.bind_parameter('f.a', ['a b c '*30]); gin.bind_parameter(('mm','gin.macro','value'), 3)
s = gin.config_str(); print(s); print(config.markdown(s))
