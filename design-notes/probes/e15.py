import sys
sys.path.insert(0,'/repo')
import gin
from gin import config
@gin.configurable
def f(a=1, b=2, c=3): return (a,b,c)
for scope in [None, 'x']:
  gin.clear_config()
  gin.parse_config("f.a = %unbound\n")
  try:
    if scope:
      with gin.config_scope(scope): gin.finalize()
    else: gin.finalize()
    print(scope, 'finalize accepted unbound macro; locked', gin.config_is_locked())
  except Exception as e: print(scope, 'rejected', type(e).__name__)
for scope in [None, 'x']:
  gin.clear_config()
  gin.parse_config("f.a = @gin.macro\nm = 1")
  try:
    if scope:
      with gin.config_scope(scope): gin.finalize()
    else: gin.finalize()
    print(scope, 'finalize accepted unevaluated macro')
  except Exception as e: print(scope, 'rejected', type(e).__name__)
# REQUIRED via finalize in scope
for scope in [None, 'x']:
  gin.clear_config()
  gin.parse_config("f.a = %gin.REQUIRED\n")
  try:
    if scope:
      with gin.config_scope(scope): gin.finalize()
    else: gin.finalize()
    print(scope, 'finalize accepted REQUIRED')
  except Exception as e: print(scope, 'rejected', type(e).__name__, str(e)[:60])
gin.clear_config()
# hooks see config as parsed & hook-returned bindings applied
def hk(cfg): return {'f.b': 77, ('s', 'f', 'c'): 88}
config.register_finalize_hook(hk)
gin.parse_config("f.a = 1"); gin.finalize(); print(config._CONFIG, gin.config_is_locked())
try: gin.finalize()
except RuntimeError as e: print('twice:', e)
try: gin.bind_parameter('f.a', 2)
except RuntimeError as e: print('locked bind:', e)
try: gin.parse_config('f.a = 3')
except RuntimeError as e: print('locked parse:', str(e)[:50])
try:
  @gin.configurable
  def late(): pass
except RuntimeError as e: print('locked register:', e)
try: gin.constant('LATE', 1); print('constant accepted while locked')
except RuntimeError as e: print('locked constant:', e)
try: gin.parse_config('import os'); print('import parse accepted while locked', config._IMPORTS)
except RuntimeError as e: print('locked import:', e)
with gin.unlock_config():
  with gin.unlock_config(): gin.bind_parameter('f.a', 5)
  print('inner exit -> locked?', gin.config_is_locked())
print('outer exit -> locked?', gin.config_is_locked())
config._FINALIZE_HOOKS.remove(hk)
