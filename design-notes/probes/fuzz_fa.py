# C08 fuzzer: SelectorMap histories vs naive spec. Known deviations D1 (single-entry minimal), D2 (copy sharing), D8 ('$') are classified.
import sys, random, collections
sys.path.insert(0,'/repo')
from gin import selector_map
rng = random.Random(int(sys.argv[1]) if len(sys.argv)>1 else 0)
ALPH = ['a','b','c']
def name(): return '.'.join(rng.choice(ALPH) for _ in range(rng.randint(1,4)))
def spec_match(keys, q):
  if q in keys: return {q}
  qc = q.split('.')
  return {s for s in keys if s.split('.')[-len(qc):] == qc and len(s.split('.')) >= len(qc)}
def spec_min(keys, s):
  comps = s.split('.')
  for i in range(1, len(comps)+1):
    cand = '.'.join(comps[-i:])
    if spec_match(keys, cand) == {s}: return cand
found = collections.Counter()
for it in range(3000):
  maps = [(selector_map.SelectorMap(), {})]
  hist = []
  for step in range(rng.randint(5, 40)):
    mi = rng.randrange(len(maps)); sm, sp = maps[mi]
    op = rng.choice(['set','set','set','pop','match','match','min','copy','clear','getm'])
    if op == 'set':
      n = name(); v = rng.randint(0,99); sm[n] = v; sp[n] = v; hist.append((mi,'set',n))
    elif op == 'pop' and sp:
      n = rng.choice(sorted(sp)); hist.append((mi,'pop',n))
      try: v = sm.pop(n); assert v == sp.pop(n)
      except KeyError:
        found['pop-crash:' + ('copy' if any(h[1]=='copy' for h in hist) else 'NOCOPY')] += 1; break
    elif op == 'copy' and len(maps) < 3:
      maps.append((sm.copy(), dict(sp))); hist.append((mi,'copy'))
    elif op == 'clear' and rng.random() < 0.2:
      sm.clear(); sp.clear(); hist.append((mi,'clear'))
    elif op in ('match','getm'):
      q = name() if rng.random()<0.8 else rng.choice(['', '.a', 'a.', 'a..b'])
      try: got = set(sm.matching_selectors(q))
      except Exception as e: got = ('EXC', type(e).__name__)
      exp = spec_match(set(sp), q)
      if got != exp:
        found['match:' + ('copy' if any(h[1]=='copy' for h in hist) else 'nocopy')] += 1
        if found.total() < 4: print('MATCH DIFF', hist, q, got, exp)
      if op == 'getm':
        try: g = sm.get_match(q, 'DEF')
        except KeyError: g = 'AMBIG'
        e = sp[next(iter(exp))] if len(exp)==1 else ('DEF' if not exp else 'AMBIG')
        if g != e: found['getm'] += 1
    elif op == 'min' and sp:
      n = rng.choice(sorted(sp))
      try: got = sm.minimal_selector(n)
      except Exception as e: got = ('EXC', type(e).__name__)
      exp = spec_min(set(sp), n)
      if got != exp:
        kind = 'min:single-entry' if len(sp)==1 else ('min:copy' if any(h[1]=='copy' for h in hist) else 'min:OTHER')
        found[kind] += 1
        if kind == 'min:OTHER' and found[kind] < 4: print('MIN DIFF', hist, sorted(sp), n, got, exp)
    # invariants: len, contains, items
    if not (len(sm) == len(sp) and dict(sm.items()) == sp): found['flatmap'] += 1; break
print(dict(found))
