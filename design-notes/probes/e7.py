import sys, os, tempfile, logging
sys.path.insert(0,'/repo')
import gin
from gin import config
@gin.configurable
def f(a=1, b=2, c=3): return (a,b,c)
@gin.configurable
def h(x=1): return x
def cfg(): return repr(sorted((k, sorted(v.items(), key=repr)) for k,v in config._CONFIG.items()))

print('--- C15')
txt = """
f.a = 1
unk.x = 2
unk2:
  p = 1
  q = @also_unknown()
f.b = @unkref
f.c = [@unkref2(), 1]
import no_such_module_xyz
s/unk.y = 3
mm = @unk3()
h.x = %mm
"""
for su in [False, True, ['unk'], ['unk','unk2','unkref','unkref2','unk3','also_unknown'], ('unk','unk2'), {'unk','unk2','unkref', 'unkref2', 'unk3'}]:
  gin.clear_config()
  try:
    gin.parse_config(txt, skip_unknown=su); print(su, '-> OK', cfg()[:300])
    try: f()
    except Exception as e: print('   call f:', type(e).__name__, str(e).split('\n')[0][:80])
    try: h()
    except Exception as e: print('   call h:', type(e).__name__, str(e).split('\n')[0][:80])
    try: gin.finalize()
    except Exception as e: print('   finalize:', type(e).__name__, str(e).split('\n')[0][:100])
    print(gin.config_str()[:600])
  except Exception as e: print(su, '-> ERR', type(e).__name__, str(e).split('\n')[0][:80], '| applied:', cfg()[:200])

print('--- C16')
d = tempfile.mkdtemp()
open(os.path.join(d,'inner.gin'),'w').write("f.b = 20\n\n\nf.zz = \\\n  5\nf.c = 30\n")
open(os.path.join(d,'outer.gin'),'w').write("f.a = 10\ninclude '%s/inner.gin'\nf.c = 99\n" % d)
gin.clear_config()
with gin.config_scope('keep'):
  try: gin.parse_config_file(os.path.join(d,'outer.gin'))
  except Exception as e: print(type(e).__name__); print(str(e))
  print('scope', gin.current_scope(), 'locked', gin.config_is_locked(), 'ctx depth', len(config._PARSE_CONTEXTS), cfg())
print(gin.config_str(show_provenance=True))
gin.clear_config()
for bad in ["f.a = 1\nf.b = [1, 2\nf.c = 3\n", "f.a = 1\nf.b = \nf.c = 3\n", "f.a = 1\nf .b = 2\n", "f.a = 1\na//f.b = 2\n", "f.a = 1\nf.b = @nope()\n", "f.a=1\nf:\n  a = 2\n  zz = 3\n  b = 4\n", "f.a = 1\ninclude 'nofile.gin'\nf.b=2", "f.a = 1\nimport nomod_xyz\nf.b=2", "f.a = 1\n\n  f.b = {1:\n 2,\n 3}\n", "f.a = 1\nf.b = 2 3\nf.c=1", "f.a = 1\nf.b = (1,\n# c\n 2)) \n", "f.a = 1\nf.b = 'abc\n"]:
  gin.clear_config()
  try: gin.parse_config(bad); print('OK?', repr(bad))
  except Exception as e:
    print(repr(bad)[:40], '->', type(e).__name__, getattr(e,'lineno',None), '|', str(e).replace('\n',' // ')[:150], '| applied', cfg())
