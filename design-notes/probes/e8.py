import sys, os
sys.path.insert(0,'/repo'); sys.path.insert(0, '/tmp/exp')
import gin
from gin import config
import pk.sub.mod as M, other.mod as O
def show(title, txt, after=None):
  gin.clear_config()
  print('=====', title)
  try:
    gin.parse_config(txt)
    if after: after()
    s = gin.config_str(); print(s)
    gin.clear_config(); gin.parse_config(s)
    s2 = gin.config_str(); print('idempotent:', s2 == s)
    if after: after()
  except Exception as e:
    print('ERR', type(e).__name__, str(e).replace('\n', ' // ')[:300])

show('basic forms', """
from __gin__ import dynamic_registration
import pk.sub.mod
from pk.sub import mod as m2
import pk.sub.mod as m3
from other import mod
pk.sub.mod.fn.a = 10
m2.fn.b = 20
m3.Cls.p = 3
mod.fn.a = 7
pk.sub.mod.taker.x = @m3.fn()
pk.sub.mod.taker.y = @mod.fn()
""", lambda: print(gin.get_configurable(M.fn)(), gin.get_configurable(O.fn)(), gin.get_configurable(M.taker)(), gin.get_configurable(M.Cls)().p))

show('collision', """
from __gin__ import dynamic_registration
from pk.sub import mod
import other.mod as mod2
mod.fn.a = 1
mod2.fn.a = 2
""", lambda: print(gin.get_configurable(M.fn)(), gin.get_configurable(O.fn)()))

open('/tmp/exp/incl.gin','w').write("""
from __gin__ import dynamic_registration
from other import mod
mod.fn.a = 77
""")
show('collision across files', """
from __gin__ import dynamic_registration
from pk.sub import mod
include '/tmp/exp/incl.gin'
mod.fn.a = 1
""", lambda: print(gin.get_configurable(M.fn)(), gin.get_configurable(O.fn)()))

show('name from included file not visible', """
from __gin__ import dynamic_registration
include '/tmp/exp/incl.gin'
mod.fn.a = 1
""")
show('gin reserved', "from __gin__ import dynamic_registration\nimport other.mod as gin\n")
show('late enabling', "import other.mod\nfrom __gin__ import dynamic_registration\n")
show('aliased enabling', "from __gin__ import dynamic_registration as dr\n")
show('unknown feature', "from __gin__ import foo\n")
show('import gin', "from __gin__ import dynamic_registration\nimport gin\n")
show('method + existing ref', """
from __gin__ import dynamic_registration
from pk.sub import mod
mod.taker.x = @mod.Cls()
mod.Cls.p = 4
mod.Cls.meth.q = 9
""", lambda: print(gin.get_configurable(M.taker)()[0].meth(), type(gin.get_configurable(M.taker)()[0]).__mro__))
show('nested class', """
from __gin__ import dynamic_registration
import pk
pk.sub.mod.Cls.Inner.r = 5
""", lambda: print(gin.get_configurable(M.Cls.Inner)().r))
show('builtin macro/singleton', """
from __gin__ import dynamic_registration
from pk.sub import mod
mod.taker.x = @gin.singleton()
gin.singleton.constructor = @mod.Cls
mod.taker.y = %MM
MM = 5
""", lambda: print(gin.get_configurable(M.taker)()))
