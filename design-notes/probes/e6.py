import sys, os, tempfile
sys.path.insert(0,'/repo')
import gin
from gin import config
class Obj: pass
@gin.configurable
def f(a=1, b=2, *, k=3, o=Obj()): return (a,b,k)
@gin.configurable(denylist=['d'])
def dn(c=1, d=2): return (c,d)
@gin.configurable(allowlist=['c'])
def al(c=1, d=2, **kw): return (c,d,kw)
@gin.configurable
def kw(**kwargs): return kwargs
@gin.configurable
class K:
  def __init__(self, p=1): self.p=p
  @gin.configurable
  def meth(self, q=5): return q
@gin.register
class R:
  def __init__(self, p=1): self.p=p
  @gin.register
  def rm(self, q=5): return q

def st(): return (repr(sorted((k, sorted(v.items(), key=repr)) for k,v in config._CONFIG.items())), gin.config_is_locked(), gin.current_scope())

print('--- C11 API paths')
tests = [
 ('str unknown cfg', lambda: gin.bind_parameter('nope.x', 1)),
 ('str unknown param', lambda: gin.bind_parameter('f.zz', 1)),
 ('tuple unknown param', lambda: gin.bind_parameter(('', 'f', 'zz'), 1)),
 ('tuple scoped deny', lambda: gin.bind_parameter(('s/t', 'dn', 'd'), 1)),
 ('list deny', lambda: gin.bind_parameter(['', 'dn', 'd'], 1)),
 ('allow miss', lambda: gin.bind_parameter('al.d', 1)),
 ('allow kw miss', lambda: gin.bind_parameter('al.other', 1)),
 ('kw any', lambda: gin.bind_parameter('kw.anything', 1)),
 ('text deny', lambda: gin.parse_config('f.a = 1\ndn.d = 3\nf.b = 9')),
 ('block deny', lambda: gin.parse_config('f.a = 2\ndn:\n  c = 4\n  d = 3\nf.b = 9')),
 ('scoped text', lambda: gin.parse_config('x/y/dn.d = 3')),
 ('method bare', lambda: gin.bind_parameter('meth.q', 1)),
 ('method cls', lambda: gin.bind_parameter('K.meth.q', 1)),
 ('rmethod bare', lambda: gin.bind_parameter('rm.q', 1)),
 ('rmethod cls', lambda: gin.bind_parameter('R.rm.q', 1)),
 ('self param', lambda: gin.bind_parameter('K.self', 1)),
 ('empty arg', lambda: gin.bind_parameter('f', 1)),
 ('int key', lambda: gin.bind_parameter(5, 1)),
 ('tuple 2', lambda: gin.bind_parameter(('f','a'), 1)),
]
for name, t in tests:
  before = st()
  try: t(); r = 'ACCEPTED'
  except Exception as e: r = type(e).__name__ + ': ' + str(e).split('\n')[0][:70]
  print(f'{name:22s} {r:90s} unchanged={st()==before}')
print(sorted(config._REGISTRY._selector_map))
print(gin.config_str())
gin.clear_config()

print('--- C07 operative')
gin.parse_config("f.a = 10\ns/f.b = 20\ns/t/f.k = 30\nkw.z = %mz\nmz = 'macro'\n")
f(); 
with gin.config_scope('s'): f(b=5)
with gin.config_scope('s/t'): f(7)
with gin.config_scope('u'): f()
kw()
op = gin.operative_config_str(); print(op)
gin.clear_config(); gin.parse_config(op)
r = [f()]
with gin.config_scope('s'): r.append(f(b=5))
with gin.config_scope('s/t'): r.append(f(7))
with gin.config_scope('u'): r.append(f())
r.append(kw()); print(r)
print('replay same text:', gin.operative_config_str() == op)
gin.clear_config()
