import sys
sys.path.insert(0,'/tmp/ginfix')
import gin
from gin import config, selector_map
assert gin.__file__.startswith('/tmp/ginfix')
sm = selector_map.SelectorMap(); sm['a.b.c']=1; print('F1', sm.minimal_selector('a.b.c'))
c = sm.copy(); c['x.c']=2; print('F2', sm.matching_selectors('c')); print('F8', sm.matching_selectors('$.c'), sm.matching_selectors('$'))
calls=[]
@gin.configurable
def leaf(): calls.append(1); return 1
@gin.configurable
def f(a=1, b=2): return (a,b)
@gin.configurable(module='m.n')
def g(a=1): return a
gin.finalize()
try:
  with gin.unlock_config(): raise KeyError
except KeyError: pass
print('F3 locked', gin.config_is_locked()); gin.clear_config()
h1=lambda c: {'g.a':5}; h2=lambda c: {'m.n.g.a':6}
config.register_finalize_hook(h1); config.register_finalize_hook(h2)
try: gin.finalize(); print('F4 NOT detected')
except ValueError as e: print('F4 detected; locked', gin.config_is_locked())
config._FINALIZE_HOOKS.remove(h1); config._FINALIZE_HOOKS.remove(h2); gin.clear_config()
for t in ["'' 'a'", '"a" "" "b"', "-@f", "-%m", "- 1", "-\n1", "'a' b'b'", "'a'\\\n 'b'", "-'a'", "[-1, - 2.5, -0x10]", "('a'\n'b'  # c\n'')"]:
  gin.clear_config()
  try: gin.parse_config('f.a = '+t); print('F5/6', repr(t), repr(gin.query_parameter('f.a')))
  except Exception as e: print('F5/6', repr(t), type(e).__name__, str(e).split('\n')[0][:60])
def cs(b):
  gin.clear_config()
  for k,v in b: gin.bind_parameter(k,v)
  return gin.config_str()
b=[('A/f.a',1),('a/f.a',2)]; print('F10', cs(b)==cs(b[::-1]))
gin.clear_config(); gin.bind_parameter(('mm','gin.macro','value'), object()); gin.bind_parameter('f.a', '%mm')
s=gin.config_str(); gin.clear_config(); gin.parse_config(s); print('F11 reparsed', repr(s[:40]))
gin.clear_config(); gin.parse_config('f.a = @leaf()\nf.b = @leaf()'); f(b=3); print('F13 calls', len(calls)); calls.clear(); f(0, 3); print(' pos', len(calls)); calls.clear(); f(); print(' none', len(calls))
gin.clear_config(clear_constants=True)
with gin.config.interactive_mode(): gin.constant('d.X',1); gin.constant('e.d.X',2); gin.constant('X',3)
gin.clear_config(); print('F14', sorted(config._CONSTANTS._selector_map)); gin.clear_config(clear_constants=True)
gin.parse_config('f.a = %unbound')
try:
  with gin.config_scope('x'): gin.finalize()
  print('F18 NOT rejected')
except ValueError: print('F18 rejected')
gin.clear_config()
