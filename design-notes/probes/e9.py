import sys, os
sys.path.insert(0,'/repo'); sys.path.insert(0, '/tmp/exp')
import gin
from gin import config
import pk.sub.mod as M
gin.parse_config("""
from __gin__ import dynamic_registration
from pk.sub import mod
mod.taker.x = @mod.Cls()
mod.Cls.p = 4
mod.Cls.meth.q = 9
""")
print(config._CONFIG)
t = gin.get_configurable(M.taker)
x = t()[0]
print(x.p, type(x), type(x) is M.Cls)
c = gin.get_configurable(M.Cls)
print(c().p, c is config._REGISTRY['pk.sub.mod.Cls'].wrapper)
ref = config._CONFIG[('', 'pk.sub.mod.taker')]['x']
print(ref.configurable is config._REGISTRY['pk.sub.mod.Cls'], ref.scoped_configurable_fn is c)
print(ref.scoped_configurable_fn().p)
import copy
print(copy.deepcopy(ref).p)
print(copy.deepcopy({'x': ref})['x'].p)
