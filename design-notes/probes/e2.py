import sys, traceback
sys.path.insert(0,'/repo')
import gin
from gin import config

@gin.configurable
def f(a=1, b=2): return (a,b)

@gin.configurable(module='m.n')
def g(a=1): return a

# C12: unlock_config with raising body
gin.finalize()
try:
  with gin.unlock_config():
    raise KeyError('x')
except KeyError: pass
print('locked after raising unlock body:', gin.config_is_locked())
gin.clear_config()

# C12/C08: two hooks, different spellings
def h1(cfg): return {'g.a': 5}
def h2(cfg): return {'m.n.g.a': 6}
config.register_finalize_hook(h1); config.register_finalize_hook(h2)
try:
  gin.finalize(); print('no conflict detected; g()=', g(), 'locked', gin.config_is_locked())
except ValueError as e: print('conflict detected', e)
config._FINALIZE_HOOKS.remove(h1); config._FINALIZE_HOOKS.remove(h2)
gin.clear_config()

# same spelling
def h3(cfg): return {'g.a': 5}
def h4(cfg): return {'g.a': 6}
config.register_finalize_hook(h3); config.register_finalize_hook(h4)
try:
  gin.finalize(); print('same spelling: no conflict detected', g())
except ValueError as e: print('same spelling: conflict detected', e)
config._FINALIZE_HOOKS.remove(h3); config._FINALIZE_HOOKS.remove(h4)
print('locked after failed finalize', gin.config_is_locked())
gin.clear_config()

# C02
for txt in ["'' 'a'", "'a' ''", '"a" "" "b"', "-@f", "-@f()", "- 1", "-True", "1 if True else 2", "{[1]: 2}", "1_000", "0x1f", "1j", "-1j", "b'a' b'b'", "'a' b'b'", "u'a'", "f'a'", "rb'\\n'", "(1)", "((1,))", "[1,\n# c\n2,]", "1 2", "'''a\nb'''", "...", "-'a'", "- -1", "+1", "{1:2,}", "{,}", "[,]", "(,)","'a' # c", "1.e5", "1__0", "0o17", "0b11", "01", "1e400", "-1e400", "nan", "'\\N{BULLET}'", "'a' \\\n 'b'"]:
  gin.clear_config()
  import ast
  try: py = ('ok', ast.literal_eval(txt.replace('@f()','1').replace('@f','1')) if '@' not in txt else None)
  except Exception as e: py = ('err', type(e).__name__)
  try:
    gin.parse_config('f.a = ' + txt)
    v = gin.query_parameter('f.a'); r = ('ok', v, type(v).__name__)
  except Exception as e: r = ('err', type(e).__name__, str(e).split('\n')[0][:60])
  print(repr(txt), '->', r, '| py:', py)
