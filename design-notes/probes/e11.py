import sys, os
sys.path.insert(0,'/repo')
import gin
from gin import config
@gin.configurable
def f(a=1, b=2, c=3): return (a,b,c)
@gin.configurable
def mk(): return object()
print('--- C20')
gin.constant('my.CONST', 5)
gin.parse_config("import collections\nf.a = @gin.singleton()\ngin.singleton.constructor = @mk\nf.b = %CONST")
with gin.config_scope('sc'): r1 = f(); r2 = f()
print('singleton same', r1[0] is r2[0], config._SINGLETONS.keys())
gin.finalize()
gin.clear_config()
print(repr(gin.config_str()), repr(gin.operative_config_str()), gin.config_is_locked(), config._SINGLETONS, config._IMPORTS, config._CONFIG_PROVENANCE, sorted(config._CONSTANTS._selector_map))
gin.clear_config(clear_constants=True); print(sorted(config._CONSTANTS._selector_map))
with gin.config.interactive_mode():
  gin.constant('d.X', 1); gin.constant('e.d.X', 2); gin.constant('X', 3)
try: gin.clear_config(); print('clear ok', sorted(config._CONSTANTS._selector_map))
except Exception as e: print('clear_config FAILED:', type(e).__name__, e, '| constants left:', sorted(config._CONSTANTS._selector_map), 'locked', gin.config_is_locked(), 'imports', config._IMPORTS)
gin.clear_config(clear_constants=True)
# non-interactive: a, then b.a is rejected; x.a then a rejected. b.a then c.b.a? accepted (no match). then clear re-adds in dict order: c.b.a after b.a OK. reverse: c.b.a first, then b.a -> matching('b.a') -> ['c.b.a'] rejected.
gin.constant('b.a', 1); gin.constant('c.b.a', 2)
try: gin.clear_config(); print('clear ok2', sorted(config._CONSTANTS._selector_map))
except Exception as e: print('clear_config FAILED2:', type(e).__name__, e)
gin.clear_config(clear_constants=True)
print('--- singleton scope keys')
gin.parse_config("f.a = @s1/gin.singleton()\nf.b = @s1/gin.singleton()\nf.c = @s2/gin.singleton()\ngin.singleton.constructor = @mk")
r = f(); print(r[0] is r[1], r[0] is r[2]); r2 = f(); print(r2[0] is r[0])
with gin.config_scope('amb'): r3 = f(); print('ambient does not matter:', r3[0] is r[0])
gin.clear_config(); gin.parse_config("f.a = @s1/gin.singleton()\ngin.singleton.constructor = @mk"); print('after clear new obj:', f()[0] is not r[0])
gin.clear_config()
print('--- C09')
class BadEq:
  def __eq__(self, o): raise RuntimeError('eq')
  __hash__ = None
with gin.config_scope('outer'):
  for bad in [5, ('a',), 'a//b', 'a b', ['ok', 'not ok'], [1], BadEq(), '1a', 'a/', '/a', 'a.b/c']:
    try:
      with gin.config_scope(bad): print('   entered', bad, gin.current_scope())
    except Exception as e: print('   rejected', repr(bad)[:20], type(e).__name__, end=' ')
    try: print('| now', gin.current_scope(), len(config._SCOPE_MANAGER.active_scopes))
    except Exception as e: print('| SCOPE STACK BROKEN', type(e).__name__); config._SCOPE_MANAGER._active_scopes = [[], ['outer']]
  try:
    with gin.config_scope('x'):
      with gin.config_scope(None):
        with gin.config_scope(['p','q']):
          with gin.config_scope('r/s'):
            print(gin.current_scope()); raise KeyError
  except KeyError: print('after exc', gin.current_scope())
print(gin.current_scope(), config._SCOPE_MANAGER.active_scopes)
