# C03: same statements, two random layouts -> same configuration & imports
import sys, random, collections
sys.path.insert(0,'/repo')
import gin
from gin import config
seed = int(sys.argv[1]) if len(sys.argv)>1 else 0
rng = random.Random(seed)
found = collections.Counter(); stats = collections.Counter()
@gin.configurable
def alpha(a=1, b=2, c=3): return (a,b,c)
@gin.configurable(module='pk.m')
def gam(x=1, y=2): return (x,y)
def canon():
  return (sorted((k, sorted((p, repr(v)) for p,v in ps.items())) for k,ps in config._CONFIG.items()), sorted(s.format() for s in config._IMPORTS))
def sp(): return rng.choice(['', ' ', '  ', '\t'])
def cont(): return rng.choice(['', '', ' \\\n' + ' ' * rng.randint(0,4)])
def trivia():
  return ''.join(rng.choice(['\n', '   \n', '# comment\n', '  # indented comment\n', '\t\n', '#\n']) for _ in range(rng.randint(0,3)))
def val_layout(v):
  # v is a nested python literal made of ints/strs/lists/dicts/tuples or ('REF', text)
  if isinstance(v, tuple) and v and v[0] == 'REF': return v[1]
  if isinstance(v, list):
    inner = ''
    for i,x in enumerate(v):
      inner += rng.choice(['', ' ', '\n  ', ' # c\n ']) + val_layout(x) + rng.choice(['', ' ', '\n'])
      if i < len(v)-1 or rng.random()<0.3: inner += ','
    return '[' + inner + rng.choice(['', '\n', ' # c\n']) + ']'
  if isinstance(v, dict):
    inner = ''
    items = list(v.items())
    for i,(k,x) in enumerate(items):
      inner += rng.choice(['', ' ', '\n  ']) + repr(k) + sp() + ':' + rng.choice(['', ' ', '\n   ']) + val_layout(x)
      if i < len(items)-1 or rng.random()<0.3: inner += ','
    return '{' + inner + rng.choice(['', '\n']) + '}'
  if isinstance(v, str) and rng.random() < 0.3 and len(v) > 1:
    i = rng.randrange(1, len(v)); return repr(v[:i]) + rng.choice([' ', '  ', ' \\\n  ']) + repr(v[i:])
  return repr(v)
def mkval(d=0):
  r = rng.random()
  if d > 2 or r < 0.5: return rng.choice([1, -2, 'str', 'a b', None, True, 2.5, ('REF','@alpha'), ('REF','@s/pk.m.gam()'), ('REF','%mac'), ('REF', '@x.y/gam')])
  if r < 0.8: return [mkval(d+1) for _ in range(rng.randint(0,3))]
  return {k: mkval(d+1) for k in rng.sample(['k1','k2',3,4], rng.randint(0,3))}
for it in range(1500):
  stmts = []
  for _ in range(rng.randint(1,8)):
    k = rng.randint(0,9)
    if k <= 5:
      sc = rng.choice(['', 's', 's/t']); sel, arg = rng.choice([('alpha','a'),('alpha','b'),('alpha','c'),('gam','x'),('m.gam','y'),('pk.m.gam','x')])
      stmts.append(('bind', sc, sel, arg, mkval()))
    elif k == 6: stmts.append(('macro', rng.choice(['mac', 'sc/mac2']), mkval()))
    elif k == 7: stmts.append(('import', rng.choice(['import os', 'import os.path as osp', 'from os import path', 'from os import path as pp', 'import collections.abc'])))
    else: stmts.append(('bind', '', 'alpha', rng.choice('abc'), mkval()))
  def render(block_ok):
    out = trivia(); i = 0
    while i < len(stmts):
      s = stmts[i]
      ind = '' if block_ok else rng.choice(['', '', '  '])
      if s[0] == 'bind':
        # group consecutive same (scope, sel) into a block sometimes
        j = i
        while j+1 < len(stmts) and stmts[j+1][0]=='bind' and stmts[j+1][1:3] == s[1:3]: j += 1
        if block_ok and rng.random() < 0.4:
          hdr = (s[1] + '/' if s[1] else '') + s[2] + sp() + ':' + rng.choice(['', ' # hdr comment', '  '])
          bi = ' ' * rng.randint(1,4)
          out += hdr + '\n' + rng.choice(['', '\n', bi + '# c\n', '# c at col0\n'])
          for m in stmts[i:j+1]:
            out += bi + m[3] + sp() + '=' + sp() + cont() + val_layout(m[4]) + rng.choice(['', ' # c']) + '\n' + rng.choice(['', '\n', bi + '# c\n'])
          i = j + 1; out += trivia(); continue
        key = (s[1] + '/' if s[1] else '') + s[2] + '.' + s[3]
        out += ind + key + sp() + cont() + '=' + sp() + cont() + val_layout(s[4]) + rng.choice(['', ' # trailing']) + '\n'
      elif s[0] == 'macro':
        out += ind + s[1] + sp() + '=' + sp() + cont() + val_layout(s[2]) + '\n'
      else:
        out += ind + s[1].replace(' ', rng.choice([' ', '  ', ' \\\n  ']), 1) + rng.choice(['', '  # c']) + '\n'
      out += trivia(); i += 1
    if rng.random() < 0.3: out = out.rstrip('\n')
    if rng.random() < 0.15: out = out.replace('\n', '\r\n')
    return out
  res = []
  texts = []
  for lay in range(2):
    t = render(block_ok=(lay==1)); texts.append(t)
    gin.clear_config()
    try: gin.parse_config(t); res.append(('ok', canon()))
    except Exception as e: res.append(('err', type(e).__name__, str(e).split('\n')[0][:80]))
  stats[(res[0][0], res[1][0])] += 1
  if res[0] != res[1]:
    found['layout'] += 1
    if found['layout'] < 6: print('LAYOUT DIFF', res[0][:3] if res[0][0]=='err' else 'ok', res[1][:3] if res[1][0]=='err' else 'ok', '\n<<<\n' + texts[0] + '\n>>>\n' + texts[1] + '\n===')
print(dict(found)); print(dict(stats))
