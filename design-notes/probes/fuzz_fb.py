# C01/C10/C07 fuzzer: random signatures x bindings x scopes x call shapes vs declarative spec.
import sys, random, collections, itertools
sys.path.insert(0,'/repo')
import gin
from gin import config
seed = int(sys.argv[1]) if len(sys.argv)>1 else 0
rng = random.Random(seed)
REQ = gin.REQUIRED
PN = ['p','q','r','s','t']
counter = itertools.count()
found = collections.Counter(); stats = collections.Counter()
def mk_sig():
  names = PN[:]; rng.shuffle(names)
  npos = rng.randint(0,3); nkw = rng.randint(0,2)
  pos = names[:npos]; kwo = names[npos:npos+nkw]
  # defaults: suffix of pos has defaults
  nd = rng.randint(0, npos)
  posd = {n: (REQ if rng.random()<0.2 else 100+i) for i,n in enumerate(pos[npos-nd:])}
  kwd = {n: (REQ if rng.random()<0.25 else 200+i) for i,n in enumerate(kwo) if rng.random()<0.7}
  return dict(pos=pos, posd=posd, kwo=kwo, kwd=kwd, va=rng.random()<0.3, vk=rng.random()<0.3)
def build(sig, name):
  parts = []
  for n in sig['pos']: parts.append(n + ('=_D_%s' % n if n in sig['posd'] else ''))
  if sig['va']: parts.append('*va')
  elif sig['kwo']: parts.append('*')
  for n in sig['kwo']: parts.append(n + ('=_D_%s' % n if n in sig['kwd'] else ''))
  if sig['vk']: parts.append('**vk')
  allp = sig['pos'] + sig['kwo']
  items = ["'%s': %s" % (n,n) for n in allp] + (["'*': list(va)"] if sig['va'] else []) + (["'**': dict(vk)"] if sig['vk'] else [])
  body = 'return {' + ', '.join(items) + '}'
  src = 'def %s(%s):\n  CALLS.append(1)\n  %s\n' % (name, ', '.join(parts), body)
  env = {'CALLS': CALLS, '__name__': 'fzmod'}
  for n,v in itertools.chain(sig['posd'].items(), sig['kwd'].items()): env['_D_'+n] = v
  exec(src, env); return env[name]
CALLS = []
def overlay(cfg, sel, scope):
  out = {}
  for i in range(len(scope)+1):
    out.update(cfg.get(('/'.join(scope[:i]), sel), {}))
  # declarative version: longest prefix wins
  decl = {}
  for (sc, s), d in cfg.items():
    if s != sel: continue
    scl = sc.split('/') if sc else []
    if scope[:len(scl)] == scl:
      for k,v in d.items():
        if k not in decl or len(scl) >= decl[k][0]: decl[k] = (len(scl), v)
  assert {k:v for k,(l,v) in decl.items()} == out
  return out
for it in range(1500):
  gin.clear_config()
  sig = mk_sig(); name = 'fn%d_%d' % (seed, it)
  orig = build(sig, name)
  try: wrapped = gin.configurable(orig)
  except ValueError as e: stats['reg-reject'] += 1; continue
  sel = orig.__module__ + '.' + name
  bindable = sig['pos'] + sig['kwo'] + (['x1','x2'] if sig['vk'] else [])
  cfg = {}
  SC = ['a','b']
  for _ in range(rng.randint(0,6)):
    if not bindable: break
    sc = [rng.choice(SC) for _ in range(rng.randint(0,3))]
    p = rng.choice(bindable); v = 1000 + next(counter)
    gin.bind_parameter(('/'.join(sc), name, p), v); cfg.setdefault(('/'.join(sc), sel), {})[p] = v
  expop = {}
  calllog = []
  for call in range(rng.randint(1,4)):
    scope = [rng.choice(SC) for _ in range(rng.randint(0,3))]
    ov = overlay(cfg, sel, scope)
    npos = rng.randint(0, len(sig['pos']) + (2 if sig['va'] else 0))
    args = [(REQ if rng.random()<0.15 else 5000+next(counter)) for _ in range(npos)]
    kwc = [n for n in (sig['pos'][npos:] + sig['kwo'] + (['x1','x3'] if sig['vk'] else [])) if rng.random()<0.35]
    kwargs = {n: (REQ if rng.random()<0.2 else 7000+next(counter)) for n in kwc}
    # ---- spec
    named = sig['pos'][:len(args)]
    exp = None
    if any(a is REQ for a in args[len(named):]): exp = ('ValueError',)
    else:
      missing = []
      eargs = list(args); ekw = {}
      sup_pos = set()
      for i,n in enumerate(named):
        if args[i] is REQ:
          if n in ov: eargs[i] = ov[n]
          else: missing.append(n)
        else: sup_pos.add(n)
      for n,v in kwargs.items():
        if v is REQ:
          if n in ov: ekw[n] = ov[n]
          else: missing.append(n)
        else: ekw[n] = v
      for n,v in ov.items():
        if n not in named and n not in kwargs: ekw[n] = v
      for n,d in itertools.chain(sig['posd'].items(), sig['kwd'].items()):
        if d is REQ and n not in named and n not in kwargs and n not in ov: missing.append(n)
      if missing:
        order = sig['pos'] + sig['kwo']
        ordered = [n for n in order if n in missing] + [n for n in missing if n not in order]
        exp = ('RuntimeError', ordered)
      else:
        try: exp = ('ok', orig(*eargs, **ekw)); CALLS.pop()
        except TypeError: exp = ('TypeError',)
      # operative expectation (recorded even if missing)
      defaults = {n:d for n,d in itertools.chain(sig['posd'].items(), sig['kwd'].items()) if d is not REQ}
      opv = dict(defaults); opv.update({k:v for k,v in ov.items() if k not in sup_pos})
      for n in sup_pos: opv.pop(n, None)
      for n,v in kwargs.items():
        if v is not REQ: opv.pop(n, None)
      expop.setdefault(('/'.join(scope), sel), {}).update(opv)
    # ---- impl
    ncalls = len(CALLS)
    try:
      with gin.config_scope(scope if scope else None): got = ('ok', wrapped(*args, **kwargs))
    except RuntimeError as e:
      import ast, re
      m = re.search(r'not provided in config: (\[.*\])', str(e)); got = ('RuntimeError', ast.literal_eval(m.group(1))) if m else ('RuntimeError?', str(e))
    except ValueError as e: got = ('ValueError',)
    except TypeError as e: got = ('TypeError',)
    ran = len(CALLS) > ncalls
    calllog.append((scope, list(args), dict(kwargs), got))
    stats[exp[0]] += 1
    if got != exp or (exp[0] in ('RuntimeError','ValueError') and ran):
      found['call'] += 1
      if found['call'] < 6: print('CALL DIFF', sig, 'cfg', cfg, 'scope', scope, 'args', ['REQ' if a is REQ else a for a in args], {k:('REQ' if v is REQ else v) for k,v in kwargs.items()}, '\n   got', got, '\n   exp', exp)
    if exp[0]=='ok' and any(v is REQ for v in list(exp[1].values()) if not isinstance(v,(list,dict))): stats['REQ leaked in spec?!'] += 1
  realop = {k: dict(v) for k,v in config._OPERATIVE_CONFIG.items()}
  if realop != expop:
    found['operative'] += 1
    if found['operative'] < 4: print('OP DIFF', sig, cfg, '\n  real', realop, '\n  exp', expop)
  # replay
  op = gin.operative_config_str()
  gin.clear_config()
  try: gin.parse_config(op)
  except Exception as e:
    found['replay-parse'] += 1; print('REPLAY PARSE FAIL', type(e).__name__, e, op); continue
  for scope, args, kwargs, got in calllog:
    try:
      with gin.config_scope(scope if scope else None): g2 = ('ok', wrapped(*args, **kwargs))
    except RuntimeError as e:
      import ast, re
      m = re.search(r'not provided in config: (\[.*\])', str(e)); g2 = ('RuntimeError', ast.literal_eval(m.group(1))) if m else ('RuntimeError?', str(e))
    except ValueError as e: g2 = ('ValueError',)
    except TypeError as e: g2 = ('TypeError',)
    if g2 != got:
      found['replay-args:' + got[0]] += 1
      if got[0] != 'RuntimeError' and found['replay-args:' + got[0]] < 4: print('REPLAY DIFF', sig, cfg, scope, args, kwargs, got, g2, op)
  if gin.operative_config_str() != op:
    found['replay-text'] += 1
    if found['replay-text'] < 3: print('REPLAY TEXT DIFF', op, '-----', gin.operative_config_str())
print(dict(found), dict(stats))
