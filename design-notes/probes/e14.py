import sys
sys.path.insert(0,'/repo')
import gin
from gin import config
@gin.configurable
def f(a=1, b=2, c=3): return (a,b,c)
@gin.configurable(module='m')
def g(x=1, y=2): return (x,y)
def cfg(): return repr(sorted((k, sorted(v.items(), key=repr)) for k,v in config._CONFIG.items()))
def run(t):
  gin.clear_config()
  try: gin.parse_config(t); return ('ok', cfg(), sorted(s.format() for s in config._IMPORTS))
  except Exception as e: return ('err', type(e).__name__, str(e).split('\n')[0][:60], cfg())
print('--- block syntactic failure')
print(run("f.a=1\nf:\n  b = 2\n  c = [1\n"))
print(run("f.a=1\nf:\n  b = 2\n  c = \n"))
print(run("f.a=1\nf:\n  b = 2\n  c = 3 4\n"))
print('--- layouts')
base = run("s/f.a = 1\ns/f.b = [1, 2]\nm.g.x = 'v'\nimport os\nfrom os import path as p\nmm = 4\n")
print(base)
variants = {
 'block': "s/f:\n  a = 1\n  b = [1, 2]\nm.g.x = 'v'\nimport os\nfrom os import path as p\nmm = 4\n",
 'block comment hdr': "s/f:  # c\n  # c2\n\n  a = 1\n\n  # c3\n  b = [1, 2]  # c4\n# c5\nm.g.x = 'v'\nimport os\nfrom os import path as p\nmm = 4",
 'no trailing nl': "s/f.a = 1\ns/f.b = [1, 2]\nm.g.x = 'v'\nimport os\nfrom os import path as p\nmm = 4",
 'continuations': "s/f.a = \\\n 1\ns/f.b = \\\n  [1,\n\n # c\n 2]\nm.g.x \\\n = \\\n 'v'\nimport \\\n os\nfrom os import path \\\n as p\nmm=4\n",
 'indented toplevel': "  s/f.a = 1\n  s/f.b = [1, 2]\nm.g.x = 'v'\n    import os\nfrom os import path as p\nmm = 4\n",
 'crlf': "s/f.a = 1\r\ns/f.b = [1, 2]\r\nm.g.x = 'v'\r\nimport os\r\nfrom os import path as p\r\nmm = 4\r\n",
 'tabs/spaces': "s/f.a\t=\t1\ns/f.b=[1,2]\nm.g.x   =   'v'  \nimport   os\nfrom  os  import  path  as  p\nmm = 4\n",
 'block then flat': "s/f:\n  a = 1\n  b = [1, 2]\nm.g.x = 'v'\nimport os\nfrom os import path as p\nmm = 4\n",
 'block at EOF no nl': "m.g.x = 'v'\nimport os\nfrom os import path as p\nmm = 4\ns/f:\n  a = 1\n  b = [1, 2]",
 'block deeper indent members': "s/f:\n      a = 1\n      b = [1, 2]\nm.g.x = 'v'\nimport os\nfrom os import path as p\nmm = 4\n",
 'semicolon': "s/f.a = 1; s/f.b = [1, 2]\nm.g.x = 'v'\nimport os\nfrom os import path as p\nmm = 4\n",
 'formfeed': "\x0cs/f.a = 1\ns/f.b = [1, 2]\nm.g.x = 'v'\nimport os\nfrom os import path as p\nmm = 4\n",
 'block w/ continuation': "s/f: \\\n\n  a = 1\n  b = [1, 2]\nm.g.x = 'v'\nimport os\nfrom os import path as p\nmm = 4\n",
 'nested block indent in block': "s/f:\n  a = 1\n    b = [1, 2]\nm.g.x = 'v'\nimport os\nfrom os import path as p\nmm = 4\n",
 'block member after dedent-partial': "s/f:\n    a = 1\n  b = [1, 2]\nm.g.x = 'v'\n",
}
for k,v in variants.items():
  r = run(v); print(f'{k:34s}', 'SAME' if r == base else r)
print('--- bad selectors')
for t in ["s /f.a = 1", "s/ f.a = 1", "s/f .a = 1", "s/f. a = 1", "s//f.a = 1", "/f.a = 1", "s/f..a = 1", "s/f.a. = 1", ".f.a = 1", "s.t/f.a = 1", "f.a = @s /f", "f.a = @s.t/f", "f.a = %a b", "f.a = @ f", "s/\\\nf.a = 1", "s\\\n/f.a = 1", "f.a = @s/\\\n  f", "1s/f.a = 1", "é/f.a = 1", "f = 1", "s/f = 1", "f.a.b = 1", "import a/b", "from os import path.x", "import os as a.b", "include 5", "include 'a' 'b'", "include b'x'", "f.a = 1 include 'x'"]:
  print(repr(t), run(t)[:3])
