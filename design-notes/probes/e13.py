import sys
sys.path.insert(0,'/repo')
import gin
from gin import config
@gin.configurable
def f(a=1, b=2, c=3): return (a,b,c)
def cfg(): return repr(sorted((k, sorted(v.items(), key=repr)) for k,v in config._CONFIG.items()))
for bad in ["f.a = 1\n'abc\n", "f.a = 1\n$ = 3\n", "f.a = 1\n    f.b = 2\n  f.c = 3\n", "f.a = 1\nf.b = 2\n\t  \x0c bad indent\n", "f.a = 1\nf.b = 2 $\n", "f.a = 1\n?\n", "f.a = 1\n\n\n# c\n   'abc\n", "f.a = 1\nf.b = 0777\n", "f.a=1\nf:\n  b = 2\n 'x\n", "f.a=1\nf:\n  b = 2\n c = 3\n"]:
  gin.clear_config()
  try: gin.parse_config(bad); print('OK', repr(bad), cfg())
  except Exception as e:
    print(repr(bad)[:45], '->', type(e).__name__, getattr(e,'lineno',None), '|', str(e).replace('\n',' // ')[:90], '| applied', cfg())
import tokenize, io
for t in tokenize.generate_tokens(io.StringIO("f.a = 1\n$ = 3\n").readline): print(tokenize.tok_name[t.type], repr(t.string), t.start, t.end)
