import sys, random, collections
sys.path.insert(0,'/repo')
import gin
from gin import config
seed = int(sys.argv[1]) if len(sys.argv)>1 else 0
rng = random.Random(seed)
found = collections.Counter(); stats = collections.Counter()
@gin.configurable
def alpha(a=1, b=2, c=3): return (a,b,c)
@gin.configurable(module='pk.m')
def gam(x=1, y=2): return (x,y)
def canon():
  def cv(v):
    if isinstance(v, config._UnknownConfigurableReference): return ('UNK', v.selector, v.evaluate)
    if isinstance(v, (list,tuple)): return [cv(x) for x in v]
    if isinstance(v, dict): return sorted((repr(k), cv(x)) for k,x in v.items())
    return repr(v)
  return sorted((k, sorted((p, cv(v)) for p,v in ps.items())) for k,ps in config._CONFIG.items())
KNOWN = ['alpha', 'gam', 'm.gam', 'pk.m.gam']; UNK = ['unk1', 'unk2', 'x.unk3', 'alphabet']
def value(allow_unkref):
  k = rng.randint(0,6)
  if k == 0 and allow_unkref: return '@' + rng.choice(UNK) + rng.choice(['', '()']), True
  if k == 1 and allow_unkref: return '[1, {2: (@s/%s(), 3)}]' % rng.choice(UNK), True
  if k == 2: return '@' + rng.choice(KNOWN) + rng.choice(['', '()']), False
  if k == 3: return '%mm', False
  return rng.choice(['1', "'s'", '[1, 2]', 'None']), False
for it in range(1500):
  lines = []   # (text_lines, target, kind, has_unknown_ref)
  for _ in range(rng.randint(1,8)):
    k = rng.randint(0,9); sc = rng.choice(['', 's/', 's/t/'])
    if k <= 3:
      t = rng.choice(KNOWN); v, u = value(True)
      lines.append(([f"{sc}{t}.{rng.choice(['a','b','c']) if t=='alpha' else rng.choice(['x','y'])} = {v}"], t, 'bind', u))
    elif k <= 6:
      t = rng.choice(UNK); v, u = value(False)
      lines.append(([f"{sc}{t}.p = {v}"], t, 'bind', False))
    elif k == 7:
      t = rng.choice(UNK + ['alpha']); 
      lines.append(([f"{sc}{t}:", "  a = 1", "  b = 's'"], t, 'block', False))
    elif k == 8:
      lines.append((["import no_such_mod_%d" % rng.randint(0,3)], None, 'import-missing', False))
    else:
      v,u = value(True); lines.append(([f"mm = {v}"], None, 'macro', u))
  text = '\n'.join(l for ls,_,_,_ in lines for l in ls) + '\n'
  form = rng.choice(['True', 'list', 'tuple', 'set', 'partial'])
  all_unknown_names = set(UNK) | {'unk3'}
  if form == 'True': su = True; listed = None
  else:
    names = set(UNK) if form != 'partial' else set(rng.sample(UNK, 2))
    refnames = set(UNK) if rng.random() < 0.7 else set()
    listed = names | refnames   # names the user lists (targets and references)
    su = {'list': list, 'tuple': tuple, 'set': set, 'partial': list}[form](listed)
  def skippable(t): return t in UNK and (listed is None or t in listed)
  # reduced text: delete bindings/blocks whose target is unknown (and listed) and missing imports
  reduced = []
  expect_error = False
  for ls, t, kind, u in lines:
    if kind in ('bind','block') and t in UNK:
      if skippable(t): continue
      expect_error = True
    if kind == 'import-missing':
      continue    # any truthy skip_unknown skips missing imports
    reduced += ls
  # unknown refs in applied statements: must be listed (or True) else error
  gin.clear_config()
  try: gin.parse_config(text, skip_unknown=su); got = ('ok', canon())
  except Exception as e: got = ('err', type(e).__name__)
  gin.clear_config()
  try: gin.parse_config('\n'.join(reduced) + '\n', skip_unknown=su); exp = ('ok', canon())
  except Exception as e: exp = ('err', type(e).__name__)
  stats[(form, got[0], exp[0])] += 1
  if got != exp:
    found[(got[0], exp[0], form)] += 1
    if sum(found.values()) < 6: print('DIFF', form, su, '\n' + text, '--- reduced\n' + '\n'.join(reduced), '\n got', got, '\n exp', exp)
print(dict(found)); print(dict(stats))
