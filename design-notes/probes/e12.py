import sys, os, pickle, inspect, collections, abc
sys.path.insert(0,'/repo')
import gin
from gin import config

def reg_names(): return sorted(config._REGISTRY._selector_map)

class Plain:
  "doc Plain"
  def __init__(self, a=1): self.a = a
class WithNew:
  def __new__(cls, a=1):
    o = super().__new__(cls); o.a = a; return o
class Both:
  def __new__(cls, a=1, b=2): return super().__new__(cls)
  def __init__(self, a=1, b=2): self.a=a; self.b=b
class Neither: pass
class Meta(type):
  def __call__(cls, *a, **k):
    o = super().__call__(*a, **k); o.meta_called = True; return o
class WithMeta(metaclass=Meta):
  def __init__(self, a=1): self.a = a
class Slots:
  __slots__ = ('a',)
  def __init__(self, a=1): self.a = a
NT = collections.namedtuple('NT', ['a','b'])
class Abstract(abc.ABC):
  def __init__(self, a=1): self.a = a
  @abc.abstractmethod
  def m(self): pass
class Concrete(Abstract):
  def m(self): return 1
shapes = [Plain, WithNew, Both, Neither, WithMeta, Slots, NT, Concrete]
for cls in shapes:
  name = cls.__name__
  before = (cls.__dict__.get('__init__'), cls.__dict__.get('__new__'))
  ext = gin.external_configurable(cls, name='ext_'+name)
  gin.register(cls, 'reg_'+name) if False else gin.register('reg_'+name)(cls)
  after = (cls.__dict__.get('__init__'), cls.__dict__.get('__new__'))
  if 'a' in inspect.signature(cls).parameters or cls is NT:
    gin.bind_parameter('ext_%s.a' % name, 42); gin.bind_parameter('reg_%s.a' % name, 43)
    if cls is NT: gin.bind_parameter('ext_NT.b', 0); gin.bind_parameter('reg_NT.b', 0)
  try:
    direct = cls() if cls is not NT else cls(1,2)
    via_ext = ext()
    via_reg = gin.get_configurable(cls)()    # by original object -> whichever registered last
    via_sel = gin.get_configurable('reg_'+name)()
    with gin.config_scope('sc'): via_scoped = gin.get_configurable('sc2/reg_'+name)()
    def pk(o):
      try: return type(pickle.loads(pickle.dumps(o))) is cls
      except Exception as e: return type(e).__name__
    print(name, 'unchanged', before == after, '| direct a', getattr(direct,'a',None), '| ext', getattr(via_ext,'a',None), type(via_ext) is cls, '| reg', getattr(via_sel,'a',None), type(via_sel) is cls, '| scoped', type(via_scoped) is cls, '| subclass', issubclass(ext, cls), ext.__name__, ext.__module__, ext.__doc__ == cls.__doc__, '| pickle', pk(direct), pk(via_ext), pk(via_scoped))
  except Exception as e:
    print(name, 'ERR', type(e).__name__, str(e)[:200])
gin.clear_config()
print('--- rejects')
n0 = reg_names()
def bad(title, fn):
  try: fn(); print(title, 'ACCEPTED', set(reg_names()) - set(n0))
  except Exception as e: print(title, type(e).__name__, '| registry unchanged', reg_names() == n0)
def fnx(a=1, b=2): return (a,b)
def fny(a=1): return a
bad('invalid name', lambda: gin.register('1bad')(fnx))
bad('invalid name2', lambda: gin.register('a..b')(fnx))
bad('invalid module', lambda: gin.register('ok', module='1.x')(fnx))
bad('both lists', lambda: gin.register('ok', allowlist=['a'], denylist=['b'])(fnx))
bad('unknown allow', lambda: gin.register('ok', allowlist=['zz'])(fnx))
bad('unknown deny', lambda: gin.register('ok', denylist=['zz'])(fnx))
bad('allow not list', lambda: gin.register('ok', allowlist='a')(fnx))
gin.register('dup')(fnx); n0 = reg_names()
bad('dup different', lambda: gin.register('dup')(fny))
bad('dup same obj', lambda: gin.register('dup')(fnx))
with gin.config.interactive_mode():
  bad('dup different interactive', lambda: gin.register('dup')(fny))
print('interactive off after block:', config._INTERACTIVE_MODE)
bad('dup different after', lambda: gin.register('dup')(fnx))
print('--- functions transparency')
def ff(a, b=2, *args, k=3, **kw):
  "ff doc"
  return (a,b,args,k,kw)
r = gin.register('ffreg')(ff); print(r is ff)
c = gin.configurable('ffconf')(ff); print(c.__name__, c.__doc__, inspect.signature(c) == inspect.signature(ff))
gin.bind_parameter('ffreg.b', 99); gin.bind_parameter('ffconf.b', 98)
print(ff(1), c(1), gin.get_configurable('ffreg')(1), gin.get_configurable(ff)(1))
e = gin.external_configurable(sum, 'mysum'); print(e([1,2]), sum([1,2]))
e2 = gin.external_configurable(object.__init__, 'oi')
class CallObj:
  def __call__(self, a=1): return a
co = CallObj()
try: e3 = gin.external_configurable(co, 'callobj'); gin.bind_parameter('callobj.a', 5); print('callobj', e3(), co())
except Exception as ex: print('callobj ERR', type(ex).__name__, ex)
