import sys
sys.path.insert(0,'/repo')
from gin import selector_map
sm = selector_map.SelectorMap()
sm['a.b.c'] = 1
print('single:', sm.minimal_selector('a.b.c'), sm.matching_selectors('c'))
sm['x.y'] = 2
print('two:', sm.minimal_selector('a.b.c'), sm.minimal_selector('x.y'))
sm2 = selector_map.SelectorMap()
sm2['a.b.c']=1; sm2['z.b.c']=2
print('branch deep:', sm2.minimal_selector('a.b.c'), sm2.minimal_selector('z.b.c'))
sm3 = selector_map.SelectorMap()
sm3['b.c']=1; sm3['a.b.c']=2
print('suffix:', sm3.minimal_selector('b.c'), sm3.minimal_selector('a.b.c'), sm3.matching_selectors('c'), sm3.matching_selectors('b.c'))
sm3['q.c']=3
print('suffix+branch:', sm3.minimal_selector('b.c'), sm3.minimal_selector('a.b.c'), sm3.minimal_selector('q.c'))
# copy sharing
sm4 = selector_map.SelectorMap(); sm4['a.b']=1
c = sm4.copy(); c['x.b']=2
print('copy share: orig matching b ->', sm4.matching_selectors('b'), 'orig len', len(sm4))
c2 = sm4.copy(); c2.pop('a.b') if 'a.b' in c2 else None
print('after pop on copy: orig matching b ->', sm4.matching_selectors('b'), 'a.b' in sm4)
# pop pruning
sm5 = selector_map.SelectorMap(); sm5['a.b.c']=1; sm5['b.c']=2
sm5.pop('a.b.c'); print('pop1', sm5._selector_tree, sm5.minimal_selector('b.c'))
sm5['a.b.c']=1; sm5.pop('b.c'); print('pop2', sm5._selector_tree, sm5.matching_selectors('b.c'), sm5.matching_selectors('c'))
# invalid selectors in matching
print(sm5.matching_selectors(''), sm5.matching_selectors('.c'), sm5.matching_selectors('$'))
sm6 = selector_map.SelectorMap(); sm6['a']=1
print(sm6.matching_selectors('$.a') , sm6._selector_tree)
