import sys, threading
sys.path.insert(0,'/repo')
import gin
from gin import config
built = []
@gin.configurable
def mk(): 
  o = object(); built.append(o); return o
@gin.configurable
def user(s=None): return s
gin.parse_config("user.s = @shared/gin.singleton()\ngin.singleton.constructor = @mk\n")

class Sched:
  """Deterministic baton scheduler: a thread proceeds past a yield point only when it holds the baton."""
  def __init__(self, order): self.order = list(order); self.cv = threading.Condition(); self.pos = 0; self.log = []; self.done=set()
  def point(self, what):
    me = threading.current_thread().name
    if not me.startswith('T'): return
    with self.cv:
      self.log.append((me, what))
      # wait until it's my turn
      while self.pos < len(self.order) and self.order[self.pos] != me and self.order[self.pos] not in self.done:
        self.cv.wait(0.01)
        if self.pos < len(self.order) and self.order[self.pos] in self.done: self.pos += 1
      if self.pos < len(self.order) and self.order[self.pos] == me: self.pos += 1
      self.cv.notify_all()
  def finish(self):
    with self.cv: self.done.add(threading.current_thread().name); self.cv.notify_all()
class TracingDict(dict):
  def __contains__(self, k): SCH.point(('contains', k)); return dict.__contains__(self, k)
  def __setitem__(self, k, v): SCH.point(('setitem', k)); dict.__setitem__(self, k, v)
  def __getitem__(self, k): SCH.point(('getitem', k)); return dict.__getitem__(self, k)
config._SINGLETONS = TracingDict()
res = {}
def worker():
  try: res[threading.current_thread().name] = user()
  finally: SCH.finish()
# schedule: T1 does 'contains' (False), then T2 runs completely, then T1 continues -> both construct
SCH = Sched(['T1', 'T2', 'T2', 'T2', 'T1', 'T1'])
ts = [threading.Thread(target=worker, name=n) for n in ('T1','T2')]
for t in ts: t.start()
for t in ts: t.join(10)
print('events:', SCH.log)
print('constructed', len(built), 'same object delivered:', res['T1'] is res['T2'])
