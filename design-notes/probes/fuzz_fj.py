import sys, random, collections, itertools
sys.path.insert(0,'/repo')
import gin
from gin import config
seed = int(sys.argv[1]) if len(sys.argv)>1 else 0
rng = random.Random(seed)
found = collections.Counter(); stats = collections.Counter()
@gin.configurable
def alpha(a=1, b=2): return (a,b)
@gin.configurable(module='pk.m', denylist=['d'])
def gam(x=1, d=2): return (x,d)
BASE_HOOKS = list(config._FINALIZE_HOOKS)
cnt = itertools.count(100)
class Boom(Exception): pass
def real_cfg(): return {k: dict(v) for k,v in config._CONFIG.items() if v}
class Ref:
  def __init__(self): self.locked=False; self.cfg={}; self.hooks=[]; self.regs=set()
  def bind(self, key, v):
    if self.locked: return 'RuntimeError'
    sc, sel, arg = key
    full = {'alpha':'__main__.alpha','gam':'pk.m.gam','m.gam':'pk.m.gam','pk.m.gam':'pk.m.gam'}.get(sel) or ('__main__.'+sel if sel in self.regs else None)
    if full is None: return 'ValueError'
    ok = {'__main__.alpha': {'a','b'}, 'pk.m.gam': {'x'}}.get(full, {'p'})
    if arg not in ok: return 'ValueError'
    self.cfg.setdefault((sc, full), {})[arg] = v; return 'ok'
def run_ops(ops, ref, depth=0):
  """returns 'raised' if an exception escaped"""
  for op in ops:
    kind = op[0]
    if kind == 'bind':
      _, key, v, how = op
      exp = ref.bind(key, v)
      try:
        if how == 'tuple': gin.bind_parameter(key, v)
        elif how == 'str': gin.bind_parameter((key[0] + '/' if key[0] else '') + key[1] + '.' + key[2], v)
        else: gin.parse_config('%s%s.%s = %r' % (key[0] + '/' if key[0] else '', key[1], key[2], v))
        got = 'ok'
      except (RuntimeError, ValueError) as e: got = type(e).__name__
      if got != exp: found['bind:%s/%s' % (exp, got)] += 1
    elif kind == 'finalize':
      # expected
      if ref.locked: exp = 'RuntimeError'
      else:
        newb = {}; exp = 'ok'
        for h in ref.hooks:
          if h[0] == 'raise': exp = 'Boom'; break
          for key, v in h[1]:
            nk = (key[0], {'alpha':'__main__.alpha','gam':'pk.m.gam','m.gam':'pk.m.gam','pk.m.gam':'pk.m.gam'}[key[1]], key[2])
            if nk in newb: exp = 'ValueError'; break
            newb[nk] = v
          if exp != 'ok': break
        if exp == 'ok':
          for (sc, full, arg), v in newb.items(): ref.cfg.setdefault((sc, full), {})[arg] = v
          ref.locked = True
      try: gin.finalize(); got = 'ok'
      except (RuntimeError, ValueError, Boom) as e: got = type(e).__name__
      if got != exp:
        found['finalize:%s/%s' % (exp, got)] += 1
        if got == 'ok' and exp == 'ValueError':   # known D4: resync reference with reality
          ref.locked = True; ref.cfg = real_cfg()
    elif kind == 'hook':
      spec = op[1]; ref.hooks.append(spec)
      if spec[0] == 'raise':
        def hk(cfgd): raise Boom()
      else:
        def hk(cfgd, items=spec[1]): return { ((k[0] + '/' if k[0] else '') + k[1] + '.' + k[2]): v for k,v in items }
      config.register_finalize_hook(hk)
    elif kind == 'clear':
      ref.locked = False; ref.cfg = {}
      gin.clear_config()
    elif kind == 'register':
      name = 'dyn%d' % next(cnt)
      exp = 'RuntimeError' if ref.locked else 'ok'
      def f(p=1): return p
      f.__name__ = name
      try: gin.configurable(f); got = 'ok'; 
      except RuntimeError: got = 'RuntimeError'
      if got == 'ok' and exp == 'ok': ref.regs.add(name)
      if got != exp: found['register:%s/%s' % (exp, got)] += 1
    elif kind == 'unlock':
      _, body, raises = op
      was = ref.locked; ref.locked = False
      outcome = None
      try:
        with gin.unlock_config():
          r = run_ops(body, ref, depth+1)
          if raises: raise Boom()
      except Boom: outcome = 'raised'
      ref.locked = was
      if gin.config_is_locked() != ref.locked:
        found['unlock-restore' + (':body-raised' if raises else ':NORMAL')] += 1
        gin.config._set_config_is_locked(ref.locked)   # resync (known D3)
    elif kind == 'scope_finalize':
      # finalize inside a scope (D18 only matters with macros; here just checks lock)
      pass
    # compare state after every op
    if gin.config_is_locked() != ref.locked: found['locked-mismatch:' + kind] += 1; gin.config._set_config_is_locked(ref.locked)
    if real_cfg() != ref.cfg:
      found['cfg-mismatch:' + kind] += 1
      if found['cfg-mismatch:' + kind] < 3: print('CFG', kind, op, real_cfg(), ref.cfg)
      ref.cfg = real_cfg()
def gen_ops(d=0):
  ops = []
  for _ in range(rng.randint(1, 8 if d == 0 else 3)):
    k = rng.randint(0, 11)
    if k <= 4:
      sel, arg = rng.choice([('alpha','a'),('alpha','b'),('gam','x'),('m.gam','x'),('pk.m.gam','x'),('gam','d'),('alpha','zz'),('nope','a')])
      ops.append(('bind', (rng.choice(['', 's', 's/t']), sel, arg), next(cnt), rng.choice(['tuple','str','text'])))
    elif k == 5: ops.append(('finalize',))
    elif k == 6 and d < 2: ops.append(('unlock', gen_ops(d+1), rng.random() < 0.3))
    elif k == 7: ops.append(('clear',))
    elif k == 8: ops.append(('register',))
    elif k == 9 and d == 0:
      if rng.random() < 0.15: ops.append(('hook', ('raise',)))
      else:
        items = [((rng.choice(['', 's']), rng.choice(['alpha']), rng.choice('ab')), next(cnt)) for _ in range(rng.randint(0,2))]
        if rng.random() < 0.4: items.append((('', rng.choice(['gam','m.gam','pk.m.gam']), 'x'), next(cnt)))
        # dedupe within one hook
        seen = {}; 
        for k_, v_ in items: seen[((k_[0] + '/' if k_[0] else '') + k_[1] + '.' + k_[2])] = (k_, v_)
        ops.append(('hook', ('ret', list(seen.values()))))
    else: ops.append(('finalize',)) if rng.random() < 0.3 else None
  return [o for o in ops if o]
for it in range(1500):
  config._FINALIZE_HOOKS[:] = BASE_HOOKS
  gin.clear_config()
  ref = Ref()
  ops = gen_ops()
  try: run_ops(ops, ref)
  except Exception as e:
    found['harness-exc:' + type(e).__name__] += 1
    if found['harness-exc:' + type(e).__name__] < 3:
      import traceback; traceback.print_exc(); print(ops)
  stats['ops'] += len(ops)
config._FINALIZE_HOOKS[:] = BASE_HOOKS
print(dict(found)); print(dict(stats))
