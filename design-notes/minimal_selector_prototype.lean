inductive Tree where
  | node (term : Option String) (kids : List (String × Tree))
deriving Repr

namespace Tree
def empty : Tree := .node none []
def term : Tree → Option String | .node t _ => t
def kids : Tree → List (String × Tree) | .node _ k => k

def chain : List String → String → Tree
  | [], s => .node (some s) []
  | c :: p, s => .node none [(c, chain p s)]

mutual
  def insert : Tree → List String → String → Tree
    | .node _ ks, [], s => .node (some s) ks
    | .node t ks, c :: p, s => .node t (insertL ks c p s)
  def insertL : List (String × Tree) → String → List String → String → List (String × Tree)
    | [], c, p, s => [(c, chain p s)]
    | (c', t) :: rest, c, p, s =>
        if c' = c then (c', insert t p s) :: rest else (c', t) :: insertL rest c p s
end

mutual
  def find : Tree → List String → Option String
    | .node t _, [] => t
    | .node _ ks, c :: p => findL ks c p
  def findL : List (String × Tree) → String → List String → Option String
    | [], _, _ => none
    | (c', t) :: rest, c, p => if c' = c then find t p else findL rest c p
end

theorem find_chain (p : List String) (s : String) (q : List String) :
    find (chain p s) q = if q = p then some s else none := by
  induction p generalizing q with
  | nil => cases q <;> simp [chain, find, findL]
  | cons c p ih =>
    cases q with
    | nil => simp [chain, find]
    | cons d q =>
      simp only [chain, find, findL]
      by_cases h : c = d
      · subst h; simp [ih]
      · simp [h]; intro h'; exact absurd h'.symm h

mutual
  theorem find_insert (t : Tree) (p : List String) (s : String) (q : List String) :
      find (insert t p s) q = if q = p then some s else find t q := by
    match t, p, q with
    | .node _ ks, [], [] => simp [insert, find]
    | .node _ ks, [], d :: q => simp [insert, find]
    | .node t ks, c :: p, [] => simp [insert, find]
    | .node t ks, c :: p, d :: q =>
      simp only [insert, find]
      rw [findL_insertL ks c p s d q]
      simp
  theorem findL_insertL (ks : List (String × Tree)) (c : String) (p : List String) (s : String)
      (d : String) (q : List String) :
      findL (insertL ks c p s) d q = if d = c ∧ q = p then some s else findL ks d q := by
    match ks with
    | [] =>
      simp only [insertL, findL]
      by_cases h : c = d
      · subst h; simp [find_chain]
      · have : ¬ d = c := fun h' => h h'.symm
        simp [h, this]
    | (c', t) :: rest =>
      simp only [insertL]
      by_cases h : c' = c
      · subst h
        simp only [if_true, findL]
        by_cases h2 : c' = d
        · subst h2; simp [find_insert t p s q]
        · have : ¬ d = c' := fun h' => h2 h'.symm
          simp [h2, this]
      · simp only [h, if_false, findL]
        by_cases h2 : c' = d
        · subst h2
          have : ¬ c' = c := h
          simp [this]
        · simp [h2, findL_insertL rest c p s d q]
end
namespace Tree

/-- python `len(node)`: the '$' entry counts -/
def len : Tree → Nat | .node t ks => ks.length + (if t.isSome then 1 else 0)

/-- child lookup -/
def child : List (String × Tree) → String → Option Tree
  | [], _ => none
  | (c', t) :: rest, c => if c' = c then some t else child rest c

/-- subtree reached by a (reversed) path -/
def get : Tree → List String → Option Tree
  | t, [] => some t
  | .node _ ks, c :: p => match child ks c with
      | none => none
      | some t' => get t' p

mutual
  /-- all terminals below a node (DFS; order irrelevant) -/
  def terms : Tree → List String
    | .node t ks => (match t with | some s => [s] | none => []) ++ termsL ks
  def termsL : List (String × Tree) → List String
    | [] => []
    | (_, t) :: rest => terms t ++ termsL rest
end

/-- `minimal_selector` loop (repaired: index 0 never starts a run).
    Walks nodes n₀ … n_{k-1}; `i` = number of components consumed so far;
    `start` = Some i₀ if the current run of `len = 1` nodes began at index i₀. -/
def minLoop : Tree → List String → Nat → Option Nat → Option (Tree × Option Nat)
  | t, [], _, start => some (t, start)
  | t, c :: p, i, start =>
      let start' := if i ≠ 0 ∧ len t = 1 then (match start with | some s => some s | none => some i) else none
      match t with
      | .node _ ks => match child ks c with
          | none => none
          | some t' => minLoop t' p (i+1) start'

/-- components are given innermost-first (reversed); result = number of trailing components to keep -/
def minimalLen (t : Tree) (rpath : List String) : Option Nat :=
  match minLoop t rpath 0 none with
  | none => none
  | some (last, start) =>
      if len last > 1 then some rpath.length
      else match start with
        | some i => some i
        | none => some rpath.length

def ofList (l : List (List String)) : Tree :=
  l.foldl (fun t p => insert t p.reverse (".".intercalate p)) empty


/-! ### factoring the loop through the list of `len`s along the path -/

/-- nodes n₀ … n_k on a path (k = path length); none if the path leaves the tree -/
def nodesOn : Tree → List String → Option (List Tree)
  | t, [] => some [t]
  | .node tm ks, c :: p => match child ks c with
      | none => none
      | some t' => match nodesOn t' p with
          | none => none
          | some ns => some (.node tm ks :: ns)

/-- the run bookkeeping as a pure function of the lens seen so far -/
def stepStart (i : Nat) (l : Nat) (start : Option Nat) : Option Nat :=
  if i ≠ 0 ∧ l = 1 then (match start with | some s => some s | none => some i) else none

def foldRun : List Nat → Nat → Option Nat → Option Nat
  | [], _, start => start
  | l :: ls, i, start => foldRun ls (i+1) (stepStart i l start)

theorem minLoop_eq (t : Tree) (p : List String) (i : Nat) (start : Option Nat) :
    minLoop t p i start =
      match nodesOn t p with
      | none => none
      | some ns => some (ns.getLast?.getD t, foldRun ((ns.dropLast).map len) i start) := by
  induction p generalizing t i start with
  | nil => simp [minLoop, nodesOn, foldRun]
  | cons c p ih =>
    cases t with
    | node tm ks =>
      simp only [minLoop, nodesOn]
      cases hc : child ks c with
      | none => simp
      | some t' =>
        simp only [ih]
        cases hn : nodesOn t' p with
        | none => simp
        | some ns =>
          have hne : ns ≠ [] := by
            cases p with
            | nil => simp [nodesOn] at hn; subst hn; simp
            | cons d q =>
              cases t' with
              | node tm' ks' =>
                simp only [nodesOn] at hn
                split at hn
                · simp at hn
                · split at hn
                  · simp at hn
                  · simp at hn; subst hn; simp
          cases ns with
          | nil => exact absurd rfl hne
          | cons n ns' =>
            simp [foldRun, stepStart, List.dropLast, List.getLast?_cons_cons]
            rfl

/-- number of trailing 1s -/
def onesSuffix : List Nat → Nat
  | [] => 0
  | l :: ls => if ls.all (· = 1) ∧ l = 1 then ls.length + 1 else onesSuffix ls

/-- the bookkeeping state after having seen `pre` (indices 0 … pre.length-1) -/
def st (pre : List Nat) : Option Nat :=
  let m := min (onesSuffix pre) (pre.length - 1)
  if m > 0 then some (pre.length - m) else none

theorem all_one_append (a b : List Nat) : (a ++ b).all (· = 1) = (a.all (· = 1) && b.all (· = 1)) := by
  simp [List.all_append]

theorem onesSuffix_le (l : List Nat) : onesSuffix l ≤ l.length := by
  induction l with
  | nil => simp [onesSuffix]
  | cons a l ih => simp only [onesSuffix]; split <;> simp <;> omega

theorem onesSuffix_snoc (pre : List Nat) (l : Nat) :
    onesSuffix (pre ++ [l]) = if l = 1 then onesSuffix pre + 1 else 0 := by
  induction pre with
  | nil => by_cases h : l = 1 <;> simp [onesSuffix, h]
  | cons a pre ih =>
    simp only [List.cons_append, onesSuffix, ih]
    by_cases h : l = 1
    · subst h
      by_cases h2 : (pre.all (· = 1)) = true ∧ a = 1
      · have h3 : ((pre ++ [1]).all (· = 1)) = true ∧ a = 1 := by
          refine ⟨?_, h2.2⟩; rw [List.all_append, h2.1]; rfl
        rw [if_pos h3, if_pos h2]
        try simp
      · have h3 : ¬ (((pre ++ [1]).all (· = 1)) = true ∧ a = 1) := by
          intro ⟨h4, h5⟩; apply h2; refine ⟨?_, h5⟩
          rw [List.all_append] at h4; simp only [Bool.and_eq_true] at h4; exact h4.1
        rw [if_neg h3, if_neg h2]
        try simp
    · have h3 : ¬ (((pre ++ [l]).all (· = 1)) = true ∧ a = 1) := by
        intro ⟨h4, _⟩
        rw [List.all_append] at h4; simp only [Bool.and_eq_true] at h4
        have := h4.2; simp at this; exact h this
      rw [if_neg h3]; simp [h]

theorem st_snoc (pre : List Nat) (l : Nat) :
    st (pre ++ [l]) = stepStart pre.length l (st pre) := by
  have hle := onesSuffix_le pre
  simp only [st, stepStart, onesSuffix_snoc, List.length_append, List.length_cons, List.length_nil]
  by_cases h : l = 1
  · subst h
    by_cases h0 : pre.length = 0
    · simp [h0]
    · simp only [if_true, Nat.add_sub_cancel]
      have hpos : min (onesSuffix pre + 1) pre.length > 0 := by omega
      by_cases hm : min (onesSuffix pre) (pre.length - 1) > 0
      · simp only [hpos, hm, if_true, h0, ne_eq, not_false_eq_true, and_self]
        congr 1; omega
      · simp only [hpos, hm, if_true, if_false, h0, ne_eq, not_false_eq_true, and_self]
        congr 1; omega
  · simp [h]

theorem foldRun_st (ls pre : List Nat) : foldRun ls pre.length (st pre) = st (pre ++ ls) := by
  induction ls generalizing pre with
  | nil => simp [foldRun]
  | cons l ls ih =>
    have := ih (pre ++ [l])
    simp only [List.length_append, List.length_cons, List.length_nil, List.append_assoc, List.cons_append, List.nil_append] at this
    simp only [foldRun, ← st_snoc, this]

/-- the run bookkeeping of `minimal_selector`, in closed form -/
theorem foldRun_closed (ls : List Nat) : foldRun ls 0 none = st ls := by
  have := foldRun_st ls []
  simpa [st, onesSuffix] using this

end Tree
#print axioms Tree.foldRun_closed
#print axioms Tree.minLoop_eq
