"""Executes a `gin`-domain case (a history of API operations) on the real gin from /repo."""
import contextlib
import os
import re
import sys

import core
from encode import Opaque, ProbeResult, decode, encode, to_literal


class Entry:
  def __init__(self, oid, original, returned, api, kind, selector):
    self.oid, self.original, self.returned = oid, original, returned
    self.api, self.kind, self.selector = api, kind, selector


class HookError(Exception):
  pass


class Marker(Exception):
  pass


class BaseMarker(BaseException):
  """Leaves a block the way KeyboardInterrupt / SystemExit / GeneratorExit do."""


class Session:
  """One gin process state (fresh import) plus the probe objects registered in it."""

  def __init__(self):
    self.gin = core.fresh_gin()
    self.cfg = self.gin.config
    self.entries = {}
    self.counts = {}
    self.last = None
    self.ran = 0
    self.log = []
    self.identifying = False
    self.ident_scope = None
    self.mutate = False
    self.default_ids = set()   # identities of the probes' own default objects (never mutated)

  # ---------------------------------------------------------------- probes
  def identify(self, fn):
    """Scope under which a delivered configurable runs: [] = the caller's scope (unscoped)."""
    gin = self.gin
    was = self.identifying
    self.identifying, self.ident_scope = True, None
    try:
      with gin.config_scope(['zz_ctx']):
        fn()
    except Exception:  # pylint: disable=broad-except
      pass
    finally:
      self.identifying = was
    seen = self.ident_scope
    if seen is None:
      return None
    return [] if seen == ['zz_ctx'] else seen

  def _mutate(self, v):
    if id(v) in self.default_ids:
      return
    if isinstance(v, list):
      for x in v:
        self._mutate(x)
      v.append('MUTATED')
    elif isinstance(v, dict):
      for x in list(v.values()):
        self._mutate(x)
      v['MUTATED'] = 1
    elif isinstance(v, tuple):
      for x in v:
        self._mutate(x)
    elif isinstance(v, set):
      v.add('MUTATED')
    elif isinstance(v, bytearray):
      v.extend(b'MUTATED')

  def _rec(self, oid, sel, params, extra, kw):
    if self.identifying:
      # the identified function's own body runs last (after its references were evaluated)
      self.ident_scope = list(self.gin.current_scope())
      return ProbeResult(sel, -1)
    self.ran += 1
    n = self.counts.get(oid, 0)
    self.counts[oid] = n + 1
    scope = list(self.gin.current_scope())
    rec = {
        'params': [[k, encode(v, self.gin, self)] for k, v in params],
        'extra': [encode(v, self.gin, self) for v in extra],
        'kw': [[k, encode(kw[k], self.gin, self)] for k in sorted(kw)],
        'scope': scope,
    }
    self.last = rec
    self.log.append((sel, rec))
    if self.mutate:
      for _, v in params:
        self._mutate(v)
      for v in list(kw.values()):
        self._mutate(v)
    return ProbeResult(sel, n)

  def make_probe(self, op):
    if op.get('innerSig'):
      # an ordinary functools.wraps decorator around a function with signature `innerSig`: the callable gin
      # registers has the signature (*args, **kw) and a __wrapped__ attribute; what it is called with is recorded
      import functools
      inner = self.make_probe({k: v for k, v in dict(op, sig=op['innerSig']).items() if k != 'innerSig'})
      oid, sel, rec = op['obj'], op.get('_selector'), self._rec

      @functools.wraps(inner)
      def wrapper(*args, **kw):
        return rec(oid, sel, [], args, kw)
      return wrapper
    sig, kind = op['sig'], op.get('_kind', 'fn')
    leaf = op.get('_pyname') or op['name'].split('.')[-1]
    oid = op['obj']
    g = {'__name__': op.get('_pymodule', 'probes'), '_rec': self._rec, '_oid': oid,
         '_sel': op.get('_selector', leaf)}
    params, names = [], []
    pos = list(sig['pos'])
    for i, (n, d) in enumerate(pos):
      if d is None:
        params.append(n)
      else:
        g['_d_' + n] = decode(d['v'], self.gin)
        self.default_ids.add(id(g['_d_' + n]))
        params.append(f'{n}=_d_{n}')
      if not (kind != 'fn' and i == 0):
        names.append(n)
      if i + 1 == sig.get('posonly', 0):
        params.append('/')
    if sig['varargs']:
      params.append('*args')
    elif sig['kwonly']:
      params.append('*')
    for n, d in sig['kwonly']:
      if d is None:
        params.append(n)
      else:
        g['_d_' + n] = decode(d['v'], self.gin)
        self.default_ids.add(id(g['_d_' + n]))
        params.append(f'{n}=_d_{n}')
      names.append(n)
    if sig['varkw']:
      params.append('**kw')
    recnames = [f'({n!r}, {n})' for n in names]
    if kind != 'fn':
      g['_selfm'] = Opaque.get(5000 + oid)   # the instance/class itself is reported as a fixed marker
      recnames.insert(0, f'({pos[0][0]!r}, _selfm)')
    rec = ('_rec(_oid, _sel, [' + ', '.join(recnames) + '], '
           + ('args' if sig['varargs'] else '()') + ', ' + ('kw' if sig['varkw'] else '{}') + ')')
    plist = ', '.join(params)
    if kind == 'fn':
      src = f'def {leaf}({plist}):\n  """doc of {leaf}"""\n  return {rec}\n'
    elif kind == 'init':
      base, bsrc = '', ''
      if op.get('_mixin'):   # the other constructor, taking anything, defined further up the MRO: the nearest one counts
        base, bsrc = f'({leaf}Mixin)', f'class {leaf}Mixin:\n  def __new__(cls, *a, **k):\n    return object.__new__(cls)\n'
      src = (bsrc + f'class {leaf}{base}:\n  """doc of {leaf}"""\n  def __init__({plist}):\n    {rec}\n')
    elif kind == 'new':
      base, bsrc = '', ''
      if op.get('_mixin'):
        base, bsrc = f'({leaf}Mixin)', f'class {leaf}Mixin:\n  def __init__(self, *a, **k):\n    pass\n'
      src = (bsrc + f'class {leaf}{base}:\n  """doc of {leaf}"""\n  def __new__({plist}):\n    {rec}\n'
             f'    return object.__new__({pos[0][0]})\n')
    else:
      raise AssertionError(kind)
    exec(compile(src, f'<probe {leaf}>', 'exec'), g)  # pylint: disable=exec-used
    obj = g[leaf]
    obj.__probe_sel__ = op.get('_selector', leaf)
    if op.get('_decorated') and kind == 'fn':
      import functools

      def deco(f):
        @functools.wraps(f)
        def inner(*a, **k):
          return f(*a, **k)
        return inner
      for _ in range(int(op['_decorated'])):   # one or more ordinary pass-through decorators under gin
        obj = deco(obj)
    return obj

  # ---------------------------------------------------------------- operations
  def op_register(self, op):
    gin = self.gin
    obj = self.entries[op['_reuse']].original if op.get('_reuse') is not None else self.make_probe(op)
    api = op.get('_api', 'configurable')
    kw = {}
    if op.get('_explicit_module') is not None:
      kw['module'] = op['_explicit_module']
    if op.get('_allow_arg', op['allow']):
      kw['allowlist'] = op.get('_allow_arg', op['allow'])
    if op.get('_deny_arg', op['deny']):
      kw['denylist'] = op.get('_deny_arg', op['deny'])
    if op.get('_deny_iter'):
      kw['denylist'] = iter(list(op['deny']))
    name = op.get('_name_arg')
    direct = bool(op.get('_direct')) and name is None   # `gin.register(fn, denylist=[...])`: the callable comes first
    if api == 'configurable':
      if direct:
        returned = gin.configurable(obj, **kw)
      else:
        returned = gin.configurable(name, **kw)(obj) if (name is not None or kw) else gin.configurable(obj)
    elif api == 'register':
      if direct:
        returned = gin.register(obj, **kw)
      else:
        returned = gin.register(name, **kw)(obj) if (name is not None or kw) else gin.register(obj)
    elif api == 'external':
      returned = gin.external_configurable(obj, name=name, **kw)
    else:
      raise AssertionError(api)
    self.entries[op['obj']] = Entry(op['obj'], obj, returned, api, op.get('_kind', 'fn'),
                                    op.get('_selector'))
    return None

  def scope_arg(self, a):
    k = a['k']
    if k == 'name':
      return a['v']
    if k == 'list':
      return list(a['v'])
    if k == 'clear':
      return a.get('v')  # None or ''
    return a.get('v', 42)

  def op_call(self, op):
    gin = self.gin
    ent = self.entries[op['_target']]
    args = [decode(a, gin) for a in op['args']]
    if ent.kind != 'fn':
      args = args[1:]  # the model's first positional argument is self/cls
    kwargs = {k: decode(v, gin) for k, v in op['kwargs']}
    self.last = None
    ran0 = self.ran
    nlog = len(self.log)
    if op.get('_mutate'):
      self.mutate = True   # the probe alters (after recording) every mutable argument it received
    try:
      return self._op_call_inner(op, ent, args, kwargs, ran0)
    finally:
      if op.get('_mutate'):
        self.mutate = False
      del self.log[nlog:]   # the call log belongs to `ecall` (Layer 2); plain calls are observed directly

  def _op_call_inner(self, op, ent, args, kwargs, ran0):
    gin = self.gin
    with contextlib.ExitStack() as stack:
      if op.get('_precreate'):
        # the context managers are made first, all of them outside any scope, and entered afterwards: a scope is
        # resolved when it is entered
        cms = [gin.config_scope(self.scope_arg(a)) for a in op['enter']]
        for cm in cms:
          stack.enter_context(cm)
      else:
        for a in op['enter']:
          stack.enter_context(gin.config_scope(self.scope_arg(a)))
      if '_bad_enter' in op:
        try:
          with gin.config_scope(op['_bad_enter']):
            pass
        except ValueError:
          pass
      if '_left_by' in op:
        # a scope block entered and left again (through an exception that may not be an Exception subclass)
        # before the call: the active scope is what it was
        class _Leave(BaseException if op['_left_by'][1] else Exception):
          pass
        try:
          with gin.config_scope(op['_left_by'][0]):
            with gin.config_scope('inner_x'):
              raise _Leave()
        except _Leave:
          pass
      if ent.api == 'register' or op.get('_via') == 'get_configurable':
        fn = gin.get_configurable(ent.original)
      elif op.get('_via') == 'selector':
        fn = gin.get_configurable(op['_via_selector'])
      else:
        fn = ent.returned
      try:
        fn(*args, **kwargs)
      except Exception as e:  # pylint: disable=broad-except
        out = {'err': core.err_class(e), 'ran': self.ran != ran0}
        m = re.search(r'not provided in config: (\[.*?\])', str(e))
        if core.err_class(e) == 'RuntimeError' and m:
          out['missing'] = re.findall(r"'([^']*)'", m.group(1))
          m2 = re.search(r'Required bindings for `([^`]*)`', str(e))
          out['named'] = m2.group(1) if m2 else None
        return out
    rec = self.last
    if rec is None:
      return {'err': 'NoRecord', 'ran': False}
    return {'ok': rec}

  def op_ecall(self, op):
    gin = self.gin
    ent = self.entries[op['_target']]
    args = [decode(a, gin) for a in op['args']]
    if ent.kind != 'fn':
      args = args[1:]
    kwargs = {k: decode(v, gin) for k, v in op['kwargs']}
    self.mutate = bool(op.get('_mutate'))
    try:
      with contextlib.ExitStack() as stack:
        for a in op['enter']:
          stack.enter_context(gin.config_scope(self.scope_arg(a)))
        fn = gin.get_configurable(ent.original) if ent.api == 'register' else ent.returned
        r = fn(*args, **kwargs)
      if ent.kind != 'fn':
        return {'res': [ent.selector, self.counts.get(ent.oid, 1) - 1]}
      return encode(r, gin, self)
    finally:
      self.mutate = False

  def log_json(self):
    by = {}
    for sel, rec in self.log:
      by.setdefault(sel, []).append([rec['scope'], rec['params'], rec['extra'], rec['kw']])
    return sorted([k, v] for k, v in by.items())

  def op_bind(self, op):
    if op.get('_parse_enter'):
      # the binding is made while some config scope is active: that must not matter
      with contextlib.ExitStack() as stack:
        for a in op['_parse_enter']:
          stack.enter_context(self.gin.config_scope(self.scope_arg(a)))
        return self.op_bind(dict(op, _parse_enter=None))
    gin = self.gin
    form = op.get('_form', 'tuple')
    scope, sel, arg = op['scope'], op['sel'], op['arg']
    if form == 'macro_text':
      kw = {'skip_unknown': op['_skip']} if op.get('_skip') else {}
      gin.parse_config(scope + ' = ' + to_literal(op['val']), **kw)
      return None
    if form == 'macro_key':
      gin.bind_parameter('%' + scope, decode(op['val'], gin))
      return None
    if form in ('tuple', 'list'):
      key = (scope, sel, arg) if form == 'tuple' else [scope, sel, arg]
      gin.bind_parameter(key, decode(op['val'], gin))
    elif form == 'str':
      gin.bind_parameter((scope + '/' if scope else '') + sel + '.' + arg, decode(op['val'], gin))
    elif form == 'text':
      # `_skip`: the same parse with skip_unknown switched on; everything named is known, so nothing changes
      kw = {'skip_unknown': op['_skip']} if op.get('_skip') else {}
      gin.parse_config((scope + '/' if scope else '') + sel + '.' + arg + ' = ' + to_literal(op['val']), **kw)
    elif form == 'block':
      kw = {'skip_unknown': op['_skip']} if op.get('_skip') else {}
      gin.parse_config((scope + '/' if scope else '') + sel + ':\n  ' + arg + ' = ' + to_literal(op['val']) + '\n', **kw)
    else:
      raise AssertionError(form)
    return None

  def op_query(self, op):
    scope, sel, arg = op['scope'], op['sel'], op['arg']
    return encode(self.gin.query_parameter((scope + '/' if scope else '') + sel + '.' + arg), self.gin)

  def op_getb(self, op):
    gin = self.gin
    spelled = op.get('_spelling', op['sel'])
    key = '/'.join(list(op['scope']) + [spelled])
    with contextlib.ExitStack() as stack:
      if op.get('_ambient') is not None:
        stack.enter_context(gin.config_scope(list(op['_ambient'])))
      d = gin.get_bindings(key, resolve_references=False, inherit_scopes=op['inherit'])
    return [[k, encode(d[k], gin)] for k in sorted(d)]

  def parse_config_text(self, text):
    """Structure of a config_str()/operative_config_str() text: sections and literal bindings."""
    import ast
    names = [k for k, _ in self.cfg._REGISTRY.items()]  # pylint: disable=protected-access

    def complete(scoped):
      scope, _, sel = scoped.rpartition('/')
      sc = sel.split('.')
      m = [n for n in names if n == sel] or [n for n in names if n.split('.')[-len(sc):] == sc]
      return scope + '|' + (m[0] if len(m) == 1 else '?' + sel)
    rows = {}
    lines = text.split('\n')
    i = 0
    while i < len(lines):
      line = lines[i]
      m = re.match(r'^# Parameters for (.*):$', line)
      if m:
        rows.setdefault(complete(m.group(1)), {})
      elif line and not line.startswith('#') and ' = ' in line + ' ' and not line.startswith(' '):
        key, _, rest = line.partition(' = ')
        if line.endswith(' = \\'):
          key = line[:-4]
          vals = []
          i += 1
          while i < len(lines) and lines[i].startswith(' '):
            vals.append(lines[i])
            i += 1
          i -= 1
          rest = '\n'.join(vals)
        if '.' in key.rpartition('/')[2] and not key.startswith(('import ', 'from ')):
          scoped, _, arg = key.rpartition('.')
          try:
            val = encode(ast.literal_eval(rest.strip()), self.gin)
          except Exception:  # pylint: disable=broad-except
            val = {'text': rest.strip()}
          rows.setdefault(complete(scoped), {})[arg] = val
        else:
          rows.setdefault('macro|' + key, {})['value'] = {'text': rest.strip()}
      i += 1
    return sorted([k, sorted([a, v] for a, v in d.items())] for k, d in rows.items())

  def prov_of_text(self, text):
    """[[scope|complete.param, 'file:line'], ..] from the '# Set in' comments of a config string."""
    names = [k for k, _ in self.cfg._REGISTRY.items()]  # pylint: disable=protected-access

    def complete(scoped):
      scope, _, sel = scoped.rpartition('/')
      sc = sel.split('.')
      m = [n for n in names if n == sel] or [n for n in names if n.split('.')[-len(sc):] == sc]
      return scope + '|' + (m[0] if len(m) == 1 else '?' + sel)
    rows, pending = [], None
    for line in text.split('\n'):
      m = re.match(r'^# Set in (.*):$', line)
      if m:
        pending = m.group(1)
        tmp = (getattr(self, '_tmp', None) or '\0') + os.sep
        if pending.startswith(tmp):
          pending = pending[len(tmp):]
        continue
      if pending and line and not line.startswith(('#', ' ')) and ' = ' in line + ' ':
        key = line.split(' = ')[0].rstrip(' \\').rstrip()
        if '.' in key.rpartition('/')[2]:
          scoped, _, arg = key.rpartition('.')
          rows.append([complete(scoped) + '.' + arg, pending])
        else:
          rows.append([key + '|gin.macro.value', pending])
      if line and not line.startswith('#'):
        pending = None
    return sorted(rows)

  def store_json(self, store):
    rows = []
    for (scope, sel), params in store.items():
      rows.append([scope + '|' + sel, [[k, encode(params[k], self.gin)] for k in sorted(params)]])
    return sorted(rows, key=lambda r: r[0])

  def op_enter(self, op):
    gin = self.gin
    with gin.config_scope(list(op['cur'])):
      with gin.config_scope(self.scope_arg(op['arg'])) as s:
        inside = list(gin.current_scope())
        if list(s) != inside:
          return {'mismatch': [list(s), inside]}
    return inside

  def key_for(self, ks):
    scope, sel, arg = ks['scope'], ks['sel'], ks['arg']
    form = ks.get('_form', 'str')
    if form == 'tuple':
      return (scope, sel, arg)
    return (scope + '/' if scope else '') + sel + '.' + arg

  def op_hook(self, op):
    gin = self.gin

    def hook(config):
      del config
      if op['raises']:
        raise HookError('hook raises')
      if op['ret'] is None:
        return None
      ret = {self.key_for(ks): decode(v, gin) for ks, v in op['ret']}
      if op.get('_mapping') == 'proxy':     # any mapping will do as a hook's result
        import types
        return types.MappingProxyType(ret)
      if op.get('_mapping') == 'chain':
        import collections
        return collections.ChainMap(ret)
      return ret

    gin.config.register_finalize_hook(hook)

  def op_unlock(self, op):
    outs = []
    try:
      with self.gin.unlock_config():
        for b in op['body']:
          outs.append(self.run_op(b))
        if op['raises']:
          raise (BaseMarker() if op.get('_base') else Marker())
    except (Marker, BaseMarker):
      pass
    return {'body': outs}

  def op_register_class_with_methods(self, op, phase=None):
    """A class whose method(s) were registered with @gin.register inside the class body.

    phase 'body': only the class statement runs (its methods get registered as free-standing functions);
    phase 'class': the class made earlier is registered; None: both at once."""
    gin = self.gin
    leaf = op['name']
    if phase == 'class':
      cls = self.pending_classes[op['obj']]   # kept: a refused registration may be tried again later
      returned = gin.external_configurable(cls) if op['_api'] == 'external' else gin.register(cls)
      self.entries[op['obj']] = Entry(op['obj'], cls, returned, op['_api'], 'init', op['_selector'])
      return
    g = {'__name__': op['_pymodule'], 'gin': gin, '_rec': self._rec}
    msrc = ''
    for m in op['_method_ops']:
      own = m['sig']['pos'] if m.get('_static') else m['sig']['pos'][1:]
      params = ', '.join(([] if m.get('_static') else ['self']) +
                         [n if d is None else f'{n}=_d_{m["name"]}_{n}' for n, d in own])
      for n, d in own:
        if d is not None:
          g[f'_d_{m["name"]}_{n}'] = decode(d['v'], gin)
      names = [n for n, _ in own]
      rec = '_rec(%d, %r, [%s], (), {})' % (m['obj'], m['_selector'], ', '.join(f'({n!r}, {n})' for n in names))
      lists = ''
      if m.get('allow'):
        lists = f'(allowlist={list(m["allow"])!r})'
      elif m.get('deny'):
        lists = f'(denylist={list(m["deny"])!r})'
      static = '  @staticmethod\n' if m.get('_static') else ''
      msrc += f'{static}  @gin.register{lists}\n  def {m["name"]}({params}):\n    return {rec}\n'
    if op.get('_inherited'):
      # the registered method lives in an unregistered base class (mixin)
      src = (f'class {leaf}Base:\n  """base"""\n{msrc}\n'
             f'class {leaf}({leaf}Base):\n  """doc"""\n  def __init__(self):\n    pass\n')
    else:
      src = f'class {leaf}:\n  """doc"""\n  def __init__(self):\n    pass\n{msrc}'
    exec(compile(src, f'<probe {leaf}>', 'exec'), g)  # pylint: disable=exec-used
    cls = g[leaf]
    for m in op['_method_ops']:
      self.entries[m['obj']] = Entry(m['obj'], getattr(cls, m['name']), None, 'method', 'fn', m['_selector'])
    if phase == 'body':
      if not hasattr(self, 'pending_classes'):
        self.pending_classes = {}
      self.pending_classes[op['obj']] = cls
      return
    returned = gin.external_configurable(cls) if op['_api'] == 'external' else gin.register(cls)
    self.entries[op['obj']] = Entry(op['obj'], cls, returned, op['_api'], 'init', op['_selector'])

  # ---------------------------------------------------------------- parsing of config texts
  def tmpdir(self, add_path=True):
    if getattr(self, '_tmp', None) is None:
      import tempfile
      base = os.environ.get('VERIF_RUN_DIR') or tempfile.gettempdir()
      self._tmp = tempfile.mkdtemp(prefix='ginverif-', dir=base)
      if add_path:
        self.gin.config.add_config_file_search_path(self._tmp)
    return self._tmp

  def cleanup(self):
    for name in getattr(self, '_regmod_names', ()):
      sys.modules.pop(name, None)
    self._regmod_names = set()
    for sp in getattr(self, '_added_paths', []):
      if sp in sys.path:
        sys.path.remove(sp)
    self._added_paths = []
    if getattr(self, '_tmp', None):
      import shutil
      shutil.rmtree(self._tmp, ignore_errors=True)
      self._tmp = None

  def write_files(self, files):
    for name, text in (files or {}).items():
      path = os.path.join(self.tmpdir(), name)
      os.makedirs(os.path.dirname(path), exist_ok=True)
      with open(path, 'w') as f:
        f.write(text)

  def skip_arg(self, sk):
    if sk['k'] == 'no':
      return False
    if sk['k'] == 'all':
      return True
    t = sk.get('_type', 'list')
    return {'list': list, 'tuple': tuple, 'set': set}[t](sk['v'])

  def tree_json(self, node):
    return [node.filename, list(node.imports), [self.tree_json(n) for n in node.includes]]

  def parse_failure(self, e):
    cls = core.err_class(e)
    if isinstance(e, SyntaxError) or cls in ('TokenError',):
      return {'err': 'SyntaxError', 'chain': [], 'lineno': getattr(e, 'lineno', None)}
    if isinstance(e, ImportError):
      cls = 'ImportError'
    if isinstance(e, OSError):
      cls = 'OSError'
    if getattr(type(e), '_ginverif_base', None):
      cls = type(e)._ginverif_base   # pylint: disable=protected-access
    chain = []
    tmp = (getattr(self, '_tmp', None) or '\0') + os.sep
    for m in re.finditer(r'In (?:file "([^"]*)",|bindings string) line (\d+)', str(e)):
      fn = m.group(1)
      if fn is not None and fn.startswith(tmp):
        fn = fn[len(tmp):]
      chain.append([fn, int(m.group(2))])
    return {'err': cls, 'chain': chain, 'msg': str(e)[:300]}

  def write_regmods(self, regmods):
    """Modules (on the Python path) whose body registers configurables: `import <name>` in a config text runs it."""
    if not regmods:
      return
    import importlib
    import gindom_hook
    gindom_hook.current = self
    self.regmods = dict(getattr(self, 'regmods', {}), **regmods)
    d = self.tmpdir()
    if d not in sys.path:
      sys.path.insert(0, d)
      self._added_paths = getattr(self, '_added_paths', []) + [d]
    for name in regmods:
      with open(os.path.join(d, name + '.py'), 'w') as f:
        f.write('import gindom_hook\ngindom_hook.fire(__name__)\n')
      self._regmod_names = getattr(self, '_regmod_names', set()) | {name}
      sys.modules.pop(name, None)
    importlib.invalidate_caches()

  def op_parse(self, op):
    gin = self.gin
    self.write_files(op.get('_files'))
    self.write_regmods(op.get('_regmods'))
    skip = self.skip_arg(op['skip'])
    kw = {} if (op['skip']['k'] == 'no' and op.get('_default_skip', True)) else {'skip_unknown': skip}
    try:
      if op['file'] is None:
        text = op['_text']
        if op.get('_as_list'):
          text = text.rstrip('\n').split('\n')
        includes, imports = gin.parse_config(text, **kw)
        return {'ok': {'includes': [self.tree_json(n) for n in includes], 'imports': list(imports)}}
      node = gin.parse_config_file(op['file'], **kw)
      return {'ok': {'includes': [self.tree_json(n) for n in node.includes], 'imports': list(node.imports)}}
    except Exception as e:  # pylint: disable=broad-except
      return self.parse_failure(e)

  def op_resolve(self, op):
    """Sets up search locations and readers with the file present at the given (location, reader)
    pairs and reports which copy parse_config_file used."""
    import io
    gin = self.gin
    cfg = self.cfg
    base = self.tmpdir(add_path=False)
    name = op['_name']
    locdirs = {}
    for k, lab in enumerate(op['prefixes']):
      if lab == '':
        locdirs[lab] = ''
        continue
      d = os.path.join(base, lab)
      if lab in op.get('_virtual', []):
        # a search location that is no directory of the file system: only the registered readers know it
        d = 'virt:/' + lab
      else:
        os.makedirs(d, exist_ok=True)
      locdirs[lab] = d
      # a label that occurs a second time is a second registration of the same location
      if d not in cfg._LOCATION_PREFIXES or lab in op['prefixes'][:k]:  # pylint: disable=protected-access
        cfg.add_config_file_search_path(d)
    if op['abs']:
      name = os.path.join(base, 'absdir', name)
      os.makedirs(os.path.dirname(name), exist_ok=True)
    tables = {}
    pkgdir = None
    if op.get('_pkg'):
      # the name is `<package>/<file>`: gin's package-relative reader (registered right after `open`)
      # looks for <file> next to the package's __init__.py on the Python path
      sp = os.path.join(base, 'on_sys_path')
      pkgdir = os.path.join(sp, os.path.dirname(name))
      os.makedirs(pkgdir, exist_ok=True)
      with open(os.path.join(pkgdir, '__init__.py'), 'w') as f:
        f.write('')
      if sp not in sys.path:
        sys.path.insert(0, sp)
        self._added_paths = getattr(self, '_added_paths', []) + [sp]
      import importlib
      importlib.invalidate_caches()
    for r in op['readers'][1:]:
      if r == 'syspath':
        continue
      tables[r] = {}

      def reader(path, _t=tables[r]):
        return contextlib.closing(io.StringIO(_t[path]))

      def readable(path, _t=tables[r]):
        return path in _t
      cfg.register_file_reader(reader, readable)
    for lab, r in op['present']:
      path = name if op['abs'] else os.path.join(locdirs[lab], name)
      content = f"which = '{lab}|{r}'\n"
      if op.get('_bad_include'):
        # every copy fails after its first statement: the copy found first is applied up to there, the
        # IOError of its include propagates, and no later copy may be tried
        content += "include 'no_such_file_zz.gin'\n"
      if r == 'syspath':
        with open(os.path.join(pkgdir, os.path.basename(name)), 'w') as f:
          f.write(content)
      elif r == op['readers'][0]:
        real = os.path.join(base, path)   # '' is the current directory = base while parsing
        os.makedirs(os.path.dirname(real) or '.', exist_ok=True)
        with open(real, 'w') as f:
          f.write(content)
      else:
        tables[r][path] = content
    # a *directory* called like the config file (in a search location, or in a sys.path entry for
    # the package-relative reader) is not a readable file: the search must walk past it
    for lab in op.get('_dirs', []):
      if lab == 'syspath':
        if pkgdir is not None and ['', 'syspath'] not in [list(x) for x in op['present']]:
          os.makedirs(os.path.join(pkgdir, os.path.basename(name)), exist_ok=True)
      elif not op['abs'] and [lab, op['readers'][0]] not in [list(x) for x in op['present']]:
        os.makedirs(os.path.join(base, os.path.join(locdirs[lab], name)), exist_ok=True)
    cwd = os.getcwd()
    os.chdir(base)   # the location '' is the current directory
    try:
      if op.get('_bad_include'):
        try:
          gin.parse_config_file(name)
          return {'err': 'NoErrorAlthoughTheIncludeIsMissing'}
        except IOError as e:
          if 'no_such_file_zz.gin' not in str(e):
            raise
          return {'ok': gin.query_parameter('%which').split('|')}
      gin.parse_config_file(name)
      return {'ok': gin.query_parameter('%which').split('|')}
    except Exception as e:  # pylint: disable=broad-except
      out = self.parse_failure(e)
      m = re.search(r'Searched config paths: (\[.*\])', str(e))
      if m:
        import ast
        searched = ast.literal_eval(m.group(1))
        rev = {v: k for k, v in locdirs.items()}
        out['chain'] = [[rev.get(x, x), 0] for x in searched]
      return out
    finally:
      os.chdir(cwd)

  def op_parsefiles(self, op):
    gin = self.gin
    self.write_files(op.get('_files'))
    self.write_regmods(op.get('_regmods'))
    skip = self.skip_arg(op['skip'])
    kw = {}
    if op['skip']['k'] != 'no':
      kw['skip_unknown'] = skip
    if not op['finalize']:
      kw['finalize_config'] = False
    try:
      nodes = gin.parse_config_files_and_bindings([f[0] for f in op['files']], op['_binding_lines'], **kw)
      return {'ok': {'includes': [self.tree_json(n) for n in nodes], 'imports': []}}
    except Exception as e:  # pylint: disable=broad-except
      return self.parse_failure(e)

  def run_op(self, op):
    name = op['op']
    try:
      if name == 'register':
        if op.get('_split_class') is not None:
          # the class statement runs here (registering this method as a function of its own), the class itself is
          # registered by its own operation later on
          r = self.op_register_class_with_methods(op['_split_class'], phase='body')
        elif op.get('_skip_impl'):
          return {'ok': None}
        elif op.get('_method_ops') and op.get('_split'):
          r = self.op_register_class_with_methods(op, phase='class')
        else:
          r = self.op_register_class_with_methods(op) if op.get('_method_ops') else self.op_register(op)
      elif name == 'hook':
        r = self.op_hook(op)
      elif name == 'finalize':
        with contextlib.ExitStack() as stack:
          for a in op.get('_enter', []):
            stack.enter_context(self.gin.config_scope(self.scope_arg(a)))
          r = self.gin.finalize()
      elif name == 'unlock':
        r = self.op_unlock(op)
      elif name == 'clear':
        r = self.gin.clear_config(clear_constants=op['constants'])
      elif name == 'constant':
        r = self.gin.constant(op['name'], decode(op['val'], self.gin))
      elif name == 'interactive':
        r = self.gin.enter_interactive_mode() if op['on'] else self.gin.exit_interactive_mode()
      elif name == 'singleton':
        def ctor():
          self.ctor_runs = getattr(self, 'ctor_runs', 0) + 1
          return Opaque.get(7000 + self.ctor_runs - 1)
        if op.get('_via_cfg') and op['ctor']:
          # through the configurable `gin.singleton` reached under the scope name (what `@key/gin.singleton()` does)
          r = encode(self.gin.get_configurable(op['key'] + '/gin.singleton')(ctor), self.gin)
        else:
          r = encode(self.cfg.singleton_value(op['key'], ctor if op['ctor'] else None), self.gin)
      elif name == 'macrolookup':
        r = encode(self.cfg.ParserDelegate().macro(op['name']), self.gin)
        if isinstance(r, dict) and 'const' in r:
          # the same (possibly abbreviated) spelling through query_parameter: the very same constant
          try:
            q = self.gin.query_parameter(op['name'])
          except Exception as e:  # pylint: disable=broad-except
            return {'err': 'query_parameter raised ' + type(e).__name__}
          if q is not self.cfg._CONSTANTS[r['const']]:  # pylint: disable=protected-access
            return {'err': 'query_parameter returned another object'}
      elif name == 'parse':
        return self.op_parse(op)
      elif name == 'parsefiles':
        return self.op_parsefiles(op)
      elif name == 'resolve':
        return self.op_resolve(op)
      elif name == 'imports':
        r = sorted({st.module for st in self.cfg._IMPORTS})  # pylint: disable=protected-access
      elif name == 'curscope':
        r = list(self.gin.current_scope())
      elif name == 'locked':
        r = bool(self.gin.config_is_locked())
      elif name == 'registry':
        r = sorted(k for k, _ in self.cfg._REGISTRY.items())  # pylint: disable=protected-access
      elif name == 'constants':
        r = sorted(k for k, _ in self.cfg._CONSTANTS.items())  # pylint: disable=protected-access
      elif name == 'call':
        return self.op_call(op)
      elif name == 'ecall':
        r = self.op_ecall(op)
      elif name == 'log':
        r = self.log_json()
      elif name == 'bind':
        r = self.op_bind(op)
      elif name == 'query':
        r = self.op_query(op)
      elif name == 'getb':
        r = self.op_getb(op)
      elif name == 'getbq':
        r = self.op_getb(dict(op, sel=op['q'], _spelling=op['q']))
        if op.get('_also_get_configurable'):
          # the same spelling through get_configurable must be judged the same way (raises here if not)
          self.gin.get_configurable('/'.join(list(op['scope']) + [op['q']]))
      elif name == 'operative':
        # a constant lookup (`%pkg.NAME`) is a call of gin.constant under the constant's name: it leaves an empty
        # record that no text shows and that the mirror does not keep
        r = [row for row in self.store_json(self.cfg._OPERATIVE_CONFIG)  # pylint: disable=protected-access
             if not (row[0].endswith('|gin.constant') and not row[1])]
      elif name == 'config':
        r = self.store_json(self.cfg._CONFIG)  # pylint: disable=protected-access
      elif name == 'prov':
        r = self.prov_of_text(self.gin.config_str(show_provenance=True))
      elif name == 'opprov':
        r = self.prov_of_text(self.gin.operative_config_str(show_provenance=True))
      elif name == 'opstr':
        r = self.parse_config_text(self.gin.operative_config_str())
      elif name == 'enter':
        r = self.op_enter(op)
      else:
        raise AssertionError(name)
      return {'ok': r}
    except core.Infra:
      raise
    except AssertionError:
      raise
    except Exception as e:  # pylint: disable=broad-except
      return {'err': core.err_class(e)}


def run_impl(case):
  Opaque._all.clear()  # pylint: disable=protected-access
  s = Session()
  try:
    return {'out': [s.run_op(op) for op in case['ops']]}
  finally:
    s.cleanup()


def _strip_private(x):
  if isinstance(x, dict):
    return {k: _strip_private(v) for k, v in x.items() if not k.startswith('_')}
  if isinstance(x, list):
    return [_strip_private(v) for v in x]
  return x


def with_locations(op):
  """Text forms of a binding carry the location gin records: ('bindings string', line)."""
  if op.get('op') == 'register' and 'cls' not in op:
    op = dict(op, cls=op.get('_kind', 'fn') != 'fn')
  if op.get('op') == 'bind' and 'loc' not in op:
    form = op.get('_form', 'tuple')
    line = {'text': 1, 'macro_text': 1, 'block': 2}.get(form)
    if line:
      op = dict(op, loc={'file': None, 'line': line})
  if op.get('op') == 'unlock':
    op = dict(op, body=[with_locations(b) for b in op['body']])
  return op


def to_driver(case, impl):
  return {'dom': 'gin', 'ops': [_strip_private(with_locations(op)) for op in case['ops']]}


def strip(o):
  """Drops the harness-only fields of an implementation observation before comparing."""
  if isinstance(o, dict) and 'err' in o:
    return {k: v for k, v in o.items() if k in ('err', 'missing', 'chain')}
  if isinstance(o, dict) and isinstance(o.get('ok'), dict) and 'body' in o['ok']:
    return {'ok': {'body': [strip(b) for b in o['ok']['body']]}}
  return o


def _sort_dicts(x):
  """dict values in one canonical item order on both sides (a dict has no order; the model keeps the order written)"""
  from encode import canon
  if isinstance(x, dict):
    if 'd' in x and isinstance(x['d'], list):
      return dict(x, d=sorted(([_sort_dicts(k), _sort_dicts(v)] for k, v in x['d']), key=lambda kv: canon(kv[0])))
    return {k: _sort_dicts(v) for k, v in x.items()}
  if isinstance(x, list):
    return [_sort_dicts(v) for v in x]
  return x


def compare(case, impl, model):
  a, b = impl['out'], model.get('out')
  if b is None:
    return f'driver error: {model}'
  for k, (x, y) in enumerate(zip(a, b)):
    if not core.same(_sort_dicts(strip(x)), _sort_dicts(y)):
      op = {kk: vv for kk, vv in case['ops'][k].items() if kk not in ('sig', '_method_ops')}
      return f'op {k} {op}: impl {strip(x)} model {y}'
  return None
