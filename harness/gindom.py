"""Executes a `gin`-domain case (a history of API operations) on the real gin from /repo."""
import contextlib
import re

import core
from encode import Opaque, ProbeResult, decode, encode, to_literal


class Entry:
  def __init__(self, oid, original, returned, api, kind, selector):
    self.oid, self.original, self.returned = oid, original, returned
    self.api, self.kind, self.selector = api, kind, selector


class HookError(Exception):
  pass


class Marker(Exception):
  pass


class Session:
  """One gin process state (fresh import) plus the probe objects registered in it."""

  def __init__(self):
    self.gin = core.fresh_gin()
    self.cfg = self.gin.config
    self.entries = {}
    self.counts = {}
    self.last = None
    self.ran = 0
    self.log = []
    self.identifying = False
    self.ident_scope = None
    self.mutate = False
    self.default_ids = set()   # identities of the probes' own default objects (never mutated)

  # ---------------------------------------------------------------- probes
  def identify(self, fn):
    """Scope under which a delivered configurable runs: [] = the caller's scope (unscoped)."""
    gin = self.gin
    was = self.identifying
    self.identifying, self.ident_scope = True, None
    try:
      with gin.config_scope(['zz_ctx']):
        fn()
    except Exception:  # pylint: disable=broad-except
      pass
    finally:
      self.identifying = was
    seen = self.ident_scope
    if seen is None:
      return None
    return [] if seen == ['zz_ctx'] else seen

  def _mutate(self, v):
    if id(v) in self.default_ids:
      return
    if isinstance(v, list):
      for x in v:
        self._mutate(x)
      v.append('MUTATED')
    elif isinstance(v, dict):
      for x in list(v.values()):
        self._mutate(x)
      v['MUTATED'] = 1
    elif isinstance(v, tuple):
      for x in v:
        self._mutate(x)

  def _rec(self, oid, sel, params, extra, kw):
    if self.identifying:
      # the identified function's own body runs last (after its references were evaluated)
      self.ident_scope = list(self.gin.current_scope())
      return ProbeResult(sel, -1)
    self.ran += 1
    n = self.counts.get(oid, 0)
    self.counts[oid] = n + 1
    scope = list(self.gin.current_scope())
    rec = {
        'params': [[k, encode(v, self.gin, self)] for k, v in params],
        'extra': [encode(v, self.gin, self) for v in extra],
        'kw': [[k, encode(kw[k], self.gin, self)] for k in sorted(kw)],
        'scope': scope,
    }
    self.last = rec
    self.log.append((sel, rec))
    if self.mutate:
      for _, v in params:
        self._mutate(v)
      for v in list(kw.values()):
        self._mutate(v)
    return ProbeResult(sel, n)

  def make_probe(self, op):
    sig, kind = op['sig'], op.get('_kind', 'fn')
    leaf = op.get('_pyname') or op['name'].split('.')[-1]
    oid = op['obj']
    g = {'__name__': op.get('_pymodule', 'probes'), '_rec': self._rec, '_oid': oid,
         '_sel': op.get('_selector', leaf)}
    params, names = [], []
    pos = list(sig['pos'])
    for i, (n, d) in enumerate(pos):
      if d is None:
        params.append(n)
      else:
        g['_d_' + n] = decode(d['v'], self.gin)
        self.default_ids.add(id(g['_d_' + n]))
        params.append(f'{n}=_d_{n}')
      if not (kind != 'fn' and i == 0):
        names.append(n)
    if sig['varargs']:
      params.append('*args')
    elif sig['kwonly']:
      params.append('*')
    for n, d in sig['kwonly']:
      if d is None:
        params.append(n)
      else:
        g['_d_' + n] = decode(d['v'], self.gin)
        self.default_ids.add(id(g['_d_' + n]))
        params.append(f'{n}=_d_{n}')
      names.append(n)
    if sig['varkw']:
      params.append('**kw')
    rec = ('_rec(_oid, _sel, [' + ', '.join(f'({n!r}, {n})' for n in names) + '], '
           + ('args' if sig['varargs'] else '()') + ', ' + ('kw' if sig['varkw'] else '{}') + ')')
    plist = ', '.join(params)
    if kind == 'fn':
      src = f'def {leaf}({plist}):\n  """doc of {leaf}"""\n  return {rec}\n'
    elif kind == 'init':
      src = (f'class {leaf}:\n  """doc of {leaf}"""\n  def __init__({plist}):\n    {rec}\n')
    elif kind == 'new':
      src = (f'class {leaf}:\n  """doc of {leaf}"""\n  def __new__({plist}):\n    {rec}\n'
             f'    return object.__new__({pos[0][0]})\n')
    else:
      raise AssertionError(kind)
    exec(compile(src, f'<probe {leaf}>', 'exec'), g)  # pylint: disable=exec-used
    obj = g[leaf]
    obj.__probe_sel__ = op.get('_selector', leaf)
    if op.get('_decorated') and kind == 'fn':
      import functools

      def deco(f):
        @functools.wraps(f)
        def inner(*a, **k):
          return f(*a, **k)
        return inner
      obj = deco(obj)   # an ordinary pass-through decorator between gin and the function
    return obj

  # ---------------------------------------------------------------- operations
  def op_register(self, op):
    gin = self.gin
    obj = self.entries[op['_reuse']].original if op.get('_reuse') is not None else self.make_probe(op)
    api = op.get('_api', 'configurable')
    kw = {}
    if op.get('_explicit_module') is not None:
      kw['module'] = op['_explicit_module']
    if op.get('_allow_arg', op['allow']):
      kw['allowlist'] = op.get('_allow_arg', op['allow'])
    if op.get('_deny_arg', op['deny']):
      kw['denylist'] = op.get('_deny_arg', op['deny'])
    name = op.get('_name_arg')
    if api == 'configurable':
      returned = gin.configurable(name, **kw)(obj) if (name is not None or kw) else gin.configurable(obj)
    elif api == 'register':
      returned = gin.register(name, **kw)(obj) if (name is not None or kw) else gin.register(obj)
    elif api == 'external':
      returned = gin.external_configurable(obj, name=name, **kw)
    else:
      raise AssertionError(api)
    self.entries[op['obj']] = Entry(op['obj'], obj, returned, api, op.get('_kind', 'fn'),
                                    op.get('_selector'))
    return None

  def scope_arg(self, a):
    k = a['k']
    if k == 'name':
      return a['v']
    if k == 'list':
      return list(a['v'])
    if k == 'clear':
      return a.get('v')  # None or ''
    return a.get('v', 42)

  def op_call(self, op):
    gin = self.gin
    ent = self.entries[op['_target']]
    args = [decode(a, gin) for a in op['args']]
    if ent.kind != 'fn':
      args = args[1:]  # the model's first positional argument is self/cls
    kwargs = {k: decode(v, gin) for k, v in op['kwargs']}
    self.last = None
    ran0 = self.ran
    nlog = len(self.log)
    try:
      return self._op_call_inner(op, ent, args, kwargs, ran0)
    finally:
      del self.log[nlog:]   # the call log belongs to `ecall` (Layer 2); plain calls are observed directly

  def _op_call_inner(self, op, ent, args, kwargs, ran0):
    gin = self.gin
    with contextlib.ExitStack() as stack:
      for a in op['enter']:
        stack.enter_context(gin.config_scope(self.scope_arg(a)))
      if ent.api == 'register' or op.get('_via') == 'get_configurable':
        fn = gin.get_configurable(ent.original)
      elif op.get('_via') == 'selector':
        fn = gin.get_configurable(op['_via_selector'])
      else:
        fn = ent.returned
      try:
        fn(*args, **kwargs)
      except Exception as e:  # pylint: disable=broad-except
        out = {'err': core.err_class(e), 'ran': self.ran != ran0}
        m = re.search(r'not provided in config: (\[.*?\])', str(e))
        if core.err_class(e) == 'RuntimeError' and m:
          out['missing'] = re.findall(r"'([^']*)'", m.group(1))
          m2 = re.search(r'Required bindings for `([^`]*)`', str(e))
          out['named'] = m2.group(1) if m2 else None
        return out
    rec = self.last
    if rec is None:
      return {'err': 'NoRecord', 'ran': False}
    if ent.kind != 'fn':
      rec['params'].insert(0, [op['_selfname'], op['args'][0]])
    return {'ok': rec}

  def op_ecall(self, op):
    gin = self.gin
    ent = self.entries[op['_target']]
    args = [decode(a, gin) for a in op['args']]
    if ent.kind != 'fn':
      args = args[1:]
    kwargs = {k: decode(v, gin) for k, v in op['kwargs']}
    self.mutate = bool(op.get('_mutate'))
    try:
      with contextlib.ExitStack() as stack:
        for a in op['enter']:
          stack.enter_context(gin.config_scope(self.scope_arg(a)))
        fn = gin.get_configurable(ent.original) if ent.api == 'register' else ent.returned
        r = fn(*args, **kwargs)
      if ent.kind != 'fn':
        for sel_, rec_ in reversed(self.log):
          if sel_ == ent.selector:
            rec_['params'].insert(0, [op['_selfname'], op['args'][0]])
            break
        return {'res': [ent.selector, self.counts.get(ent.oid, 1) - 1]}
      return encode(r, gin, self)
    finally:
      self.mutate = False

  def log_json(self):
    by = {}
    for sel, rec in self.log:
      by.setdefault(sel, []).append([rec['scope'], rec['params'], rec['extra'], rec['kw']])
    return sorted([k, v] for k, v in by.items())

  def op_bind(self, op):
    gin = self.gin
    form = op.get('_form', 'tuple')
    scope, sel, arg = op['scope'], op['sel'], op['arg']
    if form == 'macro_text':
      gin.parse_config(scope + ' = ' + to_literal(op['val']))
      return None
    if form == 'macro_key':
      gin.bind_parameter('%' + scope, decode(op['val'], gin))
      return None
    if form in ('tuple', 'list'):
      key = (scope, sel, arg) if form == 'tuple' else [scope, sel, arg]
      gin.bind_parameter(key, decode(op['val'], gin))
    elif form == 'str':
      gin.bind_parameter((scope + '/' if scope else '') + sel + '.' + arg, decode(op['val'], gin))
    elif form == 'text':
      gin.parse_config((scope + '/' if scope else '') + sel + '.' + arg + ' = ' + to_literal(op['val']))
    elif form == 'block':
      gin.parse_config((scope + '/' if scope else '') + sel + ':\n  ' + arg + ' = ' + to_literal(op['val']) + '\n')
    else:
      raise AssertionError(form)
    return None

  def op_query(self, op):
    scope, sel, arg = op['scope'], op['sel'], op['arg']
    return encode(self.gin.query_parameter((scope + '/' if scope else '') + sel + '.' + arg), self.gin)

  def op_getb(self, op):
    gin = self.gin
    spelled = op.get('_spelling', op['sel'])
    key = '/'.join(list(op['scope']) + [spelled])
    with contextlib.ExitStack() as stack:
      if op.get('_ambient') is not None:
        stack.enter_context(gin.config_scope(list(op['_ambient'])))
      d = gin.get_bindings(key, resolve_references=False, inherit_scopes=op['inherit'])
    return [[k, encode(d[k], gin)] for k in sorted(d)]

  def parse_config_text(self, text):
    """Structure of a config_str()/operative_config_str() text: sections and literal bindings."""
    import ast
    names = [k for k, _ in self.cfg._REGISTRY.items()]  # pylint: disable=protected-access

    def complete(scoped):
      scope, _, sel = scoped.rpartition('/')
      sc = sel.split('.')
      m = [n for n in names if n == sel] or [n for n in names if n.split('.')[-len(sc):] == sc]
      return scope + '|' + (m[0] if len(m) == 1 else '?' + sel)
    rows = {}
    lines = text.split('\n')
    i = 0
    while i < len(lines):
      line = lines[i]
      m = re.match(r'^# Parameters for (.*):$', line)
      if m:
        rows.setdefault(complete(m.group(1)), {})
      elif line and not line.startswith('#') and ' = ' in line + ' ' and not line.startswith(' '):
        key, _, rest = line.partition(' = ')
        if line.endswith(' = \\'):
          key = line[:-4]
          vals = []
          i += 1
          while i < len(lines) and lines[i].startswith(' '):
            vals.append(lines[i])
            i += 1
          i -= 1
          rest = '\n'.join(vals)
        if '.' in key.rpartition('/')[2] and not key.startswith(('import ', 'from ')):
          scoped, _, arg = key.rpartition('.')
          try:
            val = encode(ast.literal_eval(rest.strip()), self.gin)
          except Exception:  # pylint: disable=broad-except
            val = {'text': rest.strip()}
          rows.setdefault(complete(scoped), {})[arg] = val
        else:
          rows.setdefault('macro|' + key, {})['value'] = {'text': rest.strip()}
      i += 1
    return sorted([k, sorted([a, v] for a, v in d.items())] for k, d in rows.items())

  def prov_of_text(self, text):
    """[[scope|complete.param, 'file:line'], ..] from the '# Set in' comments of a config string."""
    names = [k for k, _ in self.cfg._REGISTRY.items()]  # pylint: disable=protected-access

    def complete(scoped):
      scope, _, sel = scoped.rpartition('/')
      sc = sel.split('.')
      m = [n for n in names if n == sel] or [n for n in names if n.split('.')[-len(sc):] == sc]
      return scope + '|' + (m[0] if len(m) == 1 else '?' + sel)
    rows, pending = [], None
    for line in text.split('\n'):
      m = re.match(r'^# Set in (.*):$', line)
      if m:
        pending = m.group(1)
        continue
      if pending and line and not line.startswith(('#', ' ')) and ' = ' in line + ' ':
        key = line.split(' = ')[0].rstrip(' \\').rstrip()
        if '.' in key.rpartition('/')[2]:
          scoped, _, arg = key.rpartition('.')
          rows.append([complete(scoped) + '.' + arg, pending])
        else:
          rows.append([key + '|gin.macro.value', pending])
      if line and not line.startswith('#'):
        pending = None
    return sorted(rows)

  def store_json(self, store):
    rows = []
    for (scope, sel), params in store.items():
      rows.append([scope + '|' + sel, [[k, encode(params[k], self.gin)] for k in sorted(params)]])
    return sorted(rows, key=lambda r: r[0])

  def op_enter(self, op):
    gin = self.gin
    with gin.config_scope(list(op['cur'])):
      with gin.config_scope(self.scope_arg(op['arg'])) as s:
        inside = list(gin.current_scope())
        if list(s) != inside:
          return {'mismatch': [list(s), inside]}
    return inside

  def key_for(self, ks):
    scope, sel, arg = ks['scope'], ks['sel'], ks['arg']
    form = ks.get('_form', 'str')
    if form == 'tuple':
      return (scope, sel, arg)
    return (scope + '/' if scope else '') + sel + '.' + arg

  def op_hook(self, op):
    gin = self.gin

    def hook(config):
      del config
      if op['raises']:
        raise HookError('hook raises')
      if op['ret'] is None:
        return None
      return {self.key_for(ks): decode(v, gin) for ks, v in op['ret']}

    gin.config.register_finalize_hook(hook)

  def op_unlock(self, op):
    outs = []
    try:
      with self.gin.unlock_config():
        for b in op['body']:
          outs.append(self.run_op(b))
        if op['raises']:
          raise Marker()
    except Marker:
      pass
    return {'body': outs}

  def op_register_class_with_methods(self, op):
    """A class whose method(s) were registered with @gin.register inside the class body."""
    gin = self.gin
    leaf = op['name']
    g = {'__name__': op['_pymodule'], 'gin': gin, '_rec': self._rec}
    msrc = ''
    for m in op['_method_ops']:
      params = ', '.join(['self'] + [n if d is None else f'{n}=_d_{m["name"]}_{n}' for n, d in m['sig']['pos'][1:]])
      for n, d in m['sig']['pos'][1:]:
        if d is not None:
          g[f'_d_{m["name"]}_{n}'] = decode(d['v'], gin)
      names = [n for n, _ in m['sig']['pos'][1:]]
      rec = '_rec(%d, %r, [%s], (), {})' % (m['obj'], m['_selector'], ', '.join(f'({n!r}, {n})' for n in names))
      msrc += f'  @gin.register\n  def {m["name"]}({params}):\n    return {rec}\n'
    if op.get('_inherited'):
      # the registered method lives in an unregistered base class (mixin)
      src = (f'class {leaf}Base:\n  """base"""\n{msrc}\n'
             f'class {leaf}({leaf}Base):\n  """doc"""\n  def __init__(self):\n    pass\n')
    else:
      src = f'class {leaf}:\n  """doc"""\n  def __init__(self):\n    pass\n{msrc}'
    exec(compile(src, f'<probe {leaf}>', 'exec'), g)  # pylint: disable=exec-used
    cls = g[leaf]
    for m in op['_method_ops']:
      self.entries[m['obj']] = Entry(m['obj'], getattr(cls, m['name']), None, 'method', 'fn', m['_selector'])
    returned = gin.external_configurable(cls) if op['_api'] == 'external' else gin.register(cls)
    self.entries[op['obj']] = Entry(op['obj'], cls, returned, op['_api'], 'init', op['_selector'])

  def run_op(self, op):
    name = op['op']
    try:
      if name == 'register':
        if op.get('_skip_impl'):
          return {'ok': None}
        r = self.op_register_class_with_methods(op) if op.get('_method_ops') else self.op_register(op)
      elif name == 'hook':
        r = self.op_hook(op)
      elif name == 'finalize':
        with contextlib.ExitStack() as stack:
          for a in op.get('_enter', []):
            stack.enter_context(self.gin.config_scope(self.scope_arg(a)))
          r = self.gin.finalize()
      elif name == 'unlock':
        r = self.op_unlock(op)
      elif name == 'clear':
        r = self.gin.clear_config(clear_constants=op['constants'])
      elif name == 'constant':
        r = self.gin.constant(op['name'], decode(op['val'], self.gin))
      elif name == 'interactive':
        r = self.gin.enter_interactive_mode() if op['on'] else self.gin.exit_interactive_mode()
      elif name == 'singleton':
        def ctor():
          self.ctor_runs = getattr(self, 'ctor_runs', 0) + 1
          return Opaque.get(7000 + self.ctor_runs - 1)
        r = encode(self.cfg.singleton_value(op['key'], ctor if op['ctor'] else None), self.gin)
      elif name == 'macrolookup':
        r = encode(self.cfg.ParserDelegate().macro(op['name']), self.gin)
      elif name == 'locked':
        r = bool(self.gin.config_is_locked())
      elif name == 'registry':
        r = sorted(k for k, _ in self.cfg._REGISTRY.items())  # pylint: disable=protected-access
      elif name == 'constants':
        r = sorted(k for k, _ in self.cfg._CONSTANTS.items())  # pylint: disable=protected-access
      elif name == 'call':
        return self.op_call(op)
      elif name == 'ecall':
        r = self.op_ecall(op)
      elif name == 'log':
        r = self.log_json()
      elif name == 'bind':
        r = self.op_bind(op)
      elif name == 'query':
        r = self.op_query(op)
      elif name == 'getb':
        r = self.op_getb(op)
      elif name == 'operative':
        r = self.store_json(self.cfg._OPERATIVE_CONFIG)  # pylint: disable=protected-access
      elif name == 'config':
        r = self.store_json(self.cfg._CONFIG)  # pylint: disable=protected-access
      elif name == 'prov':
        r = self.prov_of_text(self.gin.config_str(show_provenance=True))
      elif name == 'opprov':
        r = self.prov_of_text(self.gin.operative_config_str(show_provenance=True))
      elif name == 'opstr':
        r = self.parse_config_text(self.gin.operative_config_str())
      elif name == 'enter':
        r = self.op_enter(op)
      else:
        raise AssertionError(name)
      return {'ok': r}
    except core.Infra:
      raise
    except AssertionError:
      raise
    except Exception as e:  # pylint: disable=broad-except
      return {'err': core.err_class(e)}


def run_impl(case):
  Opaque._all.clear()  # pylint: disable=protected-access
  s = Session()
  return {'out': [s.run_op(op) for op in case['ops']]}


def _strip_private(x):
  if isinstance(x, dict):
    return {k: _strip_private(v) for k, v in x.items() if not k.startswith('_')}
  if isinstance(x, list):
    return [_strip_private(v) for v in x]
  return x


def with_locations(op):
  """Text forms of a binding carry the location gin records: ('bindings string', line)."""
  if op.get('op') == 'bind' and 'loc' not in op:
    form = op.get('_form', 'tuple')
    line = {'text': 1, 'macro_text': 1, 'block': 2}.get(form)
    if line:
      op = dict(op, loc={'file': None, 'line': line})
  if op.get('op') == 'unlock':
    op = dict(op, body=[with_locations(b) for b in op['body']])
  return op


def to_driver(case, impl):
  return {'dom': 'gin', 'ops': [_strip_private(with_locations(op)) for op in case['ops']]}


def strip(o):
  """Drops the harness-only fields of an implementation observation before comparing."""
  if isinstance(o, dict) and 'err' in o:
    return {k: v for k, v in o.items() if k in ('err', 'missing')}
  if isinstance(o, dict) and isinstance(o.get('ok'), dict) and 'body' in o['ok']:
    return {'ok': {'body': [strip(b) for b in o['ok']['body']]}}
  return o


def compare(case, impl, model):
  a, b = impl['out'], model.get('out')
  if b is None:
    return f'driver error: {model}'
  for k, (x, y) in enumerate(zip(a, b)):
    if strip(x) != y:
      op = {kk: vv for kk, vv in case['ops'][k].items() if kk not in ('sig', '_method_ops')}
      return f'op {k} {op}: impl {strip(x)} model {y}'
  return None
