"""A small Python reference state machine for the binding / locking / clearing rules.

This is the *independent statement* of C11, C12 and C20 used as the property oracle on what the
implementation returned (it shares no code with the Lean mirror and none with gin).
"""
import copy
import re

IDENT = re.compile(r'^[a-zA-Z_]\w*\Z')     # \Z, not $: a name does not end in a newline
MODULE = re.compile(r'^([a-zA-Z_]\w*\.)*[a-zA-Z_]\w*\Z')
REQ = {'req': 1}


def suffix_matches(names, q):
  if q in names:
    return [q]
  qc = q.split('.')
  return sorted(n for n in names if n.split('.')[-len(qc):] == qc)


class Ref:
  def __init__(self):
    self.reg = {
        'gin.macro': {'params': ['value'], 'varkw': False, 'allow': [], 'deny': [], 'method': False, 'obj': 900001},
        'gin.constant': {'params': [], 'varkw': False, 'allow': [], 'deny': [], 'method': False, 'obj': 900002},
        'gin.singleton': {'params': ['constructor'], 'varkw': False, 'allow': [], 'deny': [], 'method': False, 'obj': 900003},
    }
    self.config = {}
    self.operative_cleared = True
    self.locked = False
    self.interactive = False
    self.hooks = []
    self.constants = {'gin.REQUIRED': REQ}

  # -- helpers
  def normal_key(self, scope, spelled, arg):
    """Returns ('ok', (scope, complete, arg)) or ('err', class)."""
    m = suffix_matches(self.reg, spelled)
    if len(m) > 1:
      return 'err', 'KeyError'
    if not m:
      return 'err', 'ValueError'
    e = self.reg[m[0]]
    if e['method'] and '.' not in spelled:
      return 'err', 'ValueError'
    if not (e['varkw'] or arg in e['params']):
      return 'err', 'ValueError'
    if e['allow'] and arg not in e['allow']:
      return 'err', 'ValueError'
    if e['deny'] and arg in e['deny']:
      return 'err', 'ValueError'
    return 'ok', (scope, m[0], arg)

  def config_json(self):
    rows = {}
    for (scope, sel, arg), v in self.config.items():
      rows.setdefault(scope + '|' + sel, {})[arg] = v
    return sorted([k, sorted([a, v] for a, v in d.items())] for k, d in rows.items())

  # -- operations: each returns the expected observation, or None when the reference has no opinion
  def step(self, op):
    name = op['op']
    if name == 'register':
      return self.register(op)
    if name == 'bind':
      if op.get('block'):  # the block header is resolved before the lock is looked at
        m = suffix_matches(self.reg, op['sel'])
        if len(m) != 1:
          return {'err': 'KeyError' if m else 'ValueError'}
      if self.locked:
        return {'err': 'RuntimeError'}
      st, r = self.normal_key(op['scope'], op['sel'], op['arg'])
      if st == 'err':
        return {'err': r}
      self.config[r] = op['val']
      return {'ok': None}
    if name == 'query':
      st, r = self.normal_key(op['scope'], op['sel'], op['arg'])
      if st == 'err':
        return {'err': r}
      if r not in self.config:
        return {'err': 'ValueError'}
      return {'ok': self.config[r]}
    if name == 'getb':
      rows = {}
      sc = op['scope']
      for i in range(len(sc) + 1) if op['inherit'] else [len(sc)]:
        for (s_, sel, arg), v in self.config.items():
          if s_ == '/'.join(sc[:i]) and sel == op['sel']:
            rows[arg] = v
      return {'ok': sorted([a, v] for a, v in rows.items())}
    if name == 'getbq':
      m = suffix_matches(self.reg, op['q'])
      if len(m) != 1:
        return {'err': 'KeyError' if m else 'ValueError'}
      return self.step(dict(op, op='getb', sel=m[0]))
    if name == 'hook':
      self.hooks.append(op)
      return {'ok': None}
    if name == 'finalize':
      return self.finalize()
    if name == 'unlock':
      was = self.locked
      self.locked = False
      outs = [self.step(b) for b in op['body']]
      self.locked = was
      return {'ok': {'body': outs}}
    if name == 'clear':
      self.locked = False
      self.config = {}
      if op['constants']:
        self.constants = {'gin.REQUIRED': REQ}
      return {'ok': None}
    if name == 'constant':
      if not op['nameValid']:
        return {'err': 'ValueError'}
      if not self.interactive and suffix_matches(self.constants, op['name']):
        return {'err': 'ValueError'}
      self.constants[op['name']] = op['val']
      return {'ok': None}
    if name == 'interactive':
      self.interactive = op['on']
      return {'ok': None}
    if name == 'locked':
      return {'ok': self.locked}
    if name == 'config':
      return {'ok': self.config_json()}
    if name == 'registry':
      return {'ok': sorted(self.reg)}
    if name == 'constants':
      return {'ok': sorted(self.constants)}
    return None

  def register(self, op):
    if self.locked:
      return {'err': 'RuntimeError'}
    if not op['nameValid'] or not op['moduleValid']:
      return {'err': 'ValueError'}
    selector = (op['module'] + '.' if op['module'] else '') + op['name']
    if not self.interactive and selector in self.reg and self.reg[selector]['obj'] != op['obj']:
      return {'err': 'ValueError'}
    if op['allow'] and op['deny']:
      return {'err': 'ValueError'}
    if not op['listTypesOk']:
      return {'err': 'TypeError'}
    sig = op['sig']
    params = [p[0] for p in sig['pos']] + [p[0] for p in sig['kwonly']]
    if not sig['varkw'] and any(a not in params for a in op['allow'] + op['deny']):
      return {'err': 'ValueError'}
    reqd = [p[0] for p in sig['pos'] + sig['kwonly'] if p[1] is not None and p[1]['v'] == REQ]
    if any((op['allow'] and r not in op['allow']) or (op['deny'] and r in op['deny']) for r in reqd):
      return {'err': 'ValueError'}
    for old in op.get('methods', []):
      if old in self.reg:
        e = self.reg.pop(old)
        e['method'] = True
        self.reg[selector + '.' + old.split('.')[-1]] = e
    # (what a binding may name: a positional-only parameter cannot be filled by keyword, D56)
    bindable = [p[0] for p in sig['pos']][sig.get('posonly', 0):] + [p[0] for p in sig['kwonly']]
    self.reg[selector] = {'params': bindable, 'varkw': sig['varkw'], 'allow': op['allow'], 'deny': op['deny'],
                          'method': op.get('method', False), 'obj': op['obj']}
    return {'ok': None}

  def values(self):
    out = []

    def walk(v):
      if isinstance(v, dict):
        if 'l' in v or 't' in v or 'set' in v:
          for x in v.get('l', v.get('t', v.get('set'))):
            walk(x)
        elif 'd' in v:
          for k, x in v['d']:     # what sits in a key is looked at like what sits in a value
            walk(k)
            walk(x)
      out.append(v)
    for v in self.config.values():
      walk(v)
    return out

  def finalize(self):
    if self.locked:
      return {'err': 'RuntimeError'}
    keys = {(s, sel) for (s, sel, _) in self.config}
    for v in self.values():
      if isinstance(v, dict):
        if 'macro' in v and (v['macro'], 'gin.macro') not in keys:
          return {'err': 'ValueError'}
        if 'ref' in v and v['ref'][1] == 'gin.macro' and not (
            v['ref'][2] and ('/'.join(v['ref'][0]), 'gin.macro') in keys):
          return {'err': 'ValueError'}
        if 'unk' in v:
          return {'err': 'ValueError'}
    for v in self.config.values():
      if isinstance(v, dict) and 'const' in v and self.constants.get(v['const']) == REQ:
        return {'err': 'ValueError'}
    upd = {}
    for h in self.hooks:
      if h['raises']:
        return {'err': 'HookError'}
      if h['ret'] is None:
        continue
      for ks, val in h['ret']:
        st, r = self.normal_key(ks['scope'], ks['sel'], ks['arg'])
        if st == 'err':
          return {'err': r}
        if r in upd:
          return {'err': 'ValueError'}
        upd[r] = val
    self.config.update(copy.deepcopy(upd))
    self.locked = True
    return {'ok': None}


def _strip(o):
  if isinstance(o, dict) and 'err' in o:
    return {'err': o['err']}
  if isinstance(o, dict) and isinstance(o.get('ok'), dict) and 'body' in o['ok']:
    return {'ok': {'body': [_strip(b) for b in o['ok']['body']]}}
  return o


def _strip_values(op):
  """Drops harness-only annotations inside values (e.g. the spelling a reference is written with)."""
  def clean(x):
    if isinstance(x, dict):
      return {k: clean(v) for k, v in x.items() if k not in ('_text', '_spelled', '_abbr')}
    if isinstance(x, list):
      return [clean(v) for v in x]
    return x
  out = dict(op)
  for k in ('val', 'ret', 'body'):
    if k in out:
      out[k] = clean(out[k])
  return out


def check_history(case, impl, judge_ops):
  """Runs the reference over the case; returns a description of the first op (among judge_ops)
  whose implementation observation differs from the reference, else None."""
  ref = Ref()
  for k, (op0, res) in enumerate(zip(case['ops'], impl['out'])):
    op = _strip_values(op0)
    want = ref.step(op)
    if want is None or op['op'] not in judge_ops:
      continue
    if _strip(res) != want:
      shown = {kk: vv for kk, vv in op.items() if kk not in ('sig', '_method_ops', 'body')}
      return f'op {k} {shown}: reference expects {want}, implementation gave {_strip(res)}'
  return None
