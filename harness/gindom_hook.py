"""Called from the body of generated modules: a module that registers configurables when it is imported."""
current = None


class QuotaError(TypeError):
  """An exception class whose __new__ takes arguments that `args` does not hold (it holds the rendered message)."""
  _ginverif_base = 'TypeError'

  def __new__(cls, user, limit):
    self = super().__new__(cls)
    self.user, self.limit = user, limit
    return self

  def __init__(self, user, limit):
    super().__init__('%s exceeded %d' % (user, limit))


def fire(module_name):
  sess = current
  if sess is None:
    raise ImportError('no harness session for ' + module_name)
  for op in sess.regmods.get(module_name, []):
    if op.get('_raise_custom'):
      raise QuotaError('bob', 3)   # the module body fails with an exception of the importing project's own
    out = sess.op_register_class_with_methods(op) if op.get('_method_ops') else sess.op_register(op)
    del out
