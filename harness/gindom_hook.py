"""Called from the body of generated modules: a module that registers configurables when it is imported."""
current = None


def fire(module_name):
  sess = current
  if sess is None:
    raise ImportError('no harness session for ' + module_name)
  for op in sess.regmods.get(module_name, []):
    out = sess.op_register_class_with_methods(op) if op.get('_method_ops') else sess.op_register(op)
    del out
