"""A package whose import fails the way an optional dependency check fails: an ImportError raised by hand (no module name)."""
raise ImportError('an optional dependency of ginverif_optdep is missing')
