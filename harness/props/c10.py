"""C10 — REQUIRED parameters are filled from the config or the call fails cleanly."""
import gen_gin as G
import core
import gindom
from gindom import to_driver  # noqa: F401
from props.c01 import tally, shrink, _overlay  # noqa: F401

ID = 'C10'
DOMAIN = 'gin/call'
PROPS_FILES = ['Gin/Props/C10.lean']
ANCHOR_FILES = ['config.py']
RULE = ('C01 generator with gin.REQUIRED placed as signature default (positional-or-keyword and keyword-only), as '
        'positional argument, as keyword argument, into *args and **kwargs, with a random subset of the marked parameters '
        'bound under random scopes; registrations with a REQUIRED default on a denylisted / non-allowlisted parameter; one '
        'Python function registered again under further names (accepted and rejected registrations); functions under a '
        'functools.wraps decorator (own signature *args/**kw, names from the inner function); '
        'non-trivial = a call carrying at least one marker (caller- or signature-level) that is decided by the overlay '
        '(filled or reported missing); distinct = distinct canonical op list')
TRUSTED_BASE = ['Lean 4.33 kernel', 'axioms ⊆ {propext, Classical.choice, Quot.sound}', 'JSON glue (Gin/Drv)',
                'harness gindom.py / gen_gin.py', 'Python call binding modelled (pyBind)',
                'missing-parameter list is parsed out of the RuntimeError message']
ASSUMPTIONS = ['identity of gin.REQUIRED is the marker test (Val.required)', 'values are reference-free (C04 covers references)']
EXPLANATION = ('Lean theorems about phaseA/phaseC of the wrapper mirror + differential run + an independent Python '
               'statement of C10 (exact missing list in signature order, body not run, marker never delivered).')


def gen_case(rng):
  regs = G.gen_registry(rng, rng.randint(1, 3), w_required=0.25)
  ops = list(regs)
  # registrations that must be rejected: REQUIRED default outside the lists
  if rng.random() < 0.25:
    bad = G.gen_registry(rng, 1, w_required=0.6)[0]
    reqd = [p[0] for p in bad['sig']['pos'] + bad['sig']['kwonly'] if p[1] is not None and p[1]['v'] == G.REQ]
    others = [p[0] for p in bad['sig']['pos'] + bad['sig']['kwonly'] if p[0] not in reqd and p[0] not in ('self', 'cls')]
    if reqd:
      bad = dict(bad, obj=len(regs), name='zz', _selector=bad['module'] + '.zz')
      if rng.random() < 0.5 or not others:
        bad['allow'], bad['deny'] = [], [rng.choice(reqd)]
      else:
        bad['allow'], bad['deny'] = [rng.choice(others)], []
      ops.append(bad)
  # the same Python function registered a second (and third) time under another name: each registration
  # looks at the signature afresh - its REQUIRED defaults are as binding for the later ones as for the first
  for reg in list(regs):
    if reg['_kind'] == 'fn' and reg['_api'] == 'external' and rng.random() < 0.6:
      reqd = [p[0] for p in reg['sig']['pos'] + reg['sig']['kwonly'] if p[1] is not None and p[1]['v'] == G.REQ]
      again = dict(reg, obj=len(regs), name='again%d' % reg['obj'], _selector=reg['module'] + '.again%d' % reg['obj'],
                   _reuse=reg['obj'], _name_arg='again%d' % reg['obj'])
      regs.append(again)
      ops.append(again)
      if reqd and rng.random() < 0.5:   # ... and a denylist hiding one of them is rejected every time
        ops.append(dict(again, obj=len(regs) + 20, name='zzz', _selector=reg['module'] + '.zzz', _name_arg='zzz',
                        allow=[], deny=[rng.choice(reqd)]))
  # a function under an ordinary functools.wraps decorator: its parameter names are those of the inner function,
  # but a call binds against (*args, **kw) - every positional argument is an unnamed one
  for reg in regs:
    if reg['_kind'] == 'fn' and '_reuse' not in reg and rng.random() < 0.2 and not any(
        o.get('_reuse') == reg['obj'] for o in ops):
      reg['innerSig'] = reg['sig']
      reg['sig'] = {'pos': [], 'kwonly': [], 'varargs': True, 'varkw': True}
  focus = G.rand_scope(rng, 3)
  scopes = [focus[:i] for i in range(len(focus) + 1)] + [focus[:1] + ['c']]
  body = []
  for _ in range(rng.randint(0, 9)):
    reg = rng.choice(regs)
    b = G.gen_bind(rng, dict(reg, sig=reg.get('innerSig') or reg['sig']), rng.choice(scopes))
    if b:
      body.append(b)
  if rng.random() < 0.3:
    # a parameter whose binding is the marker itself (`f.x = %gin.REQUIRED`, or the object bound through the API): such a
    # binding supplies nothing - the call fails naming the parameter unless the caller supplies a value
    for _ in range(rng.randint(1, 2)):
      reg = rng.choice(regs)
      b = G.gen_bind(rng, dict(reg, sig=reg.get('innerSig') or reg['sig']), rng.choice(scopes))
      if b:
        # (the object itself, bound through the API; `%gin.REQUIRED` in config text evaluates to it when the call is made,
        # which the evaluating layer of the model covers: C05 / C20)
        b.update(val=G.REQ, _form=rng.choice(['tuple', 'str', 'list']), block=False)
        body.append(b)
  for _ in range(rng.randint(1, 4)):
    reg = rng.choice(regs)
    tgt = rng.choice(scopes)
    call = G.gen_call(rng, reg, G.gen_enter(rng, tgt), w_required=0.3)
    if reg.get('innerSig'):
      inner_names = [p[0] for p in reg['innerSig']['pos'] + reg['innerSig']['kwonly']]
      call['args'] = [G.REQ if rng.random() < 0.3 else G.caller_value(rng) for _ in range(rng.choice([0, 0, 1, 2]))]
      call['kwargs'] = [[n, G.REQ if rng.random() < 0.4 else G.caller_value(rng)]
                        for n in inner_names + ['e1'] if rng.random() < 0.4]
    body.insert(rng.randint(len(body) // 2, len(body)), call)
  ops += body
  return {'dom': 'gin', 'ops': ops}


METHOD_CASES = [{'dom': 'gin', 'kind': 'method', 'api': api, 'scope': sc, 'inherited': inh, 'ops': []}
                for api in ('register', 'external') for sc in ('', 'a/b') for inh in (False, True)]


def gen_cases(rng, tier, boost=1):
  # registered methods (renamed to <class selector>.<method> when their class is registered): the same
  # REQUIRED rules, and the same clean error, as for functions - a finite table on the real code
  yield from METHOD_CASES
  n = (1500 if tier == 'quick' else 40000) * boost
  for _ in range(n):
    yield gen_case(rng)


def run_method_case(case):
  gin = core.fresh_gin()
  g = {'gin': gin, '__name__': 'mm'}
  base = ('class Base:\n  @gin.register\n  def fit(self, data, epochs=gin.REQUIRED, lr=0.1):\n    return (data, epochs, lr)\n'
          if case['inherited'] else '')
  body = ('  pass\n' if case['inherited'] else
          '  @gin.register\n  def fit(self, data, epochs=gin.REQUIRED, lr=0.1):\n    return (data, epochs, lr)\n')
  src = base + 'class Model' + ('(Base)' if case['inherited'] else '') + ':\n  def __init__(self):\n    pass\n' + body
  exec(src, g)  # pylint: disable=exec-used
  cls = g['Model']
  if case['api'] == 'register':
    gin.register(cls)
    made = gin.get_configurable(cls)
  elif case['api'] == 'external':
    made = gin.external_configurable(cls)
  else:
    made = gin.configurable(cls)
  facts = {}
  import contextlib

  def call(*a, **k):
    with contextlib.ExitStack() as st:
      if case['scope']:
        st.enter_context(gin.config_scope(case['scope']))
      return made().fit(*a, **k)
  for label, args in (('positional_marker', (gin.REQUIRED,)), ('both_markers', (gin.REQUIRED, gin.REQUIRED))):
    try:
      r = call(*args)
      facts[label] = f'returned {r!r}'
    except RuntimeError as e:
      import re
      m = re.search(r'not provided in config: (\[.*?\])', str(e))
      named = re.search(r'Required bindings for `([^`]*)`', str(e))
      facts[label] = {'missing': sorted(re.findall(r"'([^']*)'", m.group(1))) if m else None,
                      'named': named.group(1) if named else None}
    except Exception as e:  # pylint: disable=broad-except
      facts[label] = f'{type(e).__name__}: {e}'[:160]
  pre = (case['scope'].split('/')[0] + '/') if case['scope'] else ''
  gin.bind_parameter(pre + 'Model.fit.data', 7)
  gin.bind_parameter('Model.fit.epochs', 3)
  try:
    facts['after_binding'] = list(call(gin.REQUIRED))
  except Exception as e:  # pylint: disable=broad-except
    facts['after_binding'] = f'{type(e).__name__}: {e}'[:160]
  return {'out': [], 'facts': facts}


def run_impl(case):
  if case.get('kind') == 'method':
    return run_method_case(case)
  return gindom.run_impl(case)


def compare(case, impl, model):
  if case.get('kind') == 'method':
    return None
  return gindom.compare(case, impl, model)


def oracle(case, impl):
  if case.get('kind') == 'method':
    f = impl['facts']
    want = {'missing': ['data', 'epochs'], 'named': 'fit'}
    for label in ('positional_marker', 'both_markers'):
      got = f.get(label)
      if not isinstance(got, dict) or got.get('missing') != want['missing'] or not (got.get('named') or '').endswith('fit'):
        return (f'registered method ({case["api"]}, scope {case["scope"]!r}): with data and epochs unbound the call '
                f'must fail with the clean error naming them; got {got}')
    if f.get('after_binding') != [7, 3, 0.1]:
      return f'registered method: after binding data and epochs the call should receive them, got {f.get("after_binding")}'
    return None
  regs, binds = {}, {}
  for k, (op, res) in enumerate(zip(case['ops'], impl['out'])):
    if op['op'] == 'register':
      allp = op['sig']['pos'] + op['sig']['kwonly']
      reqd = [p[0] for p in allp if p[1] is not None and p[1]['v'] == G.REQ]
      bad = [r for r in reqd if (op['allow'] and r not in op['allow']) or (op['deny'] and r in op['deny'])]
      if bad and 'ok' in res:
        return f'op {k}: registration accepted although REQUIRED {bad} is not configurable'
      if 'ok' in res:
        regs[op['obj']] = op
    elif op['op'] == 'bind' and 'ok' in res:
      binds.setdefault((op['scope'], op['sel']), {})[op['arg']] = op['val']
    elif op['op'] == 'call':
      reg = regs.get(op['_target'])
      if reg is None:
        continue
      posnames = [p[0] for p in reg['sig']['pos']]
      allp = reg['sig']['pos'] + reg['sig']['kwonly']
      order = [p[0] for p in allp]
      given_pos = dict(zip(posnames, op['args']))
      given_kw = dict((a, b) for a, b in op['kwargs'])
      scope = []
      valid_scope = True
      # scope is taken from the observation when the call ran, otherwise recomputed naively
      if 'ok' in res:
        scope = res['ok']['scope']
      else:
        for a in op['enter']:
          if a['k'] == 'name':
            scope = scope + a['v'].split('/')
          elif a['k'] == 'list':
            scope = list(a['v'])
          elif a['k'] == 'clear':
            scope = []
          else:
            valid_scope = False
        if not valid_scope or not all(G_valid(s) for s in scope):
          continue
      ov_all = _overlay(binds, reg['_selector'], scope)
      is_marker = lambda v: v == G.REQ or (isinstance(v, dict) and v.get('const') == 'gin.REQUIRED')   # noqa: E731
      ov = {n: v for n, v in ov_all.items() if not is_marker(v)}
      if any(v == G.REQ for v in op['args'][len(posnames):]):
        if res.get('err') != 'ValueError' or res.get('ran'):
          return f'op {k}: REQUIRED in *args position must be a ValueError before anything runs, got {res}'
        continue
      marked = [n for n, v in given_pos.items() if v == G.REQ]
      marked += [n for n, v in given_kw.items() if v == G.REQ and n not in marked]
      sigreq = [p[0] for p in allp if p[1] is not None and p[1]['v'] == G.REQ
                and p[0] not in given_pos and p[0] not in given_kw]
      if set(given_pos) & set(given_kw):
        continue  # caller error (multiple values); a TypeError either way
      # a binding that is the marker itself supplies nothing and is reported, unless the caller supplies a value
      bound_marker = [n for n, v in ov_all.items() if is_marker(v)
                      and not (n in given_pos and given_pos[n] != G.REQ) and not (n in given_kw and given_kw[n] != G.REQ)]
      missing = bound_marker + [n for n in marked + sigreq if n not in ov and n not in bound_marker]
      if missing:
        want = [n for n in order if n in missing] + [n for n in missing if n not in order]
        if res.get('err') != 'RuntimeError' or res.get('ran') or res.get('missing') != want:
          return f'op {k}: unfilled REQUIRED {want} expected a RuntimeError naming exactly them, got {res}'
        named = res.get('named') or ''
        if not reg['_selector'].split('.')[-len(named.split('.')):] == named.split('.'):
          return f'op {k}: error names {named!r}, not the configurable {reg["_selector"]}'
        continue
      if 'ok' in res:
        got = dict((a, b) for a, b in res['ok']['params'])
        got.update(dict((a, b) for a, b in res['ok']['kw']))
        if any(v == G.REQ for v in list(got.values()) + res['ok']['extra']):
          return f'op {k}: the REQUIRED marker itself was delivered: {res["ok"]}'
        for n in marked + sigreq:
          if got.get(n) != ov[n]:
            return f'op {k}: REQUIRED {n} received {got.get(n)} but the binding is {ov[n]}'
      elif res.get('err') == 'RuntimeError' and 'missing' in res:
        return f'op {k}: every REQUIRED parameter is bound but the call reported {res}'
  return None


def G_valid(s):
  import re
  return bool(re.match(r'^([a-zA-Z_]\w*\.)*[a-zA-Z_]\w*$', s))


def nontrivial(case, impl):
  if case.get('kind') == 'method':
    return True
  return _nontrivial(case, impl)


def _nontrivial(case, impl):
  for op, res in zip(case['ops'], impl['out']):
    if op['op'] == 'call' and ('ok' in res or res.get('err') == 'RuntimeError'):
      if any(v == G.REQ for v in op['args']) or any(v == G.REQ for _, v in op['kwargs']):
        return True
      if res.get('err') == 'RuntimeError':
        return True
  return False


def classify(case, impl, model, why_oracle, why_model, findings):
  return None
