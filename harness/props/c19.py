"""C19 — dynamic registration resolves names through the file's own imports."""
import inspect
import os
import shutil
import sys
import tempfile
import types

import core

ID = 'C19'
DOMAIN = 'dyn'
PROPS_FILES = ['Gin/Props/C19.lean', 'Gin/Props/C19b.lean']
ANCHOR_FILES = ['config.py', 'config_parser.py']
RULE = ('a fixed package tree (packages, modules, functions, classes, nested class, methods, re-exported names, two modules '
        'with the same leaf name) x 1-2 parse calls, each a file that enables dynamic registration, with random import forms '
        '(import / import as / from import / from import as, colliding bound names, the reserved name gin, missing modules), '
        'bindings through random spellings of random objects (incl. methods of already configured classes), nested include '
        'files with their own imports, and a malformed stream (symbol of the including / included / earlier file, missing '
        'attribute, late / aliased enabling, unknown __gin__ feature, parameter that does not exist). Observed: the error class '
        'or, per Python object, the bindings of the configurable registered for exactly that object; oracles: intended target '
        'objects, and config_str() parsed back gives the same per-object bindings. non-trivial = two spellings of one object, an '
        'include, a method binding or a malformed statement; distinct = distinct texts')
TRUSTED_BASE = ['Lean 4.33 kernel', 'axioms ⊆ {propext, Classical.choice, Quot.sound}', 'JSON glue (Gin/Drv/DynDom)',
                'harness props/c19.py (world extraction by introspection of harness/c19pkg)',
                '__import__ / getattr / the module system are CPython\'s']
ASSUMPTIONS = ['packages import their submodules eagerly (a submodule is an attribute of its package)',
               'within one case a method is addressed through one class only (gin registers a method under the selector of '
               'the class it was configured through; base class and subclass for one inherited method is refused by gin)',
               'every file of a case enables dynamic registration (mixed static/dynamic files are not generated)',
               'binding values are integers; targets are functions, classes and methods']
EXPLANATION = ('Lean theorems about the symbol table and attribute-chain resolution (per-file symbols, the four import forms, '
               'reserved name, enabling rules, same object = same key, include isolation) + differential run of generated '
               'files on the real package tree + intended-target and config_str round-trip oracles on the real code.')

PKG = 'c19pkg'
PKGS = ('c19pkg', 'Zc19pkg')


def world():
  """Introspects the real package tree: module paths, attributes, parameters; ids are stable by traversal order."""
  import c19pkg  # noqa  pylint: disable=import-error
  import Zc19pkg  # noqa  pylint: disable=import-error
  ids, objs = {}, []

  def oid(o):
    if id(o) not in ids:
      ids[id(o)] = len(objs)
      objs.append(o)
    return ids[id(o)]
  modules, attrs, params = [], {}, {}
  todo = [c19pkg, Zc19pkg]
  seen = set()
  while todo:
    o = todo.pop(0)
    if id(o) in seen:
      continue
    seen.add(id(o))
    i = oid(o)
    if isinstance(o, types.ModuleType):
      if not o.__name__.startswith(PKGS):
        continue
      modules.append([o.__name__.split('.'), i])
    names = {}
    members = dict(vars(o))
    if isinstance(o, type):   # methods a class inherits are reachable through it as well (the same function objects)
      for n, v in inspect.getmembers(o, inspect.isfunction):
        members.setdefault(n, v)
    for n, v in sorted(members.items()):
      if n.startswith('_'):
        continue
      if isinstance(v, types.ModuleType) and not v.__name__.startswith(PKGS):
        continue
      if isinstance(v, (types.ModuleType, types.FunctionType, type)):
        names[n] = oid(v)
        todo.append(v)
    attrs[i] = sorted(names.items())
    if isinstance(o, types.FunctionType):
      ps = list(inspect.signature(o).parameters)
      params[i] = [p for p in ps if p != 'self']
    elif isinstance(o, type):
      params[i] = [p for p in inspect.signature(o.__init__).parameters if p != 'self']
  return {'modules': modules, 'attrs': sorted([k, [list(x) for x in v]] for k, v in attrs.items()),
          'params': sorted([k, v] for k, v in params.items())}, objs


_W = None


def get_world():
  global _W
  if _W is None:
    if os.path.dirname(os.path.dirname(os.path.abspath(__file__))) not in sys.path:
      sys.path.insert(0, os.path.dirname(os.path.dirname(os.path.abspath(__file__))))
    _W = world()
  return _W


def spellings(w, symtab, target, maxlen=5):
  attrs = dict((k, dict(v)) for k, v in w['attrs'])
  out = []
  frontier = [([s], o) for s, o in symtab.items()]
  for _ in range(maxlen):
    nxt = []
    for path, o in frontier:
      if o == target and len(path) > 1:
        out.append(path)
      for n, o2 in attrs.get(o, {}).items():
        nxt.append((path + [n], o2))
    frontier = nxt
  return out


def name_to_id(name):
  """'c19pkg.m1:Cls.meth' -> object id in the current world (corpus files name objects, ids shift with the world)."""
  w, _ = get_world()
  mod, _, path = name.partition(':')
  mods = dict((tuple(p), i) for p, i in w['modules'])
  attrs = dict((k, dict(v)) for k, v in w['attrs'])
  o = mods[tuple(mod.split('.'))]
  for n in (path.split('.') if path else []):
    o = attrs[o][n]
  return o


def norm_case(case):
  def walk(stmts):
    for s in stmts:
      for k in ('_target', '_reftarget', '_class'):
        if isinstance(s.get(k), str):
          s[k] = name_to_id(s[k])
      if s.get('k') == 'unit':
        walk(s['body'])
  for u in case['units']:
    walk(u)
  if case.get('_prereg_lists'):
    case['_prereg_lists'] = {str(name_to_id(k) if ':' in str(k) else int(k)): v for k, v in case['_prereg_lists'].items()}
  if case.get('_prereg'):
    case['_prereg'] = [name_to_id(k) if isinstance(k, str) else k for k in case['_prereg']]
  if case.get('_prog'):
    case['_prog'] = [[name_to_id(o) if isinstance(o, str) else o, a, v] for o, a, v in case['_prog']]
  return case


def resolve_path(w, symtab, path):
  attrs = dict((k, dict(v)) for k, v in w['attrs'])
  o = symtab.get(path[0]) if path else None
  for n in path[1:]:
    if o is None:
      return None
    o = attrs.get(o, {}).get(n)
  return o


LISTS = {}  # per case: object id -> ('deny' | 'allow', [parameter names]) for objects registered from Python with a list
VIA = {}   # per case: method function -> the class it is addressed through (gin ties a method to one class)


def one_class(w, symtab, t, cands):
  """Spellings of `t` that go through the class already used for it in this case (any, the first time)."""
  out = []
  for sp in cands:
    c = resolve_path(w, symtab, sp[:-1])
    if c in CLASS_IDS(w):
      if VIA.get(t, c) != c:
        continue
    out.append(sp)
  return out


def note_class(w, symtab, t, sp):
  c = resolve_path(w, symtab, sp[:-1])
  if c in CLASS_IDS(w):
    VIA.setdefault(t, c)


def CLASS_IDS(w):
  mods = {i for _, i in w['modules']}
  return {k for k, v in w['attrs'] if v and k not in mods}


def gen_file(rng, w, depth, outer_syms, earlier_syms):
  """Returns (statements, nontrivial flags). Statement dicts carry private `_target` / `_expect`."""
  mods = dict((tuple(p), i) for p, i in w['modules'])
  params = dict((k, v) for k, v in w['params'])
  stmts = []
  enable = {'k': 'imp', 'module': ['__gin__', 'dynamic_registration'], 'from': True, 'alias': None}
  r = rng.random()
  late = False
  if r < 0.03:
    stmts.append(dict(enable, alias='dr', _expect='SyntaxError'))
    return stmts
  if r < 0.06:
    bad = rng.choice([['__gin__', 'dynamic_registrations'], ['__gin__', 'experimental', 'dynamic_registration'],
                      ['__gin__', 'dynamic_registration', 'extra'], ['__gin__', 'x', 'y', 'dynamic_registration'],
                      ['__gin__', 'dynamic_registration', 'dynamic_registration']])
    stmts.append(dict(enable, module=bad, _expect='SyntaxError'))
    if rng.random() < 0.3:   # not a from-import: an ordinary import of a module that does not exist
      stmts[-1].update({'from': False, '_expect': 'ImportError'})
    return stmts
  if r < 0.09:
    late = True
  else:
    stmts.append(enable)
  symtab = {}
  nimp = rng.randint(1, 4)
  for _ in range(nimp):
    path = list(rng.choice(list(mods)))
    form = rng.choice(['plain', 'as', 'from', 'from_as'])
    if len(path) == 1 and form.startswith('from'):
      form = 'as'
    alias = None
    if form in ('as', 'from_as'):
      alias = rng.choice(['al', 'np2', 'm2', 'm1', 'c19pkg'] if rng.random() < 0.97 else ['gin'])
    if rng.random() < 0.03:
      path = path[:-1] + ['nonexistent']
    st = {'k': 'imp', 'module': path, 'from': form.startswith('from'), 'alias': alias}
    stmts.append(st)
    if tuple(path) not in mods:
      st['_expect'] = 'ImportError'
      return stmts
    if late:
      continue
    bound = alias or (path[-1] if st['from'] else path[0])
    if bound == 'gin':
      st['_expect'] = 'ValueError'
      return stmts
    symtab[bound] = mods[tuple(path)] if (st['from'] or alias) else mods[(path[0],)]
  if late:
    stmts.append(dict(enable, _expect='SyntaxError'))
    return stmts
  targets = sorted(params)
  for _ in range(rng.randint(1, 6)):
    r = rng.random()
    if r < 0.12 and depth < 2:
      body = gen_file(rng, w, depth + 1, dict(symtab), earlier_syms)
      stmts.append({'k': 'unit', 'body': body})
      if any_expect(body):
        return stmts
      continue
    t = rng.choice(targets)
    sp = one_class(w, symtab, t, spellings(w, symtab, t))
    if not sp:
      continue
    sel = list(rng.choice(sp))
    note_class(w, symtab, t, sel)
    arg = rng.choice(params[t]) if params[t] else None
    if arg is None:
      continue
    st = {'k': 'bind', 'sel': sel, 'arg': arg, 'v': rng.randint(1, 99), '_target': t}
    if t in LISTS and ((arg in LISTS[t][1]) == (LISTS[t][0] == 'deny')):
      # the object was registered from Python with a deny list naming this parameter (or an allow list that does not):
      # not bindable, whatever was configured before — e.g. one of its methods, which registers the class again
      if t in CLASS_IDS(w) and rng.random() < 0.6:
        attrs = dict((k, dict(v)) for k, v in w['attrs'])
        meths = [(n, f) for n, f in sorted(attrs.get(t, {}).items()) if f in params and f not in CLASS_IDS(w) and params[f]
                 and VIA.get(f, t) == t]
        if meths:
          n, f = rng.choice(meths)
          VIA.setdefault(f, t)
          stmts.append({'k': 'bind', 'sel': sel + [n], 'arg': rng.choice(params[f]), 'v': rng.randint(1, 99), '_target': f,
                        '_class': t, '_method': n})
      st['_expect'] = 'ValueError'
      stmts.append(st)
      return stmts
    cls_id = resolve_path(w, symtab, sel[:-1])
    if cls_id in CLASS_IDS(w) and t not in CLASS_IDS(w):   # a method (function) spelled through its class
      st['_class'] = cls_id
      st['_method'] = sel[-1]
    if 0.12 <= r < 0.3:
      # the value is a reference, written with a spelling of its own: `sel.arg = @ref()`
      rt = rng.choice(targets)
      rsp = one_class(w, symtab, rt, spellings(w, symtab, rt))
      if rsp:
        ref = list(rng.choice(rsp))
        note_class(w, symtab, rt, ref)
        st = {'k': 'bindref', 'sel': sel, 'arg': arg, 'ref': ref, '_target': t, '_reftarget': rt,
              'scope': rng.randrange(len(REFSCOPES)) if rng.random() < 0.5 else 0}
        stmts.append(st)
        continue
    if r > 0.9:
      kind = rng.choice(['outer', 'earlier', 'unbound', 'attr', 'arg'])
      if kind == 'outer':
        cands = [s for s in outer_syms if s not in symtab]
      elif kind == 'earlier':
        cands = [s for s in earlier_syms if s not in symtab]
      elif kind == 'unbound':
        cands = ['zz']
      else:
        cands = []
      if kind in ('outer', 'earlier', 'unbound'):
        if not cands:
          continue
        st.update(sel=[cands[0]] + sel[1:], _expect='NameError', _target=None)
      elif kind == 'attr':
        st.update(sel=sel[:-1] + ['no_such_attr'], _expect='AttributeError', _target=None)
      else:
        st.update(arg='no_such_param', _expect='ValueError')   # registration happens before the parameter check
      stmts.append(st)
      return stmts
    stmts.append(st)
  bindable = lambda o, a: o not in LISTS or ((a in LISTS[o][1]) != (LISTS[o][0] == 'deny'))   # noqa: E731
  mm_path, mm_arg = rng.choice([(['shared'], 'a'), (['shared'], 'a'), (['Worker'], 'n'), (['Worker', 'run'], 'arg')])
  if rng.random() < 0.15 and 'mm' not in symtab and all(
      bindable(name_to_id(m + ':' + '.'.join(mm_path)), mm_arg) for m in ('c19pkg.sub.m2', 'c19pkg.alt.m2')):
    # one selector text used before and after an import that re-binds its first component to another module
    a, b = rng.sample([['c19pkg', 'sub', 'm2'], ['c19pkg', 'alt', 'm2']], 2)
    forms = lambda m: rng.choice([{'k': 'imp', 'module': m, 'from': False, 'alias': 'mm'},   # noqa: E731
                                  {'k': 'imp', 'module': m, 'from': True, 'alias': 'mm'}])
    # ... for a function, a class, or a method of a class (the first use of the spelling in the second half)
    path, arg = mm_path, mm_arg
    ta = name_to_id('.'.join(a) + ':' + '.'.join(path))
    tb = name_to_id('.'.join(b) + ':' + '.'.join(path))
    extra = ({'_class': name_to_id('.'.join(a) + ':Worker'), '_method': 'run'}, {'_class': name_to_id('.'.join(b) + ':Worker'), '_method': 'run'}) \
        if len(path) == 2 else ({}, {})
    if rng.random() < 0.5:
      # the name is bound to the *packages* of the two modules instead: `mm.m2.<path>` is then one spelling, with one
      # dotted position in the package tree, for two objects
      a, b, path = a[:-1], b[:-1], ['m2'] + path
    stmts += [forms(a), dict({'k': 'bind', 'sel': ['mm'] + path, 'arg': arg, 'v': rng.randint(1, 49), '_target': ta}, **extra[0]),
              forms(b), dict({'k': 'bind', 'sel': ['mm'] + path, 'arg': arg, 'v': rng.randint(50, 99), '_target': tb}, **extra[1])]
    for t_, c_ in ((ta, extra[0].get('_class')), (tb, extra[1].get('_class'))):
      if c_ is not None:
        VIA.setdefault(t_, c_)
    symtab['mm'] = mods[tuple(b)]
  if rng.random() < 0.12:
    # a Gin builtin configured in the file: a shared object whose constructor is one of the file's functions (the
    # model does not look at builtins; the text config_str() prints must still name it and parse back)
    fns = [t for t in targets if t not in CLASS_IDS(w)]
    rng.shuffle(fns)
    for t in fns:
      sp = one_class(w, symtab, t, spellings(w, symtab, t))
      if sp and not any(resolve_path(w, symtab, x[:-1]) in CLASS_IDS(w) for x in sp):
        stmts.append({'k': 'raw', 'text': f'shared{rng.randint(1, 2)}/gin.singleton.constructor = @{".".join(rng.choice(sp))}'})
        break
  if rng.random() < 0.25:
    # a scoped reference to a class, written *before* the first statement that configures one of its methods
    for i, st in enumerate(stmts):
      if st.get('k') == 'bind' and st.get('_class') is not None and not st.get('_expect'):
        hosts = [h for h in stmts[:i] if h.get('k') == 'bind' and h.get('_class') is None and not h.get('_expect')
                 and h.get('_target') is not None]
        if hosts:
          h = rng.choice(hosts)
          stmts.insert(i, {'k': 'bindref', 'sel': list(h['sel']), 'arg': h['arg'], 'ref': list(st['sel'][:-1]),
                           '_target': h['_target'], '_reftarget': st['_class'], 'scope': rng.randint(1, len(REFSCOPES) - 1)})
        break
  stmts.append({'_symtab': symtab, 'k': 'nop'})
  return stmts


def any_expect(stmts):
  for s in stmts:
    if s.get('_expect'):
      return True
    if s.get('k') == 'unit' and any_expect(s['body']):
      return True
  return False


# one function reachable under several attribute names of its class (`run = execute` in the class body; a subclass
# inherits all of them): whichever name spells it in the text, it is that one function object that is configured, so
# instances - made through a reference to the class that existed before the method was configured, through one written
# afterwards, or through the registry - run it with the configured value under every one of its attribute names; two
# spellings bound in turn address one configurable (the later value holds).  The package is written for the case (the
# fixed world of the generator has no such class); a finite table on the real code, judged by the oracle alone.
ALIAS_SRC = """
class Job:
  def __init__(self, p=0):
    self.p = p

  def execute(self, arg='default'):
    return ('execute', self.p, arg)

  run = execute   # further attribute names for the same function
  go = execute

  def other(self, z=0):
    return ('other', self.p, z)


class Task(Job):
  pass


def call(v=None):
  return v
"""
ALIAS_CASES = []
for _cls in ('Job', 'Task'):
  for _names in (['run'], ['execute'], ['go'], ['run', 'execute'], ['execute', 'go']):
    for _order in ('ref_first', 'method_first', 'class_first', 'method_only'):
      for _inst in ('ref', 'registry'):
        _i = len(ALIAS_CASES)
        ALIAS_CASES.append({'dom': 'dyn', 'units': [], '_kind': 'methalias', 'cls': _cls, 'names': _names, 'order': _order,
                            'inst': _inst, 'imp': ('from', 'as', 'plain')[_i % 3], 'idx': _i})


def run_alias_case(case):
  import importlib
  import shutil
  import tempfile
  gin = core.fresh_gin()
  root = tempfile.mkdtemp(prefix='c19al-')
  pkg = 'c19alias%d' % case['idx']
  os.makedirs(os.path.join(root, pkg, 'sub'))
  for d in ((pkg,), (pkg, 'sub')):
    open(os.path.join(root, *d, '__init__.py'), 'w').close()
  with open(os.path.join(root, pkg, 'sub', 'al.py'), 'w') as f:
    f.write(ALIAS_SRC)
  line, nm = {'from': ('from %s.sub import al' % pkg, 'al'), 'as': ('import %s.sub.al as xx' % pkg, 'xx'),
              'plain': ('import %s.sub.al' % pkg, pkg + '.sub.al')}[case['imp']]
  cls = case['cls']
  ref = '%s.call.v = @%s.%s()' % (nm, nm, cls)
  meth = ['%s.%s.%s.arg = %d' % (nm, cls, a, 10 + i) for i, a in enumerate(case['names'])]
  body = {'ref_first': [ref] + meth, 'method_first': meth + [ref], 'class_first': ['%s.%s.p = 7' % (nm, cls)] + meth + [ref],
          'method_only': meth + ([ref] if case['inst'] == 'ref' else [])}[case['order']]
  text = '\n'.join(['from __gin__ import dynamic_registration', line] + body) + '\n'
  facts = {'text': text, 'want': 10 + len(case['names']) - 1, 'want_p': 7 if case['order'] == 'class_first' else 0}
  saved_path = list(sys.path)
  sys.path.insert(0, root)
  try:
    try:
      gin.parse_config(text)
      mod = importlib.import_module(pkg + '.sub.al')
      facts['one_function'] = mod.Job.run is mod.Job.execute is mod.Job.go is mod.Task.run
      obj = gin.get_configurable(mod.call)() if case['inst'] == 'ref' else gin.get_configurable(getattr(mod, cls))()
      facts['is_instance'] = type(obj) is getattr(mod, cls) or isinstance(obj, getattr(mod, cls))
      facts['p'] = obj.p
      facts['got'] = {a: getattr(obj, a)()[2] for a in ('execute', 'go', 'run')}
      facts['other'] = obj.other()[2]
    except Exception as e:  # pylint: disable=broad-except
      facts['err'] = '%s: %s' % (type(e).__name__, (str(e).splitlines() or [''])[0])
  finally:
    sys.path[:] = saved_path
    for m in [m for m in sys.modules if m == pkg or m.startswith(pkg + '.')]:
      del sys.modules[m]
    shutil.rmtree(root, ignore_errors=True)
  return {'err': None, 'bindings': [], 'facts': facts}


def alias_oracle(case, f):
  what = (f'{case["cls"]}.execute is also {case["cls"]}.run and {case["cls"]}.go (one function); configured as '
          f'{case["names"]} ({case["order"]}, {case["imp"]} import), instance made through the {case["inst"]}')
  if 'err' in f:
    return f'{what}: {f["err"]}\n{f["text"]}'
  if not f.get('one_function') or not f.get('is_instance'):
    return f'harness: {what}: {f}'
  if f['got'] != {a: f['want'] for a in ('execute', 'go', 'run')}:
    return (f'{what}: calling it on the instance under its attribute names gives {f["got"]}, the configured value is '
            f'{f["want"]} whatever the name\n{f["text"]}')
  if f['p'] != f['want_p'] or f['other'] != 0:
    return f'{what}: the instance has p={f["p"]} (expected {f["want_p"]}), other() ran with z={f["other"]} (not configured)'
  return None


def gen_cases(rng, tier, boost=1):
  w, _ = get_world()
  params = dict((k, v) for k, v in w['params'])
  for _ in range((500 if tier == 'quick' else 20000) * boost):
    units, earlier = [], {}
    VIA.clear()
    LISTS.clear()
    prereg = None
    if rng.random() < 0.4:
      # some functions and classes (nested ones too) were registered from Python before any file is parsed:
      # nothing about names or bindings changes, and the config string still spells them by attribute path
      mods = {i for _, i in w['modules']}
      attrs = dict((k, dict(v)) for k, v in w['attrs'])
      classes = CLASS_IDS(w)
      direct = set()
      for m in mods:
        direct |= set(attrs.get(m, {}).values())
      objs_ = get_world()[1]
      # (a decorated variant carries the name and module of what it wraps: registered from Python by its own name it
      # would claim the same selector, which is not what this generator is about)
      elig = sorted(o for o in ((direct - mods) | {c for c in classes}) if not hasattr(objs_[o], '__wrapped__'))
      prereg = rng.sample(elig, rng.randint(1, min(3, len(elig))))
      inner = name_to_id('c19pkg.m1:Cls.Inner')
      if rng.random() < 0.6 and inner not in prereg:
        prereg.append(inner)   # a class nested in a class: its printed name is its attribute path
      if rng.random() < 0.5:
        # ... some of them with an allow or deny list, which dynamic registration must keep honouring
        for o in prereg:
          ps = params.get(o) or []
          if ps and rng.random() < 0.7:
            kind = rng.choice(['deny', 'deny', 'allow'])
            names = rng.sample(ps, rng.randint(1, max(1, len(ps) - 1)))
            LISTS[o] = (kind, sorted(names))
    if rng.random() < 0.06 and not LISTS:
      # one file's alias is the real name of a sibling module that the next file imports: `m2.shared` is
      # `c19pkg.sub.m3.shared` in the first file and `c19pkg.sub.m2.shared` in the second
      enable = {'k': 'imp', 'module': ['__gin__', 'dynamic_registration'], 'from': True, 'alias': None}
      first, second = rng.sample(['m2', 'm3'], 2)
      units = [[enable, {'k': 'imp', 'module': ['c19pkg', 'sub', first], 'from': rng.random() < 0.5, 'alias': second},
                {'k': 'bind', 'sel': [second, 'shared'], 'arg': 'a', 'v': rng.randint(1, 49),
                 '_target': name_to_id(f'c19pkg.sub.{first}:shared')}, {'k': 'nop', '_symtab': {}}],
               [enable, {'k': 'imp', 'module': ['c19pkg', 'sub', second], 'from': True, 'alias': None},
                {'k': 'bind', 'sel': [second, 'shared'], 'arg': 'a', 'v': rng.randint(50, 99),
                 '_target': name_to_id(f'c19pkg.sub.{second}:shared')}, {'k': 'nop', '_symtab': {}}]]
      case = {'dom': 'dyn', 'units': units}
      if prereg is not None:
        case['_prereg'] = prereg
      yield case
      continue
    for _u in range(rng.randint(1, 2)):
      body = gen_file(rng, w, 0, {}, earlier)
      units.append(body)
      for s in body:
        if s.get('k') == 'nop':
          earlier = dict(earlier, **s['_symtab'])
      if any_expect(body):
        break
    case = {'dom': 'dyn', 'units': units}
    if prereg is not None:
      if rng.random() < 0.8 and not any(any_expect(u) for u in units):
        # bindings made from Python after the files were parsed, on configurables no file needs to have imported:
        # config_str() has to import their modules itself, under names that do not depend on the order of these calls
        twins = [name_to_id('c19pkg.sub.m2:shared'), name_to_id('c19pkg.alt.m2:shared')]
        if rng.random() < 0.6:
          prereg += [t for t in twins if t not in prereg]
        cands = [o for o in prereg if o not in CLASS_IDS(w) or True]
        prog = []
        for o in rng.sample(cands, min(len(cands), rng.randint(2, 4))):
          ps = [a for a in (params.get(o) or []) if o not in LISTS or ((a in LISTS[o][1]) != (LISTS[o][0] == 'deny'))]
          if ps:
            prog.append([o, rng.choice(ps), rng.randint(100, 199)])
        if prog:
          case['_prog'] = prog
      case['_prereg'] = prereg
      if LISTS:
        case['_prereg_lists'] = {str(o): list(v) for o, v in LISTS.items()}
    yield case
  # (the table comes last: other properties' checks draw from the head of this stream)
  yield from ALIAS_CASES


# scopes a reference may be written under (`@scope/ref()`); the model keeps the index
REFSCOPES = ['', 's1', 's1/s2', 'sx']


def render(stmts, tmp, counter):
  lines = []
  for s in stmts:
    if s['k'] == 'imp':
      mod = s['module']
      if s['from']:
        line = f'from {".".join(mod[:-1])} import {mod[-1]}'
      else:
        line = f'import {".".join(mod)}'
      if s['alias']:
        line += f' as {s["alias"]}'
      lines.append(line)
    elif s['k'] == 'raw':
      lines.append(s['text'])
    elif s['k'] == 'block':
      lines.append(f'{".".join(s["sel"])}:')
    elif s['k'] == 'bind':
      key = f'  {s["arg"]}' if s.get('_inblock') else f'{".".join(s["sel"])}.{s["arg"]}'
      lines.append(f'{key} = {s["v"]}')
    elif s['k'] == 'bindref':
      sc = REFSCOPES[s.get('scope', 0)]
      key = f'  {s["arg"]}' if s.get('_inblock') else f'{".".join(s["sel"])}.{s["arg"]}'
      lines.append(f'{key} = @{sc + "/" if sc else ""}{".".join(s["ref"])}()')
    elif s['k'] == 'unit':
      counter[0] += 1
      path = os.path.join(tmp, f'inc{counter[0]}.gin')
      body = render(s['body'], tmp, counter)
      with open(path, 'w') as f:
        f.write(body)
      counter.append(f'# {os.path.basename(path)}:\n' + body)
      lines.append(f"include '{path}'")
  return '\n'.join(lines) + '\n'


def observe(gin, objs):
  cfgmod = gin.config
  rows = []
  for i, o in enumerate(objs):
    c = cfgmod._inverse_lookup(o)  # pylint: disable=protected-access
    if c is None:
      continue
    b = cfgmod._CONFIG.get(('', c.selector), {})  # pylint: disable=protected-access
    if b:
      ids = {id(x): k for k, x in enumerate(objs)}

      def enc(v):
        if isinstance(v, cfgmod._UnknownConfigurableReference):  # pylint: disable=protected-access
          return -9000
        if isinstance(v, cfgmod.ConfigurableReference):   # a reference is observed as the object it denotes
          sc = '/'.join(v.scopes)
          return -(1000 + 1000 * (REFSCOPES.index(sc) if sc in REFSCOPES else 99) + ids.get(id(v.configurable.wrapped), 10 ** 6))
        return v
      rows.append([i, sorted([k, enc(v)] for k, v in b.items())])
  return sorted(rows)


def skip_kw(case):
  sk = case.get('skip') or {'k': 'no'}
  if sk['k'] == 'all':
    return {'skip_unknown': True}
  if sk['k'] == 'names':
    names = ['.'.join(n) for n in sk['v']]
    return {'skip_unknown': {'list': list, 'tuple': tuple, 'set': set}[sk.get('_type', 'list')](names)}
  return {}


def run_impl(case):
  if case.get('_kind') == 'methalias':
    return run_alias_case(case)
  norm_case(case)
  res = _run_once(case, False)
  if len(case.get('_prog') or []) >= 2 and res.get('err') is None:
    res['config_str_rev'] = _run_once(case, True).get('config_str')   # the same bindings, made in the opposite order
  return res


def _stmt_json(st):
  return {'k': 'imp', 'module': st.module.split('.'), 'from': bool(st.is_from), 'alias': st.alias}


def _requirements(gin):
  """[selector, import statement] for every configurable config_str() has to be able to name (any order)"""
  cfgmod = gin.config
  need = [cfgmod._REGISTRY[sel] for _, sel in cfgmod._CONFIG]  # pylint: disable=protected-access
  need += [r.configurable for r in cfgmod.iterate_references(cfgmod._CONFIG)]  # pylint: disable=protected-access
  out = []
  for c in need:
    if c.wrapped == cfgmod.macro:
      continue
    if c.import_source:
      st = _stmt_json(c.import_source[0])
    else:
      mod = c.wrapped.__module__
      st = {'k': 'imp', 'module': mod.split('.'), 'from': '.' in mod, 'alias': None}
    out.append([c.selector.split('.'), st])
  return out


def _text_imports(text):
  out = []
  for line in text.split('\n'):
    w = line.split()
    if len(w) >= 2 and w[0] == 'import':
      out.append([w[1].split('.'), False, w[3] if len(w) == 4 and w[2] == 'as' else None])
    elif len(w) >= 4 and w[0] == 'from' and w[2] == 'import':
      out.append([w[1].split('.') + [w[3]], True, w[5] if len(w) == 6 and w[4] == 'as' else None])
  return out


def _run_once(case, reverse_prog):
  gin = core.fresh_gin()
  w, objs = get_world()
  tmp = tempfile.mkdtemp(prefix='c19-')
  texts, err, err_msg = [], None, None
  lists = case.get('_prereg_lists') or {}
  for i in case.get('_prereg', []):
    kind, names = lists.get(str(i), (None, None))
    gin.register(objs[i], **({'denylist': list(names)} if kind == 'deny' else {'allowlist': list(names)} if kind == 'allow' else {}))
  try:
    counter = [0]
    for u in case['units']:
      text = render(u, tmp, counter)
      texts.append(text)
      # what the configuration holds so far has been used once before the next file is parsed (a reference builds
      # its scoped callable then): a later re-registration must still reach it
      for params in list(gin.config._CONFIG.values()):  # pylint: disable=protected-access
        for v in list(params.values()):
          if isinstance(v, gin.config.ConfigurableReference):
            try:
              v.scoped_configurable_fn  # pylint: disable=pointless-statement
            except Exception:  # pylint: disable=broad-except
              pass
      try:
        gin.parse_config(text, **skip_kw(case))
      except Exception as e:  # pylint: disable=broad-except
        err_msg = str(e)[:300]
        for cls in (SyntaxError, ImportError, NameError, AttributeError, ValueError):
          if isinstance(e, cls):
            err = cls.__name__
            break
        else:
          err = type(e).__name__
        break
    if err is None:
      prog = list(case.get('_prog') or [])
      for o, a, v in (prog[::-1] if reverse_prog else prog):
        gin.bind_parameter(f'{gin.config._inverse_lookup(objs[o]).selector}.{a}', v)  # pylint: disable=protected-access
    res = {'err': err, 'err_msg': err_msg, 'bindings': observe(gin, objs), 'texts': texts + counter[1:]}
    if err is None:
      bare = []

      def walk(stmts):
        for st in stmts:
          if st.get('k') == 'unit':
            walk(st['body'])
          elif st.get('k') == 'bind' and st.get('_method') and not st.get('_expect'):
            bare.append((st['_method'], st['arg']))
      for u in case['units']:
        walk(u)
      accepted = []
      for meth, arg in sorted(set(bare)):
        before = {k: dict(v) for k, v in gin.config._CONFIG.items()}  # pylint: disable=protected-access
        for key in (f'{meth}.{arg}', ('', meth, arg), f'some/scope/{meth}.{arg}'):
          try:
            gin.bind_parameter(key, 12345)
            accepted.append(str(key))
          except Exception:  # pylint: disable=broad-except
            pass
        if {k: dict(v) for k, v in gin.config._CONFIG.items()} != before:  # pylint: disable=protected-access
          accepted.append('store changed')
          gin.config._CONFIG.clear()  # pylint: disable=protected-access
          gin.config._CONFIG.update(before)  # pylint: disable=protected-access
      res['bare_method_accepted'] = accepted
    effects = []
    if err is None:
      for ci in sorted(CLASS_IDS(w)):
        cls = objs[ci]
        if gin.config._inverse_lookup(cls) is None:  # pylint: disable=protected-access
          continue
        try:
          inst = gin.get_configurable(cls)()
        except Exception as e:  # pylint: disable=broad-except
          effects.append([ci, '__init__', f'{type(e).__name__}'])
          continue
        for n, fid in dict(w['attrs'])[ci]:
          if isinstance(objs[fid], types.FunctionType):
            try:
              out = getattr(inst, n)()
              effects.append([ci, n, out[-1] if isinstance(out[-1], int) else 'obj'])
            except Exception as e:  # pylint: disable=broad-except
              effects.append([ci, n, f'{type(e).__name__}'])
    res['effects'] = effects
    # ... and instances built through the references the configuration itself holds (scoped ones included): a
    # reference written before a method of its class was configured keeps working
    ref_effects = []
    if err is None:
      for params in list(gin.config._CONFIG.values()):  # pylint: disable=protected-access
        for v in list(params.values()):
          if not isinstance(v, gin.config.ConfigurableReference):
            continue
          cls = v.configurable.wrapped
          if not isinstance(cls, type) or id(cls) not in {id(o) for o in objs}:
            continue
          ci = next(i for i, o in enumerate(objs) if o is cls)
          try:
            inst = v.scoped_configurable_fn()
          except Exception as e:  # pylint: disable=broad-except
            ref_effects.append([ci, '__init__', f'{type(e).__name__}', '/'.join(v.scopes)])
            continue
          for n, fid in dict(w['attrs'])[ci]:
            if isinstance(objs[fid], types.FunctionType):
              try:
                out = getattr(inst, n)()
                ref_effects.append([ci, n, out[-1] if isinstance(out[-1], int) else 'obj', '/'.join(v.scopes)])
              except Exception as e:  # pylint: disable=broad-except
                ref_effects.append([ci, n, f'{type(e).__name__}', '/'.join(v.scopes)])
    res['ref_effects'] = ref_effects
    # the import manager config_str() would build from the imports recorded so far
    imps = gin.config._IMPORTS  # pylint: disable=protected-access
    order = list(imps)   # any order: the model sorts
    res['imlist'] = [{'k': 'imp', 'module': st.module.split('.'), 'from': bool(st.is_from), 'alias': st.alias} for st in order]
    im = gin.config.ImportManager(imps)
    res['im'] = {'imports': [[st.module.split('.'), bool(st.is_from), st.alias] for st in im.imports],
                 'selectors': [[m.split('.'), sel.split('.')] for m, sel in im.module_selectors.items()]}
    names = [st.bound_name() for st in im.imports]
    res['im_names_distinct'] = len(set(names)) == len(names)
    keys = sorted(f'{s}|{sel}' for (s, sel) in gin.config._CONFIG)  # pylint: disable=protected-access
    res['store_keys'] = keys
    if err is None and case.get('_prog') and not reverse_prog:
      try:
        called = []
        for o, a, v in case['_prog']:
          if isinstance(objs[o], types.FunctionType) and not isinstance(objs[o], type):
            try:
              out = gin.get_configurable(objs[o])()
              called.append([o, a, out[-1] if isinstance(out, tuple) and len(out) == 2 else None])
            except Exception:  # pylint: disable=broad-except
              pass
        if called:
          optext = gin.operative_config_str()
          saved = {k: dict(v) for k, v in gin.config._CONFIG.items()}  # pylint: disable=protected-access
          g2 = core.fresh_gin()
          for i in case.get('_prereg', []):
            kind, names = (case.get('_prereg_lists') or {}).get(str(i), (None, None))
            g2.register(objs[i], **({'denylist': list(names)} if kind == 'deny' else {'allowlist': list(names)} if kind == 'allow' else {}))
          try:
            g2.parse_config(optext)
            res['operative_replays'] = True
          except Exception as e:  # pylint: disable=broad-except
            res['operative_replays'] = f'{type(e).__name__}: {e}'[:300] + '\n' + optext
          del saved
      except Exception as e:  # pylint: disable=broad-except
        res['operative_replays'] = f'operative_config_str: {type(e).__name__}: {e}'[:300]
    if err is None:
      try:
        res['reqs'] = _requirements(gin)
        text = gin.config_str()
        res['config_str'] = text
        res['text_imports'] = _text_imports(text)
        gin.clear_config()
        gin.parse_config(text)
        res['roundtrip'] = observe(gin, objs)
      except Exception as e:  # pylint: disable=broad-except
        res['roundtrip'] = f'{type(e).__name__}: {e}'[:300]
    return res
  finally:
    shutil.rmtree(tmp, ignore_errors=True)


def _strip(stmts):
  out = []
  for s in stmts:
    if s['k'] in ('nop', 'raw'):
      continue
    d = {k: v for k, v in s.items() if not k.startswith('_')}
    if s['k'] == 'unit':
      d['body'] = _strip(s['body'])
    out.append(d)
  return out


def to_driver(case, impl):
  norm_case(case)
  w, _ = get_world()
  lists = case.get('_prereg_lists') or {}
  if lists:
    # the parameters a binding may name: the signature's, minus what the registration's lists exclude
    w = dict(w, params=[[o, [p for p in ps if str(o) not in lists or ((p in lists[str(o)][1]) != (lists[str(o)][0] == 'deny'))]]
                        for o, ps in w['params']])
  return {'dom': 'dyn', 'world': w, 'units': [_strip(u) for u in case['units']], 'imlist': impl.get('imlist', []), 'reqs': impl.get('reqs', []),
          'prog': case.get('_prog') or [],
          'skip': {k: v for k, v in (case.get('skip') or {'k': 'no'}).items() if not k.startswith('_')}}


def _canon_model(model):
  return sorted([o, sorted([a, v] for a, v in kv)] for o, kv in model['bindings'] if kv)


def compare(case, impl, model):
  if case.get('_kind') == 'methalias':
    return None
  if 'bindings' not in model:
    return f'driver error: {model}'
  if impl['err'] != model['err']:
    return f'outcome: implementation {impl["err"]}, model {model["err"]}'
  if impl['bindings'] != _canon_model(model):
    return f'per-object bindings: implementation {impl["bindings"]}, model {_canon_model(model)}'
  if 'im' in impl and model.get('im') != impl['im']:
    return f'import manager: implementation {impl["im"]}, model {model.get("im")}'
  if impl.get('text_imports') is not None and impl.get('imlist') and isinstance(model.get('im_req'), dict):
    # the import lines config_str() printed = the model's manager after serving the requirements in selector order
    want = sorted(model['im_req']['imports'], key=lambda i: (i[0][0] != '__gin__', '.'.join(i[0])))
    if impl['text_imports'] != want:
      return f'import lines of config_str(): {impl["text_imports"]}, model {want}'
  return None


def intended(case):
  """What the generator meant: bindings per target object up to the first malformed statement."""
  b, err = {}, [None]

  def walk(stmts):
    for s in stmts:
      if err[0]:
        return
      if s.get('_expect'):
        err[0] = s['_expect']
        return
      if s.get('_skipped'):
        continue    # an unknown target that skip_unknown covers: deleted
      if s['k'] == 'bind':
        b.setdefault(s['_target'], {})[s['arg']] = s['v']
      elif s['k'] == 'bindref':
        b.setdefault(s['_target'], {})[s['arg']] = (-9000 if s.get('_placeholder') else
                                                     -(1000 + 1000 * s.get('scope', 0) + s['_reftarget']))
      elif s['k'] == 'unit':
        walk(s['body'])
  for u in case['units']:
    walk(u)
    if err[0]:
      break
  if not err[0]:
    for o, a, v in case.get('_prog') or []:
      b.setdefault(o, {})[a] = v
  return sorted([o, sorted([a, v] for a, v in kv.items())] for o, kv in b.items()), err[0]


def oracle(case, impl):
  if case.get('_kind') == 'methalias':
    return alias_oracle(case, impl['facts'])
  norm_case(case)
  want, err = intended(case)
  if impl['err'] != err:
    return f'expected outcome {err}, implementation gave {impl["err"]}'
  if impl['bindings'] != want:
    return (f'bindings do not sit on the objects the spellings denote: expected {want}, '
            f'registered configurables hold {impl["bindings"]} (store keys {impl["store_keys"]})')
  why = method_effects(case, impl)
  if why:
    return why
  if impl.get('bare_method_accepted'):
    return (f'a method configured through its class is addressable without the class name afterwards: '
            f'bind_parameter accepted {impl["bare_method_accepted"]}')
  if impl.get('operative_replays') not in (None, True):
    return f'the operative text after calling the functions bound from Python does not parse in a fresh process: {impl["operative_replays"]}'
  if 'config_str_rev' in impl and impl.get('config_str') != impl['config_str_rev']:
    return ('config_str() depends on the order in which the bindings were made (same calls, opposite order):\n'
            f'{impl.get("config_str")}\n--- versus ---\n{impl["config_str_rev"]}')
  if impl.get('im_names_distinct') is False:
    return f'the import manager binds one name twice: {impl["im"]["imports"]}'
  def representable(rows):   # a placeholder for an unknown reference has no literal form: the text omits it
    if not isinstance(rows, list):
      return rows
    out = [[o, [kv for kv in kvs if kv[1] != -9000]] for o, kvs in rows]
    return [r for r in out if r[1]]
  if err is None and impl.get('roundtrip') != representable(impl['bindings']):
    return f'config_str() parsed back gives {impl.get("roundtrip")}, before {impl["bindings"]}:\n{impl.get("config_str")}'
  return None


def method_effects(case, impl):
  """A method configured through a class: instances of that class built through the registry run the method
  with the configured value (judged only when every binding of that method went through that one class)."""
  if impl['err'] is not None:
    return None
  per_fn, last = {}, {}

  def walk(stmts):
    for s in stmts:
      if s['k'] == 'unit':
        walk(s['body'])
      elif s['k'] in ('bind', 'bindref') and s.get('_target') is not None and not s.get('_expect'):
        per_fn.setdefault(s['_target'], set()).add(s.get('_class'))
        if s['k'] == 'bind' and s.get('_class') is not None:
          last[(s['_class'], s['_method'], s['_target'], s['arg'])] = s['v']
        elif s.get('_class') is not None:
          last.pop((s['_class'], s['_method'], s['_target'], s['arg']), None)
  for u in case['units']:
    walk(u)
  eff = {(c, n): v for c, n, v in impl.get('effects', [])}
  params = dict(get_world()[0]['params'])
  for (c, n, f, arg), v in last.items():
    if per_fn.get(f) != {c} or len(params.get(f, [])) != 1:
      continue
    if (c, '__init__') in eff:
      continue   # the instance could not be built (a generated reference value that makes no sense as an argument)
    got = eff.get((c, n))
    if got != v:
      return (f'method {n} configured through class {c} with {arg} = {v}: an instance of that class built through the '
              f'registry ran it with {got}')
    bad_init = {(c2, sc) for c2, n2, _, sc in impl.get('ref_effects', []) if n2 == '__init__'}
    for c2, n2, got2, sc in impl.get('ref_effects', []):
      if (c2, n2) == (c, n) and (c2, sc) not in bad_init and got2 != v:
        return (f'method {n} configured through class {c} with {arg} = {v}: an instance built through the reference '
                f'@{sc + "/" if sc else ""}<class {c}> held by the configuration ran it with {got2}')
  return None


def nontrivial(case, impl):
  if case.get('_kind') == 'methalias':
    return True
  flat = []

  def walk(stmts, inc):
    for s in stmts:
      if s['k'] == 'unit':
        flat.append(('inc', None))
        walk(s['body'], True)
      elif s['k'] in ('bind', 'bindref'):
        flat.append(('bind', (s.get('_target'), tuple(s['sel']))))
      if s.get('_expect'):
        flat.append(('bad', None))
  for u in case['units']:
    walk(u, False)
  if any(k in ('inc', 'bad') for k, _ in flat):
    return True
  by = {}
  for k, v in flat:
    if k == 'bind':
      by.setdefault(v[0], set()).add(v[1])
  return any(len(v) > 1 for v in by.values())


def tally(stats, case, impl):
  if case.get('_kind') == 'methalias':
    stats['methalias'] = stats.get('methalias', 0) + 1
    return
  k = 'outcome:' + str(impl['err'])
  stats[k] = stats.get(k, 0) + 1
  stats['units'] = stats.get('units', 0) + len(case['units'])

  def walk(stmts):
    for s in stmts:
      kk = 'stmt:' + s['k']
      if s['k'] != 'nop':
        stats[kk] = stats.get(kk, 0) + 1
      if s['k'] == 'unit':
        walk(s['body'])
  for u in case['units']:
    walk(u)


def shrink(case):
  for ui, u in enumerate(case['units']):
    for k in range(len(u) - 1, 0, -1):
      if u[k]['k'] in ('bind', 'bindref', 'unit'):
        yield dict(case, units=case['units'][:ui] + [u[:k] + u[k + 1:]] + case['units'][ui + 1:])
  if len(case['units']) > 1:
    yield dict(case, units=case['units'][:-1])


def _d19_classes(case):
  """Classes whose methods are configured and that (with their methods) are spelled through two different class
  paths (per file): the history of D19."""
  w, _ = get_world()
  attrs = dict((k, dict(v)) for k, v in w['attrs'])
  classes = {}   # class id -> ids of its function attributes
  mod_ids = {i for _, i in w['modules']}
  for o, names in attrs.items():
    if o in mod_ids or not names:
      continue
    classes[o] = set(names.values())
  seen = {}      # class id -> set of (file, spelled class path), has_method_binding

  def walk(stmts, fid):
    for s in stmts:
      if s['k'] == 'unit':
        fid[0] += 1
        sub = [fid[0]]
        walk(s['body'], sub)
        fid[0] = sub[0]
      elif s['k'] == 'bind' and s.get('_target') is not None:
        t = s['_target']
        for cls, members in classes.items():
          if t == cls:
            seen.setdefault(cls, [set(), False])[0].add((fid[0], tuple(s['sel'])))
          elif t in members and t in dict(w['params']) and t not in classes:
            ent = seen.setdefault(cls, [set(), False])
            ent[0].add((fid[0], tuple(s['sel'][:-1])))
            ent[1] = True
  fid = [0]
  for u in case['units']:
    fid[0] += 1
    walk(u, fid)
  out = set()
  for cls, (paths, has_m) in seen.items():
    if has_m and len(paths) >= 2:
      out.add(cls)
      out |= classes[cls]
  return out


def classify(case, impl, model, why_oracle, why_model, findings):
  """D19: a class (or its methods) configured through two different spellings of the class, one of them for a method:
  the class is re-registered under the later spelling (earlier bindings orphaned) or the registration is refused."""
  if case.get('_kind') == 'methalias':
    return None
  for f in findings:
    if f['id'] != 'D19':
      continue
    affected = _d19_classes(case)
    if not affected:
      return None
    want, err = intended(case)
    if impl['err'] == 'ValueError' and 'was registered with a custom module' in (impl.get('err_msg') or ''):
      return 'D19'
    if impl['err'] == err:
      a, b = dict((o, kv) for o, kv in want), dict((o, kv) for o, kv in impl['bindings'])
      diff = {o for o in set(a) | set(b) if a.get(o) != b.get(o)}
      rt = impl.get('roundtrip')
      if diff and diff <= affected:
        return 'D19'
      if not diff and isinstance(rt, (list, str)) and rt != impl['bindings']:
        return 'D19'
  return None
