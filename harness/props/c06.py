"""C06 — the config string round-trips, is canonical and always parses."""
import ast
import re

import gen_gin as G
import gindom
import refmodel


def to_driver(case, impl):
  if case.get('dom') == 'dyn':
    from props import c19
    return c19.to_driver(case, impl)
  return gindom.to_driver(case, impl)
from encode import encode

ID = 'C06'
DOMAIN = 'gin/serialize'
PROPS_FILES = ['Gin/Props/C06.lean', 'Gin/Props/C06b.lean', 'Gin/Props/C06c.lean', 'Gin/Props/C06d.lean', 'Gin/Props/C06e.lean']
ANCHOR_FILES = ['config.py', 'config_parser.py', 'selector_map.py']
RULE = ('3-5 registered probes with case-colliding and suffix-sharing names (incl. a class with a registered method), 3-12 '
        'bindings reached by programmatic binding and by parsing (nested values, long strings and bytes that pprint '
        'splits, references, macros with case-colliding names, scoped names with case-colliding scopes, values without '
        'literal form: objects, sets, inf, complex, unknown-reference placeholders - also as macro values), 0-4 import '
        'statements of standard-library modules in every form and alias shape, in a third of the cases one probe registered '
        'only after the bindings and after a first config_str() call, in a third references written with a partial dotted name '
        'that a later registration takes over as its complete name (each binding with a literal form is restored), applied in '
        'two random orders, serialised with (max_line_length, continuation_indent) drawn from {(80,4),(40,4),(20,2),'
        '(10,0),(5,4)...}; the text is compared structurally with the mirror and the real code is used as its own '
        'oracle: same text for both orders, clear + parse restores every representable binding (value and type) and the '
        'recorded imports, second '
        'serialisation identical, wrap rule per binding, markdown keeps binding lines. non-trivial = at least 2 sections '
        'and a value that wraps or an unrepresentable value; distinct = canonical case')
TRUSTED_BASE = ['Lean 4.33 kernel', 'axioms ⊆ {propext, Classical.choice, Quot.sound}', 'JSON glue (Gin/Drv)',
                'harness gindom.py (line-based reader of the config text) / props/c06.py',
                'repr / pprint.pformat of values is CPython\'s; only the structure (sections, selectors, order, which '
                'values are printed) is modelled']
ASSUMPTIONS = ['the structural mirror (emitDoc) is for static registration; under dynamic registration the object-graph mirror and the round-trip oracle of C19 are used', 'identifiers ASCII (str.lower)']
EXPLANATION = ('Lean theorems about emitDoc: round trip for every configuration reachable by binding (roundtrip_reachable: '
               're-binding the printed lines under their printed names into the cleared store restores exactly the '
               'representable bindings), only representable values are printed, macro/constant sections, sorted '
               'insertion is order-insensitive for a total order) + structural comparison of config_str() with the '
               'mirror + the round-trip / permutation / idempotence / wrap / markdown oracles executed on the real code.')

WIDTHS = [(80, 4), (80, 4), (40, 4), (20, 2), (10, 1), (5, 4), (30, 29), (120, 8)]


def gen_value(rng):
  r = rng.random()
  if r < 0.12:
    return {'s': rng.choice(['x' * 90, 'word ' * 30, 'a\nb\n' * 12])}
  if r < 0.18:
    return {'b': '61' * 70}
  if r < 0.3:
    return {'l': [{'s': 'item %d ' % i * 3} for i in range(rng.randint(4, 12))]}
  if r < 0.38:
    return rng.choice([{'o': 7}, {'o': 3}, {'o': 21}, {'o': 22}, {'set': [1, 2]}, {'f': 'inf', 'fin': False}, {'c': '(1+2j)'},
                       {'l': [1, {'o': 8}]}, {'f': 'nan', 'fin': False},
                       # the placeholder skip_unknown leaves for a reference to an unregistered configurable: no literal form
                       {'unk': ['zz.nope', True]}, {'l': [1, {'unk': ['zz.q', False]}]}, {'d': [[{'s': 'k'}, {'unk': ['nope', True]}]]}])
  return G.gen_value(rng, 0)


def gen_case(rng):
  regs = G.gen_registry(rng, rng.randint(2, 3))
  # case-colliding names: Foo / foo in one module, A/f vs a/f as scopes
  base = regs[0]
  twin = dict(base, name=base['name'].upper(), obj=len(regs), _selector=base['module'] + '.' + base['name'].upper(),
              _pyname=base['name'].upper())
  regs.append(twin)
  ops = list(regs)
  if rng.random() < 0.3:
    mop, cop = G.gen_class_with_method(rng, 40, module=rng.choice(['m', 'k']))
    ops += [mop, cop]
    regs_b = regs + [mop]
    if rng.random() < 0.5:
      # the same class and method names in the other module: 'Class.method' alone is ambiguous
      import copy
      om = 'k' if mop['module'] == 'm' else 'm'
      mop2, cop2 = copy.deepcopy(mop), copy.deepcopy(cop)
      mop2.update(module=om, obj=60, _selector=f"{om}.{cop['name']}.{mop['name']}")
      cop2.update(module=om, obj=61, methods=[f"{om}.{mop['name']}"], _method_ops=[mop2], _pymodule=om,
                  _selector=f"{om}.{cop['name']}")
      ops += [mop2, cop2]
      regs_b = regs_b + [mop2]
  else:
    regs_b = regs
  scopes = ['', 'a', 'A', 'a/b', 'a/B', 'b']
  binds = []
  # a configurable registered only after the bindings were made (and after config_str() was called once):
  # the names the second config_str() prints must be minimal for the registry as it is then
  late = rng.choice(regs) if rng.random() < 0.35 else None
  if late is not None:
    regs_b = [r for r in regs_b if r is not late]
    regs = [r for r in regs if r is not late]
    ops = [o for o in ops if o is not late]
  known = [r['_selector'] for r in regs]
  for _ in range(rng.randint(3, 12)):
    r = rng.random()
    if r < 0.2:
      name = rng.choice(['m', 'M', 'lr', 'a/m'])
      val = gen_value(rng) if rng.random() < 0.8 else {'ref': [[], rng.choice(known), True]}
      form = 'macro_key' if not G_repr(val) else rng.choice(['macro_text', 'macro_key'])
      binds.append({'op': 'bind', 'scope': name, 'sel': 'gin.macro', 'arg': 'value', 'val': val, '_form': form, 'block': False})
      continue
    reg = rng.choice(regs_b)
    cls = [n for n, k in G.param_classes(reg).items() if k == 'valid']
    if not cls:
      continue
    rr = rng.random()
    if rr < 0.15:
      val = {'ref': [rng.choice([[], ['a']]), rng.choice(known), rng.random() < 0.5]}
      if rng.random() < 0.25:   # the macro configurable itself, referenced without being evaluated
        val = {'ref': [[rng.choice(['m', 'lr'])], 'gin.macro', False]}
        if rng.random() < 0.5:
          val = {'l': [val, {'macro': 'm'}]}
    elif rr < 0.22:
      val = {'macro': rng.choice(['m', 'M', 'lr'])}
    else:
      val = gen_value(rng)
    form = rng.choice(['tuple', 'str', 'text']) if G_repr(val) else rng.choice(['tuple', 'str'])
    binds.append({'op': 'bind', 'scope': rng.choice(scopes), 'sel': reg['_selector'], 'arg': rng.choice(cls), 'val': val,
                  '_form': form, 'block': False})
  # a reference written with a partial, module-qualified name (`@n.f` for `m.n.f`) that a LATER registration turns into
  # the complete name of another configurable (`f` of module `n`): the binding names its original target all the same
  lates2 = []
  if rng.random() < 0.3:
    every = [o['_selector'] for o in ops if o.get('op') == 'register'] + ([late['_selector']] if late is not None else []) \
        + ['gin.macro', 'gin.constant', 'gin.singleton']
    cands = []
    for reg in regs:
      parts = reg['_selector'].split('.')
      for k in range(2, len(parts)):
        sp = '.'.join(parts[-k:])
        if refmodel.suffix_matches(every, sp) == [reg['_selector']]:
          cands.append((reg, sp))
    if cands:
      tgt, sp = rng.choice(cands)
      for _ in range(rng.randint(1, 3)):
        ref = {'ref': [rng.choice([[], [], ['a'], ['a', 'B']]), tgt['_selector'], rng.random() < 0.4], '_spelled': sp}
        r = rng.random()
        val = ref if r < 0.6 else ({'l': [rng.randint(0, 9), ref]} if r < 0.8 else {'t': [{'l': [ref, {'s': 'k'}]}]})
        if rng.random() < 0.2:
          binds.append({'op': 'bind', 'scope': rng.choice(['m', 'M', 'lr', 'a/m']), 'sel': 'gin.macro', 'arg': 'value', 'val': val,
                        '_form': 'macro_text', 'block': False})
          continue
        reg = rng.choice(regs_b)
        cls = [n for n, k in G.param_classes(reg).items() if k == 'valid']
        if cls:
          binds.append({'op': 'bind', 'scope': rng.choice(scopes), 'sel': reg['_selector'], 'arg': rng.choice(cls), 'val': val,
                        '_form': 'text', 'block': False})
      newer = G.gen_late_register(rng, 95)
      lmod, _, lname = sp.rpartition('.')
      newer.update(name=lname, module=lmod, _pymodule=lmod, _selector=sp)
      lates2 = [newer]
  order2 = list(binds)
  rng.shuffle(order2)
  # a later binding of the same key must stay later in both orders (same final store)
  last = {}
  for b in binds:
    last[(b['scope'], b['sel'], b['arg'])] = b
  order2 = [b for b in order2 if last[(b['scope'], b['sel'], b['arg'])] is b]
  order1 = [b for b in binds if last[(b['scope'], b['sel'], b['arg'])] is b]
  width = rng.choice(WIDTHS)
  imports = rng.sample(IMPORT_LINES, rng.randint(0, 4)) if rng.random() < 0.5 else []
  lates = [late] if late is not None else []
  # (the registration that takes over a written spelling comes after the bindings in the other order as well)
  return {'dom': 'gin', 'ops': ops + order1 + lates + lates2 + [{'op': 'cfgdoc'}], '_order2': order2 + lates2, '_width': list(width),
          '_regops': ops + lates, '_imports': imports, '_probe_at': len(ops + order1) if lates + lates2 else None}


# import statements of real (standard library) modules under static registration: every form, aliases that
# repeat the last component, the first component, or neither
IMPORT_LINES = ['import os', 'import os.path', 'import os.path as path', 'import os.path as osp', 'from os import path',
                'from os import path as path', 'from os import path as p2', 'import json as json', 'import json',
                'import collections.abc as abc', 'import collections.abc as collections', 'from collections import abc',
                'import xml.dom.minidom as dom', 'from xml.dom import minidom as dom2', 'import xml.dom']


def _recorded_imports(gin):
  return sorted([s.module, bool(s.is_from), s.alias or ''] for s in gin.config._IMPORTS)  # pylint: disable=protected-access


def _bound(st):
  module, is_from, alias = st
  return alias or (module.split('.')[-1] if is_from else module.split('.')[0])


def _imports_restored(before, after):
  """The import manager's contract: one statement per module (the from-form preferred), in its recorded form
  and alias unless the names the kept statements bind collide, in which case one of them is re-aliased."""
  if sorted({s[0] for s in before}) != sorted(s[0] for s in after):
    return 'not one statement per recorded module'
  kept = {}
  for st in sorted(before, key=lambda s: (s[0], not s[1], s[2])):
    kept.setdefault(st[0], st)
  names = [_bound(st) for st in kept.values()]
  if len({_bound(s) for s in after}) != len(after):
    return 'two statements bind the same name'
  for st in after:
    want = kept[st[0]]
    if st[1] != want[1]:
      return f'{st[0]}: from-form changed'
    if st[2] != want[2] and names.count(_bound(want)) == 1:
      return f'{st[0]}: alias {want[2]!r} became {st[2]!r} without a name collision'
  return None


def encode_text(v):
  from encode import to_literal
  try:
    return to_literal(v)[:80]
  except Exception:  # pylint: disable=broad-except
    return repr(v)[:80]


def G_repr(v):
  from props.c07 import _representable
  return _representable(v)


def gen_cases(rng, tier, boost=1):
  n = (400 if tier == 'quick' else 12000) * boost
  for _ in range(n):
    yield gen_case(rng)
  # with dynamic registration: files of the C19 generator (import forms, spellings, references, includes); the
  # config string is parsed back and the per-object bindings compared (C19's machinery and object-graph mirror)
  from props import c19
  import itertools
  for case in itertools.islice(c19.gen_cases(rng, tier, boost), (150 if tier == 'quick' else 5000) * boost):
    yield case


def _resolve_refs(sess, text):
  """Every `@[scope/]name` of a printed value with the name replaced by the complete name it resolves to in the
  registry as it is now (the mirror holds complete names): a printed name that is unknown or ambiguous stays as it is."""
  def repl(m):
    scopes, _, name = m.group(1).rpartition('/')
    try:
      full = sess.cfg._REGISTRY.get_match(name)  # pylint: disable=protected-access
    except Exception:  # pylint: disable=broad-except
      return m.group(0)
    if full is None:
      return m.group(0)
    return '@' + (scopes + '/' if scopes else '') + full.selector
  return re.sub(r'@([A-Za-z_][\w./]*)', repl, text)


def ordered_doc(sess, text):
  """(macros, sections) of a config text in text order; values kept as literal text when not plain literals."""
  names = [k for k, _ in sess.cfg._REGISTRY.items()]  # pylint: disable=protected-access
  macros, sections = [], []
  cur = None
  lines = text.split('\n')
  i = 0
  in_macros = False
  while i < len(lines):
    line = lines[i]
    m = re.match(r'^# Parameters for (.*):$', line)
    if line == '# Macros:':
      in_macros = True
    elif m:
      in_macros = False
      cur = [m.group(1), []]
      sections.append(cur)
    elif line and not line.startswith('#') and not line.startswith(' ') and ' = ' in line + ' ' \
        and not line.startswith(('import ', 'from ')):
      key, _, rest = line.partition(' = ')
      if line.endswith(' = \\'):
        key = line[:-4]
        vals = []
        i += 1
        while i < len(lines) and lines[i].startswith(' '):
          vals.append(lines[i])
          i += 1
        i -= 1
        rest = '\n'.join(vals)
      try:
        val = encode(ast.literal_eval(rest.strip()), sess.gin)
      except Exception:  # pylint: disable=broad-except
        val = {'text': _resolve_refs(sess, ' '.join(rest.split()))}   # layout (wrapping) is not structure
      if in_macros:
        macros.append([key, val])
      elif cur is not None:
        cur[1].append([key.rpartition('.')[2], val, key.rpartition('.')[0]])
    i += 1
  del names
  return macros, sections


def _plain(v):
  """Mirror values rendered like the text reader renders them (references/macros as their text)."""
  from encode import to_literal
  if isinstance(v, dict) and any(k in v for k in ('ref', 'macro', 'const')):
    return {'text': ' '.join(to_literal(v).split())}
  if isinstance(v, dict):
    for k in ('l', 't'):
      if k in v:
        inner = [_plain(x) for x in v[k]]
        if any(isinstance(x, dict) and 'text' in x for x in inner):
          return {'text': ' '.join(to_literal(v).split())}
        return {k: inner}
  return v


def run_impl(case):
  if case.get('dom') == 'dyn':
    from props import c19
    return c19.run_impl(case)
  from encode import Opaque
  Opaque._all.clear()  # pylint: disable=protected-access
  w, ind = case['_width']
  s = gindom.Session()
  out = []
  for i, op in enumerate(case['ops'][:-1]):
    if i == case.get('_probe_at'):
      s.gin.config_str()   # an observation: it must not influence what is printed later
    out.append(s.run_op(op))
  gin = s.gin
  res = {'out': out}
  imports = case.get('_imports') or []
  if imports:
    gin.parse_config('\n'.join(imports))
  res['imports'] = _recorded_imports(gin)
  try:
    text = gin.config_str(max_line_length=w, continuation_indent=ind)
  except Exception as e:  # pylint: disable=broad-except
    res['serialise_error'] = f'{type(e).__name__}: {e}'[:300]
    out.append({'err': 'serialise'})
    return res
  res['text'] = text
  macros, sections = ordered_doc(s, text)
  out.append({'ok': {'macros': macros, 'sections': [[sc[0], [[p, v] for p, v, _ in sc[1]]] for sc in sections]}})
  # wrap rule, per binding line
  wraps = []
  for line in text.split('\n'):
    if line and not line.startswith(('#', ' ')) and ' = ' in line and not line.endswith(' = \\'):
      key, _, val = line.partition(' = ')
      if len(key + val) > w:
        wraps.append(line[:60])
  res['unwrapped_too_long'] = wraps
  # markdown keeps binding lines verbatim
  md = gin.config.markdown(text)
  res['markdown_ok'] = [l[4:] for l in md.split('\n') if l.startswith('    ') and not l.startswith('    #')] == \
      [l for l in text.splitlines() if not l.startswith('#')]
  # same store built in another order, fresh interpreter
  s2 = gindom.Session()

  def rev_dicts(v):   # ... and every dict value built in the opposite key order (an equal value)
    if isinstance(v, dict):
      if 'd' in v:
        return {'d': [[rev_dicts(k), rev_dicts(x)] for k, x in reversed(v['d'])]}
      return {k: rev_dicts(x) for k, x in v.items()}
    if isinstance(v, list):
      return [rev_dicts(x) for x in v]
    return v
  for op in (case['_regops'] if '_regops' in case else case['ops'][:case['_nregs']]) + \
      [dict(o, val=rev_dicts(o['val'])) if 'val' in o else o for o in case['_order2']]:
    s2.run_op(op)
  if imports:
    s2.gin.parse_config('\n'.join(reversed(imports)))
  res['text_other_order'] = s2.gin.config_str(max_line_length=w, continuation_indent=ind)
  # round trip: clear, parse, serialise again, compare queries
  before = {}
  for (scope, sel), params in list(gin.config._CONFIG.items()):  # pylint: disable=protected-access
    for p, v in params.items():
      before[(scope, sel, p)] = v
  try:
    gin.clear_config()
    gin.parse_config(text)
    res['reparse'] = 'ok'
    res['imports_again'] = _recorded_imports(gin)
    res['text_again'] = gin.config_str(max_line_length=w, continuation_indent=ind)
    lost = []
    after = gin.config._CONFIG  # pylint: disable=protected-access
    for (scope, sel, p), v in before.items():
      if gin.config._is_literally_representable(v):  # pylint: disable=protected-access
        got = after.get((scope, sel), {}).get(p, '<missing>')
        if got == '<missing>' or got != v or type(got) is not type(v):
          lost.append([scope, sel, p, repr(v)[:60], repr(got)[:60]])
    res['lost'] = lost
    # which bindings came back (equal value of the same type), whatever the implementation thinks of their literal form
    res['restored'] = [[scope, sel, p] for (scope, sel, p), v in before.items()
                       if p in after.get((scope, sel), {}) and after[(scope, sel)][p] == v
                       and type(after[(scope, sel)][p]) is type(v)]
  except Exception as e:  # pylint: disable=broad-except
    res['reparse'] = f'{type(e).__name__}: {e}'[:300]
  s.cleanup()
  s2.cleanup()
  return res


def compare(case, impl, model):
  if case.get('dom') == 'dyn':
    from props import c19
    return c19.compare(case, impl, model)
  if 'serialise_error' in impl:
    return f'config_str raised {impl["serialise_error"]}'
  mo = model.get('out')
  if mo is None:
    return f'driver error: {model}'
  m = mo[-1].get('ok')
  got = impl['out'][-1].get('ok')
  want = {'macros': [[a, _plain(b)] for a, b in m['macros']],
          'sections': [[(k.split('|')[0] + '/' if k.split('|')[0] else '') + k.split('|')[1], [[p, _plain(v)] for p, v in ps]]
                       for k, ps in m['sections']]}
  if got != want:
    return f'structure of config_str: impl {got} model {want}'
  return None


def oracle(case, impl):
  if case.get('dom') == 'dyn':
    from props import c19
    return c19.oracle(case, impl)
  if 'serialise_error' in impl:
    return f'config_str raised {impl["serialise_error"]}'
  if impl['reparse'] != 'ok':
    return f'the config string does not parse: {impl["reparse"]}'
  if impl['text_other_order'] != impl['text']:
    return f'the text depends on the order of the bindings:\n{impl["text"]!r}\nvs\n{impl["text_other_order"]!r}'
  why = _imports_restored(impl.get('imports') or [], impl.get('imports_again') or [])
  if why:
    return f'recorded imports {impl.get("imports")} not restored by parsing the config string ({why}): {impl.get("imports_again")}'
  if impl['lost']:
    return f'bindings not restored by parsing the config string: {impl["lost"][:3]}'
  # stated on the case: a binding whose value has a literal form (literals, containers of them, references, macros)
  # is restored, whichever names were registered after it was written
  if 'restored' in impl:
    restored = {tuple(x) for x in impl['restored']}
    final = {}
    for op, r in zip(case['ops'], impl['out']):
      if op.get('op') == 'bind' and 'err' not in r:
        final[(op['scope'], op['sel'], op['arg'])] = op['val']
    gone = [[k, encode_text(v)] for k, v in final.items() if G_repr(v) and k not in restored]
    if gone:
      return f'bindings with a literal form not restored by parsing the config string: {gone[:3]}\n{impl["text"]}'
  if impl['text_again'] != impl['text']:
    return f'serialising again gives a different text:\n{impl["text"]!r}\nvs\n{impl["text_again"]!r}'
  if impl['unwrapped_too_long'] and case['_width'][0] > case['_width'][1]:
    return f'single-line bindings longer than max_line_length={case["_width"][0]}: {impl["unwrapped_too_long"][:2]}'
  if not impl['markdown_ok']:
    return 'markdown() does not keep the binding lines verbatim'
  return None


def nontrivial(case, impl):
  if case.get('dom') == 'dyn':
    from props import c19
    return c19.nontrivial(case, impl)
  t = impl.get('text', '')
  return t.count('# Parameters for') >= 2 and ('\\\n' in t or '# None.' in t or any(
      not G_repr(o['val']) for o in case['ops'] if o.get('op') == 'bind'))


def tally(stats, case, impl):
  if case.get('dom') == 'dyn':
    stats['dynamic_registration_cases'] = stats.get('dynamic_registration_cases', 0) + 1
    return
  k = 'width:%d/%d' % tuple(case['_width'])
  stats[k] = stats.get(k, 0) + 1
  t = impl.get('text', '')
  stats['sections'] = stats.get('sections', 0) + t.count('# Parameters for')
  stats['wrapped'] = stats.get('wrapped', 0) + t.count(' = \\\n')
  stats['empty_sections'] = stats.get('empty_sections', 0) + t.count('# None.')


def classify(case, impl, model, why_oracle, why_model, findings):
  if case.get('dom') == 'dyn':
    return None
  """D24: a section whose values are all unrepresentable is printed as '# None.' and vanishes on re-parse."""
  for f in findings:
    if f['id'] == 'D24' and not why_model and why_oracle and 'serialising again gives a different text' in why_oracle:
      if '# None.' in impl.get('text', '') and '# None.' not in impl.get('text_again', ''):
        a = [l for l in impl['text'].split('\n') if not l.startswith('#') and l]
        b = [l for l in impl['text_again'].split('\n') if not l.startswith('#') and l]
        # ... and only when every empty section is one the case explains: a (scope, configurable) all of whose bound
        # values lack a literal form (a section that is empty because a representable binding was left out is not D24)
        groups = {}
        for op, r in zip(case['ops'], impl['out']):
          if op.get('op') == 'bind' and 'err' not in r and op['sel'] != 'gin.macro':
            groups.setdefault((op['scope'], op['sel']), {})[op['arg']] = op['val']
        explained = sum(1 for vals in groups.values() if not any(G_repr(v) for v in vals.values()))
        if a == b and impl['text'].count('# None.') == explained and not impl.get('lost'):
          return 'D24'
  return None
