"""C02 — literal values parse to exactly what Python evaluates them to."""
import ast

import core
import parsedom
from encode import encode

ID = 'C02'
DOMAIN = 'parse'
PROPS_FILES = ['Gin/Props/C02.lean']
ANCHOR_FILES = ['config_parser.py', 'config.py']
RULE = ('random literal trees (depth <= 5: ints in decimal/hex/octal/binary with underscores and huge magnitudes, floats '
        'with exponents and overflow to inf, complex, strings and bytes with every prefix, both quote kinds, triple quotes, '
        'escapes, empty pieces and 1-4 adjacent pieces, True/False/None, lists, tuples incl. () (x) (x,), dicts) rendered by a '
        'layout generator independent of pprint (blanks, line breaks and comments inside brackets, backslash continuations, '
        'trailing commas), written as the value of a binding statement; plus a near-miss stream just outside the grammar '
        '(incl. adjacent str and bytes pieces mixed in every order, empty pieces included). '
        'Oracle: ast.literal_eval of the same text (value and type), rejection for near-misses. non-trivial = nesting depth '
        '>= 2 or trivia inside brackets, or a near-miss; distinct = distinct text')
TRUSTED_BASE = ['Lean 4.33 kernel', 'axioms ⊆ {propext, Classical.choice, Quot.sound}', 'JSON glue (Gin/Drv/ParseDom)',
                'harness parsedom.py (token stream and per-token atoms come from CPython: tokenize, ast.literal_eval)']
ASSUMPTIONS = ['text -> tokens and token -> atom are CPython\'s; the concatenation of adjacent string literals equals the '
               'concatenation of their values and mixing str/bytes is an error (checked on every generated text against '
               'ast.literal_eval of the whole text)']
EXPLANATION = ('Lean theorem parseValue_complete (every layout of every literal of the grammar parses to that literal, any '
               'nesting) about the token-level mirror of config_parser + differential run of the mirror on Python\'s tokens '
               'against the real parser + ast.literal_eval as independent oracle.')

IDENTS = ['x.p']


def gen_int(rng):
  r = rng.random()
  n = rng.choice([0, 1, 7, 42, 255, 1000000, 2 ** 64 + 3, 10 ** 30])
  if r < 0.4:
    return str(n)
  if r < 0.55:
    return hex(n)
  if r < 0.65:
    return oct(n)
  if r < 0.75:
    return bin(n)
  if r < 0.9 and n >= 1000:
    s = str(n)
    return s[:-3] + '_' + s[-3:]
  return str(n)


def gen_float(rng):
  return rng.choice(['0.5', '1.', '.25', '1e3', '2.5E-3', '1e999', '1_0.0_1', '0.0', '3.14159', '1e-400'])


def gen_string_piece(rng, is_bytes):
  body = rng.choice(['', 'a', 'hello world', 'it\\\'s', 'tab\\there', 'raw\ttab', '\t', 'q\\"q', '\\\\', '#not a comment', 'x' * 30,
                     '\\x41', '\\n', "'" if rng.random() < 0.5 else '"',
                     # backslash sequences Python does not know: kept as written (Python only warns about them)
                     '\\d+\\.\\d*', 'a\\ b', '\\w', '\\400', 'C:\\path\\q', '\\%s',
                     # characters that end a line for str.splitlines but not for Python: part of the string
                     'form\x0cfeed', 'v\x0bt', 'ls\u2028ps\u2029', 'nel\x85', 'fs\x1cgs\x1drs\x1e'])
  if is_bytes and not body.isascii():
    body = 'form\x0cfeed'       # a bytes literal holds ASCII only
  quote = rng.choice(["'", '"', "'''", '"""'])
  if quote[0] in body and '\\' + quote[0] not in body:
    body = body.replace(quote[0], '')
  if len(quote) == 3 and rng.random() < 0.3:
    body = body + rng.choice(['\nsecond line', '\n\tindented by a tab'])
  if is_bytes:
    prefix = rng.choice(['b', 'B', 'rb', 'Rb', 'bR', 'br'])
  else:
    prefix = rng.choice(['', '', 'r', 'u', 'R', 'U'])
  if 'r' in prefix.lower() and body.endswith('\\'):
    body += 'z'
  return prefix + quote + body + quote


def gen_string(rng):
  is_bytes = rng.random() < 0.3
  n = rng.choice([1, 1, 1, 2, 3, 4])
  sep = lambda: rng.choice([' ', '  ', '', ' ' if True else ''])  # noqa: E731
  pieces = [gen_string_piece(rng, is_bytes) for _ in range(n)]
  out = pieces[0]
  for p in pieces[1:]:
    sep = rng.choice([' ', '  ', '\t', ''])
    if sep == '' and p[0] == out[-1]:
      sep = ' '    # `""` + `"'"` written without a blank is the opening of a triple-quoted string, not two pieces
    out += sep + p
  del sep
  return out


def gen_mixed_string(rng):
  """Adjacent pieces of both kinds (str and bytes), often empty ones: Python rejects every such text."""
  n = rng.choice([2, 2, 3, 4])
  kinds = [rng.random() < 0.5 for _ in range(n)]
  if all(kinds) or not any(kinds):
    kinds[rng.randrange(n)] = not kinds[0]
  out = ''
  for i, b in enumerate(kinds):
    piece = gen_string_piece(rng, b)
    if rng.random() < 0.5:
      piece = rng.choice(['b', 'B', 'rb'] if b else ['', 'r', 'u']) + rng.choice(["''", '""'])
    out += (rng.choice([' ', '  ', '\t', '']) if i else '') + piece
  return out


def trivia(rng, inside_brackets=True):
  r = rng.random()
  if r < 0.55:
    return rng.choice(['', ' ', '  '])
  if r < 0.75:
    return '\n' + rng.choice(['', '  ', '\t', '        '])
  if r < 0.9:
    return ' # c' + rng.choice(['', ' [1, (', " 'x"]) + '\n' + rng.choice(['', '   '])
  return rng.choice(['', ' ']) + '\\\n' + rng.choice(['', ' '])


def gen_lit(rng, depth=0, stats=None):
  """Returns the text of a literal."""
  r = rng.random()
  if depth >= 5 or r < 0.5:
    k = rng.randint(0, 9)
    if k <= 2:
      return ('-' + rng.choice(['', ' ']) if rng.random() < 0.3 else '') + gen_int(rng)
    if k == 3:
      return ('-' if rng.random() < 0.3 else '') + gen_float(rng)
    if k == 4:
      return rng.choice(['3j', '1.5J', '-2j', '0j'])
    if k <= 6:
      return gen_string(rng)
    return rng.choice(['True', 'False', 'None'])
  if stats is not None:
    stats['depth'] = max(stats.get('depth', 0), depth + 1)
  kind = rng.choice(['list', 'list', 'tuple', 'tuple', 'dict', 'paren'])
  n = rng.randint(0, 4)
  t = lambda: trivia(rng)  # noqa: E731
  if kind == 'paren':
    return '(' + t() + gen_lit(rng, depth + 1, stats) + t() + ')'
  if kind == 'dict':
    if rng.random() < 0.25:
      # keys that repeat, or compare equal across types or only after evaluation: Python keeps the first key and the
      # last value
      pool = rng.choice([['1', 'True', '1.0', '1'], ['0', '-0', 'False', '0.0'], ["'ab'", "'a' 'b'", '"ab"'],
                         ["'k'", "'k'", '2', '2'], ['(1, 2)', '(1, 2)', '(1, 2.0)'], ["b'k'", "b'k'", "'k'"]])
      keys = [rng.choice(pool) for _ in range(max(2, min(n, 4)))]
    else:
      keys = rng.sample(['2', '3', "'k'", "'j'", 'None', '(4, 5)', "b'k'", '2.5', '-7'], min(n, 4))
    items = [k + t() + ':' + t() + gen_lit(rng, depth + 1, stats) for k in keys]
    opener, closer = '{', '}'
  else:
    items = [gen_lit(rng, depth + 1, stats) for _ in range(n)]
    opener, closer = ('[', ']') if kind == 'list' else ('(', ')')
  s = opener + t()
  for i, it in enumerate(items):
    s += it + t()
    last = i == len(items) - 1
    if not last or rng.random() < 0.3 or (kind == 'tuple' and len(items) == 1):
      s += ',' + t()
  return s + closer


NEAR_MISSES = [
    '1 + 2', '2 * 3', 'foo', 'foo.bar', '[x for x in y]', '{1, 2}', '...', '[1, 2', '(1, 2', '{1: 2', '1 2', "'a' 1",
    '--1', '-True', "-'a'", '+1', '1, 2', '-@f', '-%m', "f'x'", '1 if 1 else 2', 'lambda: 1', 'f(1)', '[1 2]',
    '{1: 2 3: 4}', '[1,, 2]', '(,)', '[,]', '{:}', '{1}', '1]', ')', '', '# only a comment', '[1, 2] 3', "'a' b'c'",
    'True False', 'None()', '[1](2)', '1 = 2', '- -1', '-', '[-]', '1e', '0x', '1__0', '07', "'unterminated", '"""open',
    '[1, 2,)', '(1,]', '[}', "{'a': 1,)", '[(1, 2,], 3]', '(]', '{]', '[1,}', '(1, 2,}', '{)', "{'a': 1,]", '[[],)',
    '{[1]: 2}', '{{}: 1}', '[7 % 2]', '(7 % 2)', "{'a': 7 % 2}", "['rate' % 3]", "[1 '%s']", "[1, 2 '50%']", '@', '%', '@f(1)', '@f(', '@/f', '@a//f', '%a.', 'not 1', '1 or 2', '~1', '[*a]', '(1 for x in y)',
]


# a literal bound over an equal literal of another type (or another zero sign, other element / key types): what is
# stored afterwards is the value and type of the *last* text - a finite table on the real code
REBIND_PAIRS = [('1', 'True'), ('True', '1'), ('2', '2.0'), ('0.0', '-0.0'), ('(1, 2)', '(1.0, 2.0)'), ("{1: 'a'}", "{True: 'a'}"),
                ("'a'", "'a'"), ('[1, 0]', '[True, False]'), ('0', 'False'), ('1.0', '1')]
REBIND_CASES = [{'dom': 'parse', 'kind': 'rebind', 'a': a, 'b': b, 'how': how, 'text': '', 'value_text': b}
                for a, b in REBIND_PAIRS for how in ('one_text', 'two_calls', 'api_then_text')]


def run_rebind_case(case):
  gin = core.fresh_gin()
  g = {'__name__': 'rb2'}
  exec('def f(x=None):\n  return x\n', g)  # pylint: disable=exec-used
  gin.configurable(g['f'])
  a, b = case['a'], case['b']
  try:
    if case['how'] == 'one_text':
      gin.parse_config(f'rb2.f.x = {a}\nrb2.f.x = {b}\n')
    elif case['how'] == 'two_calls':
      gin.parse_config(f'rb2.f.x = {a}\n')
      gin.parse_config(f'rb2.f.x = {b}\n')
    else:
      gin.bind_parameter('rb2.f.x', ast.literal_eval(a))
      gin.parse_config(f'rb2.f.x = {b}\n')
    got = gin.query_parameter('rb2.f.x')
    facts = {'got': repr(got) + ':' + type(got).__name__}
  except Exception as e:  # pylint: disable=broad-except
    facts = {'got': f'raised {type(e).__name__}: {e}'[:200]}
  want = ast.literal_eval(b)
  facts['want'] = repr(want) + ':' + type(want).__name__
  return {'stmts': [], 'err': None, 'python': None, 'facts': facts}


def gen_cases(rng, tier, boost=1):
  yield from REBIND_CASES
  n = (1500 if tier == 'quick' else 60000) * boost
  for k in range(n):
    stats = {}
    if k % 5 == 4:
      nm = rng.choice(NEAR_MISSES)
      if rng.random() < 0.2:
        for _ in range(20):   # pieces written without a blank may fuse into one well-formed literal: not a near-miss
          cand = gen_mixed_string(rng)
          try:
            ast.literal_eval(cand)
          except Exception:  # pylint: disable=broad-except
            nm = cand
            break
      if rng.random() < 0.3 and nm not in ('1, 2', '', '# only a comment', ')', '1]'):
        nm = '[' + gen_lit(rng, 3) + ', ' + nm + ']'   # the near-miss nested inside a well-formed container
      yield {'dom': 'parse', 'text': 'x.p = ' + nm + rng.choice(['', '\n']), 'kind': 'near', 'value_text': nm}
    else:
      lit = gen_lit(rng, 0, stats)
      sp1, sp2 = rng.choice(['', ' ', '  ']), rng.choice(['', ' ', ' \\\n  '])
      yield {'dom': 'parse', 'text': 'x.p' + sp1 + '=' + sp2 + lit + rng.choice(['', '\n', '  # end\n']),
             'kind': 'lit', 'value_text': lit, 'depth': stats.get('depth', 0)}


def run_impl(case):
  if case['kind'] == 'rebind':
    return run_rebind_case(case)
  import warnings
  out = parsedom.impl_statements(case['text'])
  try:
    with warnings.catch_warnings():
      warnings.simplefilter('ignore')     # Python's own remark about an unknown backslash sequence
      v = ast.literal_eval(case['value_text']) if case['kind'] == 'lit' else None
    out['python'] = {'v': parsedom.enc_pval(v, None)} if case['kind'] == 'lit' else None
  except Exception as e:  # pylint: disable=broad-except
    out['python'] = {'err': type(e).__name__}
  # the same text through the public `parse_value` (what `config_str` uses to decide what has a literal form)
  if '@' not in case['value_text'] and '%' not in case['value_text']:
    import sys
    gin = sys.modules.get('gin') or core.fresh_gin()
    try:
      out['pv'] = {'v': parsedom.enc_pval(gin.config.parse_value(case['value_text'].lstrip(' \t')), None)}
    except Exception as e:  # pylint: disable=broad-except
      out['pv'] = {'err': parsedom.family(e)}
  return out


def to_driver(case, impl):
  req = parsedom.to_driver(case['text'])
  if impl.get('pv') is not None:
    req['single'] = parsedom.tokens_of(case['value_text'].lstrip(' \t'))   # what `parse_value` is given
  return req


def compare(case, impl, model):
  if case['kind'] == 'rebind':
    return None
  why = parsedom.compare(impl, model)
  if why is None and impl.get('pv') is not None:
    # `gin.config.parse_value` against the model's `parseSingleValue`
    ipv, mpv = impl['pv'], model.get('pv')
    if mpv is None:
      return f'driver gave no parse_value result: {model}'
    if ('v' in ipv) != ('v' in mpv):
      return f'parse_value: impl {ipv} model {mpv}'
    if 'v' in ipv and _canon_dicts(ipv['v']) != _canon_dicts(parsedom._py_dict(mpv['v'])):  # pylint: disable=protected-access
      return f'parse_value: impl {ipv["v"]} model {mpv["v"]}'
    if 'err' in ipv and not ipv['err'].startswith('syntax') and impl['err'] is not None and impl['err'].startswith('syntax'):
      return f'parse_value: impl {ipv} model {mpv}'
  return why


def _canon_dicts(x):
  if isinstance(x, dict):
    if 'd' in x:
      from encode import canon
      return {'d': sorted(([_canon_dicts(k), _canon_dicts(v)] for k, v in x['d']), key=lambda kv: canon(kv[0]))}
    return {k: _canon_dicts(v) for k, v in x.items()}
  if isinstance(x, list):
    return [_canon_dicts(v) for v in x]
  return x


def oracle(case, impl):
  if case['kind'] == 'rebind':
    f = impl['facts']
    if f['got'] != f['want']:
      return (f'{case["b"]} bound over {case["a"]} ({case["how"]}): the parameter now holds {f["got"]}, the text says {f["want"]}')
    return None
  if case['kind'] == 'lit':
    py = impl['python']
    if 'err' in py:
      return None   # the generator produced something Python itself rejects: nothing to judge
    if impl['err'] is not None or len(impl['stmts']) != 1:
      return f'a literal of the grammar was rejected ({impl["err"]}): {case["value_text"]!r}'
    got = impl['stmts'][0][4]
    if _canon_dicts(got) != _canon_dicts(py['v']):
      return f'{case["value_text"]!r} parsed to {got} but Python evaluates it to {py["v"]}'
    pv = impl.get('pv')
    if pv is not None and _canon_dicts(pv.get('v')) != _canon_dicts(py['v']):
      return f'parse_value({case["value_text"]!r}) gave {pv} but Python evaluates the text to {py["v"]}'
    return None
  if impl['err'] is None and impl['stmts']:
    return f'text outside the literal grammar was accepted: {case["value_text"]!r} -> {impl["stmts"]}'
  if impl['err'] is not None and not impl['err'].startswith('syntax'):
    return f'rejected with {impl["err"]} instead of a syntax error: {case["value_text"]!r}'
  pv = impl.get('pv')
  if pv is not None and 'v' in pv:
    return f'parse_value accepted text outside the literal grammar: {case["value_text"]!r} -> {pv["v"]}'
  if pv is not None and not pv['err'].startswith('syntax') and not (impl['err'] or '').startswith('other'):
    return f'parse_value rejected {case["value_text"]!r} with {pv["err"]} instead of a syntax error'
  return None


def nontrivial(case, impl):
  return case['kind'] == 'near' or case.get('depth', 0) >= 2 or '\n' in case['value_text'] or '#' in case['value_text']


def tally(stats, case, impl):
  if case['kind'] == 'rebind':
    stats['rebind'] = stats.get('rebind', 0) + 1
    return
  k = case['kind'] + ':' + ('ok' if impl['err'] is None else impl['err'])
  stats[k] = stats.get(k, 0) + 1
  if case['kind'] == 'lit':
    d = 'depth=%d' % min(case.get('depth', 0), 5)
    stats[d] = stats.get(d, 0) + 1


def shrink(case):
  return []


def classify(case, impl, model, why_oracle, why_model, findings):
  """D9: an unhashable dict key surfaces as a bare TypeError."""
  for f in findings:
    if f['id'] == 'D9' and impl.get('err') == 'other:TypeError' and 'unhashable type' in impl.get('err_msg', ''):
      t = case['value_text']
      if '{[' in t or '{{' in t:
        return 'D9'
  return None
